"""Random dro models as JSON-able descriptions, their construction through the public API, and an independent
worst-case-expectation oracle: extreme distributions are found by an LP over support vertices with the moment and
probability constraints (integrands are maxima of affine pieces, hence convex in z: the worst case is attained on
vertex-supported distributions).  Used by C03 (safety), C04 (exactness), C09 (histories), C15 (ro vs 1-scenario dro)."""
import itertools
import numpy as np
import scipy.optimize as opt
import rsome as rso
from rsome import dro, ro, E
from harness import common as C


def rint(r, lo, hi, size=None):
    return r.integers(lo, hi + 1, size=size).astype(float)


def gen(r, S=None, saa=False):
    S = int(r.integers(1, 5)) if S is None else S
    nz = int(r.integers(1, 3)); nd = int(r.integers(1, 3))
    d = {'S': S, 'nz': nz, 'nd': nd, 'labels': None if r.random() < 0.6 else ['s%d' % (7 * i + 1) for i in range(S)],
         'int_labels': None}
    if d['labels'] is None and r.random() < 0.45:
        d['int_labels'] = [int(v) for v in (np.arange(S) * 2 + 3)]          # integer labels that differ from positions
    # event-wise adaptation of y: random partition declared in random order
    lab = r.integers(0, max(1, int(r.integers(1, S + 1))), S)
    groups = {}
    for s, l in enumerate(lab):
        groups.setdefault(int(l), []).append(s)
    ev = list(groups.values()); r.shuffle(ev)
    d['y_events'] = [list(map(int, e)) for e in ev[1:]]      # the first group stays the remainder
    d['y_affine'] = bool(r.random() < 0.4)
    d['x_after_y'] = bool(r.random() < 0.5)                   # declaration order of the static and the adaptive decision
    lo = [rint(r, -3, 0, nz) for _ in range(S)]
    hi = [lo[s] + (0.0 if saa else rint(r, 1, 4, nz)) for s in range(S)]
    d['lo'] = [v.tolist() for v in lo]; d['hi'] = [v.tolist() for v in hi]
    d['exps'] = []
    if not saa:
        for _ in range(int(r.integers(0, 3))):
            evs = list(range(S)) if r.random() < 0.5 else sorted(int(v) for v in r.choice(S, size=int(r.integers(1, S + 1)), replace=False))
            mlo = np.max([lo[s] for s in evs], axis=0); mhi = np.min([hi[s] for s in evs], axis=0)
            if np.all(mlo <= mhi):
                c = (mlo + mhi) / 2; w = (mhi - mlo) / 4 + float(r.choice([0.0, 0.25]))
                d['exps'].append({'ev': evs, 'lo': (c - w).tolist(), 'hi': (c + w).tolist(), 'whole': len(evs) == S and bool(r.random() < 0.5)})
    p0 = np.ones(S) / S
    if saa or r.random() < 0.5:
        d['plo'] = p0.tolist(); d['phi'] = p0.tolist(); d['pfixed'] = True
    else:
        dd = 0.5 / S
        d['plo'] = np.maximum(p0 - dd, 0).tolist(); d['phi'] = (p0 + dd).tolist(); d['pfixed'] = False
    d['c0'] = rint(r, -1, 2, nd).tolist(); d['cy'] = float(rint(r, 0, 2))
    npieces = int(r.integers(1, 4))
    d['pieces'] = [{'R': rint(r, -2, 2, (nz, nd)).tolist(), 'r0': rint(r, -2, 2, nz).tolist(), 'a': rint(r, -2, 2, nd).tolist(),
                    'a0': float(rint(r, -3, 3))} for _ in range(npieces)]
    d['const_piece'] = float(rint(r, -2, 3)) if r.random() < 0.35 else None      # a deterministic piece with a non-zero constant
    d['g'] = rint(r, -2, 2, nz).tolist(); d['hh'] = rint(r, -1, 1, nd).tolist()
    # a second lower envelope for y: the best (affine) rule then depends on the scenario's support
    d['g2'] = rint(r, -2, 2, nz).tolist(); d['hh2'] = rint(r, -1, 1, nd).tolist()
    d['econ'] = None
    if r.random() < 0.35:
        d['econ'] = {'q': rint(r, -1, 1, nz).tolist(), 'c': rint(r, 0, 1, nd).tolist(), 'rhs': float(rint(r, 4, 8))}    # E(q.z + c.x) <= rhs
    d['max'] = False
    # an expectation-set piece written through an exponential cone: exp(E(z_j) - hi_j) <= 1  (<=> E(z_j) <= hi_j), while the
    # box written for component j is loosened by 2 - the oracles keep using ex['hi']
    for ex in d['exps']:
        ex['xpiece'] = int(r.integers(0, nz)) if r.random() < 0.3 else None
        ex['spell'] = int(r.integers(0, 2))           # 1: bounds written component by component, E(z[j]) <= hi_j
    # a bystander decision declared BEFORE y: event-wise (own partition) and affinely adaptive, pinned in a narrow band around
    # gw.z (w >= gw.z + 1, w <= gw.z + 2) and absent from the objective and from every other constraint - the optimum does not
    # depend on it, unless the rule coefficients of different decisions are mixed up
    d['w'] = None
    if not saa and d['y_affine'] and r.random() < 0.45:
        labw = r.integers(0, 2, S)
        gw = rint(r, -2, 2, nz)
        if not np.any(gw):
            gw[0] = 2.0
        d['w'] = {'events': [[int(s) for s in range(S) if labw[s] == 1]] if 0 < labw.sum() < S else [], 'gw': gw.tolist()}
    # a piecewise (non-expectation) robust constraint with its OWN ambiguity set (wider supports):
    #   (maxof(y - a1, g3.z - a2) <= cap).forall(fs_wide)   <=>   y_s(z) <= cap + a1 on the widened support of every scenario
    d['pwcon'] = None
    if not saa and d['y_affine'] and r.random() < 0.4:
        wide_hi = [(np.array(d['hi'][s]) + 1.0).tolist() for s in range(S)]
        env = max(max(abs(float(np.array(g_) @ v)) for g_ in (d['g'], d['g2']))
                  for s in range(S) for v in itertools.product(*[sorted(set(pr)) for pr in zip(d['lo'][s], wide_hi[s])]))
        d['pwcon'] = {'a1': 1.0, 'g3': rint(r, -1, 1, nz).tolist(), 'a2': 40.0, 'cap': float(env + float(r.choice([0.5, 1.0, 3.0]))) - 1.0,
                      'wide_hi': wide_hi}
    # the expectation constraint with a second piece: E(maxof(q.z + c.x, q2.z + c2.x + k2)) <= rhs
    if d['econ'] and not saa and r.random() < 0.55:
        d['econ']['q2'] = rint(r, -1, 1, nz).tolist(); d['econ']['c2'] = rint(r, -1, 1, nd).tolist(); d['econ']['k2'] = float(rint(r, -1, 2))
        d['econ']['rhs'] = float(rint(r, 0, 3))                 # tight enough to bind (the decisions can usually still satisfy it)
        if not np.any(d['econ']['q2']) and not np.any(d['econ']['q']):
            d['econ']['q2'][0] = 1.0
    return d


def econ_value(d, xs, v):
    """integrand of the expectation constraint at decisions xs and realisation v"""
    ec = d['econ']
    val = np.array(ec['q']) @ v + np.array(ec['c']) @ xs
    if 'q2' in ec:
        val = max(val, np.array(ec['q2']) @ v + np.array(ec['c2']) @ xs + ec['k2'])
    return val


def build(d, presolve=None):
    """presolve: a callable m -> None run after the objective is declared and BEFORE the adaptation of y is
    (a different build history of the same model, used by C09)"""
    S, nz, nd = d['S'], d['nz'], d['nd']
    scen = d['labels'] or d['int_labels'] or S
    m = dro.Model(scen)
    lab = (lambda s: (d['labels'] or d['int_labels'])[s]) if (d['labels'] or d['int_labels']) else (lambda s: s)
    wv = m.dvar() if d.get('w') else None
    if d['x_after_y']:
        y = m.dvar(); x = m.dvar(nd)
    else:
        x = m.dvar(nd); y = m.dvar()
    z = m.rvar(nz)
    if wv is not None:
        for e in d['w']['events']:
            wv.adapt([lab(s) for s in e] if len(e) > 1 else lab(e[0]))
        wv.adapt(z)

    def declare_adaptation():
        for e in d['y_events']:
            y.adapt([lab(s) for s in e] if len(e) > 1 else lab(e[0]))
        if d['y_affine']:
            y.adapt(z)
    if presolve is None:
        declare_adaptation()
    fs = m.ambiguity()
    for s in range(S):
        fs.loc[lab(s)].suppset(z >= np.array(d['lo'][s]), z <= np.array(d['hi'][s])) if (d['labels'] or d['int_labels']) else \
            fs[s].suppset(z >= np.array(d['lo'][s]), z <= np.array(d['hi'][s]))
    for ex in d['exps']:
        hi_written = np.array(ex['hi'], dtype=float)
        cons = (E(z) >= np.array(ex['lo']), E(z) <= hi_written)
        if ex.get('spell') and ex.get('xpiece') is None:
            cons = tuple(E(z[j]) >= float(ex['lo'][j]) for j in range(nz)) + tuple(E(z[j]) <= float(hi_written[j]) for j in range(nz))
        if ex.get('xpiece') is not None:
            j = ex['xpiece']
            hi_written[j] += 2.0
            cons = (E(z) >= np.array(ex['lo']), E(z) <= hi_written, rso.exp(E(z[j]) - ex['hi'][j]) <= 1)
        if ex['whole']:
            fs.exptset(*cons)
        elif d['labels'] or d['int_labels']:
            fs.loc[[lab(s) for s in ex['ev']]].exptset(*cons)
        else:
            fs[ex['ev']].exptset(*cons)
    if d['pfixed']:
        fs.probset(m.p == np.array(d['plo']))
    else:
        fs.probset(m.p >= np.array(d['plo']), m.p <= np.array(d['phi']))

    fs_wide = None
    if d.get('pwcon'):
        fs_wide = m.ambiguity()
        for s in range(S):
            (fs_wide.loc[lab(s)] if (d['labels'] or d['int_labels']) else fs_wide[s]).suppset(z >= np.array(d['lo'][s]), z <= np.array(d['pwcon']['wide_hi'][s]))

    def piece_expr(pc):
        return (np.array(pc['R']) @ x + np.array(pc['r0'])) @ z + np.array(pc['a']) @ x + pc['a0']
    pcs = [piece_expr(pc) for pc in d['pieces']]
    if d['const_piece'] is not None:
        pcs.append(d['const_piece'] + 0 * x[0] if False else d['const_piece'])
    base = np.array(d['c0']) @ x + d['cy'] * y
    if len(pcs) == 1:
        obj = E(base + pcs[0])
    else:
        obj = E(base + rso.maxof(*pcs)) if False else E(rso.maxof(*pcs) + base)
    m.minsup(obj, fs)
    if presolve is not None:
        m.st(x >= -3, y >= -50)
        presolve(m)
        declare_adaptation()
    m.st(y >= np.array(d['g']) @ z + np.array(d['hh']) @ x)
    m.st(y >= np.array(d['g2']) @ z + np.array(d['hh2']) @ x)
    m.st(x >= -3, x <= 3, y <= 50)
    if wv is not None:
        m.st(wv >= np.array(d['w']['gw']) @ z + 1, wv <= np.array(d['w']['gw']) @ z + 2)
    if d.get('pwcon'):
        pw = d['pwcon']
        m.st((rso.maxof(y - pw['a1'], np.array(pw['g3']) @ z + 0 * x[0] - pw['a2']) <= pw['cap']).forall(fs_wide))
    if d['econ']:
        ec = d['econ']
        p1 = np.array(ec['q']) @ z + np.array(ec['c']) @ x
        if 'q2' in ec:
            p2 = np.array(ec['q2']) @ z + np.array(ec['c2']) @ x + ec['k2']
            m.st(E(rso.maxof(p1, p2)) <= ec['rhs'])
        else:
            m.st(E(p1) <= ec['rhs'])
    return m, {'x': x, 'y': y, 'z': z, 'fs': fs}


def vertices(d, s):
    return np.array(list(itertools.product(*[sorted(set(pair)) for pair in zip(d['lo'][s], d['hi'][s])])))


def wide_vertices(d, s):
    return np.array(list(itertools.product(*[sorted(set(pair)) for pair in zip(d['lo'][s], d['pwcon']['wide_hi'][s])])))


def read_solution(d, h):
    """x and the per-scenario rule y_s(z) = y0_s + Y_s.z read from the solved model (through x() so that it is
    independent of get()'s labelling)"""
    S, nz = d['S'], d['nz']
    xs = np.asarray(h['x'].get(), dtype=float).reshape(-1)
    y0 = np.zeros(S); Y = np.zeros((S, nz))
    z = h['z']
    base = h['y'](z.assign(np.zeros(nz))) if d['y_affine'] else h['y']()
    def per(obj):
        import pandas as pd
        if isinstance(obj, pd.Series):
            return np.array([float(np.asarray(v).reshape(-1)[0]) for v in obj.values])
        return np.array([float(np.asarray(obj).reshape(-1)[0])] * S)
    y0 = per(base)
    if d['y_affine']:
        for j in range(nz):
            e = np.zeros(nz); e[j] = 1.0
            Y[:, j] = per(h['y'](z.assign(e))) - y0
    return xs, y0, Y


def worst_case(d, xs, y0, Y, integrand='obj'):
    """sup over the ambiguity set of the expected integrand at the given decisions (LP over vertex distributions)"""
    S, nz = d['S'], d['nz']
    idx = [(s, v) for s in range(S) for v in vertices(d, s)]
    nW = len(idx); nv = nW + S

    def f(s, v):
        yv = y0[s] + Y[s] @ v
        if integrand == 'obj':
            vals = [(np.array(pc['R']) @ xs + np.array(pc['r0'])) @ v + np.array(pc['a']) @ xs + pc['a0'] for pc in d['pieces']]
            if d['const_piece'] is not None:
                vals.append(d['const_piece'])
            return d['cy'] * yv + np.array(d['c0']) @ xs + max(vals)
        return econ_value(d, xs, v)
    fvals = np.array([f(s, v) for s, v in idx])
    cvec = np.concatenate([-fvals, np.zeros(S)])
    Aeq = []; beq = []
    for s in range(S):
        r_ = np.zeros(nv)
        for k, (ss, v) in enumerate(idx):
            if ss == s:
                r_[k] = 1
        r_[nW + s] = -1; Aeq.append(r_); beq.append(0)
    r_ = np.zeros(nv); r_[nW:] = 1; Aeq.append(r_); beq.append(1)
    Aub = []; bub = []
    for ex in d['exps']:
        for j in range(nz):
            r_ = np.zeros(nv)
            for k, (ss, v) in enumerate(idx):
                if ss in ex['ev']:
                    r_[k] = v[j]
            for s in ex['ev']:
                r_[nW + s] -= ex['hi'][j]
            Aub.append(r_); bub.append(0)
            r_ = np.zeros(nv)
            for k, (ss, v) in enumerate(idx):
                if ss in ex['ev']:
                    r_[k] = -v[j]
            for s in ex['ev']:
                r_[nW + s] += ex['lo'][j]
            Aub.append(r_); bub.append(0)
    bounds = [(0, None)] * nW + [(d['plo'][s], d['phi'][s]) for s in range(S)]
    res = opt.linprog(cvec, A_ub=np.array(Aub) if Aub else None, b_ub=np.array(bub) if bub else None,
                      A_eq=np.array(Aeq), b_eq=np.array(beq), bounds=bounds, method='highs')
    if res.status != 0:
        return None
    return -res.fun


def robust_violations(d, xs, y0, Y, tol=1e-6):
    out = []
    for s in range(d['S']):
        for v in vertices(d, s):
            yv = y0[s] + Y[s] @ v
            for g, hh in ((d['g'], d['hh']), (d['g2'], d['hh2'])):
                rhs = np.array(g) @ v + np.array(hh) @ xs
                if yv < rhs - tol * (1 + abs(rhs)):
                    out.append({'scenario': s, 'z': v.tolist(), 'y': float(yv), 'needs': float(rhs)})
        if d.get('pwcon'):
            for v in wide_vertices(d, s):
                yv = y0[s] + Y[s] @ v
                ubv = d['pwcon']['cap'] + d['pwcon']['a1']
                if yv > ubv + tol * (1 + abs(ubv)):
                    out.append({'scenario': s, 'z': v.tolist(), 'y': float(yv), 'piecewise_forall_needs_at_most': float(ubv)})
    return out


def event_consistency(d, y0, Y, tol=1e-7):
    """y must be identical across scenarios of one event"""
    S = d['S']
    rest = sorted(set(range(S)) - set(s for e in d['y_events'] for s in e))
    out = []
    for e in d['y_events'] + ([rest] if rest else []):
        for s in e[1:]:
            if abs(y0[s] - y0[e[0]]) > tol * (1 + abs(y0[s])) or np.any(np.abs(Y[s] - Y[e[0]]) > tol * (1 + np.abs(Y[s]))):
                out.append({'event': e, 'scenarios': [e[0], s], 'y0': [float(y0[e[0]]), float(y0[s])]})
    return out


def saa_optimum(d):
    """exact optimum of the sample-average problem (singleton supports, fixed probabilities) by an independent LP"""
    S, nz, nd = d['S'], d['nz'], d['nd']
    rest = sorted(set(range(S)) - set(s for e in d['y_events'] for s in e))
    events = d['y_events'] + ([rest] if rest else [])
    ev_of = {s: k for k, e in enumerate(events) for s in e}
    ne = len(events)
    # variables: x (nd), y_e (ne), t_s (S)
    n = nd + ne + S
    c = np.zeros(n)
    p = np.array(d['plo'])
    A = []; b = []
    for s in range(S):
        zs = np.array(d['lo'][s])
        c[:nd] += p[s] * np.array(d['c0']); c[nd + ev_of[s]] += p[s] * d['cy']; c[nd + ne + s] += p[s]
        pcs = [(np.array(pc['R']).T @ zs + np.array(pc['a']), np.array(pc['r0']) @ zs + pc['a0']) for pc in d['pieces']]
        if d['const_piece'] is not None:
            pcs.append((np.zeros(nd), d['const_piece']))
        for cx, c0 in pcs:
            r_ = np.zeros(n); r_[:nd] = cx; r_[nd + ne + s] = -1; A.append(r_); b.append(-c0)
        for g, hh in ((d['g'], d['hh']), (d['g2'], d['hh2'])):
            r_ = np.zeros(n); r_[:nd] = np.array(hh); r_[nd + ev_of[s]] = -1; A.append(r_); b.append(-np.array(g) @ zs)
    bounds = [(-3, 3)] * nd + [(None, 50)] * ne + [(None, None)] * S
    if d['econ']:
        r_ = np.zeros(n); r_[:nd] = np.array(d['econ']['c']); A.append(r_)
        b.append(d['econ']['rhs'] - sum(p[s] * (np.array(d['econ']['q']) @ np.array(d['lo'][s])) for s in range(S)))
    res = opt.linprog(c, A_ub=np.array(A), b_ub=np.array(b), bounds=bounds, method='highs')
    return res.fun if res.status == 0 else None
