"""C02 — the robust counterpart is exact: reported optimum = true min-max value.

Theorems (Lean, RsomeV/Props/C02.lean): rc_complete_lp / rc_exact_lp — for polyhedral supports the projection of the
counterpart's feasible set on the decision columns *equals* the semi-infinite feasible set (Farkas' lemma through LP
strong duality, proved in Lean); for conic supports the missing hypothesis (no duality gap of the inner problem) is
explicit.  Tie: the same le_to_rc / support correspondence as C01 (the theorems are about the same model).
Search: the semi-infinite problem is solved independently by cutting planes (scipy LP master + own worst-case oracle)
and compared with the optimum rsome reports — a merely conservative reformulation shows as a strict gap."""
import numpy as np
from scipy.optimize import linprog
from harness import common as C
from harness import ro_oracle as O
from harness.props import c01

THEOREMS = {
    'RsomeV.Props.C02': [
        'RsomeV.C02.rc_complete_lp',
        'RsomeV.C02.rc_exact_lp',
        'RsomeV.C02.rc_complete_of_dual',
        'RsomeV.C02.rc_exact_conic_partial',
        'RsomeV.C02.rc_complete_late_lp',
        'RsomeV.C02.rc_exact_late_lp',
    ],
    'RsomeV.Props.C02Conic': ['RsomeV.C02Conic.hgap_soc_slater', 'RsomeV.C02Conic.rc_exact_soc_slater', 'RsomeV.C02Conic.rc_exact_late_soc_slater',
                              'RsomeV.C02Conic.coneDual_strong', 'RsomeV.C02Conic.compact_layout_needs_free_tails'],
    'RsomeV.Props.C01': ['RsomeV.C01.rc_sound'],
    'RsomeV.Props.C08': ['RsomeV.C08.lp_dual_strong'],
    'RsomeV.Props.C08Exp': ['RsomeV.C08Exp.hgap_exp_slater', 'RsomeV.C08Exp.rc_exact_exp_slater', 'RsomeV.C08Exp.cone_dual_strong_exp'],
}
RULE = c01.RULE + "; for the exactness search every model is also solved as a semi-infinite LP by cutting planes"
TRUSTED = c01.TRUSTED + ["scipy/HiGHS for the cutting-plane master problems"]
ASSUMPTIONS = ["conic strong duality (Slater) is assumed, not proved, for norm-2 / quadratic sets; LMI sets not modelled"]


def layout(d):
    nd, nz = d['nd'], d['nz']
    mask = np.array(d['ldr']['mask']) if d['ldr'] else np.zeros(nz, bool)
    idx = {'t': 0, 'x': 1, 'y0': 1 + nd}
    ncoef = int(mask.sum())
    idx['Y'] = 2 + nd
    return idx, mask, 2 + nd + ncoef


def row_of(d, idx, mask, n, coef_x, coef_y, zcoef_of_y, const):
    """assemble one linear row over v = [t, x, y0, Y(masked)]: coefficient vector and constant"""
    r = np.zeros(n)
    r[idx['x']:idx['x'] + d['nd']] = coef_x
    r[idx['y0']] = coef_y
    r[idx['Y']:idx['Y'] + int(mask.sum())] = zcoef_of_y[mask]
    return r, const


def true_value(d, tol=1e-7, maxit=120):
    """optimum of the semi-infinite problem by cutting planes; returns (status, value)"""
    nd, nz = d['nd'], d['nz']
    idx, mask, n = layout(d)
    o = d['obj']
    sign = -1.0 if o['max'] else 1.0            # minimise sign*t ... we minimise t for min, maximise t for max
    cuts_A = []; cuts_b = []
    A_eq = []; b_eq = []

    def obj_pieces():
        ps = [(np.array(o['c0']), np.array(o['q']), o['cy'], 0.0)]
        if o['kind'] == 'pw':
            ps.append((np.array(o['c1']), np.array(o['q1']), 0.0, 0.0))
            ps = [(o['scale'] * c + np.array(o['add']), o['scale'] * q + np.array(o['addz']), o['scale'] * cy, 0.0) for c, q, cy, k in ps]
        return ps

    def add_obj_cut(z, piece):
        c, q, cy, k = piece
        # min: t >= c.x + q.z + cy*(y0 + Y z)   <=>  -t + c.x + cy*y0 + cy*z.Y <= -q.z
        r, _ = row_of(d, idx, mask, n, c, cy, cy * z, 0.0)
        r[0] = -1.0
        rhs = -(q @ z)
        if o['max']:
            # max: t <= piece  <=>  t - piece <= 0
            r = -r; rhs = -rhs
        cuts_A.append(r); cuts_b.append(rhs)

    def add_con_cut(con, k, z, sgn):
        R = np.array(con['R'][k]); r0 = np.array(con['r0'][k]); a = np.array(con['a'][k]); a0 = con['a0'][k]
        cx = R.T @ z + a
        r, _ = row_of(d, idx, mask, n, cx, con['coef'], con['coef'] * z, 0.0)
        rhs = -(r0 @ z + a0)
        cuts_A.append(sgn * r); cuts_b.append(sgn * rhs)

    # initial scenarios: a feasible point of every set
    def any_point(S):
        w, z = O.maxlin(np.zeros(nz), S)
        return z
    z0 = any_point(d['S0'])
    if z0 is None:
        return 'empty-set', None
    for p in obj_pieces():
        add_obj_cut(z0, p)
    cons = d['cons'] + O.late_con(d)
    if d.get('late'):
        r, _ = row_of(d, idx, mask, n, np.array(d['late']['g'], dtype=float), 0.0, np.zeros(nz), 0.0)
        A_eq.append(r); b_eq.append(0.0)
    for con in cons:
        S = con['own'] if con['own'] is not None else d['S0']
        zc = any_point(S)
        if zc is None:
            return 'empty-set', None
        for k in range(con['rows']):
            for sgn in ([1] if con['sense'] != 'eq' else [1, -1]):
                add_con_cut(con, k, zc, sgn)
    bounds = [(None, None)] + [(-5.0, 5.0)] * nd + [(None, None)] * (n - 1 - nd)
    cvec = np.zeros(n); cvec[0] = -1.0 if o['max'] else 1.0
    big = 1e4
    for it in range(maxit):
        bnds = [(-big, big)] + bounds[1:1 + nd] + [(-big, big)] * (n - 1 - nd)
        res = linprog(cvec, A_ub=np.array(cuts_A), b_ub=np.array(cuts_b), bounds=bnds, method='highs',
                      A_eq=np.array(A_eq) if A_eq else None, b_eq=np.array(b_eq) if A_eq else None)
        if res.status == 2:
            return 'infeasible', None
        if res.status != 0:
            return 'lp-failed', None
        v = res.x
        xs = v[idx['x']:idx['x'] + nd]; y0 = v[idx['y0']]
        Yc = np.zeros(nz); Yc[mask] = v[idx['Y']:idx['Y'] + int(mask.sum())]
        added = 0
        for p in obj_pieces():
            c, q, cy, _ = p
            g = q + cy * Yc
            const = c @ xs + cy * y0
            w, zw = O.maxlin(-g if o['max'] else g, d['S0'])
            if w is None:
                return 'oracle-failed', None
            worst = (-w + const) if o['max'] else (w + const)
            viol = (v[0] - worst) if o['max'] else (worst - v[0])
            if viol > tol * (1 + abs(worst)):
                add_obj_cut(zw, p); added += 1
        for con in cons:
            S = con['own'] if con['own'] is not None else d['S0']
            for k in range(con['rows']):
                R = np.array(con['R'][k]); r0 = np.array(con['r0'][k]); a = np.array(con['a'][k]); a0 = con['a0'][k]
                g = R @ xs + r0 + con['coef'] * Yc
                const = a @ xs + a0 + con['coef'] * y0
                for sgn in ([1] if con['sense'] != 'eq' else [1, -1]):
                    w, zw = O.maxlin(sgn * g, S)
                    if w is None:
                        return 'oracle-failed', None
                    if w + sgn * const > tol * (1 + abs(const) + np.abs(g).sum()):
                        add_con_cut(con, k, zw, sgn); added += 1
        if added == 0:
            if abs(v[0]) > 1e3 or np.max(np.abs(v)) > 1e3:
                return 'unbounded', None          # the artificial box of the master problem is active: treat as unbounded
            return 'ok', float(v[0])
    return 'not-converged', None


def search_one(ctx, d):
    ctx.search_cases += 1
    try:
        with C.quiet():
            m, h = O.build(d)
        val = O.solve(m)
        rs = 'ok'
    except C.SkipCase:
        ctx.count('search:skipped-unsafe-for-ecos'); return
    except RuntimeError:
        rs, val = 'not-optimal', None
    except Exception as e:
        ctx.count('search:error:' + type(e).__name__); return
    st, tv = true_value(d)
    ctx.count('true:' + st)
    conic = bool(d['S0']['norm'] and d['S0']['norm'][0] == 2) or bool(d['S0'].get('quad')) or bool(d['S0'].get('xc')) or any(
        c['own'] and ((c['own']['norm'] and c['own']['norm'][0] == 2) or c['own'].get('quad') or c['own'].get('xc')) for c in d['cons'])
    case = {"desc": d}
    has_eq = any(c['sense'] == 'eq' for c in d['cons'])
    if has_eq and st != 'ok':
        # robust equalities pin the master LP on a measure-zero set: finitely many oracle cuts (1e-8 accurate) can make it
        # numerically infeasible; such outcomes of the oracle are inconclusive
        ctx.count('search:inconclusive-equality'); return
    if st == 'ok' and rs == 'ok':
        tolr = (1e-5 if not conic else 2e-4) * (1 + abs(tv))
        if abs(val - tv) > tolr:
            kind = 'conservative' if ((val > tv) != d['obj']['max']) else 'unsafe'
            ctx.hit('inexact:' + kind + (':conic' if conic else ':lp-class'),
                    {"reported": float(val), "semi_infinite_optimum": tv}, case)
        else:
            ctx.count('search:exact')
    elif st == 'ok' and rs != 'ok':
        ctx.hit('inexact:reported-infeasible-but-solvable', {"semi_infinite_optimum": tv}, case)
    elif st == 'infeasible' and rs == 'ok':
        ctx.hit('inexact:reported-optimum-but-infeasible', {"reported": float(val)}, case)
    else:
        ctx.count('search:both-not-optimal')


def run(ctx):
    n_models = ctx.n(80, 1500)
    n_search = ctx.n(40, 600)
    descs = []
    for k in range(n_models):
        r, seed = c01.O_sub(ctx)
        d = O.gen_model(r); d['seed'] = seed
        descs.append(d)
    reqs, meta = [], []
    for d in descs:
        try:
            c01.correspondence(ctx, d, reqs, meta)
        except Exception as e:
            ctx.count('build-error:' + type(e).__name__)
    outs = C.lean_run(reqs)
    for rq, mt, out in zip(reqs, meta, outs):
        ctx.corr('RoConstr.le_to_rc', {"desc": mt['desc'], "constraint": mt['constraint']}, mt['code'], out, c01.FRAGKEYS)
        # hypothesis of rc_complete_lp: LP-class supports have no cones
        ctx.count('support:lp-class' if not mt['support']['qmat'] and not mt['support']['xmat'] else 'support:conic')
    for d in descs[:2]:
        ctx.sample({"desc": d}, limit=2)
    bad = {id(dg['case']['desc']) for dg in ctx.disagreements}
    order = sorted(range(len(descs)), key=lambda i: 0 if id(descs[i]) in bad else 1)
    for i in order[:n_search]:
        search_one(ctx, descs[i])


def search_only(ctx):
    for k in range(ctx.n(40, 400)):
        r, seed = c01.O_sub(ctx)
        d = O.gen_model(r); d['seed'] = seed
        search_one(ctx, d)
        if ctx.hits and not ctx.quick:
            break       # escalated search: one failing input is enough


def replay(rp):
    d = rp['case']['desc']
    with C.quiet():
        m, h = O.build(d)
    try:
        val = O.solve(m)
    except Exception as e:
        val = None
    st, tv = true_value(d)
    fails = (val is None) != (tv is None) or (val is not None and abs(val - tv) > 2e-4 * (1 + abs(tv)))
    return {"reported": val, "semi_infinite": [st, tv], "fails": bool(fails)}
