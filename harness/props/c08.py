"""C08 — do_math(primal=False) is a true dual.

Theorems (Lean): weak duality of the order-faithful model of the three `do_math(primal=False)`
layers for every bound pattern (LP), both SOC layouts and the exp-cone block; LP strong duality
from Farkas.  Tie: the primal standard form produced by the real code is exported as exact
rationals, the Lean model computes the dual, and the result is compared entry by entry with the
real `do_math(primal=False)`.  Search: solve primal and dual and compare optimal values."""
import numpy as np
from harness import common as C
from harness import gen

THEOREMS = {
    'RsomeV.Props.C08': [
        'RsomeV.C08.lp_dual_weak',
        'RsomeV.C08.lp_dual_strong',
        'RsomeV.C08.lp_dual_value',
        'RsomeV.C08.soc_dual_weak',
        'RsomeV.C08.soc_layout1_weak',
        'RsomeV.C08.cone_dual_weak',
        'RsomeV.C08.exp_dual_weak',
    ],
    'RsomeV.Props.C02Conic': ['RsomeV.C02Conic.soc_strong_duality', 'RsomeV.C02Conic.coneDual_strong', 'RsomeV.C02Conic.coneDual_strong_attained',
                              'RsomeV.C02Conic.compact_layout_needs_free_tails'],
    'RsomeV.Props.Lmi': ['RsomeV.Lmi.psd_trace_mul_nonneg', 'RsomeV.Lmi.lmi_dual_gap', 'RsomeV.Lmi.lmi_dual_weak', 'RsomeV.Lmi.lmi_dual_weak_symDual',
                         'RsomeV.Lmi.lmi_dual_weak_symPrimal', 'RsomeV.Lmi.legacy_lmi_dual_not_weak', 'RsomeV.Lmi.ng_repaired_weak', 'RsomeV.Lmi.ng_repaired_tight'],
    'RsomeV.Props.C08Exp': ['RsomeV.C08Exp.exp_cone_dual', 'RsomeV.C08Exp.exp_cone_selfdual_iff', 'RsomeV.C08Exp.conic_strong_duality_exp', 'RsomeV.C08Exp.cone_dual_strong_exp',
                            'RsomeV.C08Exp.cone_dual_strong_exp_only', 'RsomeV.C08Exp.cone_dual_strong_exp_attained'],
}
RULE = ("random deterministic / ro models built through the public API with every bound pattern per variable "
        "(free, >=0, <=0, finite lower, finite upper, both, fixed zero, fixed non-zero), <=, >=, == rows, "
        "second-order (norm, sumsqr, quad, rsocone) and exponential (exp, log, entropy, kldiv) atoms; a case is "
        "non-trivial when the primal has >=1 finite non-zero bound or cone and >=1 row; distinct by content hash")
TRUSTED = ["HiGHS / ECOS return optimal values of the data they are given (search only, tolerance 1e-5)"]
ASSUMPTIONS = ["conic strong duality (Slater) is not proved in Lean; LMI block not modelled"]


def _export_pair(m):
    with C.quiet():
        p = m.do_math()
        pj = C.prog_json(p)
        d = m.do_math(primal=False)
        dj = C.prog_json(d)
    return p, pj, d, dj


def _solve(formula):
    from rsome import eco_solver
    from rsome.lp import def_sol
    with C.quiet():
        if getattr(formula, 'qmat', None) or getattr(formula, 'xmat', None):
            sol = eco_solver.solve(formula, display=False)
        else:
            sol = def_sol(formula, display=False)
    return sol


def _classify(pj, dj):
    tags = []
    for l, u in zip(pj['lb'], pj['ub']):
        if l is not None and u is not None and l == u:
            tags.append('fixed0' if l == '0' else 'fixed-nonzero')
    if pj['qmat']:
        tags.append('soc')
    if pj['xmat']:
        tags.append('exp')
    return sorted(set(tags))


def lmi_dual_probe(ctx):
    """no semidefinite solver is installed: weak duality of the LMI dual is probed on pinned programs with explicit points.
    min -x s.t. x <= 0 (or x >= 0 mirrored), (-x - 1) I >> 0 has optimum 1; a dual-feasible point of larger value refutes duality"""
    from rsome import gcp
    for sgn, label in ((1.0, 'ub=0'), (-1.0, 'lb=0')):
        ctx.search_cases += 1; ctx.evaluations += 1
        case = {"lmi_probe": label}
        try:
            with C.quiet():
                m = gcp.Model(); x = m.dvar(1)
                if sgn > 0:
                    m.min(-x[0]); m.st(x <= 0); m.st((-x[0]) * np.eye(2) - np.eye(2) >> 0)
                else:
                    m.min(x[0]); m.st(x >= 0); m.st(x[0] * np.eye(2) - np.eye(2) >> 0)
                D = m.do_math(primal=False)
            A = C.dense(D.linear); nY = 4; ny = A.shape[1] - nY
            hit = None
            for yv in ([0.0, -1.0], [0.0, 1.0], [0.0, 0.0]):
                for tY in (5.0, 50.0):
                    w = np.array(list(yv)[:ny] + [tY, 0.0, 0.0, tY])
                    res = A @ w - D.const
                    ok = all((abs(v) < 1e-9) if s_ else (v < 1e-9) for v, s_ in zip(res, D.sense)) and np.all(w <= D.ub + 1e-9) and np.all(w >= D.lb - 1e-9)
                    val = -float(D.obj @ w)
                    if ok and val > 1.0 + 1e-6:
                        hit = {"dual_point": w.tolist(), "dual_value": val, "primal_optimum": 1.0}
            if hit:
                ctx.hit('lmi-dual-not-weak', hit, case)
            else:
                ctx.count('lmi-probe:weak-duality-holds:' + label)
        except Exception as ex:
            ctx.count('lmi-probe:error:' + type(ex).__name__)


def run(ctx):
    run_main(ctx)
    lmi_dual_probe(ctx)
    C.run_difftest(ctx, 'test_lmi.py', ctx.n(60, 1000), 'gcp.Model.do_math(primal=False) with LMI blocks; le_to_rc LMI rows')


def run_main(ctx):
    n_cases = ctx.n(150, 2500)
    n_search = ctx.n(30, 400)
    cases = []
    for k in range(n_cases):
        kind = str(ctx.rng.choice(['lp', 'lp', 'soc', 'exp', 'soc_exp', 'ro', 'ro_soc', 'ro_soc_exp', 'support', 'support']))
        try:
            if kind == 'support':
                _, m, desc = gen.random_support(ctx.rng)
                with C.quiet():
                    p = m.do_math(obj=False); pj = C.prog_json(p)
                    d = m.do_math(primal=False, obj=False); dj = C.prog_json(d)
                # hypotheses of C01.rc_sound on the support's primal: all-ones cost, cones on lifted columns only
                nzv = int(m.vars[-1].last)
                if any(c != '1' for c in pj['c']) or any(j < nzv for q in pj['qmat'] + pj['xmat'] for j in q):
                    ctx.disagree('hypothesis rc_sound (support primal)', {"c": pj['c'], "qmat": pj['qmat'], "nz": nzv}, {"desc": desc})
                else:
                    ctx.count('hyp:rc_sound-support')
            else:
                m, desc = gen.random_model(ctx.rng, kind)
                p, pj, d, dj = _export_pair(m)
        except Exception as e:   # the real code refused a generated model: recorded, not an alarm
            ctx.count(f'gen-error:{type(e).__name__}')
            continue
        ctx.count('kind:' + kind)
        for t in desc.get('tags', []):
            ctx.count('tag:' + t)
        cases.append((kind, desc, m, p, pj, d, dj))
    reqs = [{"op": "conic_dual", "prog": {k: pj[k] for k in C.PROG_KEYS + ('qmat', 'xmat')}} for (_, _, _, _, pj, _, _) in cases]
    outs = C.lean_run(reqs)
    for (kind, desc, m, p, pj, d, dj), out in zip(cases, outs):
        case = {"kind": kind, "desc": desc, "primal": pj}
        keys = C.PROG_KEYS + ('qmat', 'xmat')
        if pj.get('nlmi'):
            ctx.count('skipped:lmi')
            continue
        for t in out.get('branches', []):
            ctx.count('model-branch:' + t)
        ok = ctx.corr('do_math(primal=False)', case, dj, out, keys)
        # well-formedness hypotheses of the theorems (ConeProg.WF, hxq), re-checked on the real program
        nc_ = pj['nc']
        wf = (all(j < nc_ for q in pj['qmat'] for j in q) and all(len(e) == 3 and all(j < nc_ for j in e) for e in pj['xmat'])
              and all(pj['ub'][j] != '0' for e in pj['xmat'] for j in e)
              and all((v == '0') or (k in pj['sp'][i]) for i, row in enumerate(pj['a']) for k, v in enumerate(row))
              and not (set(j for e in pj['xmat'] for j in e) & set(j for q in pj['qmat'] for j in q)))
        if not wf:
            ctx.disagree('hypothesis ConeProg.WF', {"qmat": pj['qmat'], "xmat": pj['xmat']}, case)
        else:
            ctx.count('hyp:WF')
        if kind != 'support':
            # hypothesis of soc_layout1_weak: cone columns carry no cost (holds for every obj=True program)
            conecols = [j for q in pj['qmat'] for j in q] + [j for q in pj['xmat'] for j in q]
            if any(pj['c'][j] != '0' for j in conecols):
                ctx.disagree('hypothesis cone-cost-zero', {"cols": conecols, "c": pj['c']}, case)
            else:
                ctx.count('hyp:cone-cost-zero')
        if len(pj['a']) >= 1 and (pj['qmat'] or pj['xmat'] or any(v not in (None, '0') for v in pj['lb'] + pj['ub'])):
            ctx.nontriv(pj)
        ctx.sample({"kind": kind, "tags": desc.get('tags'), "primal_shape": [pj['nr'], pj['nc']],
                    "dual_shape": [dj['nr'], dj['nc']], "qmat": pj['qmat'], "xmat": pj['xmat']})
    # ---- search: solve primal and dual -----------------------------------------------------
    order = sorted(range(len(cases)), key=lambda i: 0 if any(isinstance(dg.get('case'), dict) and dg['case'].get('primal') is cases[i][4] for dg in ctx.disagreements) else 1)
    for i in order[:n_search]:
        kind, desc, m, p, pj, d, dj = cases[i]
        if pj.get('nlmi') or kind == 'support':
            # support programs are formulated with obj=False: their all-ones cost is a placeholder
            # the caller ignores on auxiliary columns, so "minus the primal optimum" is not defined
            continue
        ctx.search_cases += 1
        sp_ = _solve(p)
        if sp_ is None or sp_.x is None or np.isnan(sp_.objval):
            ctx.count('search:primal-not-optimal')
            continue
        sd = _solve(d)
        conic = bool(pj['qmat'] or pj['xmat'])
        case = {"kind": kind, "desc": desc, "primal": pj, "dual_code": dj, "primal_opt": float(sp_.objval)}
        if sd is None or sd.x is None or np.isnan(sd.objval):
            if not conic:
                ctx.hit('dual-unsolvable:' + ','.join(_classify(pj, dj) or ['lp']),
                        {"primal_opt": float(sp_.objval), "dual_status": str(getattr(sd, 'status', None))}, case)
            else:
                # a solver that gives up says nothing; a *certificate of infeasibility* of the dual while the primal has an
                # optimum contradicts duality (the generated conic programs are strictly feasible).  ECOS exit flag 1 =
                # certified primal-infeasible (of the program it was given); for programs without exponential cones the
                # verdict is cross-checked with Gurobi.
                st_ = str(getattr(sd, 'status', '')).lower()
                certified = sd is not None and (st_ == 'primal infeasible' or getattr(sd, 'status', None) == 1)
                if certified and not pj['xmat']:
                    try:
                        from rsome import grb_solver
                        with C.quiet():
                            sg = grb_solver.solve(d, display=False)
                        certified = sg is not None and sg.x is None and getattr(sg, 'status', None) in (3, 4)
                    except Exception:
                        certified = False
                if certified:
                    ctx.hit('dual-infeasible:' + ','.join(_classify(pj, dj) or ['conic']),
                            {"primal_opt": float(sp_.objval), "dual_status": "certified infeasible"}, case)
                else:
                    ctx.count('search:conic-dual-solver-failed')
            continue
        if 'close' in str(getattr(sp_, 'status', '')).lower() or 'close' in str(getattr(sd, 'status', '')).lower():
            # ECOS' reduced-accuracy termination ("Close to optimal", exit flag 10): rsome accepts it as a solution, but its value
            # is not accurate enough to compare optima (seen: dual of a perspective-exp program, 1.67 reported for 2.0)
            ctx.count('search:inaccurate-solver-status'); continue
        # (ECOS on exponential cones: optimal values accurate to a few 1e-4 only - seen 5.2e-4 on a value of 1.5 in a thorough run)
        tol = (1e-6 if not conic else (1e-3 if pj['xmat'] else 1e-4)) * (1 + abs(sp_.objval))
        if abs(sp_.objval + sd.objval) > tol:
            ctx.hit('dual-gap:' + ','.join(_classify(pj, dj) or ['lp']),
                    {"primal_opt": float(sp_.objval), "dual_opt": float(sd.objval)}, case)
        else:
            ctx.count('search:agree')


def replay(rp):
    """rebuild the primal from the recorded exact description, recompute the dual with the real
    code path is not possible without the model object; instead re-run the generator at the seed"""
    from rsome import ro
    case = rp['case']
    rng = np.random.default_rng(case['desc']['seed'])
    if case['kind'] == 'support':
        _, m, desc = gen.random_support(rng, seed_override=case['desc']['seed'])
        with C.quiet():
            p = m.do_math(obj=False); d = m.do_math(primal=False, obj=False)
    else:
        m, desc = gen.random_model(rng, case['kind'], seed_override=case['desc']['seed'])
        p, pj, d, dj = _export_pair(m)
    sp_, sd = _solve(p), _solve(d)
    po = None if sp_.x is None else float(sp_.objval)
    do = None if (sd is None or sd.x is None) else float(sd.objval)
    fails = po is not None and (do is None or abs(po + do) > 1e-4 * (1 + abs(po)))
    return {"primal_opt": po, "dual_opt": do, "fails": bool(fails), "desc": desc}
