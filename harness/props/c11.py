"""C11 — all solver interfaces solve the same program and agree.

Theorems (Lean, RsomeV/Props/C11.lean): for each interface the data handed to the solver API is satisfied by exactly the
vectors feasible for the compiled program (bounds, senses, cones, integrality) with the same objective; a non-optimal
status yields no solution.  Tie: recorded solver-API arguments vs the Lean translation (harness/difftests/test_iface.py).
Search: the same model through every installed interface that supports its cone types; optimal values are compared and
every returned vector is checked against the compiled program; infeasible / unbounded instances must report no solution."""
import numpy as np
from harness import common as C
from harness import det_models as DM
from harness import atoms as AT

THEOREMS = {
    'RsomeV.Props.C11': ['RsomeV.C11.defsol_equiv', 'RsomeV.C11.defsol_sound', 'RsomeV.C11.defsol_complete_tol', 'RsomeV.C11.defsol_cost', 'RsomeV.C11.ecos_equiv', 'RsomeV.C11.ecos_cost', 'RsomeV.C11.ecos_exp_membership',
                         'RsomeV.C11.ortools_equiv', 'RsomeV.C11.ortools_cost', 'RsomeV.C11.gurobi_equiv', 'RsomeV.C11.gurobi_cost', 'RsomeV.C11.status_honest', 'RsomeV.C11.status_honest_grb_ort', 'RsomeV.C11.status_tests_as_modelled', 'RsomeV.C11.status_models_follow_tables',
                         'RsomeV.C11.ortools_keeps_infeasible_row', 'RsomeV.C11.gurobi_free_head'],
}
GEN = True        # Gen/Status.lean is regenerated from the four interface files on every run
RULE = ("random deterministic LP / MILP (binaries and integers with user bounds, also tighter than [0,1]) / SOCP / exp-cone models "
        "solved through default (SciPy/HiGHS), OR-Tools, ECOS and Gurobi as far as each supports the cone types; plus infeasible and "
        "unbounded variants; non-trivial = model solved by at least two interfaces; distinct by content hash")
TRUSTED = ["the solvers themselves; agreement within 1e-5 relative"]
ASSUMPTIONS = ["CyLP, CPLEX, Mosek, COPT interfaces are not installed and not exercised"]

LP_ATOMS = ['abs', 'norm1', 'norminf']
SOC_ATOMS = ['norm2', 'square', 'sumsqr', 'pnorm3', 'power32']
EXP_ATOMS = ['exp', 'log', 'entropy', 'softplus']


def interfaces(cls, integer, vtypes=''):
    from rsome import ort_solver, eco_solver, grb_solver
    out = [('default', None)] if cls == 'lp' else []
    if cls == 'lp':
        out.append(('ortools', ort_solver))
    if not integer or (cls == 'lp' and 'I' not in vtypes):
        out.append(('ecos', eco_solver))         # ECOS' branch-and-bound only gets small binary LPs: it stalls on general integers and on MISOCPs
    if cls in ('lp', 'soc'):
        out.append(('gurobi', grb_solver))
    return out


def feasible_for(formula, x, tol=1e-4):
    """violations of the compiled program at x"""
    A = formula.linear
    r = A @ x - formula.const
    s = np.asarray(formula.sense)
    scale = 1 + np.abs(formula.const)
    out = []
    if np.any((s == 0) & (r > tol * scale)):
        out.append('row<=')
    if np.any((s == 1) & (np.abs(r) > tol * scale)):
        out.append('row==')
    if np.any(x > formula.ub + tol * (1 + np.abs(np.where(np.isfinite(formula.ub), formula.ub, 0)))):
        out.append('ub')
    if np.any(x < formula.lb - tol * (1 + np.abs(np.where(np.isfinite(formula.lb), formula.lb, 0)))):
        out.append('lb')
    vt = np.asarray(formula.vtype)
    for t in 'BI':
        idx = np.where(vt == t)[0]
        if len(idx) and np.any(np.abs(x[idx] - np.round(x[idx])) > 1e-5):
            out.append('integrality')
    idx = np.where(vt == 'B')[0]
    if len(idx) and (np.any(x[idx] < -1e-6) or np.any(x[idx] > 1 + 1e-6)):
        out.append('binary-range')
    for q in getattr(formula, 'qmat', []):
        if np.sqrt((x[q[1:]] ** 2).sum()) > x[q[0]] + 1e-4 * (1 + abs(x[q[0]])):
            out.append('soc')
    for e in getattr(formula, 'xmat', []):
        a0, a1, a2 = x[e[0]], x[e[1]], x[e[2]]
        if a2 > 1e-9:
            if a2 * np.exp(a0 / a2) > a1 + 1e-4 * (1 + abs(a1)):
                out.append('expcone')
        elif not (a0 <= 1e-6 and a1 >= -1e-6):
            out.append('expcone-face')
    return sorted(set(out))


def one_model(ctx, d, cls, integer, variant):
    case = {"desc": d, "class": cls, "variant": variant}
    results = {}
    for name, solver in interfaces(cls, integer, d['vtype']):
        ctx.search_cases += 1; ctx.evaluations += 1
        try:
            with C.quiet():
                m, x = DM.build(d)
                if variant == 'infeasible':
                    m.st(x[0] >= 50.0, x[0] <= -50.0 if False else x[0] * 1.0 <= -50.0)
                if variant == 'infeasible-empty-row':
                    m.st(0 * x[0] <= -1.0)          # a row without any stored coefficient that cannot hold
                f = m.do_math()
                if name == 'ecos' and not C.ecos_safe(f):
                    ctx.count('skipped:ecos-unsafe'); continue
                if solver is None:
                    m.solve(display=False)
                else:
                    m.solve(solver, display=False)
        except Exception as ex:
            ctx.hit('interface-raises:' + name + ':' + type(ex).__name__, {"error": str(ex)[:200]}, case); continue
        sol = m.rc_model.solution if hasattr(m, 'rc_model') else m.ro_model.rc_model.solution
        if sol is None:
            ctx.hit('no-solution-object:' + name, {}, case); continue
        ok = sol.x is not None and not np.isnan(sol.objval)
        # status honesty: objval NaN <=> x None
        if (sol.x is None) != bool(np.isnan(sol.objval)):
            ctx.hit('fabricated-solution:' + name, {"objval": float(sol.objval) if sol.objval is not None else None, "x_is_none": sol.x is None}, case)
            continue
        results[name] = (float(sol.objval) if ok else None, None if not ok else np.asarray(sol.x, dtype=float))
        ctx.count('iface:' + name + (':optimal' if ok else ':no-solution'))
        if ok and not (name == 'ecos' and integer):
            # (ECOS' branch-and-bound returns the continuous part of a different node: observed row violations of 2.4
            #  with the right objective value; that is the solver's defect, outside rsome - only the optimum is compared)
            bad = feasible_for(f, results[name][1][:f.linear.shape[1]])
            if bad:
                ctx.hit('returned-vector-infeasible:' + name + ':' + bad[0], {"violated": bad, "objval": results[name][0]}, case)
    if len(results) >= 2:
        ctx.nontriv(case)
        vals = {k: v[0] for k, v in results.items()}
        if variant.startswith('infeasible'):
            for k, v in vals.items():
                if v is not None:
                    ctx.hit('solution-reported-for-infeasible-model:' + k, {"values": vals}, case)
            return
        ref = [v for v in vals.values() if v is not None]
        if ref and len(ref) != len(vals):
            ctx.hit('interfaces-disagree-on-solvability', {"values": vals}, case); return
        if ref and max(ref) - min(ref) > 1e-4 * (1 + abs(ref[0])):
            ctx.hit('interfaces-disagree-on-optimum', {"values": vals}, case); return
        ctx.count('agree')
        ctx.sample({"class": cls, "integer": integer, "variant": variant, "values": vals}, limit=4)


def unbounded_model(ctx, seed):
    """an unbounded LP / MILP (a free ray in the continuous part, optionally an integer or binary column): every interface
    must report that no solution is available - the incumbent a MILP solver may hold is not one"""
    from rsome import ro
    r = np.random.default_rng(seed)
    vt = str(r.choice(['C', 'I', 'B']))
    a, b, u = float(r.integers(1, 6)), float(r.integers(0, 5)), float(r.integers(1, 4))
    case = {"unbounded_seed": seed, "vtype_of_extra_column": vt}
    for name, solver in interfaces('lp', vt != 'C', vt):
        ctx.search_cases += 1; ctx.evaluations += 1
        try:
            with C.quiet():
                m = ro.Model()
                x = m.dvar(2); k = m.dvar(vtype=vt)
                m.min(x[0] + 2 * k)
                m.st(x[0] >= x[1] - a, x[1] <= b, k >= 0, k <= u)        # x1 -> -inf drags x0 along
                f = m.do_math()
                if name == 'ecos' and not C.ecos_safe(f):
                    ctx.count('skipped:ecos-unsafe'); continue
                if solver is None:
                    m.solve(display=False)
                else:
                    m.solve(solver, display=False)
        except Exception as ex:
            ctx.hit('interface-raises:' + name + ':' + type(ex).__name__, {"error": str(ex)[:200]}, case); continue
        sol = m.rc_model.solution
        ctx.count('unbounded:' + name)
        if sol is None or (sol.x is None and np.isnan(sol.objval)):
            continue
        ctx.hit('solution-reported-for-unbounded-model:' + name,
                {"objval": float(sol.objval), "status": str(sol.status)}, case)


def deep_tree_binary(ctx, seed):
    """a 0/1 program whose branch-and-bound tree has a few thousand nodes (split two integer rows as evenly as possible):
    every MILP-capable interface must return the same optimum or report that it has none - never an intermediate incumbent"""
    from rsome import lp as lpm, eco_solver, grb_solver, ort_solver
    r = np.random.default_rng(seed)
    n, k = 16, 2
    A = r.integers(0, 100, (k, n)).astype(float); t = np.floor(A.sum(axis=1) / 2)
    case = {"deep_tree_seed": seed, "n_binaries": n}
    vals = {}
    import json, subprocess, os
    from harness import ecos_mip_case as EM
    for name, solver in (('default', None), ('ecos', eco_solver), ('gurobi', grb_solver), ('ortools', ort_solver)):
        ctx.search_cases += 1; ctx.evaluations += 1
        if name == 'ecos':          # in a process of its own: a branch and bound that does not return must not stall the check
            env = dict(os.environ, RSOME_REPO=C.REPO, PYTHONPATH=os.path.dirname(os.path.dirname(os.path.abspath(EM.__file__))))
            try:
                pr = subprocess.run(['/venv/bin/python', os.path.abspath(EM.__file__), json.dumps({"deep_tree_seed": seed})], capture_output=True, text=True, timeout=300, env=env)
            except subprocess.TimeoutExpired:
                ctx.hit('interface-does-not-return:ecos', {"timeout_s": 300}, dict(case, interface='ecos')); continue
            out = [l for l in pr.stdout.splitlines() if l.startswith('value ')]
            if not out:
                ctx.hit('interface-raises:ecos', {"error": pr.stderr[-300:]}, case); continue
            vals[name] = None if out[-1].split()[1] == 'none' else float(out[-1].split()[1])
            continue
        try:
            with C.quiet():
                m = lpm.Model(); x = m.dvar(n, vtype='B'); y = m.dvar(k)
                m.min(y.sum()); m.st(y >= 0); m.st(A @ x - t <= y); m.st(t - A @ x <= y)
                m.solve(display=False) if solver is None else m.solve(solver, display=False)
            sol = m.solution
            vals[name] = None if (sol is None or sol.x is None or np.isnan(sol.objval)) else float(sol.objval)
        except Exception as ex:
            ctx.hit('interface-raises:' + name + ':' + type(ex).__name__, {"error": str(ex)[:200]}, case)
    ref = [v for v in vals.values() if v is not None]
    # ECOS' branch and bound accepts points within its integrality tolerance mi_int_tol = 1e-4 of the lattice, so its optimum of a 0/1
    # program is exact only to about that (times the objective's scale); the other interfaces to 1e-5
    tol_of = lambda nm: 2e-4 if nm == 'ecos' else 1e-5
    exact = [v for nm, v in vals.items() if v is not None and nm != 'ecos']
    anchor = (sum(exact) / len(exact)) if exact else None
    bad = [nm for nm, v in vals.items() if v is not None and anchor is not None and abs(v - anchor) > tol_of(nm) * (1 + abs(anchor))]
    if bad:
        ctx.hit('interfaces-disagree-on-optimum:deep-tree', {"values": vals}, case)
    else:
        ctx.count('deep-tree:agree')


def integer_equalities(ctx, seed):
    """small mixed-integer LPs whose optimum is decided by EQUALITY rows (a cardinality row on binaries, a continuous variable
    tied to a binary; general integers without any binary), against brute force over the integer part, through every interface"""
    import itertools
    from rsome import ro, ort_solver, eco_solver, grb_solver
    r = np.random.default_rng(seed)
    ctx.search_cases += 1; ctx.evaluations += 1
    kind = str(r.choice(['binary-cardinality', 'general-integers']))
    case = {"inteq_seed": seed, "kind": kind}
    if kind == 'binary-cardinality':
        n = int(r.integers(3, 6)); k = int(r.integers(1, n)); c = r.integers(1, 6, n).astype(float); g = float(r.choice([1.0, 2.0]))

        def build():
            m = ro.Model(); b = m.dvar(n, vtype='B'); y = m.dvar()
            m.max(c @ b + y); m.st(b.sum() == k, y - g * b[0] == 1.0)
            return m
        truth = max(float(c @ np.array(bb)) + 1.0 + g * bb[0] for bb in itertools.product([0, 1], repeat=n) if sum(bb) == k)
        ifaces = [('default', None), ('ortools', ort_solver), ('ecos', eco_solver), ('gurobi', grb_solver)]
    else:
        n = int(r.integers(2, 4)); c = r.choice([1.0, 2.0, 3.0], n); a = r.choice([2.0, 3.0, 5.0], n); cap = float(r.choice([7.0, 9.5, 11.0]))

        def build():
            m = ro.Model(); yv = m.dvar(n, vtype='I'); x = m.dvar()
            m.max(c @ yv + 0.5 * x); m.st(a @ yv + x <= cap, yv >= 0, yv <= 4, x >= 0, x <= 0.75)
            return m
        truth = max(float(c @ np.array(v)) + 0.5 * min(0.75, cap - float(a @ np.array(v))) for v in itertools.product(range(5), repeat=n) if a @ np.array(v) <= cap)
        ifaces = [('default', None), ('ortools', ort_solver), ('gurobi', grb_solver)]        # (ECOS' branch and bound stalls on general integers)
    for name, solver in ifaces:
        try:
            with C.quiet():
                m = build()
                (m.solve(display=False) if solver is None else m.solve(solver, display=False))
                val = float(m.get())
        except Exception as ex:
            ctx.hit('interface-raises:' + name + ':' + type(ex).__name__, {"error": str(ex)[:200]}, dict(case, interface=name)); continue
        if abs(val - truth) > 1e-5 * (1 + abs(truth)):
            ctx.hit('interface-differs-from-enumeration:' + name, {"reported": val, "enumeration": truth}, dict(case, interface=name))
        else:
            ctx.count('inteq:' + kind + ':' + name)


def integer_binary_order(ctx, seed):
    """small mixed-integer LPs in which integer and binary columns are declared in any order (also inside one `dvar(n, 'IB..')` array),
    against enumeration, through every interface; ECOS runs in a process of its own with a timeout (its branch and bound may not return)"""
    import itertools, json, subprocess, os
    from rsome import ort_solver, grb_solver
    from harness import ecos_mip_case as EM
    r = np.random.default_rng(seed)
    ctx.search_cases += 1; ctx.evaluations += 1
    style = str(r.choice(['I-then-B', 'B-then-I', 'array', 'array']))
    if style == 'I-then-B':
        decl = [['I', 0], ['B', 0]]; letters = 'IB'
    elif style == 'B-then-I':
        decl = [['B', 0], ['I', 0]]; letters = 'BI'
    else:
        letters = ''.join(r.choice(['I', 'B'], int(r.integers(2, 4))))
        if len(set(letters)) == 1:
            letters = 'IB' + letters[2:]
        decl = [[letters, len(letters)]]
    n = len(letters)
    case = {"intbin_seed": seed, "decl": decl, "letters": letters, "c": [float(v) for v in r.integers(1, 4, n)], "a": [float(v) for v in r.integers(1, 3, n)],
            "cap": float(r.choice([3.0, 4.0, 5.0])), "imax": 3}
    rng = [range(0, 4) if lt == 'I' else (0, 1) for lt in letters]
    truth = max(float(np.dot(case['c'], p)) for p in itertools.product(*rng) if np.dot(case['a'], p) <= case['cap'])
    for name, solver in (('default', None), ('ortools', ort_solver), ('gurobi', grb_solver)):
        try:
            with C.quiet():
                m = EM.build(case)
                (m.solve(display=False) if solver is None else m.solve(solver, display=False))
                val = float(m.get())
        except Exception as ex:
            ctx.hit('interface-raises:' + name + ':' + type(ex).__name__, {"error": str(ex)[:200]}, dict(case, interface=name)); continue
        if abs(val - truth) > 1e-5 * (1 + abs(truth)):
            ctx.hit('interface-differs-from-enumeration:' + name, {"reported": val, "enumeration": truth}, dict(case, interface=name))
        else:
            ctx.count('intbin:' + style + ':' + name)
    env = dict(os.environ, RSOME_REPO=C.REPO, PYTHONPATH=os.path.dirname(os.path.dirname(os.path.abspath(EM.__file__))))
    try:
        p = subprocess.run(['/venv/bin/python', os.path.abspath(EM.__file__), json.dumps(case)], capture_output=True, text=True, timeout=60, env=env)
    except subprocess.TimeoutExpired:
        ctx.hit('interface-does-not-return:ecos', {"timeout_s": 60, "enumeration": truth}, dict(case, interface='ecos')); return
    out = [l for l in p.stdout.splitlines() if l.startswith('value ')]
    if not out:
        ctx.hit('interface-raises:ecos', {"error": p.stderr[-300:]}, dict(case, interface='ecos')); return
    val = float(out[-1].split()[1])
    if abs(val - truth) > 1e-5 * (1 + abs(truth)):
        ctx.hit('interface-differs-from-enumeration:ecos', {"reported": val, "enumeration": truth}, dict(case, interface='ecos'))
    else:
        ctx.count('intbin:' + style + ':ecos')


def run(ctx):
    for k in range(ctx.n(10, 120)):
        integer_binary_order(ctx, int(ctx.rng.integers(2 ** 31)))
    for k in range(ctx.n(12, 150)):
        integer_equalities(ctx, int(ctx.rng.integers(2 ** 31)))
    # correspondence: the arguments each interface really hands to its solver API (recorded by wrapping the entry points)
    # vs the Lean translation of the compiled program
    C.run_difftest(ctx, 'test_iface.py', ctx.n(40, 600), 'solver-API data of def_sol / ECOS / OR-Tools / Gurobi')
    for k in range(ctx.n(160, 2500)):
        seed = int(ctx.rng.integers(2 ** 31))
        r = np.random.default_rng(seed)
        cls = str(r.choice(['lp', 'lp', 'soc', 'exp']))
        integer = bool(r.random() < 0.35) and cls != 'exp'
        atoms = {'lp': LP_ATOMS, 'soc': SOC_ATOMS + LP_ATOMS, 'exp': EXP_ATOMS + LP_ATOMS}[cls]
        d = DM.gen(r, atoms=atoms, integer=integer, front='ro'); d['seed'] = seed
        d.pop('pw', None)
        # make sure the class is what we think (an atom objective may raise the class)
        names = [a['name'] for a in d['atoms']] + ([d['obj']['name']] if d['obj']['kind'] == 'atom' else [])
        cones = {AT.ATOMS[nm][5] for nm in names}
        cls2 = 'exp' if 'exp' in cones else ('soc' if 'soc' in cones else 'lp')
        variant = str(r.choice(['feasible', 'feasible', 'feasible', 'infeasible', 'infeasible-empty-row'], p=[0.25, 0.25, 0.25, 0.15, 0.1]))
        one_model(ctx, d, cls2, integer, variant)
    for k in range(ctx.n(12, 120)):
        unbounded_model(ctx, int(ctx.rng.integers(2 ** 31)))
    for k in range(ctx.n(3, 20)):
        deep_tree_binary(ctx, int(ctx.rng.integers(2 ** 31)))


def replay(rp):
    ctx = C.Ctx('C11', 'quick', 0)
    c = rp['case']
    if 'intbin_seed' in c:
        integer_binary_order(ctx, c['intbin_seed'])
        return {"hits": [(h['key'], h['detail']) for h in ctx.hits], "fails": bool(ctx.hits)}
    if 'inteq_seed' in c:
        integer_equalities(ctx, c['inteq_seed'])
        return {"hits": [(h['key'], h['detail']) for h in ctx.hits], "fails": bool(ctx.hits)}
    if 'deep_tree_seed' in c:
        deep_tree_binary(ctx, c['deep_tree_seed'])
        return {"hits": [(h['key'], h['detail']) for h in ctx.hits], "fails": bool(ctx.hits)}
    if 'unbounded_seed' in c:
        unbounded_model(ctx, c['unbounded_seed'])
        return {"hits": [(h['key'], h['detail']) for h in ctx.hits], "fails": bool(ctx.hits)}
    one_model(ctx, c['desc'], c['class'], 'C' != c['desc']['vtype'], c['variant'])
    return {"hits": [(h['key'], h['detail']) for h in ctx.hits], "fails": bool(ctx.hits)}
