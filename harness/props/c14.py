"""C14 — dual() returns valid shadow prices of the user's constraints.

Theorems (Lean, RsomeV/Props/C14.lean): dual_transfer / dual_certificate — every KKT multiplier of the compiled
standard-form LP (stationarity, signs, value identity) is turned by the read-back of LinConstr.dual()/Bounds.dual() into a
certificate of the *user's* model (gradient identity, value identity, signs following the direction of optimisation), under
the property's side condition; the zeroing rule and its tie counter-example.  Tie: ciarray, the compiled rows and every
dual() value vs the Lean model on synthetic multipliers (no solver).
Search: generated LPs solved on every dual-capable interface; the three certificate identities are evaluated numerically."""
import numpy as np
from harness import common as C

THEOREMS = {
    'RsomeV.Props.C14': ['RsomeV.C14.dual_transfer', 'RsomeV.C14.dual_certificate', 'RsomeV.C14.readback_lin', 'RsomeV.C14.readback_bnd',
                         'RsomeV.C14.cert_bounds_objective', 'RsomeV.C14.kkt_certifies_compiled', 'RsomeV.C14.stored_orientation',
                         'RsomeV.C14.zeroing_rule', 'RsomeV.C14.tie_double_counts'],
}
RULE = ("random feasible bounded continuous LPs through ro.Model: array-form <=, >=, == constraints, bounds on whole variables and on "
        "plain / reversed / fancy slices (one upper and one lower bound per entry), min and max, also constraints added after a first solve; "
        "solved with the default solver, ECOS and Gurobi; non-trivial = at least one active constraint and one active bound; distinct by hash")
TRUSTED = ["each solver's marginals are KKT multipliers of the data it was given (checked numerically on the compiled program)"]
ASSUMPTIONS = ["each variable entry carries at most one upper and one lower bound constraint (the property's side condition)"]


def gen_lp(r):
    n = int(r.integers(2, 5))
    x0 = r.choice([-1., 0., 1., 2.], n)
    d = {'n': n, 'max': bool(r.random() < 0.5), 'c': r.choice([-2., -1., 1., 2., 3.], n).tolist(), 'blocks': [], 'bounds': [], 'late': None}
    for _ in range(int(r.integers(1, 4))):
        rows = int(r.integers(1, 3))
        A = r.choice([-2., -1., 0., 1., 2.], (rows, n))
        sense = str(r.choice(['le', 'ge', 'eq'], p=[0.45, 0.4, 0.15]))
        b = A @ x0 + (r.choice([0., 1., 2.], rows) if sense == 'le' else (-r.choice([0., 1., 2.], rows) if sense == 'ge' else 0.0))
        d['blocks'].append({'A': A.tolist(), 'b': b.tolist(), 'sense': sense})
    if r.random() < 0.5:
        # an equality written with a bare slice of the variable on the left: x[idx] == A2 x + b2  (orientation as written:
        # (E_idx - A2) x == b2)
        k_ = int(r.integers(1, min(n, 2) + 1)); idx = sorted(int(v) for v in r.choice(n, k_, replace=False))
        A2 = r.choice([-1., 0., 1., 2.], (k_, n))
        E = np.zeros((k_, n)); E[np.arange(k_), idx] = 1.0
        b2 = (E - A2) @ x0
        d['blocks'].append({'A': (E - A2).tolist(), 'b': b2.tolist(), 'sense': 'eq', 'var_left': {'idx': idx, 'A2': A2.tolist(), 'b2': b2.tolist()}})
    # bounds: every entry gets exactly one lower and one upper bound, through differently shaped slices
    perm = [int(v) for v in r.permutation(n)]
    k = int(r.integers(1, n))
    for kind in ('L', 'U'):
        for idx in (perm[:k], perm[k:]):
            if not idx:
                continue
            order = str(r.choice(['fancy', 'sorted', 'reversed']))
            ii = idx if order == 'fancy' else (sorted(idx) if order == 'sorted' else sorted(idx, reverse=True))
            if r.random() < 0.6:
                # a scalar bound on a slice: rsome stores a Bounds object (indices in the slice's own order)
                v = float(min(x0[i] for i in ii) - r.choice([0., 1., 2.])) if kind == 'L' else float(max(x0[i] for i in ii) + r.choice([0., 1., 2.]))
                d['bounds'].append({'kind': kind, 'idx': ii, 'vals': [v] * len(ii), 'scalar': True})
            else:
                vals = [float(x0[i] - r.choice([1., 2., 3.])) if kind == 'L' else float(x0[i] + r.choice([1., 2., 3.])) for i in ii]
                d['bounds'].append({'kind': kind, 'idx': ii, 'vals': vals, 'scalar': False})
    if r.random() < 0.3:
        a = r.choice([-1., 1., 2.], n)
        d['late'] = {'a': a.tolist(), 'b': float(a @ x0 + 1.0)}       # a constraint added after a first solve
    return d


def build(d):
    from rsome import ro
    m = ro.Model(); x = m.dvar(d['n'])
    handles = []
    c = np.array(d['c'])
    (m.max if d['max'] else m.min)(c @ x)
    for blk in d['blocks']:
        A = np.array(blk['A']); b = np.array(blk['b'])
        if blk.get('var_left'):
            vl = blk['var_left']
            con = (x[vl['idx']] == np.array(vl['A2']) @ x + np.array(vl['b2']))
        else:
            con = (A @ x <= b) if blk['sense'] == 'le' else ((A @ x >= b) if blk['sense'] == 'ge' else (A @ x == b))
        handles.append(('lin', blk, m.st(con)))
    for bd in d['bounds']:
        sel = x[bd['idx']]
        rhs = bd['vals'][0] if bd.get('scalar') else np.array(bd['vals'])
        con = (sel >= rhs) if bd['kind'] == 'L' else (sel <= rhs)
        handles.append(('bnd', bd, m.st(con)))
    return m, x, handles


def certificate(d, m, x, handles, tol=1e-6):
    """the three identities of the property evaluated on what dual() returns; list of failures"""
    n = d['n']
    c = np.array(d['c'])
    grad = np.zeros(n); val = 0.0
    out = []
    sgn = -1.0 if d['max'] else 1.0          # for min: <= rows and upper bounds <= 0, lower bounds >= 0; reversed for max
    for kind, spec, con in handles:
        du = np.atleast_1d(np.asarray(con.dual(), dtype=float))
        if kind == 'lin':
            A = np.array(spec['A']); b = np.array(spec['b'])
            if du.shape != (A.shape[0],):
                out.append(('shape', kind, du.shape, A.shape[0])); continue
            if spec['sense'] == 'ge':          # read as the <= constraint of its negation
                A, b = -A, -b
            grad += du @ A; val += du @ b
            if spec['sense'] != 'eq' and np.any(sgn * du > tol):
                out.append(('sign of <= dual', du.tolist()))
        elif kind == 'bnd' and type(con).__name__ == 'LinConstr':
            # a bound written on a slice may be stored as linear rows: read it in the <= orientation
            idx = spec['idx']; vals = np.array(spec['vals'])
            if du.shape != (len(idx),):
                out.append(('shape', kind, du.shape, len(idx))); continue
            s_ = -1.0 if spec['kind'] == 'L' else 1.0           # x >= l  is  -x <= -l
            for i, dv, v in zip(idx, du, vals):
                grad[i] += s_ * dv; val += s_ * dv * v
            if np.any(sgn * du > tol):
                out.append(('sign of <= dual (bound stored as row)', du.tolist()))
        else:
            idx = spec['idx']; vals = np.array(spec['vals'])
            if du.shape != (len(idx),):
                out.append(('shape', kind, du.shape, len(idx))); continue
            for i, dv, v in zip(idx, du, vals):
                grad[i] += dv; val += dv * v
            if spec['kind'] == 'U' and np.any(sgn * du > tol):
                out.append(('sign of upper-bound dual', du.tolist()))
            if spec['kind'] == 'L' and np.any(sgn * du < -tol):
                out.append(('sign of lower-bound dual', du.tolist()))
    if np.max(np.abs(grad - c)) > tol * (1 + np.abs(c).max()):
        out.append(('gradient identity', (grad - c).tolist()))
    opt = m.get()
    if abs(val - opt) > tol * (1 + abs(opt)):
        out.append(('value identity', float(val), float(opt)))
    return out


def shaped_case(ctx, seed):
    """array-valued constraints and bounds on a 2-D variable: every dual() is shaped like its constraint and the certificate
    identities hold entry by entry (C order)"""
    from rsome import ro, eco_solver, grb_solver
    r = np.random.default_rng(seed)
    rows, cols = int(r.integers(2, 4)), int(r.integers(2, 4))
    X0 = r.choice([0., 1., 2.], (rows, cols))
    Cm = r.choice([-2., -1., 1., 2.], (rows, cols))
    mx = bool(r.random() < 0.5)
    Lm = r.choice([-1., 0., 1., 2.], (int(r.integers(1, 3)), rows)); Rm = r.choice([-1., 0., 1., 2.], (cols, int(r.integers(1, 3))))
    name, solver = [('default', None), ('ecos', eco_solver), ('gurobi', grb_solver)][int(r.integers(3))]
    case = {"shaped": {"seed": seed}, "interface": name}
    ctx.search_cases += 1; ctx.evaluations += 1
    with C.quiet():
        m = ro.Model(); X = m.dvar((rows, cols))
        (m.max if mx else m.min)((Cm * X).sum())
        items = []          # (handle, expected shape, gradient tensor G[k..., i, j] in the <= orientation, rhs)
        B1 = Lm @ X0 + r.choice([0., 1.], (Lm.shape[0], cols))
        items.append((m.st(Lm @ X <= B1), B1.shape, np.einsum('ki,jl->klij', Lm, np.eye(cols)), B1))
        B2 = X0 @ Rm - r.choice([0., 1.], (rows, Rm.shape[1]))
        items.append((m.st(X @ Rm >= B2), B2.shape, -np.einsum('ik,jl->klij', np.eye(rows), Rm), -B2))
        E = np.zeros((rows, cols, rows, cols))
        for i in range(rows):
            for j in range(cols):
                E[i, j, i, j] = 1.0
        lo = X0 - r.choice([1., 2.], (rows, cols)); hi = X0 + r.choice([1., 2., 3.], (rows, cols))
        items.append((m.st(X >= lo), (rows, cols), E, lo))
        j0 = int(r.integers(1, cols))
        items.append((m.st(X[:, :j0] <= hi[:, :j0]), (rows, j0), E[:, :j0], hi[:, :j0]))
        items.append((m.st(X[:, j0:] <= float(hi.max())), (rows, cols - j0), E[:, j0:], np.full((rows, cols - j0), float(hi.max()))))
        try:
            (m.solve(display=False) if solver is None else m.solve(solver, display=False))
            opt = m.get()
        except Exception:
            ctx.count('shaped:not-optimal'); return
    grad = np.zeros((rows, cols)); val = 0.0
    for h, shp, G, rhs in items:
        du = np.asarray(h.dual(), dtype=float)
        want = tuple(shp) if int(np.prod(shp)) > 1 else ()
        if du.shape != want:
            ctx.hit('dual-not-shaped-like-its-constraint', {"dual_shape": list(du.shape), "constraint_shape": list(shp), "type": type(h).__name__}, case); return
        du = du.reshape(shp)
        grad += np.tensordot(du, G, axes=du.ndim); val += float((du * rhs).sum())
    tol = 1e-6 if name != 'ecos' else 1e-5
    if np.max(np.abs(grad - Cm)) > tol * (1 + np.abs(Cm).max()):
        ctx.hit('certificate-fails:gradient identity (array constraints)', {"residual": (grad - Cm).tolist()}, case); return
    if abs(val - opt) > tol * (1 + abs(opt)):
        ctx.hit('certificate-fails:value identity (array constraints)', {"dual_value": val, "optimum": float(opt)}, case); return
    ctx.count('shaped:certificate-ok:' + name)


def repeated_and_sparse(ctx, seed):
    """a constraint object handed to st() more than once (e.g. a list of constraints that grows and is passed again) and bounds whose
    right-hand side is a scipy sparse matrix / array or an np.matrix (all accepted by the comparison operators): dual() of each
    handle is still shaped like its constraint and the certificate identities hold, on every dual-capable interface"""
    import scipy.sparse as sps
    from rsome import ro, lp as rlp, eco_solver, grb_solver
    r = np.random.default_rng(seed)
    rows, cols = int(r.integers(2, 4)), int(r.integers(2, 4))
    X0 = r.choice([0., 1., 2.], (rows, cols))
    Cm = r.choice([-2., -1., 1., 2.], (rows, cols))
    mx = bool(r.random() < 0.5)
    Lm = r.choice([-1., 0., 1., 2.], (int(r.integers(1, 3)), rows))
    name, solver = [('default', None), ('ecos', eco_solver), ('gurobi', grb_solver)][int(r.integers(3))]
    times = int(r.choice([1, 2, 2, 3])); rhs_kind = str(r.choice(['dense', 'csr_matrix', 'csr_array', 'np.matrix']))
    front = str(r.choice(['ro', 'lp']))
    case = {"repeated": {"seed": seed, "times": times, "rhs": rhs_kind, "front": front}, "interface": name}
    ctx.search_cases += 1; ctx.evaluations += 1
    wrap = {'dense': lambda a: a, 'csr_matrix': sps.csr_matrix, 'csr_array': sps.csr_array, 'np.matrix': np.matrix}[rhs_kind]
    try:
        with C.quiet():
            m = (ro.Model() if front == 'ro' else rlp.Model()); X = m.dvar((rows, cols))
            (m.max if mx else m.min)((Cm * X).sum())
            B1 = Lm @ X0 + r.choice([0., 1.], (Lm.shape[0], cols))
            cons = [Lm @ X <= B1]
            for t in range(times):
                m.st(cons)                       # the same object again
            G1 = np.einsum('ki,jl->klij', Lm, np.eye(cols))
            E = np.zeros((rows, cols, rows, cols))
            for i in range(rows):
                for j in range(cols):
                    E[i, j, i, j] = 1.0
            lo = X0 - r.choice([1., 2.], (rows, cols)); hi = X0 + r.choice([0., 1., 2., 3.], (rows, cols)) * r.choice([0., 1.], (rows, cols))
            ub = m.st(X <= wrap(hi)); lb = m.st(X >= wrap(lo))
            items = [(cons[0], B1.shape, G1, B1), (ub, (rows, cols), E, hi), (lb, (rows, cols), E, lo)]
            (m.solve(display=False) if solver is None else m.solve(solver, display=False))
            opt = m.get()
    except RuntimeError:
        ctx.count('repeated:not-optimal'); return
    except Exception as ex:
        ctx.count('repeated:refused:' + type(ex).__name__); return         # a refusal is not a wrong dual
    grad = np.zeros((rows, cols)); val = 0.0
    for h, shp, G, rhs in items:
        try:
            du = np.asarray(h.dual(), dtype=float)
        except Exception as ex:
            ctx.hit('dual-raises-on-accepted-constraint:' + type(h).__name__, {"error": type(ex).__name__ + ': ' + str(ex)[:160], "rhs": rhs_kind}, case); return
        want = tuple(shp) if int(np.prod(shp)) > 1 else ()
        if du.shape != want:
            ctx.hit('dual-not-shaped-like-its-constraint', {"dual_shape": list(du.shape), "constraint_shape": list(shp), "type": type(h).__name__, "added_times": times}, case); return
        du = du.reshape(shp)
        grad += np.tensordot(du, G, axes=du.ndim); val += float((du * rhs).sum())
    tol = 1e-6 if name != 'ecos' else 1e-5
    if np.max(np.abs(grad - Cm)) > tol * (1 + np.abs(Cm).max()):
        ctx.hit('certificate-fails:gradient identity (repeated constraint / sparse bounds)', {"residual": (grad - Cm).tolist()}, case); return
    if abs(val - opt) > tol * (1 + abs(opt)):
        ctx.hit('certificate-fails:value identity (repeated constraint / sparse bounds)', {"dual_value": val, "optimum": float(opt)}, case); return
    ctx.count('repeated:certificate-ok:' + name + ':x' + str(times) + ':' + rhs_kind)


def pw_objective_duals(ctx, seed):
    """LPs whose objective is written with maxof / minof, or as a worst case over a box (minmax / maxmin): the duals of the
    linear constraints follow the sign rule of the model's sense and reproduce the optimum (sum of dual * rhs, the epigraph rows of
    the objective have right-hand side 0), exactly as for the same LP written with an explicit epigraph variable"""
    import rsome as rso
    from rsome import ro
    r = np.random.default_rng(seed)
    ctx.search_cases += 1; ctx.evaluations += 1
    n = int(r.integers(2, 4)); mx = bool(r.random() < 0.5)
    kind = str(r.choice(['piecewise', 'robust']))
    A = r.choice([0., 1., 2., 3.], (2, n)); A[0] = np.maximum(A[0], 1.0); b = r.choice([4., 5., 7.], 2)
    P = r.choice([0., 1., 2., 3.], (2, n)); P[:, 0] = np.maximum(P[:, 0], 1.0)
    hi = r.choice([3., 4.], n)
    case = {"pw_seed": seed, "kind": kind, "max": mx}

    def build(epigraph):
        m = ro.Model(); x = m.dvar(n)
        sgn = 1.0 if mx else -1.0          # max of concave pieces / min of convex pieces (the mirror image)
        cons = [m.st(sgn * (A[i] @ x) <= sgn * b[i] if mx else A[i] @ x >= -b[i] + 2 * b[i]) for i in range(2)] if False else             [m.st(A[i] @ x <= b[i]) for i in range(2)]
        ub = m.st(x <= hi); lb = m.st(x >= 0)
        if kind == 'piecewise':
            if epigraph:
                t = m.dvar()
                if mx:
                    m.st(t <= P[0] @ x, t <= P[1] @ x); m.max(t)
                else:
                    m.st(t >= -(P[0] @ x), t >= -(P[1] @ x)); m.min(t)
            else:
                (m.max(rso.minof(P[0] @ x, P[1] @ x)) if mx else m.min(rso.maxof(-(P[0] @ x), -(P[1] @ x))))
        else:
            z = m.rvar(n)
            e = ((1 + 0.5 * z) * (P[0] * x)).sum()
            (m.maxmin(e, abs(z) <= 1) if mx else m.minmax(-e, abs(z) <= 1))
        m.solve(display=False)
        return m, cons, ub, lb
    try:
        with C.quiet():
            m, cons, ub, lb = build(False)
            opt = float(m.get())
            duals = [float(np.asarray(c.dual()).reshape(-1)[0]) for c in cons]
            du = np.asarray(ub.dual(), dtype=float).reshape(-1); dl = np.asarray(lb.dual(), dtype=float).reshape(-1)
    except Exception as ex:
        ctx.count('pw-duals:not-solved:' + type(ex).__name__); return
    sgn = 1.0 if mx else -1.0
    tol = 1e-6
    if any(sgn * d < -tol for d in duals) or np.any(sgn * du < -tol) or np.any(sgn * dl > tol):
        ctx.hit('certificate-fails:sign of duals (piecewise / robust objective)', {"row_duals": duals, "upper_bound_duals": du.tolist(), "lower_bound_duals": dl.tolist(), "max": mx}, case); return
    val = float(np.dot(duals, b) + du @ hi)
    if abs(val - opt) > 1e-6 * (1 + abs(opt)):
        ctx.hit('certificate-fails:value identity (piecewise / robust objective)', {"dual_value": val, "optimum": opt}, case); return
    ctx.count('pw-duals:ok:' + kind + (':max' if mx else ':min'))


def run(ctx):
    from rsome import eco_solver, grb_solver
    C.run_difftest(ctx, 'test_dual.py', ctx.n(150, 3000), 'ciarray, compiled rows and LinConstr.dual()/Bounds.dual() read-back')
    ifaces = [('default', None), ('ecos', eco_solver), ('gurobi', grb_solver)]
    for k in range(ctx.n(60, 1200)):
        shaped_case(ctx, int(ctx.rng.integers(2 ** 31)))
    for k in range(ctx.n(40, 600)):
        repeated_and_sparse(ctx, int(ctx.rng.integers(2 ** 31)))
    for k in range(ctx.n(40, 600)):
        pw_objective_duals(ctx, int(ctx.rng.integers(2 ** 31)))
    for k in range(ctx.n(60, 1200)):
        seed = int(ctx.rng.integers(2 ** 31))
        r = np.random.default_rng(seed)
        d = gen_lp(r); d['seed'] = seed
        for name, solver in ifaces:
            ctx.search_cases += 1; ctx.evaluations += 1
            case = {"desc": d, "interface": name}
            try:
                with C.quiet():
                    m, x, handles = build(d)
                    if d['late'] is not None:
                        (m.solve(display=False) if solver is None else m.solve(solver, display=False))
                        late = m.st(np.array(d['late']['a']) @ x <= d['late']['b'])
                        handles.append(('lin', {'A': [d['late']['a']], 'b': [d['late']['b']], 'sense': 'le'}, late))
                    (m.solve(display=False) if solver is None else m.solve(solver, display=False))
                    m.get()
            except RuntimeError:
                ctx.count('not-optimal'); continue
            except Exception as ex:
                ctx.hit('solve-raises:' + name + ':' + type(ex).__name__, {"error": str(ex)[:200]}, case); continue
            try:
                bad = certificate(d, m, x, handles, tol=1e-6 if name != 'ecos' else 1e-5)
            except Exception as ex:
                ctx.hit('dual-raises:' + name + ':' + type(ex).__name__, {"error": str(ex)[:200]}, case); continue
            ctx.nontriv(case)
            if bad:
                ctx.hit('certificate-fails:' + str(bad[0][0]), {"failures": [str(b)[:200] for b in bad[:3]]}, case)
            else:
                ctx.count('certificate-ok:' + name)
                ctx.sample({"interface": name, "n": d['n'], "max": d['max'], "late": d['late'] is not None}, limit=3)


def replay(rp):
    from rsome import eco_solver, grb_solver
    c = rp['case']
    if 'pw_seed' in c:
        cx = C.Ctx('C14', 'quick', 0); pw_objective_duals(cx, c['pw_seed'])
        return {"failures": [(h['key'], h['detail']) for h in cx.hits], "fails": bool(cx.hits)}
    if 'repeated' in c:
        cx = C.Ctx('C14', 'quick', 0); repeated_and_sparse(cx, c['repeated']['seed'])
        return {"failures": [(h['key'], h['detail']) for h in cx.hits], "fails": bool(cx.hits)}
    if 'shaped' in c:
        class _Ctx:
            def __init__(self): self.hits = []; self.search_cases = 0; self.evaluations = 0
            def hit(self, k, det, case): self.hits.append({"key": k, "detail": det})
            def count(self, *a, **k): pass
        cx = _Ctx(); shaped_case(cx, c['shaped']['seed'])
        return {"failures": cx.hits, "fails": bool(cx.hits)}
    d = c['desc']
    solver = {'default': None, 'ecos': eco_solver, 'gurobi': grb_solver}[c['interface']]
    with C.quiet():
        m, x, handles = build(d)
        (m.solve(display=False) if solver is None else m.solve(solver, display=False))
    bad = certificate(d, m, x, handles)
    return {"failures": [str(b) for b in bad], "fails": bool(bad)}
