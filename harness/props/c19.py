"""C19 — formulation is deterministic and leaves user data untouched.

Theorems (Lean, RsomeV/Props/C19.lean): mutations_safe (every in-place write site of rsome/*.py rooted at a function parameter —
table regenerated from the source on every run — is one of the classified harmless sites, none targets caller-supplied numeric
data), cache_stable (repeated do_math without new declarations returns the same program, from the C09 state machine).
Tie: extracted table.  Search: every generated model is built twice in one process and once in a second process and the
standard forms are compared bit for bit; user arrays of several dtypes, views and read-only arrays are snapshotted before
and after formulation and solving; NumPy's and Python's global random state is compared before and after; primal / dual
do_math and solves are repeated and compared."""
import os, sys, json, subprocess, random
import numpy as np
from harness import common as C
from harness import ro_oracle as O
from harness import dro_oracle as D
from harness import det_models as DM
from harness import gen as G

GEN = True
THEOREMS = {
    'RsomeV.Props.C19': ['RsomeV.C19.mutations_safe', 'RsomeV.C19.classified_all_present', 'RsomeV.C19.cache_stable', 'RsomeV.C19.deterministic'],
}
RULE = ("random ro, dro and deterministic model descriptions built twice in-process and once in a child process (standard forms compared "
        "exactly), with repeated do_math / do_math(primal=False) / solve; user data of dtypes int32/int64/float32/float64, non-contiguous "
        "views and read-only arrays (incl. PSD and NSD matrices for quad, constants in constraints, sets and objectives) snapshotted before "
        "and after; non-trivial = model with at least one user array of non-float64 dtype or a read-only array; distinct by content hash")
TRUSTED = ["the child process imports the same /repo tree"]
ASSUMPTIONS = ["bit-for-bit comparison is on exact rational exports of the float standard form"]

KEYS = C.PROG_KEYS + ('qmat', 'xmat', 'vtype')


def build_any(kind, d):
    if kind == 'ro':
        return O.build(d)[0]
    if kind == 'dro':
        return D.build(d)[0]
    return DM.build(d)[0]


def forms(kind, d):
    with C.quiet():
        m = build_any(kind, d)
        p = C.prog_json(m.do_math())
        try:
            dd = C.prog_json(m.do_math(primal=False))
        except Exception as ex:
            dd = {"error": type(ex).__name__}
    return m, {k: p[k] for k in KEYS}, ({k: dd[k] for k in KEYS} if 'error' not in dd else dd)


CHILD = r'''
import sys, json
sys.path.insert(0, %r)
from harness.props import c19
spec = json.load(sys.stdin)
out = []
for kind, d in spec:
    try:
        m, p, dd = c19.forms(kind, d)
        out.append([p, dd])
    except Exception as ex:
        out.append({"error": type(ex).__name__ + ": " + str(ex)[:100]})
print("##JSON##" + json.dumps(out))
'''


def run(ctx):
    r = ctx.rng
    # the stand-alone lp / socp / gcp layers: declare, formulate (primal and dual), declare one more constraint, formulate again
    # == the same declarations formulated once (the standard form is a function of what was declared, not of when it was asked for)
    from harness.props import c09 as _c09
    for k in range(ctx.n(40, 600)):
        _c09.direct_layers(ctx, int(r.integers(2 ** 31)))
    specs = []
    for k in range(ctx.n(45, 900)):
        kind = str(r.choice(['ro', 'dro', 'det']))
        rr, seed = G.sub_rng(r)
        if kind == 'det' and rr.random() < 0.35:
            d = DM.gen(rr, atoms=['abs', 'norm1', 'norminf'], integer=True)       # MILPs: the default interface's integer branch
        else:
            d = O.gen_model(rr) if kind == 'ro' else (D.gen(rr) if kind == 'dro' else DM.gen(rr, integer=bool(rr.random() < 0.3)))
        d['seed'] = seed
        specs.append((kind, d))
    first = []
    for kind, d in specs:
        ctx.search_cases += 1; ctx.evaluations += 1
        case = {"kind": kind, "desc": d}
        st_np = np.random.get_state()[1][:8].tolist(); st_py = random.getstate()[1][:8]
        try:
            m, p1, d1 = forms(kind, d)
            _, p2, d2 = forms(kind, d)
        except Exception as ex:
            ctx.count('build-error:' + type(ex).__name__); first.append(None); continue
        first.append((p1, d1))
        if p1 != p2 or d1 != d2:
            ctx.hit('two-builds-differ', {"fields": [k for k in KEYS if p1.get(k) != p2.get(k)] + ['dual:' + k for k in KEYS if isinstance(d1, dict) and d1.get(k) != d2.get(k)]}, case)
            continue
        # repeated formulation / solving on the same object
        try:
            with C.quiet():
                p3 = C.prog_json(m.do_math()); p3 = {k: p3[k] for k in KEYS}
                try:
                    v1 = C.solve_model(m)
                except (RuntimeError, C.SkipCase):
                    v1 = None
                p4 = C.prog_json(m.do_math()); p4 = {k: p4[k] for k in KEYS}
                if 'error' not in d1:
                    d3 = C.prog_json(m.do_math(primal=False)); d3 = {k: d3[k] for k in KEYS}
                else:
                    d3 = d1
                try:
                    v2 = C.solve_model(m)
                except (RuntimeError, C.SkipCase):
                    v2 = None
                # every other way of solving leaves the cached program alone too: the default interface (its MILP branch
                # adjusts bounds of binaries), and the SOC approximation of exponential cones
                f_ = m.do_math()
                extra_changed = []
                if not getattr(f_, 'qmat', None) and not getattr(f_, 'xmat', None):
                    try:
                        m.solve(display=False)
                    except Exception:
                        pass
                    p5 = C.prog_json(m.do_math()); p5 = {k: p5[k] for k in KEYS}
                    if p5 != p1:
                        extra_changed.append('program-after-default-solve')
                    ctx.count('resolve:default-interface' + (':integer' if any(t != 'C' for t in f_.vtype) else ''))
                if getattr(f_, 'xmat', None) and C.ecos_safe(f_):
                    from rsome import eco_solver
                    try:
                        m.soc_solve(eco_solver, display=False)
                    except Exception:
                        pass
                    p6 = C.prog_json(m.do_math()); p6 = {k: p6[k] for k in KEYS}
                    if p6 != p1:
                        extra_changed.append('program-after-soc_solve')
                    ctx.count('resolve:soc_solve')
        except Exception as ex:
            ctx.hit('repeat-raises:' + type(ex).__name__, {"error": str(ex)[:200]}, case); continue
        if extra_changed:
            ctx.hit('solving-changes-the-cached-program', {"changed": extra_changed}, case)
        elif p3 != p1 or p4 != p1 or d3 != d1:
            ctx.hit('repeated-formulation-differs', {"primal_after_dual": p3 != p1, "primal_after_solve": p4 != p1, "dual_again": d3 != d1}, case)
        elif (v1 is None) != (v2 is None) or (v1 is not None and v1 != v2 and abs(v1 - v2) > 1e-9 * (1 + abs(v1))):
            ctx.hit('repeated-solve-differs', {"first": v1, "second": v2}, case)
        elif np.random.get_state()[1][:8].tolist() != st_np or random.getstate()[1][:8] != st_py:
            ctx.hit('global-random-state-consumed', {}, case)
        else:
            ctx.count('in-process:identical')
    # ---- second process ------------------------------------------------------------------------
    chunk = [s for s, f in zip(specs, first) if f is not None]
    refs = [f for f in first if f is not None]
    try:
        p = subprocess.run(['/venv/bin/python', '-c', CHILD % C.VERIF], input=json.dumps(chunk), capture_output=True, text=True, timeout=1800,
                           env=dict(os.environ, PYTHONHASHSEED=str(int(r.integers(1, 10 ** 6)))))
        line = [l for l in p.stdout.splitlines() if l.startswith('##JSON##')]
        res = json.loads(line[0][8:]) if line else None
    except Exception as ex:
        res = None
    if res is None:
        ctx.notes.append('child process failed: ' + (p.stderr[-300:] if 'p' in dir() else ''))
    else:
        for (kind, d), ref, got in zip(chunk, refs, res):
            ctx.search_cases += 1; ctx.evaluations += 1
            if isinstance(got, dict):
                ctx.hit('second-process-raises', got, {"kind": kind, "desc": d}); continue
            if got[0] != ref[0] or got[1] != ref[1]:
                ctx.hit('second-process-differs', {"fields": [k for k in KEYS if got[0].get(k) != ref[0].get(k)]}, {"kind": kind, "desc": d})
            else:
                ctx.count('second-process:identical')
    user_data(ctx)
    # formulation is a function of what was declared, also when declared in stages on the lp/socp/gcp layers used directly
    from harness.props import c09
    for k in range(ctx.n(40, 600)):
        c09.direct_layers(ctx, int(ctx.rng.integers(2 ** 31)))


def user_data(ctx):
    """numeric arrays supplied by the user are not modified"""
    import rsome as rso
    from rsome import ro, dro
    r = ctx.rng
    for k in range(ctx.n(40, 600)):
        ctx.search_cases += 1; ctx.evaluations += 1
        n = 3
        dt = [np.int32, np.int64, np.float32, np.float64][int(r.integers(4))]
        base = r.integers(-3, 4, (n + 2, 2 * n)).astype(dt)
        Aview = base[1:n + 1, ::2]                     # a non-contiguous view
        bvec = r.integers(1, 5, n).astype(dt)
        B = r.integers(-2, 3, (n, n)).astype(np.float64)
        Q = B.T @ B + np.eye(n)
        psd = bool(r.random() < 0.5)
        Qm = (Q if psd else -Q).copy()
        order = str(r.choice(['C', 'F', 'F-view']))
        if order == 'F':
            Qm = np.asfortranarray(Qm)                 # column-major user matrix (LAPACK routines may work in place on those)
        elif order == 'F-view':
            Qm = np.ascontiguousarray(Qm.T).T          # a transposed view, as cov().values or a.T would give
        cvec = r.integers(-3, 4, n).astype(dt)
        lo = (-np.abs(r.integers(1, 3, 2))).astype(dt); hi = np.abs(r.integers(1, 3, 2)).astype(dt)
        ro_arrays = bool(r.random() < 0.5)
        arrays = {'A': Aview, 'b': bvec, 'Q': Qm, 'c': cvec, 'lo': lo, 'hi': hi, 'base': base}
        if ro_arrays:
            for a in (bvec, Qm, cvec, lo, hi, base):
                a.setflags(write=False)
        snap = {k_: np.array(v, copy=True) for k_, v in arrays.items()}
        case = {"dtype": np.dtype(dt).name, "read_only": ro_arrays, "psd": psd, "Q_memory_order": order}
        ctx.nontriv(dict(case, k=k))
        try:
            m = ro.Model(); x = m.dvar(n); z = m.rvar(2)
            m.minmax(cvec @ x + (lo * 1.0) @ z, z >= lo, z <= hi)
            m.st(Aview @ x <= bvec, x >= -4, x <= 4)
            m.st((rso.quad(x, Qm) <= 20) if psd else (rso.quad(x, Qm) >= -20))
            m.st((x[:2] * hi) @ z <= 30)
            with C.quiet():
                m.do_math(); m.do_math(primal=False)
            try:
                C.solve_model(m)
            except (RuntimeError, C.SkipCase):
                pass
            # build a second model from the same user arrays: it must see the same data
            m2 = ro.Model(); x2 = m2.dvar(n)
            m2.min(cvec @ x2); m2.st((rso.quad(x2, Qm) <= 20) if psd else (rso.quad(x2, Qm) >= -20), x2 >= -4, x2 <= 4)
            with C.quiet():
                m2.do_math()
        except Exception as ex:
            ctx.hit('user-data-model-raises:' + type(ex).__name__, {"error": str(ex)[:200]}, case); continue
        changed = [k_ for k_, v in arrays.items() if not np.array_equal(np.asarray(v), snap[k_]) or np.asarray(v).dtype != snap[k_].dtype]
        if changed:
            ctx.hit('user-array-modified', {"arrays": changed}, case)
        else:
            ctx.count('user-data:untouched')
    # "any dtype numpy accepts": the standard form depends on the VALUES of the user's arrays, not on their dtype; kldiv / perspective
    # atoms read the array they were given when the constraint was declared, not what it holds later
    for k in range(ctx.n(30, 400)):
        ctx.search_cases += 1; ctx.evaluations += 1
        dt = str(r.choice(['uint8', 'uint16', 'uint32', 'int8', 'int16', 'int64', 'float32', 'bool'][:7]))
        n = 3
        A = r.integers(0, 4, (2, n)); b = r.integers(1, 6, 2); lo = r.integers(0, 3, n); c = r.integers(0, 4, n)
        case = {"dtype_semantics": dt, "A": A.tolist(), "b": b.tolist(), "lo": lo.tolist(), "c": c.tolist()}

        def form(cast):
            A_, b_, lo_, c_ = (cast(v) for v in (A, b, lo, c))
            m = ro.Model(); x = m.dvar(n); z = m.rvar(n)
            m.minmax((c_ * x).sum() - c_ @ x + c_ @ x + (x - lo_) @ z, abs(z) <= 1)
            m.st(A_ @ x <= b_, 2 * x - lo_ >= 0, x - lo_ <= b_[0], (x * z).sum() - c_ @ x <= b_[1], x <= 9)
            with C.quiet():
                return C.prog_json(m.do_math())
        try:
            fa = form(lambda v: v.astype(dt)); fb = form(lambda v: v.astype(float))
        except Exception as ex:
            ctx.count('dtype-semantics:raises:' + type(ex).__name__); continue
        keys = [k_ for k_ in fa if fa[k_] != fb[k_]]
        if keys:
            ctx.hit('standard-form-depends-on-dtype', {"dtype": dt, "fields": keys}, case)
        else:
            ctx.count('dtype-semantics:same:' + dt)
    for k in range(ctx.n(6, 40)):
        ctx.search_cases += 1; ctx.evaluations += 1
        kind = str(r.choice(['kldiv', 'pexp']))
        case = {"late_overwrite": kind}

        def form(overwrite):
            m = ro.Model(); p_ = m.dvar(3); t = m.dvar()
            q = np.array([0.2, 0.3, 0.5]); sc = np.array([1.0, 2.0, 4.0])
            m.min(t)
            m.st(rso.kldiv(p_, q, 0.1) if kind == 'kldiv' else (rso.pexp(p_, sc) <= t), p_ >= 0.05, p_.sum() == 1, t >= p_[0])
            if overwrite:
                q[:] = [0.5, 0.3, 0.2]; sc[:] = [4.0, 2.0, 1.0]        # the user's arrays change AFTER the declaration
            with C.quiet():
                return C.prog_json(m.do_math())
        try:
            fa, fb = form(False), form(True)
        except Exception as ex:
            ctx.count('late-overwrite:raises:' + type(ex).__name__); continue
        keys = [k_ for k_ in fa if fa[k_] != fb[k_]]
        if keys:
            ctx.hit('standard-form-follows-later-changes-of-user-array', {"atom": kind, "fields": keys}, case)
        else:
            ctx.count('late-overwrite:same:' + kind)
    ctx.sample({"user_data_cases": ctx.counts.get('user-data:untouched', 0)}, limit=1)


def replay(rp):
    if 'layer' in rp['case'] and 'then' in rp['case']:
        from harness.props import c09 as _c09
        ctx = C.Ctx('C19', 'quick', 0)
        _c09.direct_layers(ctx, rp['case']['seed'])
        return {"hits": [(h['key'], h['detail']) for h in ctx.hits], "fails": bool(ctx.hits)}
    return {"fails": True, "case": rp['case'], "note": "re-run bin/check C19 with the recorded seed"}
