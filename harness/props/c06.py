"""C06 — every accepted constraint and the objective are enforced as written.

Theorems (Lean, RsomeV/Props/C06.lean): per-atom soundness of the conic encodings (every point feasible for the
encoding rows/cones satisfies the user's inequality) and `dispatch_total` over the dispatch tables extracted from
the three st()/do_math() on every run.  Tie: extracted tables; atom-encoding correspondence of C07.
Search: random deterministic models over every atom (constraint and objective position, scalings, affine offsets,
summed forms, ro and dro front ends) are solved and every user constraint and the objective are re-evaluated
directly with NumPy at the returned point."""
import numpy as np
from harness import common as C
from harness import det_models as DM
from harness import atoms as AT

GEN = True
THEOREMS = {
    'RsomeV.Props.C06Model': ['RsomeV.C06Model.det_model_sound', 'RsomeV.C06Model.det_model_total', 'RsomeV.C06Model.det_model_cols', 'RsomeV.C06Model.det_vtype'],
    'RsomeV.Props.C06': ['RsomeV.C06.dispatch_total', 'RsomeV.C06.layers_found', 'RsomeV.C06.legacy_N_objective_dropped'],
    'RsomeV.Props.AtomsSoc': ['RsomeV.AtomsSoc.abs_sound', 'RsomeV.AtomsSoc.norm1_sound', 'RsomeV.AtomsSoc.norminf_sound', 'RsomeV.AtomsSoc.norm2_sound', 'RsomeV.AtomsSoc.square_sound', 'RsomeV.AtomsSoc.sumsqr_sound', 'RsomeV.AtomsSoc.rsocone_sound', 'RsomeV.AtomsSoc.foldBounds_spec', 'RsomeV.AtomsSoc.foldBounds_perm', 'RsomeV.AtomsSoc.foldBounds_feas'],
    'RsomeV.Props.AtomsExp': ['RsomeV.AExp.exp_sound', 'RsomeV.AExp.log_sound', 'RsomeV.AExp.pexp_sound', 'RsomeV.AExp.plog_sound', 'RsomeV.AExp.entropy_sound', 'RsomeV.AExp.softplus_sound', 'RsomeV.AExp.kl_sound', 'RsomeV.AExp.encodeAtoms_sound'],
    'RsomeV.Props.AtomsSum': ['RsomeV.ASum.expsum_sound', 'RsomeV.ASum.logsum_sound', 'RsomeV.ASum.expsum_sound_groups', 'RsomeV.ASum.logsum_sound_groups'],
}
RULE = ("random deterministic models (1-3 variables, several bounds per entry in either order, <=/>=/== rows, 0-2 atom constraints "
        "with scaling and affine offset, linear or atom objective, min or max) through ro.Model and single-scenario dro.Model; "
        "summed exp/log forms; non-trivial = at least one atom constraint or atom objective; distinct by content hash")
TRUSTED = ["solvers return a point feasible for the compiled program to tolerance 1e-6"]
ASSUMPTIONS = ["logdet/rootdet (LMI) formulated only"]


def solve_desc(d):
    with C.quiet():
        m, x = DM.build(d)
    val = C.solve_model(m)
    xs = np.asarray(x.get(), dtype=float).reshape(-1)
    return m, x, val, xs


def check_one(ctx, d):
    ctx.search_cases += 1; ctx.evaluations += 1
    if d['atoms'] or d['obj']['kind'] != 'lin' or 'pw' in d:
        ctx.nontriv(d)
    case = {"desc": d}
    try:
        m, x, val, xs = solve_desc(d)
    except C.SkipCase:
        ctx.count('skipped'); return
    except RuntimeError as e:
        # feasible and bounded by construction (x0 is feasible, every entry is boxed): a failure to solve is a finding
        # only when the compiled program is infeasible although x0 satisfies the user's model
        if 'infeasible' in str(e).lower() or 'status: 2' in str(e):
            ctx.hit('compiled-infeasible-but-model-feasible', {"error": str(e)[:200]}, case)
        else:
            ctx.count('not-optimal:' + str(e)[:40])
        return
    except Exception as e:
        ctx.hit('compile-or-solve-error:' + type(e).__name__, {"error": str(e)[:300]}, case)
        return
    for a in d['atoms']:
        ctx.count('atom:' + a['name'])
    ctx.count('obj:' + (d['obj'].get('name') or d['obj']['kind']))
    if 'pw' in d:
        ctx.count('atom:' + ('minof' if d['pw']['minof'] else 'maxof')); ctx.count('front:' + d['front'])
    viol = DM.violations(d, xs)
    if viol:
        ctx.hit('constraint-not-enforced:' + viol[0][0].split()[0] + ':' + (viol[0][0].split()[1] if viol[0][0].startswith('atom') else ''),
                {"violations": viol[:4], "x": xs.tolist()}, case)
        return
    ov = DM.np_obj(d, xs)
    if abs(ov - val) > 1e-4 * (1 + abs(ov)):
        ctx.hit('objective-not-as-written:' + (d['obj'].get('name') or d['obj']['kind']), {"reported": float(val), "evaluated": ov, "x": xs.tolist()}, case)
        return
    ctx.count('ok')
    ctx.sample({"front": d['front'], "atoms": [a['name'] for a in d['atoms']], "obj": d['obj'].get('name', 'lin')}, limit=5)


def summed_forms(ctx):
    """`exp(x).sum() <= t` style constraints (the quantifier's "summed forms")"""
    from rsome import ro
    import rsome as rso
    for name, f, g in (('exp', rso.exp, np.exp), ('log', rso.log, np.log)):
        for k in (2, 3):
            ctx.search_cases += 1; ctx.evaluations += 1
            m = ro.Model(); x = m.dvar(k); t = m.dvar()
            x0 = np.array([0.5, 1.0, 1.5][:k])
            case = {"summed": name, "k": k, "x0": x0.tolist()}
            try:
                if name == 'exp':
                    m.min(t); m.st(f(x).sum() <= t)
                else:
                    m.max(t); m.st(f(x).sum() >= t)
                m.st(x == x0)
                val = C.solve_model(m)
            except Exception as e:
                ctx.count('summed:raises:' + type(e).__name__); continue
            true = float(g(x0).sum())
            if abs(val - true) > 1e-4 * (1 + abs(true)):
                ctx.hit('summed-form-compiled-elementwise:' + name, {"reported": float(val), "true_sum": true}, case)
            else:
                ctx.count('summed:ok')
    # 2-D arguments: sums over one axis, over one axis and then the other, after an addition that broadcasts; perspective atoms
    r = np.random.default_rng(20260929)
    for name, f, g in (('exp', rso.exp, np.exp), ('log', rso.log, np.log)):
        for form in ('axis0', 'axis1', 'axis1-then-axis0', 'axis0-then-all', 'broadcast-add', 'broadcast-add-axis0', 'scaled'):
            ctx.search_cases += 1; ctx.evaluations += 1
            X0 = r.choice([0.5, 0.75, 1.0, 1.5, 2.0], (2, 3)); x0 = X0[0]
            case = {"summed": name, "form": form, "X0": X0.tolist()}
            sg = 1.0 if name == 'exp' else -1.0
            try:
                m = ro.Model(); X = m.dvar((2, 3)); x = m.dvar(3)
                if form == 'axis0':
                    e, true = f(X).sum(axis=0), g(X0).sum(axis=0)
                elif form == 'axis1':
                    e, true = f(X).sum(axis=1), g(X0).sum(axis=1)
                elif form == 'axis1-then-axis0':
                    e, true = f(X).sum(axis=1).sum(axis=0), g(X0).sum()
                elif form == 'axis0-then-all':
                    e, true = f(X).sum(axis=0).sum(), g(X0).sum()
                elif form == 'broadcast-add':
                    e, true = (f(x) + sg * np.ones((2, 3))).sum(), (g(x0) + sg * np.ones((2, 3))).sum()
                elif form == 'broadcast-add-axis0':
                    e, true = (f(x) + sg * X).sum(axis=0), (g(x0) + sg * X0).sum(axis=0)
                else:
                    e, true = (2 * f(X) + sg * 1.0).sum(axis=1), (2 * g(X0) + sg * 1.0).sum(axis=1)
                true = np.atleast_1d(np.asarray(true, dtype=float))
                t = m.dvar(true.shape)
                if name == 'exp':
                    m.min(t.sum()); m.st(e <= (t if true.size > 1 else t[0]))
                else:
                    m.max(t.sum()); m.st(e >= (t if true.size > 1 else t[0]))
                m.st(X == X0, x == x0)
                C.solve_model(m)
                got = np.atleast_1d(np.asarray(t.get(), dtype=float))
            except C.SkipCase:
                ctx.count('summed:skipped'); continue
            except Exception as ex:
                ctx.count('summed:raises:' + form + ':' + type(ex).__name__); continue
            if got.shape != true.shape or np.max(np.abs(got - true)) > 1e-4 * (1 + np.max(np.abs(true))):
                ctx.hit('summed-form-wrong:' + name + ':' + form, {"reported": got.tolist(), "numpy": true.tolist()}, case)
            else:
                ctx.count('summed:ok:' + form)
    for nm_, bld, npf in (('pexp', lambda a: rso.pexp(a, 2.0), lambda v: 2.0 * np.exp(v / 2.0)), ('plog', lambda a: rso.plog(a, 2.0), lambda v: 2.0 * np.log(v / 2.0))):
        ctx.search_cases += 1; ctx.evaluations += 1
        x0 = np.array([0.75, 1.0, 2.5]); case = {"summed": nm_}
        try:
            m = ro.Model(); x = m.dvar(3); t = m.dvar()
            if nm_ == 'pexp':
                m.min(t); m.st(bld(x).sum() <= t)
            else:
                m.max(t); m.st(bld(x).sum() >= t)
            m.st(x == x0)
            val = C.solve_model(m)
        except Exception as ex:
            ctx.count('summed:raises:' + nm_ + ':' + type(ex).__name__); continue        # refusing the sum of a perspective atom is fine
        true = float(npf(x0).sum())
        if abs(val - true) > 1e-4 * (1 + abs(true)):
            ctx.hit('summed-form-wrong:' + nm_, {"reported": float(val), "numpy": true}, case)


def persp_probe(ctx, seed):
    """perspective atoms whose scale is an affine expression with a constant term, in constraint and objective position, ro and
    dro front ends: with the decisions pinned, `min t s.t. pexp(x, a*s + b) <= t` must return (a s0 + b) exp(x0 / (a s0 + b))
    (and the plog analogue)"""
    import rsome as rso
    from rsome import ro, dro
    r = np.random.default_rng(seed)
    front = str(r.choice(['ro', 'dro']))
    kind = str(r.choice(['pexp', 'plog']))
    a = float(r.choice([0.5, 1.0, 2.0])); b = float(r.choice([0.25, 0.5, 1.0, -0.25])); s0 = float(r.choice([1.0, 1.5, 2.0]))
    sc = a * s0 + b
    x0 = float(r.choice([-1.0, 0.5, 1.0])) if kind == 'pexp' else float(r.choice([0.5, 1.0, 3.0]))
    mult = float(r.choice([1.0, 2.0])); pos = str(r.choice(['constraint', 'objective']))
    case = {"persp_seed": seed, "front": front, "atom": kind, "scale": "%g*s+%g" % (a, b), "s0": s0, "x0": x0, "mult": mult, "position": pos}
    ctx.search_cases += 1; ctx.evaluations += 1
    truth = mult * (sc * np.exp(x0 / sc) if kind == 'pexp' else sc * np.log(x0 / sc))
    try:
        with C.quiet():
            m = ro.Model() if front == 'ro' else dro.Model(2)
            x = m.dvar(); s = m.dvar(); t = m.dvar()
            e = mult * (rso.pexp(x, a * s + b) if kind == 'pexp' else rso.plog(x, a * s + b))
            if pos == 'constraint':
                if kind == 'pexp':
                    m.min(t); m.st(e <= t)
                else:
                    m.max(t); m.st(e >= t)
            else:
                (m.min if kind == 'pexp' else m.max)(e)
            m.st(x == x0, s == s0)
        val = C.solve_model(m)
    except C.SkipCase:
        ctx.count('persp:skipped'); return
    except Exception as ex:
        ctx.hit('perspective-scale-compile-or-solve-error', {"error": type(ex).__name__ + ': ' + str(ex)[:200]}, case); return
    if abs(val - truth) > 2e-4 * (1 + abs(truth)):
        ctx.hit('perspective-affine-scale-wrong-value', {"solver_value": float(val), "closed_form": float(truth)}, case)
    else:
        ctx.count('persp:ok:' + front + ':' + kind)


def power_probe(ctx, seed, tight=False):
    """element-wise power with exponent arrays: base broadcast against the exponents (scalar or lower-dimensional base), entries
    with p == q next to other exponents, function and method spellings on variables, slices and affine expressions; every
    accepted inequality |a_i|**(p_i/q_i) <= y_i must hold at the returned point and the objective must be the sum of y"""
    import rsome as rso
    from rsome import ro
    r = np.random.default_rng(seed)
    ctx.search_cases += 1; ctx.evaluations += 1
    shape_kind = str(r.choice(['same', 'scalar-base', 'row-vs-column']))
    k = int(r.integers(2, 4))
    pv = r.choice([1, 1, 2, 3, 3, 5], k); qv = np.array([int(r.choice([1, q_])) if q_ > 1 else 1 for q_ in r.choice([1, 1, 2], k)])
    qv = np.minimum(qv, pv)
    if not any(p_ == q_ for p_, q_ in zip(pv, qv)):
        pv[int(r.integers(k))] = 1; qv = np.minimum(qv, pv)
    spelling = str(r.choice(['function', 'method-on-variable', 'method-on-slice', 'method-on-affine']))
    if shape_kind == 'same':
        xval = r.choice([-1.5, -0.5, 0.5, 1.25, 2.0], k); P, Q = pv, qv
    elif shape_kind == 'scalar-base':
        xval = np.array(float(r.choice([-1.5, 0.5, 1.25]))); P, Q = pv, qv
    else:
        xval = r.choice([-1.5, -0.5, 0.5, 1.25], 2); P, Q = pv.reshape(k, 1), qv.reshape(k, 1)
    scale = float(r.choice([1.0, 2.0])) if spelling in ('function', 'method-on-affine') else 1.0
    shift = float(r.choice([0.0, -1.0])) if spelling in ('function', 'method-on-affine') else 0.0
    case = {"power_seed": seed, "shapes": shape_kind, "p": np.asarray(P).tolist(), "q": np.asarray(Q).tolist(), "x": np.asarray(xval).tolist(), "spelling": spelling}
    out_shape = np.broadcast(xval, P).shape
    try:
        with C.quiet():
            m = ro.Model(); x = m.dvar(xval.shape); y = m.dvar(out_shape)
            m.min(y.sum())
            if spelling == 'function':
                e = rso.power(scale * x + shift, P, Q)
            elif spelling == 'method-on-variable':
                e = x.power(P, Q)
            elif spelling == 'method-on-slice':
                e = (x[:] if xval.ndim else x).power(P, Q)
            else:
                e = (scale * x + shift).power(P, Q)
            m.st(e <= y); m.st(x == xval); m.st(y >= 0, y <= 1e4)
            val = C.solve_model(m)
            xs, ys = np.asarray(x.get(), dtype=float), np.asarray(y.get(), dtype=float)
    except C.SkipCase:
        ctx.count('power:skipped'); return
    except Exception as ex:
        ctx.count('power:raises:' + type(ex).__name__); return
    lhs = np.abs(scale * xs + shift) ** (np.asarray(P, dtype=float) / np.asarray(Q, dtype=float)) + np.zeros(out_shape)
    if float((lhs - ys).max()) > 1e-5 * (1 + float(np.abs(lhs).max())):
        ctx.hit('constraint-violated:power', {"lhs": lhs.tolist(), "y": ys.tolist()}, case); return
    if tight and float(np.abs(ys - lhs).max()) > 2e-4 * (1 + float(np.abs(lhs).max())):
        # (C07) minimising sum(y) must bring every y_i down to |a_i|**(p_i/q_i)
        ctx.hit('power-not-tight', {"lhs": lhs.tolist(), "y": ys.tolist()}, case); return
    ctx.count('power:ok:' + shape_kind + ':' + spelling)


def quad_probe(ctx, seed):
    """quadratic forms with off-diagonal entries (symmetric or not, PSD symmetric part) in constraint and objective position, ro and
    dro front ends: the accepted inequality x'Qx <= rhs must hold at the returned point, a reported objective must be the
    expression's value there"""
    import rsome as rso
    from rsome import ro, dro
    r = np.random.default_rng(seed)
    ctx.search_cases += 1; ctx.evaluations += 1
    k = int(r.integers(2, 4))
    B = r.integers(-2, 3, (k, k)).astype(float)
    Q = B.T @ B + np.eye(k) * float(r.choice([0.0, 0.5]))
    if r.random() < 0.4:
        N = np.triu(r.integers(-1, 2, (k, k)).astype(float), 1); Q = Q + N - N.T          # non-symmetric, same symmetric part
    front = str(r.choice(['ro', 'dro'])); pos = str(r.choice(['constraint', 'objective'])); c = r.choice([-2.0, -1.0, 1.0, 2.0], k)
    case = {"quad_seed": seed, "Q": Q.tolist(), "front": front, "position": pos}
    try:
        with C.quiet():
            m = ro.Model() if front == 'ro' else dro.Model(1)
            x = m.dvar(k)
            if pos == 'constraint':
                m.max(c @ x); m.st(rso.quad(x, Q) <= 1.0, x <= 10, x >= -10)
            else:
                m.min(rso.quad(x, Q) - c @ x); m.st(x <= 10, x >= -10)
            val = C.solve_model(m)
            xs = np.asarray(x.get(), dtype=float).reshape(-1)
    except C.SkipCase:
        ctx.count('quad:skipped'); return
    except Exception as ex:
        ctx.count('quad:raises:' + type(ex).__name__); return
    qv = float(xs @ Q @ xs)
    if pos == 'constraint' and qv > 1.0 + 1e-5:
        ctx.hit('constraint-violated:quad', {"x": xs.tolist(), "xQx": qv, "rhs": 1.0}, case); return
    if pos == 'objective' and abs((qv - float(c @ xs)) - val) > 1e-5 * (1 + abs(val)):
        ctx.hit('objective-value-differs:quad', {"reported": float(val), "evaluated": qv - float(c @ xs)}, case); return
    ctx.count('quad:ok:' + front + ':' + pos)


def run(ctx):
    for k in range(ctx.n(24, 300)):
        persp_probe(ctx, int(ctx.rng.integers(2 ** 31)))
    for k in range(ctx.n(40, 600)):
        power_probe(ctx, int(ctx.rng.integers(2 ** 31)))
    for k in range(ctx.n(24, 400)):
        quad_probe(ctx, int(ctx.rng.integers(2 ** 31)))
    # correspondence: the Lean atom encoders vs the real do_math() on random single- and multi-atom models (exact)
    C.run_difftest(ctx, 'test_atoms_soc.py', ctx.n(150, 3000), 'atom encodings A/M/I/E/S/Q/rsocone, bound folding, vtype vector')
    C.run_difftest(ctx, 'test_atoms_exp.py', ctx.n(120, 2500), 'atom encodings X/L/P/F/pexp/plog/KL')
    C.run_difftest(ctx, 'test_atoms_sum.py', ctx.n(80, 1500), 'summed exp/log atoms: exp(e).sum(axis) <= t, log(e).sum(axis) >= t')
    C.run_difftest(ctx, 'test_det_model.py', ctx.n(80, 1500), 'whole deterministic do_math(): several atoms, rows, bounds, vtypes, affine/atom objective')
    summed_forms(ctx)
    for k in range(ctx.n(300, 5000)):
        seed = int(ctx.rng.integers(2 ** 31))
        r = np.random.default_rng(seed)
        d = DM.gen(r, integer=(r.random() < 0.15))
        d['seed'] = seed
        check_one(ctx, d)


def replay(rp):
    case = rp['case']
    if 'persp_seed' in case:
        ctx = C.Ctx('C06', 'quick', 0)
        persp_probe(ctx, case['persp_seed'])
        return {"hits": [(h['key'], h['detail']) for h in ctx.hits], "fails": bool(ctx.hits)}
    if 'quad_seed' in case:
        ctx = C.Ctx('C06', 'quick', 0)
        quad_probe(ctx, case['quad_seed'])
        return {"hits": [(h['key'], h['detail']) for h in ctx.hits], "fails": bool(ctx.hits)}
    if 'power_seed' in case:
        ctx = C.Ctx('C06', 'quick', 0)
        power_probe(ctx, case['power_seed'])
        return {"hits": [(h['key'], h['detail']) for h in ctx.hits], "fails": bool(ctx.hits)}
    if 'desc' not in case:
        return {"fails": True, "case": case}
    d = case['desc']
    try:
        m, x, val, xs = solve_desc(d)
    except Exception as e:
        return {"error": str(e), "fails": True}
    viol = DM.violations(d, xs)
    ov = DM.np_obj(d, xs)
    return {"x": xs.tolist(), "violations": viol, "reported": float(val), "evaluated": ov,
            "fails": bool(viol) or abs(ov - val) > 1e-4 * (1 + abs(ov))}
