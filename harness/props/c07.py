"""C07 — the deterministic optimum is the true optimum; conic atom encodings are exact.

Theorems (Lean, RsomeV/Props/C07.lean): completeness of each atom encoding (the compiled program is no tighter than
the user's inequality), the IPCone tower (`split`) sound and complete for every weight list by induction on the
recursion, termination of `split`, bound folding (`minimum`/`maximum` over several bounds on one entry) and alignment of
the integrality vector.  Tie: IPCone(...).to_soc() and the bound/vtype assembly of the real do_math vs the Lean model.
Search: closed forms at pinned arguments over a parameter grid (p/q with numerators <= 9, weights <= 5, PSD/NSD
matrices with mixed-sign entries, multipliers), user-feasible sample points that beat the reported optimum, and
brute-force enumeration of small integer boxes."""
import itertools
import numpy as np
from harness import common as C
from harness import det_models as DM
from harness import atoms as AT

THEOREMS = {
    'RsomeV.Props.C06Model': ['RsomeV.C06Model.det_model_complete', 'RsomeV.C06Model.det_model_sound', 'RsomeV.C06Model.det_vtype_length'],
    'RsomeV.Props.IPCone': ['RsomeV.IPC.split_terminates', 'RsomeV.IPC.toSoc_isSome', 'RsomeV.IPC.toSoc_never_splits_singleton', 'RsomeV.IPC.ipcone_sound', 'RsomeV.IPC.ipcone_complete', 'RsomeV.IPC.pnorm_soc_sound', 'RsomeV.IPC.pnorm_soc_complete', 'RsomeV.IPC.power_sound', 'RsomeV.IPC.power_complete', 'RsomeV.IPC.gmean_sound', 'RsomeV.IPC.gmean_complete', 'RsomeV.IPC.pnorm_stdform_sound', 'RsomeV.IPC.pnorm_stdform_complete', 'RsomeV.IPC.power_stdform_sound', 'RsomeV.IPC.power_stdform_complete', 'RsomeV.IPC.gmean_stdform_sound', 'RsomeV.IPC.gmean_stdform_complete'],
    'RsomeV.Props.AtomsSoc': ['RsomeV.AtomsSoc.abs_complete', 'RsomeV.AtomsSoc.norm1_complete', 'RsomeV.AtomsSoc.norminf_complete', 'RsomeV.AtomsSoc.norm2_complete', 'RsomeV.AtomsSoc.square_complete', 'RsomeV.AtomsSoc.sumsqr_complete', 'RsomeV.AtomsSoc.rsocone_complete', 'RsomeV.AtomsSoc.foldBounds_spec', 'RsomeV.AtomsSoc.foldBounds_perm', 'RsomeV.AtomsSoc.foldBounds_feas', 'RsomeV.AtomsSoc.vtypeVector_length'],
    'RsomeV.Props.AtomsExp': ['RsomeV.AExp.exp_complete', 'RsomeV.AExp.log_complete', 'RsomeV.AExp.pexp_complete', 'RsomeV.AExp.plog_complete', 'RsomeV.AExp.entropy_complete', 'RsomeV.AExp.softplus_complete', 'RsomeV.AExp.kl_complete', 'RsomeV.AExp.encodeAtoms_complete'],
    'RsomeV.Props.AtomsSum': ['RsomeV.ASum.expsum_complete', 'RsomeV.ASum.logsum_complete', 'RsomeV.ASum.expsum_complete_groups', 'RsomeV.ASum.logsum_complete_groups'],
}
RULE = ("(a) pinned-argument solves `min t s.t. k*atom(A x0 + b) <= t` for every atom and a grid of parameters (integer and "
        "rational p-norm degrees, powers p/q, integer gmean weights, PSD/NSD quadratic matrices with mixed-sign entries, multipliers); "
        "(b) random deterministic models whose reported optimum is compared with 4000 user-feasible sample points; (c) mixed-integer "
        "models with LP/SOC atoms vs brute-force enumeration of the integer box; distinct by content hash")
TRUSTED = ["solvers return the optimum of the compiled program (tolerance 1e-5)", "scipy.linalg.sqrtm numerics in quad"]
ASSUMPTIONS = []


def pinned(ctx, desc, build_expr, truth, convex=True, n=3, x0=None, tol=2e-4):
    from rsome import ro
    ctx.search_cases += 1; ctx.evaluations += 1
    m = ro.Model(); x = m.dvar(n); t = m.dvar()
    case = {"pinned": desc, "x0": list(map(float, x0))}
    try:
        e = build_expr(x)
        if convex:
            m.min(t); m.st(e <= t)
        else:
            m.max(t); m.st(e >= t)
        m.st(x == np.asarray(x0))
        val = C.solve_model(m)
    except C.SkipCase:
        ctx.count('pinned:skipped'); return
    except Exception as ex:
        ctx.hit('pinned-compile-or-solve-error:' + desc.split('(')[0], {"error": type(ex).__name__ + ': ' + str(ex)[:200]}, case)
        return
    ctx.nontriv(case)
    if abs(val - truth) > tol * (1 + abs(truth)):
        ctx.hit('pinned-closed-form:' + desc.split('(')[0], {"solver_value": float(val), "closed_form": float(truth)}, case)
    else:
        ctx.count('pinned:ok:' + desc.split('(')[0])


def pinned_grid(ctx):
    import rsome as rso
    r = ctx.rng
    full = not ctx.quick
    x0s = [np.array([1.0, -2.0, 0.5]), np.array([0.5, 1.5, 2.0])]
    # p-norms: integer degrees and rational a/b > 1 (second-order-cone towers)
    degs = [3, 4, 5, 7] if ctx.quick else [3, 4, 5, 6, 7, 8, 9]
    rats = [(3, 2), (5, 2), (4, 3), (7, 3)] if ctx.quick else [(a, b) for a in range(2, 10) for b in range(1, a) if np.gcd(a, b) == 1 and a / b > 1 and b > 1]
    for x0 in x0s[:1 if ctx.quick else 2]:
        for p in degs:
            pinned(ctx, 'pnorm(%d)' % p, lambda x, p=p: rso.norm(x, p), float(np.sum(np.abs(x0) ** p) ** (1.0 / p)), x0=x0)
        for a, b in rats:
            pinned(ctx, 'pnorm(%d/%d)' % (a, b), lambda x, a=a, b=b: rso.pnorm(x, (a, b)), float(np.sum(np.abs(x0) ** (a / b)) ** (b / a)), x0=x0)
        for pq in ([(2, 1), (3, 1), (3, 2), (5, 3), (7, 2)] if ctx.quick else [(p, q) for p in range(2, 10) for q in range(1, p) if np.gcd(p, q) == 1]):
            p, q = pq
            pinned(ctx, 'power(%d/%d)' % pq, lambda x, p=p, q=q: rso.power(x[0:2], p, q).sum() if False else rso.power(x[0], p, q),
                   float(abs(x0[0]) ** (p / q)), x0=x0)
        for a, b in rats:
            pinned(ctx, 'pnorm_exc(%d/%d)' % (a, b), lambda x, a=a, b=b: rso.pnorm(x, (a, b), 'exc'), float(np.sum(np.abs(x0) ** (a / b)) ** (b / a)), x0=x0)
        for p in degs[:2]:
            pinned(ctx, 'pnorm_exc(%d)' % p, lambda x, p=p: rso.pnorm(x, p, 'exc'), float(np.sum(np.abs(x0) ** p) ** (1.0 / p)), x0=x0)
        # element-wise powers with array exponents, entries with p == q (plain |x|) mixed with p > q, negative arguments
        # (`power(x, p, q) <= t` with scalar t pins t at the largest entry)
        for pv, qv, xv in [([1, 3, 2], [1, 1, 1], [-9.0, 2.0, 0.5]), ([5, 2, 3], [2, 2, 3], [0.7, -3.0, -2.5]),
                           ([2, 1, 3], [1, 1, 2], [1.0, -4.0, 1.5]), ([3, 3, 2], [1, 3, 1], [1.0, -2.0, 1.0])]:
            ex = np.array(pv, dtype=float) / np.array(qv, dtype=float)
            pinned(ctx, 'power_arr(%s/%s)' % (pv, qv), lambda x, pv=pv, qv=qv: rso.power(x, np.array(pv), np.array(qv)),
                   float(np.max(np.abs(np.array(xv)) ** ex)), x0=np.array(xv))
        xp = np.abs(x0) + 0.5
        for beta in ([[1, 1, 1], [2, 1, 1], [3, 1, 2], [1, 5, 1]] if ctx.quick else [list(b) for b in itertools.product(range(1, 6), repeat=3)][::7]):
            pinned(ctx, 'gmean(%s)' % beta, lambda x, beta=beta: rso.gmean(x, beta),
                   float(np.prod(xp ** np.array(beta)) ** (1.0 / sum(beta))), convex=False, x0=xp)
        pinned(ctx, 'gmean2(1,3)', lambda x: rso.gmean(x[:2], [1, 3]), float((xp[0] * xp[1] ** 3) ** 0.25), convex=False, x0=xp)
    # quadratic forms: PSD / NSD with mixed-sign off-diagonal entries
    mats = [np.array([[2., -1.], [-1., 2.]]), np.array([[2., 1.], [1., 2.]]), np.array([[1., 0.], [0., 4.]]),
            np.array([[4., -2., 0.], [-2., 5., 1.], [0., 1., 3.]])]
    # non-symmetric matrices: x'Qx only depends on the symmetric part (an indefinite symmetric part must be refused)
    mats = mats + [np.array([[2., 2.], [0., 2.]]), np.array([[2., 0.], [3., 2.]]), np.array([[3., -1., 0.], [1., 2., 2.], [0., -2., 4.]])]
    # singular semidefinite matrices (zero diagonal entries, rank one, a zero row/column)
    mats = mats + [np.diag([0., 4., 0.]), np.diag([0., 1.]), np.outer([1., 0., 2.], [1., 0., 2.]), np.outer([0., 3.], [0., 3.]), np.diag([0., 0., 2.])]
    for Q in mats:
        k = Q.shape[0]
        xx = np.array([1.0, 2.0, -1.0])
        pinned(ctx, 'quad(psd%d)' % k, lambda x, Q=Q, k=k: rso.quad(x[:k], Q), float(xx[:k] @ Q @ xx[:k]), x0=xx)
        pinned(ctx, 'quad(nsd%d)' % k, lambda x, Q=Q, k=k: rso.quad(x[:k], -Q), float(-(xx[:k] @ Q @ xx[:k])), convex=False, x0=xx)
    # every catalogue atom with a multiplier and an offset
    for name, (xt, sign, quad, outk, dom, cone, build, npf) in AT.ATOMS.items():
        for mult in ([1.0, 4.0] if ctx.quick else [1.0, 4.0, 0.25, 9.0]):
            x0 = np.array([0.5, 1.0, 2.0]) if dom == 'pos' else np.array([0.5, -1.0, 2.0])
            arg = (lambda x: x) if outk != 'elem' else (lambda x: x[1:2])
            v = npf(x0 if outk != 'elem' else x0[1:2])
            truth = float(np.sum(mult * np.asarray(v))) + 0.5
            pinned(ctx, '%s(mult=%g)' % (name, mult), lambda x, b=build, a=arg, mult=mult: mult * b(a(x)) + 0.5, truth, convex=(sign == 1), x0=x0)


def quad_indefinite_refused(ctx):
    """a matrix whose quadratic form is indefinite (although its lower triangle alone looks definite) is not a convex atom"""
    import rsome as rso
    from rsome import ro
    for Q in (np.array([[1., 10.], [0., 1.]]), np.array([[1., 0.], [-6., 1.]]), np.array([[-1., 4.], [0., -1.]])):
        ctx.search_cases += 1; ctx.evaluations += 1
        m = ro.Model(); x = m.dvar(2)
        try:
            rso.quad(x, Q)
            ctx.hit('indefinite-quadratic-form-accepted', {"Q": Q.tolist()}, {"pinned": "quad(indefinite)", "Q": Q.tolist()})
        except ValueError:
            ctx.count('pinned:ok:quad-indefinite-refused')


def sample_better(ctx, d, val, xs, nsamp=4000):
    """a user-feasible point with a strictly better objective than the reported optimum refutes exactness"""
    r = np.random.default_rng(d['seed'] + 1)
    lo, hi = DM.box(d)
    lo = np.where(np.isfinite(lo), lo, -6.0); hi = np.where(np.isfinite(hi), hi, 6.0)
    pts = r.uniform(lo, hi, (nsamp, d['n']))
    # also points near the reported optimum and the construction point
    pts[:200] = np.clip(xs + r.normal(0, 0.05, (200, d['n'])), lo, hi)
    pts[200:400] = np.clip(np.array(d['x0']) + r.normal(0, 0.3, (200, d['n'])), lo, hi)
    vt = d['vtype'] if len(d['vtype']) > 1 else d['vtype'] * d['n']
    for j, t in enumerate(vt):
        if t != 'C':
            pts[:, j] = np.round(pts[:, j])
    best = None
    sgn = -1.0 if d['obj']['max'] else 1.0
    for p in pts:
        with np.errstate(all='ignore'):
            if DM.violations(d, p, tol=-1e-7):       # strictly inside the user's constraints
                continue
            ov = DM.np_obj(d, p)
        if not np.isfinite(ov):
            continue
        if sgn * ov < sgn * val - 1e-4 * (1 + abs(val)):
            if best is None or sgn * ov < sgn * best[0]:
                best = (float(ov), p.tolist())
    return best


def reset_history(ctx, seed):
    """solve a model with one conic atom, reset() it, state the plain LP on the same variables, solve again: the second optimum
    is the LP's (closed form by enumeration of the box vertices), nothing of the discarded formulation may survive"""
    import itertools
    import rsome as rso
    from rsome import ro
    r = np.random.default_rng(seed)
    ctx.search_cases += 1; ctx.evaluations += 1
    c = r.choice([1.0, 2.0, 3.0], 3); cap = float(r.choice([3.0, 4.0]))
    atoms = {'gmean': lambda x: rso.gmean(x, [3, 2, 1]) >= 0.9, 'pnorm72': lambda x: rso.pnorm(x, (7, 2)) <= 1.5, 'power53': lambda x: rso.power(x, 5, 3) <= 0.9,
             'norm2': lambda x: rso.norm(x) <= 1.5, 'sumsqr': lambda x: rso.sumsqr(x) <= 2.0, 'exp': lambda x: rso.exp(x[0]) + rso.exp(x[1]) <= 4.0 if False else rso.exp(x[0]) <= 2.0,
             'entropy': lambda x: rso.entropy(x + 0.5) >= 0.2, 'pnorm3': lambda x: rso.norm(x, 3) <= 1.5, 'abs': lambda x: abs(x[2]) <= 0.5}
    name = str(r.choice(list(atoms)))
    case = {"reset_seed": seed, "atom": name}
    # LP optimum: max c.x, 0 <= x <= 2, sum x <= cap  (greedy on sorted costs)
    rem = cap; truth = 0.0
    for ci in sorted(c, reverse=True):
        t_ = min(2.0, rem); truth += ci * t_; rem -= t_
    try:
        with C.quiet():
            m = ro.Model(); x = m.dvar(3)
            m.max(c @ x); m.st(x >= 0, x.sum() <= cap); m.st(atoms[name](x))
            try:
                C.solve_model(m)
            except RuntimeError:
                pass
            m.reset()
            m.st(x >= 0, x <= 2, x.sum() <= cap)
            val = C.solve_model(m)
    except C.SkipCase:
        ctx.count('reset:skipped'); return
    except Exception as ex:
        ctx.hit('reset-history-raises:' + type(ex).__name__, {"error": str(ex)[:200]}, case); return
    if abs(val - truth) > 1e-5 * (1 + abs(truth)):
        ctx.hit('optimum-after-reset-is-not-the-restated-model', {"reported": float(val), "lp_optimum": truth}, case)
    else:
        ctx.count('reset:ok:' + name)


def run(ctx):
    for k in range(ctx.n(20, 300)):
        reset_history(ctx, int(ctx.rng.integers(2 ** 31)))
    from harness.props import c06 as _c06
    for k in range(ctx.n(40, 600)):
        _c06.power_probe(ctx, int(ctx.rng.integers(2 ** 31)), tight=True)
    C.run_difftest(ctx, 'test_atoms_soc.py', ctx.n(150, 3000), 'atom encodings A/M/I/E/S/Q/rsocone, bound folding, vtype vector')
    C.run_difftest(ctx, 'test_atoms_exp.py', ctx.n(120, 2500), 'atom encodings X/L/P/F/pexp/plog/KL')
    C.run_difftest(ctx, 'test_atoms_sum.py', ctx.n(80, 1500), 'summed exp/log atoms: exp(e).sum(axis) <= t, log(e).sum(axis) >= t')
    C.run_difftest(ctx, 'test_ipcone.py', 0, 'IPCone.to_soc tower (to_pot / split)', args=(ctx.n(9, 14), ctx.n(3, 4)))
    C.run_difftest(ctx, 'test_atoms_ipcone.py', ctx.n(60, 1500), 'atom encodings G/T/C (p-norm, power, gmean via IPCone)')
    C.run_difftest(ctx, 'test_det_model.py', ctx.n(60, 1200), 'whole deterministic do_math(): several atoms, rows, bounds, vtypes, affine/atom objective')
    pinned_grid(ctx)
    quad_indefinite_refused(ctx)
    for k in range(ctx.n(120, 2500)):
        seed = int(ctx.rng.integers(2 ** 31))
        r = np.random.default_rng(seed)
        integer = r.random() < 0.3
        d = DM.gen(r, integer=integer); d['seed'] = seed
        ctx.search_cases += 1; ctx.evaluations += 1
        try:
            with C.quiet():
                m, x = DM.build(d)
            val = C.solve_model(m)
            xs = np.asarray(x.get(), dtype=float).reshape(-1)
        except C.SkipCase:
            ctx.count('skipped'); continue
        except Exception as ex:
            ctx.count('not-solved:' + type(ex).__name__); continue
        ctx.nontriv(d)
        viol = DM.violations(d, xs)
        if viol:
            # the returned point is outside the user's model: the compiled program is a relaxation, its optimum is not the true one
            ctx.hit('relaxation:' + viol[0][0].split()[0], {"violations": viol[:3], "x": xs.tolist(), "reported": float(val)}, {"desc": d})
            continue
        best = sample_better(ctx, d, val, xs, nsamp=ctx.n(1500, 6000))
        if best is not None:
            ctx.hit('better-feasible-point:' + ('integer' if integer else 'continuous'),
                    {"reported": float(val), "better_objective": best[0], "point": best[1]}, {"desc": d})
        else:
            ctx.count('sample:no-better-point' + (':integer' if integer else ''))
        if integer and all(t != 'C' for t in (d['vtype'] if len(d['vtype']) > 1 else d['vtype'] * d['n'])):
            brute(ctx, d, val)
        ctx.sample({"front": d['front'], "vtype": d['vtype'], "atoms": [a['name'] for a in d['atoms']]}, limit=4)


def brute(ctx, d, val):
    lo, hi = DM.box(d)
    rngs = [range(int(np.ceil(l - 1e-9)), int(np.floor(h + 1e-9)) + 1) for l, h in zip(lo, hi)]
    if np.prod([len(g) for g in rngs]) > 4000:
        return
    best = None
    sgn = -1.0 if d['obj']['max'] else 1.0
    for p in itertools.product(*rngs):
        p = np.array(p, dtype=float)
        with np.errstate(all='ignore'):
            if DM.violations(d, p, tol=1e-9):
                continue
            ov = DM.np_obj(d, p)
        if best is None or sgn * ov < sgn * best:
            best = ov
    if best is None:
        return
    if abs(best - val) > 1e-5 * (1 + abs(best)):
        ctx.hit('milp-differs-from-brute-force', {"reported": float(val), "brute_force": float(best)}, {"desc": d})
    else:
        ctx.count('brute:agree')


def replay(rp):
    if 'reset_seed' in rp['case']:
        ctx = C.Ctx('C07', 'quick', 0)
        reset_history(ctx, rp['case']['reset_seed'])
        return {"hits": [(h['key'], h['detail']) for h in ctx.hits], "fails": bool(ctx.hits)}
    if 'power_seed' in rp['case']:
        from harness.props import c06 as _c06
        ctx = C.Ctx('C07', 'quick', 0)
        _c06.power_probe(ctx, rp['case']['power_seed'], tight=True)
        return {"hits": [(h['key'], h['detail']) for h in ctx.hits], "fails": bool(ctx.hits)}
    return {"fails": True, "case": rp['case'], "note": "re-run bin/check C07 with the recorded seed; pinned cases are deterministic"}
