"""C05 — array algebra on variables is NumPy's: same shapes, same values.

Theorems (Lean, RsomeV/Props/C05.lean): row-major ravel/unravel are inverse; the broadcasting index map and the
literal index arithmetic of sparse_mul / sp_matmul / sp_lmatmul / sp_trans produce the selector of the semantic
operator.  Tie: (A) the Lean NdArray index maps vs real NumPy, (B) the Lean selectors vs the CSR matrices the real
subroutines build, on generated shapes.  Search: random expression trees (depth <= 5) over decision variables,
random variables, decision rules and constants evaluated through rsome's linear maps vs NumPy on assigned arrays."""
import numpy as np
from harness import common as C
from harness import arrays as AR

THEOREMS = {
    'RsomeV.Props.C05Expr': ['RsomeV.C05Expr.compile_correct', 'RsomeV.C05Expr.compile_shape', 'RsomeV.C05Expr.compile_isSome_iff',
                              'RsomeV.C05Expr.denote_shape', 'RsomeV.C05Expr.compile_ncols', 'RsomeV.C05Expr.denote_affine'],
    'RsomeV.Props.C05': [
        'RsomeV.C05.ravel_unravel', 'RsomeV.C05.unravel_ravel', 'RsomeV.C05.ravel_lt',
        'RsomeV.C05.bcastFlat_spec', 'RsomeV.C05.bcastFlat_spec_right', 'RsomeV.C05.broadcastShapes_dims',
        'RsomeV.C05.transposeSrc_spec', 'RsomeV.C05.transposeSrc_involutive', 'RsomeV.C05.transposeSrc_perm',
        'RsomeV.C05.matmulPairs_2d', 'RsomeV.C05.matmulPairs_batch', 'RsomeV.C05.matmulPairs_vec_left',
        'RsomeV.C05.matmulPairs_vec_right', 'RsomeV.C05.matmulPairs_vec_vec',
        'RsomeV.C05.pyRange_spec', 'RsomeV.C05.sliceIdx_lt', 'RsomeV.C05.sliceIdx_eq_pyRange', 'RsomeV.C05.sliceIdx_spec',
        'RsomeV.C05.normAxis_spec', 'RsomeV.C05.sumAxisGroups_flat', 'RsomeV.C05.sumAxisGroups_partition',
        'RsomeV.C05.diagIdx_spec', 'RsomeV.C05.diagIdx_order', 'RsomeV.C05.swapLastSrc_spec', 'RsomeV.C05.concatSrc_spec',
    ],
    'RsomeV.Props.C05Tri': ['RsomeV.C05Tri.tril_eval', 'RsomeV.C05Tri.triu_eval', 'RsomeV.C05Tri.diagFill_eval', 'RsomeV.C05Tri.trace_eval',
                            'RsomeV.C05Tri.tril_isSome_iff', 'RsomeV.C05Tri.triu_isSome_iff', 'RsomeV.C05Tri.diagFill_isSome_iff',
                            'RsomeV.C05Tri.trace_isSome_iff', 'RsomeV.C05Tri.tril_add_triu_eval', 'RsomeV.C05Tri.tril_idem',
                            'RsomeV.C05Tri.triu_idem', 'RsomeV.C05Tri.tril_triu_eq_diagFill', 'RsomeV.C05Tri.post_isSome_iff',
                            'RsomeV.C05Tri.aff_tri_correct'],
}
RULE = ("random expression trees of depth <= 5 over 1-2 decision arrays and 1-2 random arrays of rank 0-3 with every operator of "
        "the property (+ - * @ unary minus, indexing with ints/negatives/stepped slices/lists/masks/ellipsis/newaxis, reshape, "
        "flatten, T, sum(axis), concat, diag/tril/triu/trace, constants broadcasting in either direction, batched matmul), "
        "evaluated at an integer assignment; selector components on random shape pairs; non-trivial = tree with >= 2 operators "
        "and a non-scalar result; distinct by description string")
TRUSTED = ["NumPy is the specification of array semantics"]
ASSUMPTIONS = ["sparse-matrix operands are densified exactly as check_numeric does"]


def classify(desc, detail):
    """stable key of a failing input: which operator family on which shape class"""
    if 'diag(' in desc:
        return 'diag'
    if '@' in desc:
        return 'matmul'
    if '[' in desc:
        return 'getitem'
    return 'other'


def tree_case(ctx, seed, depth):
    r = np.random.default_rng(seed)
    env = AR.Env(r)
    AR.Node.created = made = []
    try:
        n = AR.random_tree(env, depth)
    except AR.OpError as ex:
        # rsome raised on an operation NumPy accepts: allowed by the property ("raises rather than ...")
        ctx.count('rsome-raises:' + ex.op + ':' + type(ex.ex).__name__)
        return
    except Exception as ex:
        ctx.count('tree-error:' + type(ex).__name__)
        return
    ctx.evaluations += 1
    xv, zv = env.assignment()
    case = {"seed": seed, "depth": depth, "expr": n.desc, "kind": n.kind}
    try:
        shp = AR.shape_of(n.e)
        val = AR.evaluate(n.e, xv, zv)
    except Exception as ex:
        ctx.hit('evaluation-error:' + type(ex).__name__, {"error": str(ex)[:200]}, case)
        return
    ctx.count('kind:' + n.kind); ctx.count('rank:%d' % n.v.ndim)
    if n.desc.count('(') >= 2 and n.v.ndim >= 1:
        ctx.nontriv(n.desc)
    if tuple(shp) != tuple(n.v.shape):
        ctx.hit('shape:' + classify(n.desc, None), {"rsome_shape": list(shp), "numpy_shape": list(n.v.shape)}, case)
        return
    if not np.allclose(np.asarray(val, dtype=float).reshape(n.v.shape), n.v, rtol=1e-9, atol=1e-9):
        ctx.hit('value:' + classify(n.desc, None), {"rsome": np.asarray(val).tolist(), "numpy": n.v.tolist()}, case)
        return
    # operands are values: every intermediate expression still denotes what it denoted when it was built
    AR.Node.created = None
    inner = [o for o in made if o is not n and o.kind != 'const' and o.v.size > 0]
    for o in inner[-6:]:
        try:
            ov = AR.evaluate(o.e, xv, zv)
        except Exception as ex:
            ctx.hit('operand-changed:evaluation-error:' + type(ex).__name__, {"operand": o.desc, "error": str(ex)[:200]}, case); return
        if tuple(AR.shape_of(o.e)) != tuple(o.v.shape) or not np.allclose(np.asarray(ov, dtype=float).reshape(o.v.shape), o.v, rtol=1e-9, atol=1e-9):
            ctx.hit('operand-changed-by-later-operation', {"operand": o.desc, "now": np.asarray(ov).tolist(), "was": o.v.tolist()}, case); return
    ctx.count('operands-rechecked', len(inner[-6:]))
    ctx.sample(case, limit=5)


MATMUL_SHAPES = [((2, 3), (3,)), ((3,), (3, 2)), ((2, 3), (3, 2)), ((2, 2, 3), (3, 2)), ((2, 3), (2, 3, 2)),
                 ((2, 2, 3), (2, 3, 2)), ((1, 2, 3), (2, 3, 2)), ((2, 1, 2, 3), (3, 3, 2)), ((3,), (2, 3, 2)),
                 ((2, 2, 3), (3,)), ((2, 1, 2, 3), (4, 3, 2)), ((4, 2, 3), (2, 1, 3, 2)), ((2, 1, 2, 3), (1, 4, 3, 2))]


def matmul_probe(ctx):
    """deterministic sweep of batched matmul shape pairs, constant on either side"""
    from rsome import ro
    r = np.random.default_rng(12345)
    for sa, sb in MATMUL_SHAPES:
        for side in ('var@const', 'const@var'):
            m = ro.Model()
            if side == 'var@const':
                x = m.dvar(sa); c = r.integers(-3, 4, sb).astype(float); xv = r.integers(-3, 4, sa).astype(float)
                ref = xv @ c
                case = {"expr": "x%s@c%s" % (sa, sb)}
                try:
                    e = x @ c
                except Exception as ex:
                    ctx.count('matmul-probe:raises:' + type(ex).__name__); continue
            else:
                x = m.dvar(sb); c = r.integers(-3, 4, sa).astype(float); xv = r.integers(-3, 4, sb).astype(float)
                ref = c @ xv
                case = {"expr": "c%s@x%s" % (sa, sb)}
                try:
                    e = c @ x
                except Exception as ex:
                    ctx.count('matmul-probe:raises:' + type(ex).__name__); continue
            ctx.evaluations += 1
            vec = np.zeros(m.rc_model.last); vec[x.first:x.first + x.size] = xv.reshape(-1)
            val = AR.evaluate(e, vec, np.zeros(0))
            both = len(sa) > 2 and len(sb) > 2 and sa[:-2] != sb[:-2]
            key = 'value:matmul-batch-broadcast-both-sides' if both else 'value:matmul'
            if tuple(e.shape) != ref.shape:
                ctx.hit('shape:matmul', {"rsome_shape": list(e.shape), "numpy_shape": list(ref.shape)}, case)
            elif not np.allclose(val, ref):
                ctx.hit(key, {"rsome": np.asarray(val).tolist(), "numpy": ref.tolist()}, case)
            else:
                ctx.count('matmul-probe:ok')


def run(ctx):
    for k in range(ctx.n(40, 600)):
        late_rvar_biaffine(ctx, int(ctx.rng.integers(2 ** 31)))
    # the expression language of Props/C05Expr (compile_correct): the Lean compiler vs the real API, linear and constant parts entry by entry
    C.run_difftest(ctx, 'test_aff_expr.py', ctx.n(400, 6000), 'array algebra: compiled (linear, const) of random expression trees')
    C.run_difftest(ctx, 'test_aff_tri.py', ctx.n(150, 3000), 'tril / triu / trace / diag(fill) of array expressions: compiled (linear, const), NumPy values, operands untouched')
    matmul_probe(ctx)
    for k in range(ctx.n(400, 8000)):
        tri_family(ctx, int(ctx.rng.integers(2 ** 31)))
    for k in range(ctx.n(2500, 60000)):
        seed = int(ctx.rng.integers(2 ** 31))
        tree_case(ctx, seed, int(ctx.rng.integers(1, 6)))
    ctx.search_cases = ctx.evaluations
    components(ctx)


def tri_family(ctx, seed):
    """tril / triu / diag(fill) / trace of 2-D affine expressions with non-zero constants, every offset, square and non-square
    shapes, on variables, slices and derived expressions; the operand must still denote the same array afterwards"""
    import rsome as rso
    from rsome import ro
    r = np.random.default_rng(seed)
    ctx.search_cases += 1; ctx.evaluations += 1
    rows, cols = int(r.integers(1, 5)), int(r.integers(1, 5))
    if r.random() < 0.3:
        rows, cols = max(rows, cols) + 1, min(rows, cols)          # tall arrays: sub-diagonals longer than the main one is wide
    m = ro.Model(); x = m.dvar((rows, cols)); w = m.dvar((cols, rows))
    xv = r.integers(-3, 4, (rows, cols)).astype(float); wv = r.integers(-3, 4, (cols, rows)).astype(float)
    vec = np.zeros(m.rc_model.last); vec[x.first:x.first + x.size] = xv.reshape(-1); vec[w.first:w.first + w.size] = wv.reshape(-1)
    cst = r.integers(-3, 4, (rows, cols)).astype(float)
    form = str(r.choice(['var', 'affine', 'affine', 'scaled', 'transposed', 'slice']))
    if form == 'var':
        e, v = x, xv
    elif form == 'affine':
        e, v = x + cst, xv + cst
    elif form == 'scaled':
        e, v = cst * x - 2 * cst + 1, cst * xv - 2 * cst + 1
    elif form == 'transposed':
        e, v = (w + cst.T).T, (wv + cst.T).T
    else:
        e, v = (x + cst)[:, ::-1], (xv + cst)[:, ::-1]
    op = str(r.choice(['tril', 'triu', 'diagfill', 'diag', 'diag', 'trace']))
    k = int(r.integers(-3, 4))
    case = {"seed": seed, "shape": [rows, cols], "form": form, "op": op, "k": k}
    try:
        if op == 'tril':
            out, ref = rso.tril(e, k), np.tril(v, k)
        elif op == 'triu':
            out, ref = rso.triu(e, k), np.triu(v, k)
        elif op == 'trace':
            out, ref = rso.trace(e), np.trace(v)
        elif op == 'diag':
            ref = np.diag(v, k)
            if ref.size == 0:
                ctx.count('tri:empty'); return
            out = rso.diag(e, k)
        else:
            mask = np.zeros((rows, cols), bool)
            for i in range(rows):
                if 0 <= i + k < cols:
                    mask[i, i + k] = True
            if not mask.any():
                ctx.count('tri:empty'); return
            out, ref = rso.diag(e, k, fill=True), np.where(mask, v, 0.0)
    except Exception as ex:
        ctx.count('tri:raises:%s:%s' % (op, type(ex).__name__)); return
    val = np.asarray(AR.evaluate(out, vec, np.zeros(0)), dtype=float)
    if tuple(AR.shape_of(out)) != tuple(np.shape(ref)):
        ctx.hit('shape:' + op, {"rsome_shape": list(AR.shape_of(out)), "numpy_shape": list(np.shape(ref))}, case); return
    if not np.allclose(val.reshape(np.shape(ref)), ref):
        ctx.hit('value:' + op, {"rsome": val.tolist(), "numpy": np.asarray(ref).tolist()}, case); return
    again = np.asarray(AR.evaluate(e, vec, np.zeros(0)), dtype=float)
    if tuple(AR.shape_of(e)) != v.shape or not np.allclose(again.reshape(v.shape), v):
        ctx.hit('operand-changed-by-later-operation', {"operand_now": again.tolist(), "operand_was": v.tolist()}, case); return
    ctx.count('tri:%s:ok' % op)


def late_rvar_biaffine(ctx, seed):
    """bi-affine expressions built before and after a further rvar() declaration combine to NumPy's value"""
    from rsome import ro
    r = np.random.default_rng(seed)
    ctx.search_cases += 1; ctx.evaluations += 1
    n = int(r.integers(1, 4)); k1 = int(r.integers(1, 3)); k2 = int(r.integers(1, 4))
    m = ro.Model(); x = m.dvar(n); z1 = m.rvar(k1 if k1 > 1 else 1) if k1 > 1 else m.rvar(1)
    a = r.integers(-2, 3, n).astype(float); c1 = r.integers(-2, 3, n).astype(float)
    how1 = str(r.choice(['x+z', 'x*z', 'a*z+x']))
    zz1 = z1[0] if z1.size > 1 or True else z1
    e1 = {'x+z': lambda: x + zz1, 'x*z': lambda: x * zz1 + c1, 'a*z+x': lambda: a * zz1 + x}[how1]()
    z2 = m.rvar(k2)
    w = r.integers(-2, 3, k2).astype(float)
    e2 = (x * (w @ z2)) if r.random() < 0.5 else (x + w @ z2)
    op = str(r.choice(['e1+e2', 'e2+e1', 'e1-e2', 'e2-e1']))
    case = {"late_seed": seed, "first": how1, "combine": op, "n": n, "random_vars": [int(z1.size), k2]}
    try:
        e3 = {'e1+e2': lambda: e1 + e2, 'e2+e1': lambda: e2 + e1, 'e1-e2': lambda: e1 - e2, 'e2-e1': lambda: e2 - e1}[op]()
    except Exception as ex:
        ctx.hit('late-rvar-biaffine-raises:' + type(ex).__name__, {"error": str(ex)[:160]}, case); return
    xv = r.integers(-3, 4, n).astype(float); z1v = r.integers(-3, 4, int(z1.size)).astype(float); z2v = r.integers(-3, 4, k2).astype(float)
    v1 = {'x+z': xv + z1v[0], 'x*z': xv * z1v[0] + c1, 'a*z+x': a * z1v[0] + xv}[how1]
    v2 = (xv * (w @ z2v)) if 'x * ' in str(type(e2)) or False else None
    # value of e2 from its own record (it was built after all random variables existed) - evaluated through the same routine
    def value(e):
        zv = np.concatenate([z1v, z2v])
        ra = e.raffine; af = e.affine
        L = C.dense(ra.linear); xx = np.zeros(L.shape[1]); xx[x.first:x.first + n] = xv
        R = (L @ xx).reshape(ra.shape) + ra.const
        Rz = R[:, :zv.size] @ zv[:R.shape[1]]
        La = C.dense(af.linear) if hasattr(af, 'linear') else None
        av = (La @ xx[:La.shape[1]]).reshape(-1) + np.asarray(af.const).reshape(-1) if La is not None else np.asarray(af).reshape(-1)
        return Rz + av
    want2 = value(e2)
    want = {'e1+e2': v1 + want2, 'e2+e1': v1 + want2, 'e1-e2': v1 - want2, 'e2-e1': want2 - v1}[op]
    got = value(e3)
    if got.shape != want.shape or not np.allclose(got, want):
        ctx.hit('late-rvar-biaffine-wrong-value', {"got": got.tolist(), "numpy": want.tolist()}, case)
    else:
        ctx.count('late-rvar:ok')


def search_only(ctx):
    """escalated search (a correspondence or obligation broke): more and deeper expression trees, stop at the first hit"""
    for k in range(ctx.n(2500, 40000)):
        tree_case(ctx, int(ctx.rng.integers(2 ** 31)), depth=int(ctx.rng.integers(1, 6)))
        if ctx.hits:
            break


def _rows(M, first=0):
    """per-row sorted (column - first) lists of a CSR matrix"""
    import scipy.sparse as sp
    M = sp.csr_matrix(M)
    return [[int(c) - first for c in M.indices[M.indptr[i]:M.indptr[i + 1]]] for i in range(M.shape[0])]


def components(ctx):
    """(A) Lean index maps vs real NumPy; (B) Lean index maps vs the selector matrices rsome builds"""
    from harness import nd_cases
    from rsome import ro
    from rsome.subroutines import sparse_mul, sp_matmul, sp_lmatmul, sp_trans
    import rsome as rso
    r = ctx.rng
    # ---- (A) ---------------------------------------------------------------------------------
    cases = nd_cases.gen_cases(int(r.integers(2 ** 31)), ctx.n(40, 1500))
    outs = C.lean_run([c[0] for c in cases])
    for (req, exp), out in zip(cases, outs):
        ctx.corr('NdArray model vs NumPy: ' + req['op'], req, exp, out)
        ctx.count('nd:' + req['op'])
    # ---- (B) ---------------------------------------------------------------------------------
    reqs, codes, descs = [], [], []

    def rshape(maxrank=3, mind=1):
        return [int(v) for v in r.integers(mind, 4, int(r.integers(0, maxrank + 1)))]

    for _ in range(ctx.n(120, 4000)):
        kind = str(r.choice(['mul', 'matmul', 'lmatmul', 'trans', 'getitem', 'sum', 'concat', 'diag']))
        m = ro.Model()
        try:
            if kind == 'mul':
                t = rshape()
                sa = [d if r.random() < 0.6 else 1 for d in t][int(r.integers(0, len(t) + 1)):]
                sb = [d if r.random() < 0.6 else 1 for d in t][int(r.integers(0, len(t) + 1)):]
                x = m.dvar(tuple(sb)).to_affine()
                nd = (np.arange(int(np.prod(sa, dtype=int))) + 1.0).reshape(sa)
                S = sparse_mul(nd, x)
                S = S.tocsr()
                code = {"ia": [int(v) - 1 for v in S.data], "ib": [int(c) for c in S.indices]}
                reqs.append({"op": "nd_bcast", "a": sa, "b": sb}); codes.append(code); descs.append({"selector": "sparse_mul", "a": sa, "b": sb})
            elif kind in ('matmul', 'lmatmul'):
                n_, m_, p_ = int(r.integers(1, 4)), int(r.integers(1, 4)), int(r.integers(1, 4))
                t = rshape(maxrank=2)
                ba = [d if r.random() < 0.6 else 1 for d in t][int(r.integers(0, len(t) + 1)):]
                bb = [d if r.random() < 0.6 else 1 for d in t][int(r.integers(0, len(t) + 1)):]
                a = ba + [m_, n_]; b = bb + [n_, p_]
                u = r.random()
                if u < 0.15:
                    a = [n_]
                elif u < 0.3:
                    b = [n_]
                shape = (np.zeros(a) @ np.zeros(b)).shape
                if kind == 'matmul':      # ndarray(a) @ affine(b)
                    x = m.dvar(tuple(b)).to_affine()
                    nd = (np.arange(int(np.prod(a, dtype=int))) + 1.0).reshape(a)
                    S = sp_matmul(nd, x, shape).tocsr()
                    pairs = [[[int(S.data[k]) - 1, int(S.indices[k])] for k in range(S.indptr[i], S.indptr[i + 1])] for i in range(S.shape[0])]
                else:                     # affine(a) @ ndarray(b)
                    x = m.dvar(tuple(a)).to_affine()
                    nd = (np.arange(int(np.prod(b, dtype=int))) + 1.0).reshape(b)
                    S = sp_lmatmul(nd, x, shape).tocsr()
                    pairs = [[[int(S.indices[k]), int(S.data[k]) - 1] for k in range(S.indptr[i], S.indptr[i + 1])] for i in range(S.shape[0])]
                if len(shape) == 0:
                    continue      # both operands 1-D: the code returns csr_matrix(ndarray) (a plain dot product)
                code = {"shape": [int(v) for v in shape], "pairs": pairs}
                reqs.append({"op": "nd_matmul", "a": a, "b": b}); codes.append(code); descs.append({"selector": "sp_" + kind, "a": a, "b": b})
            elif kind == 'trans':
                s_ = rshape(maxrank=3)
                x = m.dvar(tuple(s_)).to_affine()
                S = sp_trans(x).tocsr()
                code = {"shape": list(reversed(s_)), "src": [int(c) for c in S.indices]}
                reqs.append({"op": "nd_transpose", "shape": s_}); codes.append(code); descs.append({"selector": "sp_trans", "shape": s_})
            elif kind == 'sum':
                s_ = rshape(maxrank=3)
                if not s_:
                    continue
                ax = int(r.integers(-len(s_), len(s_)))
                x = m.dvar(tuple(s_))
                e = x.to_affine().sum(axis=ax)
                code = {"shape": [int(v) for v in e.shape], "groups": [sorted(g) for g in _rows(e.linear, x.first)]}
                reqs.append({"op": "nd_sum_axis", "shape": s_, "axis": ax}); codes.append(code); descs.append({"selector": "Affine.sum", "shape": s_, "axis": ax})
            elif kind == 'concat':
                sa = rshape(maxrank=3)
                if not sa:
                    continue
                ax = int(r.integers(0, len(sa)))
                sb = list(sa); sb[ax] = int(r.integers(1, 4))
                x = m.dvar(tuple(sa)); y = m.dvar(tuple(sb))
                e = rso.concat((x, y), axis=ax)
                src = []
                for row in _rows(e.linear):
                    c = row[0]
                    src.append([0, c - x.first] if c < y.first else [1, c - y.first])
                code = {"shape": [int(v) for v in e.shape], "src": src}
                reqs.append({"op": "nd_concat", "a": sa, "b": sb, "axis": ax}); codes.append(code); descs.append({"selector": "concat", "a": sa, "b": sb, "axis": ax})
            elif kind == 'diag':
                rows, cols = int(r.integers(1, 5)), int(r.integers(1, 5))
                k = int(r.integers(-3, 4))
                if len(np.diag(np.zeros((rows, cols)), k)) == 0:
                    continue
                x = m.dvar((rows, cols))
                e = rso.diag(x, k)
                code = {"idx": [row[0] for row in _rows(e.linear, x.first)]}
                reqs.append({"op": "nd_diag", "rows": rows, "cols": cols, "k": k}); codes.append(code); descs.append({"selector": "Affine.diag", "rows": rows, "cols": cols, "k": k})
            elif kind == 'getitem':
                s_ = rshape(maxrank=3)
                if not s_:
                    continue
                x = m.dvar(tuple(s_))
                ix = []
                per_axis = []
                for n_ in s_:
                    if r.random() < 0.3:
                        i = int(r.integers(-n_, n_)); ix.append(i); per_axis.append(('int', i, n_))
                    else:
                        a_ = r.choice([None, 0, 1, -1, -n_, n_ - 1, n_ + 2, -n_ - 2]); b_ = r.choice([None, n_, n_ - 1, -1, 1, 0, n_ + 3, -n_ - 1]); c_ = r.choice([None, 1, 2, -1, -2, 3])
                        sl = slice(None if a_ is None else int(a_), None if b_ is None else int(b_), None if c_ is None else int(c_))
                        ix.append(sl); per_axis.append(('slice', sl, n_))
                ref = np.arange(int(np.prod(s_))).reshape(s_)[tuple(ix)]
                if ref.size == 0:
                    continue
                e = x[tuple(ix)].to_affine()
                got = [row[0] for row in _rows(e.linear, x.first)]
                # the Lean model computes every per-axis slice; the row-major product of the per-axis lists is the gather
                sub = [{"op": "nd_slice", "n": n_, "start": v.start, "stop": v.stop, "step": v.step} for kind_, v, n_ in per_axis if kind_ == 'slice']
                souts = C.lean_run(sub) if sub else []
                lists = []; si = 0
                for kind_, v, n_ in per_axis:
                    if kind_ == 'int':
                        lists.append([v % n_])
                    else:
                        lists.append(souts[si]['idx']); si += 1
                import itertools
                strides = [int(np.prod(s_[i + 1:], dtype=int)) for i in range(len(s_))]
                model = [sum(i * st for i, st in zip(combo, strides)) for combo in itertools.product(*lists)]
                ctx.corr('Affine.__getitem__ (basic slicing) vs Lean sliceIdx', {"shape": s_, "index": AR.index_repr(tuple(ix))},
                         {"gather": got, "shape": [int(v) for v in e.shape]}, {"gather": model, "shape": [int(v) for v in ref.shape]})
                ctx.count('sel:getitem')
                continue
        except Exception as ex:
            ctx.count('selector-error:' + kind + ':' + type(ex).__name__)
            continue
    outs = C.lean_run(reqs)
    for rq, code, desc, out in zip(reqs, codes, descs, outs):
        ctx.corr('selector ' + desc['selector'] + ' vs Lean ' + rq['op'], desc, code, out, list(code.keys()))
        ctx.count('sel:' + desc['selector'])


def replay(rp):
    case = rp['case']
    if 'seed' not in case:
        return {"fails": True, "case": case, "note": "deterministic matmul probe: re-run bin/check C05"}
    ctx = C.Ctx('C05', 'quick', 0)
    tree_case(ctx, case['seed'], case['depth'])
    return {"hits": ctx.hits, "fails": bool(ctx.hits)}
