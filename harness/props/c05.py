"""C05 — array algebra on variables is NumPy's: same shapes, same values.

Theorems (Lean, RsomeV/Props/C05.lean): row-major ravel/unravel are inverse; the broadcasting index map and the
literal index arithmetic of sparse_mul / sp_matmul / sp_lmatmul / sp_trans produce the selector of the semantic
operator.  Tie: (A) the Lean NdArray index maps vs real NumPy, (B) the Lean selectors vs the CSR matrices the real
subroutines build, on generated shapes.  Search: random expression trees (depth <= 5) over decision variables,
random variables, decision rules and constants evaluated through rsome's linear maps vs NumPy on assigned arrays."""
import numpy as np
from harness import common as C
from harness import arrays as AR

THEOREMS = {
    'RsomeV.Props.C05': [
    ],
}
RULE = ("random expression trees of depth <= 5 over 1-2 decision arrays and 1-2 random arrays of rank 0-3 with every operator of "
        "the property (+ - * @ unary minus, indexing with ints/negatives/stepped slices/lists/masks/ellipsis/newaxis, reshape, "
        "flatten, T, sum(axis), concat, diag/tril/triu/trace, constants broadcasting in either direction, batched matmul), "
        "evaluated at an integer assignment; selector components on random shape pairs; non-trivial = tree with >= 2 operators "
        "and a non-scalar result; distinct by description string")
TRUSTED = ["NumPy is the specification of array semantics"]
ASSUMPTIONS = ["sparse-matrix operands are densified exactly as check_numeric does"]


def classify(desc, detail):
    """stable key of a failing input: which operator family on which shape class"""
    if 'diag(' in desc:
        return 'diag'
    if '@' in desc:
        return 'matmul'
    if '[' in desc:
        return 'getitem'
    return 'other'


def tree_case(ctx, seed, depth):
    r = np.random.default_rng(seed)
    env = AR.Env(r)
    try:
        n = AR.random_tree(env, depth)
    except AR.OpError as ex:
        # rsome raised on an operation NumPy accepts: allowed by the property ("raises rather than ...")
        ctx.count('rsome-raises:' + ex.op + ':' + type(ex.ex).__name__)
        return
    except Exception as ex:
        ctx.count('tree-error:' + type(ex).__name__)
        return
    ctx.evaluations += 1
    xv, zv = env.assignment()
    case = {"seed": seed, "depth": depth, "expr": n.desc, "kind": n.kind}
    try:
        shp = AR.shape_of(n.e)
        val = AR.evaluate(n.e, xv, zv)
    except Exception as ex:
        ctx.hit('evaluation-error:' + type(ex).__name__, {"error": str(ex)[:200]}, case)
        return
    ctx.count('kind:' + n.kind); ctx.count('rank:%d' % n.v.ndim)
    if n.desc.count('(') >= 2 and n.v.ndim >= 1:
        ctx.nontriv(n.desc)
    if tuple(shp) != tuple(n.v.shape):
        ctx.hit('shape:' + classify(n.desc, None), {"rsome_shape": list(shp), "numpy_shape": list(n.v.shape)}, case)
        return
    if not np.allclose(np.asarray(val, dtype=float).reshape(n.v.shape), n.v, rtol=1e-9, atol=1e-9):
        ctx.hit('value:' + classify(n.desc, None), {"rsome": np.asarray(val).tolist(), "numpy": n.v.tolist()}, case)
        return
    ctx.sample(case, limit=5)


MATMUL_SHAPES = [((2, 3), (3,)), ((3,), (3, 2)), ((2, 3), (3, 2)), ((2, 2, 3), (3, 2)), ((2, 3), (2, 3, 2)),
                 ((2, 2, 3), (2, 3, 2)), ((1, 2, 3), (2, 3, 2)), ((2, 1, 2, 3), (3, 3, 2)), ((3,), (2, 3, 2)),
                 ((2, 2, 3), (3,)), ((2, 1, 2, 3), (4, 3, 2)), ((4, 2, 3), (2, 1, 3, 2)), ((2, 1, 2, 3), (1, 4, 3, 2))]


def matmul_probe(ctx):
    """deterministic sweep of batched matmul shape pairs, constant on either side"""
    from rsome import ro
    r = np.random.default_rng(12345)
    for sa, sb in MATMUL_SHAPES:
        for side in ('var@const', 'const@var'):
            m = ro.Model()
            if side == 'var@const':
                x = m.dvar(sa); c = r.integers(-3, 4, sb).astype(float); xv = r.integers(-3, 4, sa).astype(float)
                ref = xv @ c
                case = {"expr": "x%s@c%s" % (sa, sb)}
                try:
                    e = x @ c
                except Exception as ex:
                    ctx.count('matmul-probe:raises:' + type(ex).__name__); continue
            else:
                x = m.dvar(sb); c = r.integers(-3, 4, sa).astype(float); xv = r.integers(-3, 4, sb).astype(float)
                ref = c @ xv
                case = {"expr": "c%s@x%s" % (sa, sb)}
                try:
                    e = c @ x
                except Exception as ex:
                    ctx.count('matmul-probe:raises:' + type(ex).__name__); continue
            ctx.evaluations += 1
            vec = np.zeros(m.rc_model.last); vec[x.first:x.first + x.size] = xv.reshape(-1)
            val = AR.evaluate(e, vec, np.zeros(0))
            both = len(sa) > 2 and len(sb) > 2 and sa[:-2] != sb[:-2]
            key = 'value:matmul-batch-broadcast-both-sides' if both else 'value:matmul'
            if tuple(e.shape) != ref.shape:
                ctx.hit('shape:matmul', {"rsome_shape": list(e.shape), "numpy_shape": list(ref.shape)}, case)
            elif not np.allclose(val, ref):
                ctx.hit(key, {"rsome": np.asarray(val).tolist(), "numpy": ref.tolist()}, case)
            else:
                ctx.count('matmul-probe:ok')


def run(ctx):
    matmul_probe(ctx)
    for k in range(ctx.n(700, 25000)):
        seed = int(ctx.rng.integers(2 ** 31))
        tree_case(ctx, seed, int(ctx.rng.integers(1, 6)))
    ctx.search_cases = ctx.evaluations
    components(ctx)


def components(ctx):
    pass


def replay(rp):
    case = rp['case']
    if 'seed' not in case:
        return {"fails": True, "case": case, "note": "deterministic matmul probe: re-run bin/check C05"}
    ctx = C.Ctx('C05', 'quick', 0)
    tree_case(ctx, case['seed'], case['depth'])
    return {"hits": ctx.hits, "fails": bool(ctx.hits)}
