"""C13 — decisions depend on uncertainty exactly as declared (non-anticipativity).

Theorems (Lean, RsomeV/Props/C13.lean): every successful sequence of evtadapt calls leaves a partition
and a re-declared / unknown scenario is rejected; comb_set is the coarsest common refinement; rule_var
shares columns between two scenarios iff they are in the same event; a coefficient column exists iff the
dependency was declared.  Tie: random adapt sequences (valid and illegal), partition pairs and rule_var
index structures on the real API vs the Lean model.  Search: solve small models and perturb undeclared
random components / move within an event."""
import numpy as np
from harness import common as C
from harness import gen

THEOREMS = {
    'RsomeV.Props.C13': [
        'RsomeV.C13.evtadapt_partition', 'RsomeV.C13.evtadapt_rejects_empty',
        'RsomeV.C13.run_events',
        'RsomeV.C13.evtadapt_rejects_redeclared',
        'RsomeV.C13.combSet_refines',
        'RsomeV.C13.rule_var_shares',
        'RsomeV.C13.rule_var_disjoint',
        'RsomeV.C13.mask_respected',
        'RsomeV.C13.coefRank_injective',
        'RsomeV.C13.affadapt_rejects_redeclared',
        'RsomeV.C13.affadapt_redeclared_error',
        'RsomeV.C13.affadapt_int_error',
    ],
}
RULE = ("random sequences of adapt() calls on dro decisions (1-6 scenarios, integer and string labels; valid subsets, "
        "re-declared, unknown, duplicated and empty events), random partition pairs for comb_set, random dec-var families "
        "(sizes, partitions, dependency masks incl. slices) through rule_var(), random ro decision-rule adapt sequences incl. "
        "adapt-after-use; non-trivial = at least two events or one declared dependency; distinct by content hash")
TRUSTED = ["pandas label lookup of scenario names (KeyError for unknown labels)"]
ASSUMPTIONS = []


def rand_partition(r, S):
    lab = r.integers(0, max(1, int(r.integers(1, S + 1))), S)
    groups = {}
    for s, l in enumerate(lab):
        groups.setdefault(int(l), []).append(s)
    ev = list(groups.values())
    r.shuffle(ev)
    return [list(map(int, e)) for e in ev]


def gen_calls(r, S):
    """a sequence of evtadapt argument lists (scenario indices); mostly valid"""
    undeclared = list(range(S))
    calls = []
    for _ in range(int(r.integers(1, 6))):
        u = r.random()
        if u < 0.7 and undeclared:
            k = int(r.integers(1, len(undeclared) + 1))
            ev = sorted(int(v) for v in r.choice(undeclared, k, replace=False))
            if r.random() < 0.3:
                r.shuffle(ev)
            for s in ev:
                undeclared.remove(s)
            calls.append([int(v) for v in ev])
        elif u < 0.82:
            declared = [s for s in range(S) if s not in undeclared]
            if declared:
                calls.append([int(r.choice(declared))]); break      # re-declared scenario: must raise
            calls.append([])
        elif u < 0.88:
            calls.append([S + int(r.integers(0, 3))]); break          # unknown scenario
        elif u < 0.94 and undeclared:
            s = int(r.choice(undeclared)); calls.append([s, s]); break   # duplicate inside one call
        else:
            calls.append([])
    return calls


def real_evt_seq(S, calls, labels, via=None):
    """labels: None (scenarios 0..S-1), a list of strings or a permutation of 0..S-1; via: None (labels passed as they are),
    'loc' / 'iloc' (a scenario object taken from the ambiguity set by label / by position)"""
    from rsome import dro
    m = dro.Model(labels if labels else S)
    x = m.dvar(2)
    fset = m.ambiguity() if via else None
    res = []
    for c in calls:
        known = all(i < S for i in c)
        if labels:
            arg = [labels[i] if i < S else ('zz%d' % i if isinstance(labels[0], str) else S + i) for i in c]
        else:
            arg = list(c)
        before = [list(map(int, e)) for e in x.event_adapt]
        try:
            if via and known and c:
                x.adapt(fset.loc[arg] if via == 'loc' else fset.iloc[list(c)])
            elif len(arg) == 1 and not labels:
                x.adapt(np.int64(arg[0]) if (c[0] % 2 and known) else arg[0])          # NumPy integers are scenario numbers too
            else:
                x.adapt(arg)
            res.append({"ok": [list(map(int, e)) for e in x.event_adapt]})
        except Exception as e:
            res.append({"err": type(e).__name__})
            after = [list(map(int, e_)) for e_ in x.event_adapt]
            if after != before:
                # a rejected declaration must leave the events as they were
                res[-1] = {"err": type(e).__name__, "events_changed_by_rejected_call": {"before": before, "after": after}}
            break
    return res


def run(ctx):
    r = ctx.rng
    reqs, codes, cases, comps = [], [], [], []
    # ---- A. evtadapt sequences ---------------------------------------------------------------
    for _ in range(ctx.n(250, 6000)):
        S = int(r.integers(1, 7))
        calls = gen_calls(r, S)
        u = r.random()
        labels = None if u < 0.4 else (['s%d' % i for i in range(S)] if u < 0.7 else [int(v) for v in r.permutation(S)])
        via = None if r.random() < 0.5 else ('loc' if r.random() < 0.5 else 'iloc')
        case = {"S": S, "calls": calls, "labels": labels, "via": via}
        try:
            code = {"results": real_evt_seq(S, calls, labels, via)}
        except Exception as e:
            code = {"results": [{"err": "harness:" + type(e).__name__}]}
        reqs.append({"op": "evt_seq", "S": S, "calls": calls}); codes.append(code); cases.append(case); comps.append('DecVar.evtadapt')
        last = code['results'][-1] if code['results'] else {}
        ctx.count('evt:' + ('err:' + last['err'] if 'err' in last else 'ok'))
        if 'ok' in last and len(last['ok']) >= 2:
            ctx.nontriv(case)
    # ---- B. comb_set --------------------------------------------------------------------------
    from rsome.subroutines import comb_set
    for _ in range(ctx.n(250, 6000)):
        S = int(r.integers(1, 8))
        p, q = rand_partition(r, S), rand_partition(r, S)
        if r.random() < 0.08:
            # many events on both sides (two-digit event numbers), declared in different orders
            S = int(r.integers(11, 15))
            p = [[int(v)] for v in r.permutation(S)]; q = [[int(v)] for v in r.permutation(S)]
            if r.random() < 0.5:
                a_, b_ = (int(v) for v in r.choice(S, 2, replace=False))
                q = [e for e in q if e != [a_] and e != [b_]] + [sorted([a_, b_])]
            else:
                # two scenarios whose pairs of event numbers read the same when written one after the other without a separator:
                # (1, 1k) and (11, k)
                S = max(S, 12)
                k_ = int(r.integers(0, S - 10)); sa, sb = (int(v) for v in r.choice(S, 2, replace=False))
                rest_p = [int(v) for v in r.permutation(S) if v not in (sa, sb)]; rest_q = [int(v) for v in r.permutation(S) if v not in (sa, sb)]
                pp = [None] * S; qq = [None] * S
                pp[1], pp[11] = sa, sb
                if 10 + k_ != k_:
                    qq[10 + k_], qq[k_] = sa, sb
                for lst, rest in ((pp, rest_p), (qq, rest_q)):
                    it = iter(rest)
                    for i_ in range(S):
                        if lst[i_] is None:
                            lst[i_] = next(it)
                p = [[v] for v in pp]; q = [[v] for v in qq]
        code = {"events": [list(map(int, e)) for e in comb_set(p, q)]}
        reqs.append({"op": "comb_set", "p": p, "q": q}); codes.append(code); cases.append({"p": p, "q": q}); comps.append('comb_set')
        ctx.count('comb:groups=%d' % min(len(code['events']), 4))
        if len(code['events']) >= 2:
            ctx.nontriv({"p": p, "q": q})
    # ---- C. rule_var column structure -------------------------------------------------------
    for _ in range(ctx.n(120, 2500)):
        try:
            rq1, c1, rq2, c2, case = real_rule_var(r)
        except Exception as e:
            ctx.count('rule_var:harness-error:' + type(e).__name__); continue
        for pb in case.get('problems', []):
            ctx.hit('affine-adaptation-not-as-declared', pb, {k: v for k, v in case.items() if k != 'problems'})
        reqs.append(rq1); codes.append(c1); cases.append(case); comps.append('dro.Model.rule_var const columns')
        if rq2 is not None:
            reqs.append(rq2); codes.append(c2); cases.append(case); comps.append('dro.Model.rule_var coefficient columns')
            ctx.count('rule_var:affine')
        else:
            ctx.count('rule_var:static')
        ctx.nontriv(case)
    # ---- D. ro decision rule adapt sequences ------------------------------------------------
    for _ in range(ctx.n(150, 3000)):
        rq, code, case = real_ldr_seq(r)
        if case.get('structure_problem'):
            ctx.hit('ldr-structure-not-as-declared', case['structure_problem'], {k: v for k, v in case.items() if k != 'structure_problem'})
        reqs.append(rq); codes.append(code); cases.append(case); comps.append('DecRule.adapt')
        ctx.count('ldr:' + ','.join(sorted(set(code['results']))) if code['results'] else 'ldr:none')
    # ---- E. adapt() targets that are not random variables of the model ------------------------------------
    def illegal_targets():
        from rsome import ro, dro
        out = []
        m = ro.Model(); z = m.rvar(3); x = m.dvar(2); y = m.ldr()
        out.append(('ro rule adapted to a decision variable', lambda: y.adapt(x[0])))
        m2 = ro.Model(); y2 = m2.ldr(2); x2 = m2.dvar(3)
        out.append(('ro rule slice adapted to a decision array', lambda: y2[0].adapt(x2)))
        d = dro.Model(3); xd = d.dvar(); wd = d.dvar(2)
        out.append(('dro decision adapted to an empty list of scenarios', lambda: xd.adapt([])))
        out.append(('dro decision adapted to a decision variable', lambda: xd.adapt(wd)))
        return out
    # a refused declaration leaves the decision as it was (shape, static / adaptive flag), and what was legal before stays legal
    def refused_adapt_state():
        from rsome import dro
        d = dro.Model(2); z = d.rvar(2); y = d.dvar(); b = d.dvar(2, vtype='B'); y.adapt(z)
        for f_ in (lambda: y.adapt(z[0]), lambda: b.adapt(z)):
            try:
                f_()
                return 'an illegal adapt() was accepted'
            except Exception:
                pass
        if tuple(y.shape) != () or not b.fixed:
            return 'after refused adapt() calls: y.shape = %r, b.fixed = %r' % (tuple(y.shape), b.fixed)
        try:
            _ = b * z
        except Exception as ex:
            return 'b * z refused after a refused b.adapt(z): ' + type(ex).__name__
        return None
    ctx.search_cases += 1; ctx.evaluations += 1
    pb = refused_adapt_state()
    if pb:
        ctx.hit('rejected-declaration-changed-the-decision', {"what": pb}, {"illegal_target": "refused affine adapt"})
    for name, f in illegal_targets():
        ctx.search_cases += 1; ctx.evaluations += 1
        try:
            f()
            ctx.hit('illegal-adaptation-target-accepted', {"what": name}, {"illegal_target": name})
        except Exception as ex:
            ctx.count('illegal-target:raised:' + type(ex).__name__)
    outs = C.lean_run(reqs)
    for rq, code, case, comp, out in zip(reqs, codes, cases, comps, outs):
        keys = [k for k in code.keys()]
        ok = ctx.corr(comp, case, code, out, keys)
        if not ok:
            classify_disagreement(ctx, comp, case, code, out)
        ctx.sample({"component": comp, "case": case}, limit=6)
    # ---- search: evaluated decisions do not move with undeclared components ----------------
    for _ in range(ctx.n(12, 150)):
        search_one(ctx, r)


def classify_disagreement(ctx, comp, case, code, out):
    """a correspondence break is a *semantic* failure when the code accepted an illegal declaration or
    produced a non-partition; such cases are failing inputs of the property itself"""
    if comp == 'DecVar.evtadapt':
        cr, mr = code['results'], out.get('results', [])
        for a, b in zip(cr, mr):
            if 'events_changed_by_rejected_call' in a:
                ctx.hit('rejected-declaration-changed-the-events', a['events_changed_by_rejected_call'], case)
                break
            if a != b:
                if 'ok' in a and 'err' in b:
                    ctx.hit('evtadapt-accepts-illegal', {"code": a, "model": b}, case)
                elif 'ok' in a:
                    flat = sorted(s for e in a['ok'] for s in e)
                    if flat != list(range(case['S'])):
                        ctx.hit('evtadapt-not-a-partition', {"code": a}, case)
                    elif 'ok' in b and sorted(map(sorted, a['ok'])) != sorted(map(sorted, b['ok'])):
                        # a partition, but not the one the calls declared: other scenarios were split off
                        ctx.hit('evtadapt-partition-not-the-declared-one', {"code": a, "declared": b}, case)
                break
    elif comp == 'comb_set':
        p, q, ev = case['p'], case['q'], code['events']
        dp = {s: i for i, e in enumerate(p) for s in e}; dq = {s: i for i, e in enumerate(q) for s in e}
        de = {s: i for i, e in enumerate(ev) for s in e}
        S = len(dp)
        bad = sorted(de) != list(range(S)) or any((de[s] == de[t]) != (dp[s] == dp[t] and dq[s] == dq[t]) for s in range(S) for t in range(S))
        if bad:
            ctx.hit('comb_set-not-coarsest-refinement', {"code": ev}, case)
    elif comp.startswith('dro.Model.rule_var'):
        ctx.hit('rule_var-sharing', {"code": code, "model": {k: out.get(k) for k in code}}, case)
    elif comp == 'DecRule.adapt':
        if 'accepted-after-use' in code['results']:
            ctx.hit('ldr-adapt-after-use-accepted', {"code": code['results']}, case)
        elif any(a == 'ok' and b != 'ok' for a, b in zip(code['results'], out.get('results', []))):
            ctx.hit('ldr-adapt-accepts-illegal', {"code": code['results'], "model": out.get('results')}, case)


def real_rule_var(r):
    from rsome import dro
    S = int(r.integers(1, 5))
    m = dro.Model(S)
    nz = int(r.integers(1, 4))
    z = m.rvar(nz)
    decs = []
    nd = int(r.integers(1, 4))
    order = []
    problems = []
    vt_letters = []
    held_slices = {}          # decision number -> slice objects that were used for earlier adapt() calls
    for k in range(nd):
        size = int(r.integers(1, 4))
        vt = 'C' if r.random() < 0.7 else ''.join(str(c) for c in r.choice(['C', 'C', 'B', 'I'], size))
        x = m.dvar(size, vtype=vt) if len(vt) == 1 or size > 0 else m.dvar(size)
        letters = vt * size if len(vt) == 1 else vt
        vt_letters.append(letters)
        part = rand_partition(r, S)
        # declare all but one event (the first stays the remainder) in random order
        for e in part[1:]:
            x.adapt(e if len(e) > 1 or r.random() < 0.5 else e[0])
        mask = np.zeros((size, nz), int)
        if r.random() < 0.6:
            plan = []
            for _ in range(int(r.integers(1, 3))):
                di = sorted(set(int(v) for v in r.choice(size, int(r.integers(1, size + 1)), replace=False)))
                ri = sorted(set(int(v) for v in r.choice(nz, int(r.integers(1, nz + 1)), replace=False)))
                if mask[np.ix_(di, ri)].any() or any(set(di) & set(p_[0]) and set(ri) & set(p_[1]) for p_ in plan):
                    continue
                plan.append((di, ri))
            early = bool(r.random() < 0.5)        # slice objects created BEFORE any adapt() call on the array
            objs = [(x if (len(di) == size and r.random() < 0.5) else x[di]) for di, ri in plan] if early else None
            if early:
                held_slices.setdefault(k, []).extend((obj, di) for obj, (di, ri) in zip(objs, plan) if obj is not x)
            for i_, (di, ri) in enumerate(plan):
                target = objs[i_] if early else (x if (len(di) == size and r.random() < 0.5) else x[di])
                has_int = any(letters[i] in 'BI' for i in di)
                try:
                    target.adapt(z[ri])
                    if has_int:
                        problems.append({"what": "integer entry made affinely adaptive", "vtype": vt, "entries": di})
                    mask[np.ix_(di, ri)] = 1
                except ValueError:
                    if not has_int:
                        raise
        decs.append({"size": size, "events": [list(map(int, e)) for e in x.event_adapt], "mask": mask.tolist()})
        order.append(x)
    late = int(r.integers(1, 3)) if r.random() < 0.35 else 0
    late_masks = [np.zeros((d['size'], late), int) for d in decs]
    if late:
        u = m.rvar(late)                              # a random variable declared after the adapt() calls
        if r.random() < 0.5:
            # ... which one of the decisions (with or without earlier dependencies) is then declared to depend on
            k = int(r.integers(0, len(order)))
            xk, sz = order[k], decs[k]['size']
            lk = vt_letters[k]
            di = sorted(set(int(v) for v in r.choice(sz, int(r.integers(1, sz + 1)), replace=False)))
            ri = sorted(set(int(v) for v in r.choice(late, int(r.integers(1, late + 1)), replace=False)))
            has_int = any(lk[i] in 'BI' for i in di)
            try:
                (xk if (len(di) == sz and r.random() < 0.5) else xk[di]).adapt(u[ri])
                if has_int:
                    problems.append({"what": "integer entry made affinely adaptive", "vtype": lk, "entries": di})
                late_masks[k][np.ix_(di, ri)] = 1
            except Exception as e:
                if not (has_int and isinstance(e, ValueError)):
                    # a legal, not yet declared dependency cannot be declared at all
                    problems.append({"what": "legal adapt() on a later random variable raises", "error": type(e).__name__,
                                     "entries": di, "components": ri})
            # ... and then once more through a slice object that was already used before the new random variable existed
            if held_slices.get(k) and r.random() < 0.7:
                obj, dh = held_slices[k][int(r.integers(len(held_slices[k])))]
                rh = sorted(set(int(v) for v in r.choice(late, int(r.integers(1, late + 1)), replace=False)))
                if not late_masks[k][np.ix_(dh, rh)].any() and not any(lk[i] in 'BI' for i in dh):
                    try:
                        obj.adapt(u[rh])
                        late_masks[k][np.ix_(dh, rh)] = 1
                    except Exception as e:
                        problems.append({"what": "legal adapt() through an earlier slice object raises", "error": type(e).__name__,
                                         "entries": dh, "components": rh})
    nz_decl = nz
    nz = nz + late
    with C.quiet():
        lst = m.rule_var()
    # the dependencies the code recorded must be exactly the declared ones (padded for late random variables)
    for k_, (x, dsc) in enumerate(zip(order, decs)):
        got = np.zeros((dsc['size'], nz), int) if x.rand_adapt is None else np.asarray(x.rand_adapt)[:, :nz]
        want = np.hstack([np.array(dsc['mask']).reshape(dsc['size'], nz_decl), late_masks[k_]])
        if got.shape != want.shape or np.any(got != want):
            problems.append({"what": "recorded dependencies differ from the declared ones", "declared": want.tolist(), "recorded": got.tolist()})
    vc = m.ro_model.rc_model.vars[1]            # var_const block
    # the model has one extra leading decision: the objective epigraph variable dec_vars[0] (size 1, static)
    alld = [{"size": int(dv.size), "events": [list(map(int, e)) for e in dv.event_adapt],
             "mask": (np.zeros((dv.size, nz), int) if dv.rand_adapt is None else np.asarray(dv.rand_adapt)[:, :nz]).tolist()}
            for dv in m.dec_vars]
    cols = []
    lin_cols = []
    anyaff = any(np.any(d["mask"]) for d in alld)
    nzr = None
    for s in range(S):
        e = lst[s]
        aff = e.affine if hasattr(e, 'raffine') else e
        L = C.dense(aff.linear)
        cs = []
        for row in L:
            nzc = np.nonzero(row)[0]
            assert len(nzc) == 1 and row[nzc[0]] == 1
            cs.append(int(nzc[0]) - int(vc.first))
        cols.append(cs)
        if hasattr(e, 'raffine'):
            RL = C.dense(e.raffine.linear)
            rr, cc = np.nonzero(RL)
            first_lin = int(m.ro_model.rc_model.vars[2].first)
            lin_cols.append([int(c) - first_lin for c in cc])
            nzr = [int(v) for v in rr]
    case = {"S": S, "nz": nz, "decs": alld, "late_rvars": late, "problems": problems}
    rq1 = {"op": "rule_cols", "S": S, "decs": [{"size": d["size"], "events": d["events"]} for d in alld]}
    c1 = {"cols": cols, "ro_first": [int(dv.ro_first) for dv in m.dec_vars]}
    if anyaff and lin_cols:
        rq2 = {"op": "rule_lin", "S": S, "decs": alld}
        c2 = {"lin_cols": lin_cols, "nz_rows": nzr}
    else:
        rq2 = c2 = None
    return rq1, c1, rq2, c2, case


def real_ldr_seq(r):
    from rsome import ro
    m = ro.Model()
    size = int(r.integers(1, 4)); nz = int(r.integers(1, 4))
    foreign = bool(r.random() < 0.4)
    # the random variables may be declared in two steps, the second one after the first adapt() calls
    split = (not foreign) and nz >= 2 and bool(r.random() < 0.4)
    n1 = int(r.integers(1, nz)) if split else nz
    z = m.rvar(n1); z2 = None
    y = m.ldr(size)
    calls = []; results = []
    used = False; after_use_ok = False
    if foreign:
        # a set that needs auxiliary columns in the shared support model is formulated BEFORE the dependencies are declared:
        # the declared (entry, component) pairs must not shift
        import rsome as rso
        _ = (m.dvar() <= 1 + z.sum()).forall(rso.norm(z, 1) <= 1.5, rso.norm(z, 'inf') <= 1)
    for _ in range(int(r.integers(1, 5))):
        if r.random() < 0.12 and not used:
            try:
                _ = y.to_affine() if r.random() < 0.5 else (y[0] + 1)     # use the rule
            except Exception as e:
                results.append('use-raises:' + type(e).__name__)         # never equal to the model's reply
                calls.append({"use": True})
                break
            used = True
            continue
        di = sorted(set(int(v) for v in r.choice(size, int(r.integers(1, size + 1)), replace=False)))
        if split:
            blk = int(r.integers(0, 2))
            if blk == 1 and z2 is None:
                z2 = m.rvar(nz - n1)                 # declared after earlier adapt() calls (if any)
            lo_, hi_ = (0, n1) if blk == 0 else (n1, nz)
            ri = sorted(set(int(v) for v in lo_ + r.choice(hi_ - lo_, int(r.integers(1, hi_ - lo_ + 1)), replace=False)))
            zobj = z[ri] if blk == 0 else z2[[j - n1 for j in ri]]
        else:
            ri = sorted(set(int(v) for v in r.choice(nz, int(r.integers(1, nz + 1)), replace=False)))
            zobj = z[ri]
        try:
            if len(di) == size and r.random() < 0.5:
                y.adapt(zobj)
            else:
                y[di].adapt(zobj)
            results.append('ok')
            calls.append({"dec": di, "rand": ri})
            after_use_ok = after_use_ok or used
        except Exception as e:
            results.append(type(e).__name__)
            calls.append({"dec": di, "rand": ri, "after_use": used})
            break
    if used and results and results[-1] == 'SyntaxError':
        # the model of the mask does not know about "use"; the expected outcome is the error itself
        calls_model = calls[:-1]; results_cmp = results[:-1]
        extra = 'SyntaxError'
    else:
        calls_model = calls; results_cmp = results; extra = None
    if split and z2 is None:
        z2 = m.rvar(nz - n1)
    mask = np.zeros((size, nz), int) if y.depend is None else np.asarray(y.depend)
    if mask.shape[1] < nz:
        mask = np.hstack([mask, np.zeros((size, nz - mask.shape[1]), int)])      # components declared after the last adapt()
    # the compiled rule must carry exactly the declared (entry, component) pairs - also when random variables are declared
    # between adapt() and the first use of the rule
    struct = None
    if not used and not any(str(v).startswith('use-raises') for v in results) and (not results or results[-1] == 'ok'):
        late = int(r.integers(1, 3)) if r.random() < 0.35 else 0
        if late:
            m.rvar(late)
        try:
            a = y.to_affine()
            nr_ = int(m.sup_model.vars[-1].last)       # (auxiliary columns of an earlier norm set may sit between the random variables)
            if hasattr(a, 'raffine'):
                rows_ = sorted(set(int(v) for v in np.nonzero(C.dense(a.raffine.linear))[0]))
            else:
                rows_ = []
            want = sorted(int(i * nr_ + j) for i in range(size) for j in range(nz) if mask[i, j])
            if rows_ != want:
                struct = {"what": "compiled rule depends on other (entry, component) pairs than declared", "declared_rows": want,
                          "compiled_rows": rows_, "late_rvars": late}
        except Exception as e:
            struct = {"what": "using the rule raised", "error": type(e).__name__, "late_rvars": late}
        mask = mask[:, :nz]
    code = {"results": results_cmp, "mask": mask.tolist()}
    case = {"size": size, "nz": nz, "calls": calls, "used_before_last": used, "last_error": extra, "norm_set_formulated_first": foreign,
            "random_variables_declared_in_two_steps": [n1, nz - n1] if split else None,
            "structure_problem": struct}
    if after_use_ok:
        code["results"] = results_cmp + ['accepted-after-use']      # never equal to the model's reply
    rq = {"op": "aff_seq", "size": size, "nrand": nz, "is_int": False, "calls": [{"dec": c["dec"], "rand": c["rand"]} for c in calls_model if "dec" in c]}
    return rq, code, case


def search_one(ctx, r):
    """solve a small ro model with a partially adaptive rule; the returned rule must have no coefficient on
    undeclared components and x() must not move when an undeclared component of the realisation moves"""
    from rsome import ro
    ctx.search_cases += 1
    m = ro.Model()
    nz = int(r.integers(2, 4))
    import rsome as rso
    z = m.rvar(nz); y = m.ldr(2); x = m.dvar()
    mask = r.random((2, nz)) < 0.5
    set_first = bool(r.random() < 0.5)          # build order: the (norm) set before or after the adapt() calls
    if set_first:
        m.minmax(x, z >= -1, z <= 1, rso.norm(z, 1) <= nz)
    for i in range(2):
        for j in range(nz):
            if mask[i, j]:
                y[i].adapt(z[j])
    w = r.choice([1.0, 2.0, -1.0], nz)
    if not set_first:
        m.minmax(x, z >= -1, z <= 1, rso.norm(z, 1) <= nz)
    try:
        m.st(y[0] + y[1] >= w @ z - x, y >= -3, y <= 3)
        with C.quiet():
            m.solve(display=False)
        m.get()
    except RuntimeError:
        ctx.count('search:not-optimal'); return
    except Exception as ex:
        ctx.hit('ldr-model-raises:' + type(ex).__name__, {"error": str(ex)[:200]}, {"mask": mask.tolist(), "w": w.tolist(), "set_first": set_first}); return
    case = {"mask": mask.tolist(), "w": w.tolist(), "set_first": set_first}
    if mask.any():
        coef = np.array(y.get(z), dtype=float)
        if np.any(~np.isnan(coef[~mask])) and np.any(np.abs(np.nan_to_num(coef[~mask])) > 1e-9):
            ctx.hit('ldr-depends-on-undeclared', {"coef": np.nan_to_num(coef).tolist()}, case)
    z1 = r.choice([-1.0, 0.0, 1.0], nz); z2 = z1.copy()
    for i in range(2):
        und = np.where(~mask[i])[0]
        if len(und) and mask.any():
            z2b = z1.copy(); z2b[und] = -z1[und] + 0.5
            v1 = np.asarray(y(z.assign(z1))).reshape(-1)[i]; v2 = np.asarray(y(z.assign(z2b))).reshape(-1)[i]
            if abs(v1 - v2) > 1e-9:
                ctx.hit('ldr-value-moves-with-undeclared', {"v1": float(v1), "v2": float(v2)}, case)
    ctx.count('search:solved')


def replay(rp):
    case = rp['case']
    if 'calls' in case and 'S' in case:
        labels = case.get('labels')
        if labels is True:
            labels = ['s%d' % i for i in range(case['S'])]
        res = real_evt_seq(case['S'], case['calls'], labels or None, case.get('via'))
        return {"code": res, "fails": True, "expected": rp.get('detail')}
    return {"note": "re-run bin/check C13 with the recorded seed", "fails": True}
