"""C04 — the DRO reformulation is exact: reported optimum = true inf-sup expectation.

Theorems (Lean, RsomeV/Props/C04.lean, C04Compiled.lean): the converse of C03's `dro_sound` for polytope supports and a
polyhedral lifted ambiguity set, from Farkas' lemma (`affine_farkas_cols`): `dro_complete_vertex` (worst case over vertex
distributions <= 0  =>  multipliers alpha, beta with (H2) at the vertices and (H1) on the whole lifted set exist),
`hull_of_vertices` + `maxAffine_convex` ((H2) on the hulls for maxima of affine pieces), `dro_exact_vertex` (the iff),
`dro_sup_is_vertex_sup` / `vertex_dist_is_dist` (sup over all distributions on the polytopes = sup over vertex
distributions), `dro_exact_compiled` (the compiled first-stage row over the model of mix_support is feasible iff (H1) holds
on the whole lifted set; `C02.rc_exact_lp` composed with the mix_support model) and `dro_exact_end_to_end`.
Tie: mix_support / rule_var correspondences (C03, C13).  Search: the inf-sup problem is solved independently by cutting
planes over vertex-supported distributions (master LP over the declared event-wise affine rules, worst-case distribution
oracle) and compared with the reported optimum; SAA instances against an independent scenario LP; single-scenario dro
models against the corresponding ro model."""
import itertools
import numpy as np
import scipy.optimize as opt
from harness import common as C
from harness import dro_oracle as D
from harness import gen as G
from harness.props import c03

THEOREMS = {
    'RsomeV.Props.C04': ['RsomeV.C04.dro_complete_vertex', 'RsomeV.C04.hull_of_vertices', 'RsomeV.C04.maxAffine_convex',
                         'RsomeV.C04.vtxConvex_of_convex', 'RsomeV.C04.dro_exact_vertex', 'RsomeV.C04.dro_sup_is_vertex_sup',
                         'RsomeV.C04.vertex_dist_is_dist'],
    'RsomeV.Props.C04Compiled': ['RsomeV.C04.dro_complete_vertex_lift', 'RsomeV.C04.feas_iff_admL', 'RsomeV.C04.dro_exact_compiled',
                                 'RsomeV.C04.dro_exact_end_to_end'],
    'RsomeV.Props.C02': ['RsomeV.C02.rc_exact_lp', 'RsomeV.C02.rc_exact_conic_partial'],
    'RsomeV.Props.C08': ['RsomeV.C08.lp_dual_strong'],
    'RsomeV.Props.C04Soc': ['RsomeV.C04Soc.dro_exact_compiled_soc', 'RsomeV.C04Soc.mix_rowsRemoved_false', 'RsomeV.C04Soc.dro_complete_vertex_lift_soc',
                            'RsomeV.C04Soc.dro_exact_end_to_end_soc', 'RsomeV.C04Soc.dro_complete_atoms', 'RsomeV.C04Soc.dro_exact_atoms',
                            'RsomeV.C04Soc.dro_exact_end_to_end_conic', 'RsomeV.C04Soc.bx_exact', 'RsomeV.C04Soc.nb_compiled_exact'],
}
RULE = c03.RULE + "; plus SAA instances (singleton supports, fixed probabilities) and single-scenario models mirrored as ro models"
TRUSTED = c03.TRUSTED
ASSUMPTIONS = c03.ASSUMPTIONS + ["exactness is proved for polytope supports and polyhedral ambiguity sets; conic ambiguity sets need conic strong duality (named hypothesis)"]


def worst_dist(d, xs, y0, Y, integrand='obj'):
    """the maximising vertex-supported distribution at the given decisions: list of (s, z, weight)"""
    S, nz = d['S'], d['nz']
    idx = [(s, v) for s in range(S) for v in D.vertices(d, s)]
    nW = len(idx); nv = nW + S

    def f(s, v):
        yv = y0[s] + Y[s] @ v
        if integrand == 'obj':
            vals = [(np.array(pc['R']) @ xs + np.array(pc['r0'])) @ v + np.array(pc['a']) @ xs + pc['a0'] for pc in d['pieces']]
            if d['const_piece'] is not None:
                vals.append(d['const_piece'])
            return d['cy'] * yv + np.array(d['c0']) @ xs + max(vals)
        return D.econ_value(d, xs, v)
    fvals = np.array([f(s, v) for s, v in idx])
    cvec = np.concatenate([-fvals, np.zeros(S)])
    Aeq = []; beq = []
    for s in range(S):
        r_ = np.zeros(nv)
        for k, (ss, v) in enumerate(idx):
            if ss == s:
                r_[k] = 1
        r_[nW + s] = -1; Aeq.append(r_); beq.append(0)
    r_ = np.zeros(nv); r_[nW:] = 1; Aeq.append(r_); beq.append(1)
    Aub = []; bub = []
    for ex in d['exps']:
        for j in range(nz):
            for sg, bnd in ((1, ex['hi'][j]), (-1, -ex['lo'][j])):
                r_ = np.zeros(nv)
                for k, (ss, v) in enumerate(idx):
                    if ss in ex['ev']:
                        r_[k] = sg * v[j]
                for s in ex['ev']:
                    r_[nW + s] -= bnd
                Aub.append(r_); bub.append(0)
    bounds = [(0, None)] * nW + [(d['plo'][s], d['phi'][s]) for s in range(S)]
    res = opt.linprog(cvec, A_ub=np.array(Aub) if Aub else None, b_ub=np.array(bub) if bub else None,
                      A_eq=np.array(Aeq), b_eq=np.array(beq), bounds=bounds, method='highs')
    if res.status != 0:
        return None, None
    dist = [(idx[k][0], idx[k][1], float(res.x[k])) for k in range(nW) if res.x[k] > 1e-12]
    return -res.fun, dist


def true_value(d, maxit=80, tol=1e-7):
    """inf over (x, event-wise (affine) y) of sup over the ambiguity set, by cutting planes on distributions"""
    S, nz, nd = d['S'], d['nz'], d['nd']
    rest = sorted(set(range(S)) - set(s for e in d['y_events'] for s in e))
    events = d['y_events'] + ([rest] if rest else [])
    ev_of = {s: k for k, e in enumerate(events) for s in e}
    ne = len(events)
    aff = d['y_affine']
    # decision layout: t, x(nd), y0(ne), Y(ne*nz if affine)
    ix_t, ix_x, ix_y0 = 0, 1, 1 + nd
    ix_Y = 1 + nd + ne
    nbase = 1 + nd + ne + (ne * nz if aff else 0)
    rows = []; rhs = []
    extra = 0           # epigraph variables u_k (one per support point of each cut distribution)
    cuts = []           # list of (kind, dist)

    def yrow(s, v, n):
        r_ = np.zeros(n); r_[ix_y0 + ev_of[s]] = 1.0
        if aff:
            r_[ix_Y + ev_of[s] * nz: ix_Y + ev_of[s] * nz + nz] = v
        return r_
    # scenario-wise robust constraint at every vertex: y_s(v) >= g.v + hh.x
    base_rows = []; base_rhs = []
    for s in range(S):
        for v in D.vertices(d, s):
            for g, hh in ((d['g'], d['hh']), (d['g2'], d['hh2'])):
                r_ = -yrow(s, v, nbase); r_[ix_x:ix_x + nd] += np.array(hh)
                base_rows.append(r_); base_rhs.append(-np.array(g) @ v)
    bounds_base = [(None, None)] + [(-3, 3)] * nd + [(None, None)] * (nbase - 1 - nd)
    # y <= 50 at every vertex
    for s in range(S):
        for v in D.vertices(d, s):
            base_rows.append(yrow(s, v, nbase)); base_rhs.append(50.0)
    # the piecewise robust constraint with its own (wider) supports: y_s(v) <= cap + a1 at every wide vertex
    if d.get('pwcon'):
        for s in range(S):
            for v in D.wide_vertices(d, s):
                base_rows.append(yrow(s, v, nbase)); base_rhs.append(d['pwcon']['cap'] + d['pwcon']['a1'])
    pcs = [(np.array(pc['R']), np.array(pc['r0']), np.array(pc['a']), pc['a0']) for pc in d['pieces']]

    def solve_master():
        n = nbase + extra
        A = [np.concatenate([r_, np.zeros(n - nbase)]) for r_ in base_rows]; b = list(base_rhs)
        off = nbase
        for kind, dist in cuts:
            if kind == 'obj':
                # t >= sum_k w_k * (c0.x + cy*y_s(z_k) + u_k),  u_k >= piece_j(x, z_k)
                r_ = np.zeros(n); r_[ix_t] = -1
                for k, (s, v, w) in enumerate(dist):
                    r_[ix_x:ix_x + nd] += w * np.array(d['c0'])
                    r_[:nbase] += w * d['cy'] * yrow(s, v, nbase)
                    r_[off + k] += w
                    for (R, r0, a, a0) in pcs:
                        q = np.zeros(n); q[ix_x:ix_x + nd] = R.T @ v + a; q[off + k] = -1
                        A.append(q); b.append(-(r0 @ v + a0))
                    if d['const_piece'] is not None:
                        q = np.zeros(n); q[off + k] = -1; A.append(q); b.append(-d['const_piece'])
                A.append(r_); b.append(0.0)
                off += len(dist)
            elif 'q2' not in d['econ']:
                r_ = np.zeros(n)
                c0 = 0.0
                for (s, v, w) in dist:
                    r_[ix_x:ix_x + nd] += w * np.array(d['econ']['c']); c0 += w * (np.array(d['econ']['q']) @ v)
                A.append(r_); b.append(d['econ']['rhs'] - c0)
            else:
                # sum_k w_k u_k <= rhs,  u_k >= each piece at z_k
                ec = d['econ']
                r_ = np.zeros(n)
                for k, (s, v, w) in enumerate(dist):
                    r_[off + k] += w
                    for (qq, cc, kk) in ((ec['q'], ec['c'], 0.0), (ec['q2'], ec['c2'], ec['k2'])):
                        q = np.zeros(n); q[ix_x:ix_x + nd] = np.array(cc); q[off + k] = -1
                        A.append(q); b.append(-(np.array(qq) @ v + kk))
                A.append(r_); b.append(ec['rhs'])
                off += len(dist)
        c = np.zeros(n); c[ix_t] = 1.0
        bnds = [(-1e5, 1e5)] + bounds_base[1:] + [(None, None)] * (n - nbase)
        res = opt.linprog(c, A_ub=np.array(A), b_ub=np.array(b), bounds=bnds, method='highs')
        return res
    # initial cut: any feasible distribution (worst case at zero decisions)
    xs = np.zeros(nd); y0 = np.zeros(S); Y = np.zeros((S, nz))
    for it in range(maxit):
        wc, dist = worst_dist(d, xs, y0, Y)
        if wc is None:
            return 'oracle-failed', None
        added = False
        if it == 0:
            cuts.append(('obj', dist)); extra += len(dist); added = True
        else:
            if wc > tval + tol * (1 + abs(wc)):
                cuts.append(('obj', dist)); extra += len(dist); added = True
            if d['econ']:
                we, de = worst_dist(d, xs, y0, Y, integrand='econ')
                if we is not None and we > d['econ']['rhs'] + tol * (1 + abs(we)):
                    cuts.append(('econ', de)); added = True
                    if 'q2' in d['econ']:
                        extra += len(de)
            if not added:
                return 'ok', float(tval)
        res = solve_master()
        if res.status == 2:
            return 'infeasible', None
        if res.status != 0:
            return 'lp-failed', None
        v_ = res.x
        tval = v_[ix_t]; xs = v_[ix_x:ix_x + nd]
        y0 = np.array([v_[ix_y0 + ev_of[s]] for s in range(S)])
        Y = np.array([v_[ix_Y + ev_of[s] * nz: ix_Y + ev_of[s] * nz + nz] for s in range(S)]) if aff else np.zeros((S, nz))
        if abs(tval) > 9e4:
            return 'unbounded', None
    return 'not-converged', None


def run(ctx):
    # tie: the row layout the exactness theorems speak about (alpha per row and scenario, beta per row and expectation event)
    C.run_difftest(ctx, 'test_dro_rows.py', ctx.n(30, 600), 'dro.Model.dro_to_roc (first-stage fragment and second-stage robust rows of an expectation constraint)')
    C.run_difftest(ctx, 'test_mix_support.py', ctx.n(40, 800), 'Ambiguity.mix_support(primal=True)')
    # (a) general models: reported optimum vs the independent inf-sup value, and tightness at the solution
    for k in range(ctx.n(60, 1000)):
        r, seed = G.sub_rng(ctx.rng)
        d = D.gen(r); d['seed'] = seed
        res = c03.search_one(ctx, d)
        if res is None:
            continue
        val, wc = res
        if wc < val - 1e-4 * (1 + abs(val)):
            ctx.hit('not-tight-at-solution', {"reported": float(val), "worst_case_expectation_at_solution": float(wc)}, {"desc": d}); continue
        st, tv = true_value(d)
        ctx.count('true:' + st)
        if st == 'ok' and abs(tv - val) > 1e-4 * (1 + abs(tv)):
            ctx.hit('inexact:' + ('conservative' if val > tv else 'optimistic'), {"reported": float(val), "inf_sup_value": tv}, {"desc": d})
        elif st == 'ok':
            ctx.count('exact')
    # (b) sample-average special case
    for k in range(ctx.n(25, 400)):
        r, seed = G.sub_rng(ctx.rng)
        d = D.gen(r, saa=True); d['seed'] = seed; d['y_affine'] = False
        ctx.search_cases += 1; ctx.evaluations += 1
        try:
            with C.quiet():
                m, h = D.build(d)
            val = C.solve_model(m)
        except Exception as ex:
            ctx.count('saa:not-solved:' + type(ex).__name__); continue
        tv = D.saa_optimum(d)
        if tv is None:
            ctx.count('saa:lp-failed'); continue
        if abs(tv - val) > 1e-5 * (1 + abs(tv)):
            ctx.hit('saa-differs', {"reported": float(val), "sample_average_optimum": float(tv)}, {"desc": d})
        else:
            ctx.count('saa:exact')
    # (c) single scenario, no expectation information == ro model
    for k in range(ctx.n(20, 300)):
        r, seed = G.sub_rng(ctx.rng)
        d = D.gen(r, S=1); d['seed'] = seed; d['exps'] = []; d['econ'] = None; d['y_events'] = []; d['pwcon'] = None; d['w'] = None
        ctx.search_cases += 1; ctx.evaluations += 1
        try:
            with C.quiet():
                m, h = D.build(d)
            val = C.solve_model(m)
            vro = solve_as_ro(d)
        except Exception as ex:
            ctx.count('single:not-solved:' + type(ex).__name__); continue
        if abs(vro - val) > 1e-5 * (1 + abs(vro)):
            ctx.hit('single-scenario-differs-from-ro', {"dro": float(val), "ro": float(vro)}, {"desc": d})
        else:
            ctx.count('single:agree')
    # (d) array-valued expectation constraints and entries taken after E(): closed-form inf-sup values
    for k in range(ctx.n(30, 500)):
        r, seed = G.sub_rng(ctx.rng)
        exprows_one(ctx, exprows_desc(r))


def exprows_desc(r):
    """vector-valued expectation constraints / entries taken after E(): descriptors of two closed-form families"""
    S = int(r.integers(1, 4)); nz = int(r.integers(1, 3)); k = int(r.integers(2, 4))
    kind = 'vecE' if r.random() < 0.55 else 'saaE'
    d = {'kind': kind, 'S': S, 'nz': nz, 'k': k, 'spell': int(r.integers(0, 3))}
    if kind == 'vecE':
        lo = [D.rint(r, -3, 0, nz) for _ in range(S)]; hi = [lo[s] + D.rint(r, 1, 4, nz) for s in range(S)]
        p = np.ones(S) / S
        mid = sum(p[s] * (lo[s] + hi[s]) / 2 for s in range(S)); w = sum(p[s] * (hi[s] - lo[s]) for s in range(S)) / 8
        Cm = D.rint(r, -2, 2, (k, nz))
        Cm[0] = np.abs(Cm[0]) + (Cm[0] == 0); Cm[1] = -Cm[0]          # rows of opposite directions need different multipliers
        d.update({'lo': [v.tolist() for v in lo], 'hi': [v.tolist() for v in hi], 'mlo': (mid - w).tolist(), 'mhi': (mid + w).tolist(),
                  'C': Cm.tolist()})
    else:
        d.update({'zhat': D.rint(r, 1, 4, S).tolist(), 'rhs': [float(v) for v in r.choice([0.5, 1.0, 1.5], k)],
                  'cost': D.rint(r, 1, 3, k).tolist()})
    return d


def exprows_build(d):
    from rsome import dro, E
    S, k = d['S'], d['k']
    m = dro.Model(S)
    if d['kind'] == 'vecE':
        z = m.rvar(d['nz']); x = m.dvar(k)
        fs = m.ambiguity()
        for s in range(S):
            fs[s].suppset(z >= np.array(d['lo'][s]), z <= np.array(d['hi'][s]))
        fs.exptset(E(z) >= np.array(d['mlo']), E(z) <= np.array(d['mhi']))
        fs.probset(m.p == 1 / S)
        m.minsup(x.sum(), fs)
        Cm = np.array(d['C'])
        if d['spell'] == 0:
            m.st(E(Cm @ z - x) <= 0)                                   # all rows in one array constraint
        elif d['spell'] == 2:
            ex = E(Cm @ z - x)
            m.st(ex[:1] <= 0, ex[1:].reshape((k - 1, 1)).T[0] <= 0)    # entries / reshaped / transposed parts taken after the expectation
        else:
            for i in range(k):
                m.st(E(Cm[i] @ z - x[i]) <= 0)                         # row by row
        m.st(x <= 100)
    else:
        z = m.rvar(); y = m.dvar(k)
        for s in range(S):
            y.adapt(s)
        fs = m.ambiguity()
        for s in range(S):
            fs[s].suppset(z == d['zhat'][s])
        fs.probset(m.p == 1 / S)
        cost = np.array(d['cost'])
        m.minsup(E(z * y[0] + cost[1:] @ y[1:]), fs)
        if d['spell'] == 0:
            m.st(E(y) >= np.array(d['rhs']))
        elif d['spell'] == 1:
            for i in range(k):
                m.st(E(y[i]) >= d['rhs'][i])
        else:
            ey = E(y)
            m.st(ey[0] >= d['rhs'][0], ey[1:] >= np.array(d['rhs'][1:]))
        m.st(y >= 0, y <= 2)
    return m


def exprows_truth(d):
    from scipy.optimize import linprog
    S, k = d['S'], d['k']
    if d['kind'] == 'vecE':
        nz = d['nz']; p = np.ones(S) / S; tot = 0.0
        A = np.hstack([p[s] * np.eye(nz) for s in range(S)])
        for i in range(k):
            c = np.concatenate([p[s] * np.array(d['C'][i]) for s in range(S)])
            res = linprog(-c, A_ub=np.vstack([A, -A]), b_ub=np.concatenate([d['mhi'], -np.array(d['mlo'])]),
                          bounds=[(d['lo'][s][j], d['hi'][s][j]) for s in range(S) for j in range(nz)])
            if res.status != 0:
                return None
            tot += -res.fun                                            # x_i = sup_P E[C_i z]
        return tot
    p = 1.0 / S
    c = np.concatenate([[p * d['zhat'][s]] + [p * v for v in d['cost'][1:]] for s in range(S)])
    A = np.zeros((k, S * k))
    for i in range(k):
        for s in range(S):
            A[i, s * k + i] = -p
    res = linprog(c, A_ub=A, b_ub=-np.array(d['rhs']), bounds=[(0, 2)] * (S * k))
    return float(res.fun) if res.status == 0 else None


def exprows_one(ctx, d):
    ctx.search_cases += 1; ctx.evaluations += 1
    try:
        with C.quiet():
            m = exprows_build(d)
        val = C.solve_model(m)
    except C.SkipCase:
        ctx.count('exprows:skipped'); return
    except Exception as ex:
        ctx.hit('expectation-rows-not-compiled', {"error": type(ex).__name__, "message": str(ex)[:200]}, {"exprows": d}); return
    tv = exprows_truth(d)
    if tv is None:
        ctx.count('exprows:lp-failed'); return
    if abs(tv - val) > 1e-5 * (1 + abs(tv)):
        ctx.hit('expectation-rows-inexact:' + ('conservative' if val > tv else 'optimistic'),
                {"reported": float(val), "closed_form_inf_sup": float(tv), "spelling": ['array', 'row by row', 'entries after E()'][d['spell']]},
                {"exprows": d})
    else:
        ctx.count('exprows:%s:spell%d:exact' % (d['kind'], d['spell']))


def solve_as_ro(d):
    import rsome as rso
    from rsome import ro
    nd, nz = d['nd'], d['nz']
    m = ro.Model()
    x = m.dvar(nd); z = m.rvar(nz)
    if d['y_affine']:
        y = m.ldr(); y.adapt(z)
    else:
        y = m.dvar()
    S0 = [z >= np.array(d['lo'][0]), z <= np.array(d['hi'][0])]
    pcs = [(np.array(pc['R']) @ x + np.array(pc['r0'])) @ z + np.array(pc['a']) @ x + pc['a0'] for pc in d['pieces']]
    if d['const_piece'] is not None:
        pcs.append(d['const_piece'])
    base = np.array(d['c0']) @ x + d['cy'] * y
    obj = (base + pcs[0]) if len(pcs) == 1 else (rso.maxof(*pcs) + base)
    m.minmax(obj, S0)
    m.st(y >= np.array(d['g']) @ z + np.array(d['hh']) @ x)
    m.st(y >= np.array(d['g2']) @ z + np.array(d['hh2']) @ x)
    m.st(x >= -3, x <= 3, y <= 50)
    return C.solve_model(m)


def replay(rp):
    if 'exprows' in rp['case']:
        d = rp['case']['exprows']
        with C.quiet():
            m = exprows_build(d)
        val = C.solve_model(m); tv = exprows_truth(d)
        return {"reported": float(val), "closed_form_inf_sup": tv, "fails": tv is not None and abs(tv - val) > 1e-5 * (1 + abs(tv))}
    d = rp['case']['desc']
    with C.quiet():
        m, h = D.build(d)
    val = C.solve_model(m)
    st, tv = true_value(d)
    return {"reported": float(val), "inf_sup": [st, tv], "fails": st == 'ok' and abs(tv - val) > 1e-4 * (1 + abs(tv))}
