"""C17 — misuse fails loudly and models do not interfere with each other.

Theorems (Lean, RsomeV/Props/C17.lean): `guards_present` — a `decide` theorem over the table of `raise` sites extracted from
rsome/ro.py, dro.py, lp.py, math.py on every run: each misuse the property lists has a guard of the right exception class in
the method that receives the foreign object; `frame` — in the two-model product of the C09 state machine an operation on one
model leaves the other model's state and answers unchanged.  Tie: extracted guard table + the misuse matrix on the real API.
Search: every misuse pattern on every pairing of ro/dro models must raise; a model built alone and built interleaved with the
construction and solution of another model must give the identical standard form and optimum."""
import numpy as np
from harness import common as C
from harness import ro_oracle as O
from harness import dro_oracle as D
from harness import gen as G

GEN = True
THEOREMS = {
    'RsomeV.Props.C17': ['RsomeV.C17.guards_present', 'RsomeV.C17.redefinition_guard_is_identity_test', 'RsomeV.C17.frame', 'RsomeV.C17.frame_run'],
}
RULE = ("the misuse matrix (foreign constraint / variable / expression / set / piecewise piece, objective redefinition incl. a first objective "
        "that is the constant 0, non-scalar objective, reading unsolved and failed models, ambiguity set after constraints) on all pairings of "
        "ro and dro models; interleaved construction of two random models vs each alone; non-trivial = interleaving with at least one solve of "
        "the other model in between; distinct by content hash")
TRUSTED = []
ASSUMPTIONS = ["process-global state outside rsome (NumPy print options, warnings filters, solver licences) is not modelled"]


def mk(kind):
    from rsome import ro, dro
    if kind == 'ro':
        m = ro.Model(); x = m.dvar(2); z = m.rvar(2)
    else:
        m = dro.Model(2); x = m.dvar(2); z = m.rvar(2)
    return m, x, z


def misuse_matrix(ctx):
    import rsome as rso
    from rsome import ro, dro
    tests = []

    def t(name, f):
        tests.append((name, f))
    for ka in ('ro', 'dro'):
        for kb in ('ro', 'dro'):
            def cross(f, ka=ka, kb=kb):
                def run():
                    A, xa, za = mk(ka); B, xb, zb = mk(kb)
                    return f(A, xa, za, B, xb, zb)
                return run
            tag = ka + '<-' + kb
            t(tag + ' st(foreign linear constraint)', cross(lambda A, xa, za, B, xb, zb: A.st(xb[0] + xb[1] <= 1)))
            t(tag + ' st(foreign bound)', cross(lambda A, xa, za, B, xb, zb: A.st(xb <= 1)))
            t(tag + ' st(foreign convex constraint)', cross(lambda A, xa, za, B, xb, zb: A.st(rso.norm(xb, 2) <= 1)))
            t(tag + ' st(foreign robust constraint)', cross(lambda A, xa, za, B, xb, zb: A.st(xb @ zb <= 1)))
            t(tag + ' mixed expression x_A + x_B', cross(lambda A, xa, za, B, xb, zb: A.st(xa[0] + xb[0] <= 1)))
            t(tag + ' mixed product x_A * z_B', cross(lambda A, xa, za, B, xb, zb: A.st(xa @ zb <= 1)))
            t(tag + ' objective of another model', cross(lambda A, xa, za, B, xb, zb: (A.min(xb.sum()), A.st(xa >= 0), C.solve_model(A))))
            t(tag + ' maxof with a foreign piece', cross(lambda A, xa, za, B, xb, zb: A.st(rso.maxof(xa[0], 2 * xb[0]) <= 5)))
            t(tag + ' convex atom <= foreign variable', cross(lambda A, xa, za, B, xb, zb: A.st(rso.norm(xa) <= xb[0])))
            t(tag + ' abs(x_A) <= x_B', cross(lambda A, xa, za, B, xb, zb: A.st(abs(xa) <= xb)))
            t(tag + ' exp(x_A) <= x_B', cross(lambda A, xa, za, B, xb, zb: A.st(rso.exp(xa[0]) <= xb[0])))
            t(tag + ' convex atom + foreign variable <= c', cross(lambda A, xa, za, B, xb, zb: A.st(rso.norm(xa) + xb[0] <= 1)))
            t(tag + ' foreign variable >= convex atom', cross(lambda A, xa, za, B, xb, zb: A.st(xb[0] >= rso.sumsqr(xa))))
            t(tag + ' objective convex atom + foreign variable', cross(lambda A, xa, za, B, xb, zb: A.min(rso.norm(xa) + xb[0])))
            t(tag + ' maxof with a foreign bi-affine piece', cross(lambda A, xa, za, B, xb, zb: A.st(rso.maxof(xa[0], zb @ xb) <= 5)))
            t(tag + ' expcone with foreign arguments', cross(lambda A, xa, za, B, xb, zb: A.st(rso.expcone(xa[0], xb[0], xb[1]))))
            t(tag + ' expcone of a foreign variable', cross(lambda A, xa, za, B, xb, zb: A.st(rso.expcone(xb[0], xa[0], xa[1]))))
            # sums of a decision of A and a random variable of B, the random operand written first; as constraint and as objective
            t(tag + ' z_B + x_A in a constraint', cross(lambda A, xa, za, B, xb, zb: A.st(zb[0] + xa[0] <= 1)))
            t(tag + ' z_B - x_A in a constraint', cross(lambda A, xa, za, B, xb, zb: A.st(zb.sum() - xa.sum() <= 1)))
            if ka == 'ro':
                t(tag + ' minmax(z_B.sum() + x_A.sum())', cross(lambda A, xa, za, B, xb, zb: (A.minmax(zb.sum() + xa.sum(), abs(za) <= 1), A.st(xa >= 0), C.solve_model(A))))
                t(tag + ' minmax(z_B[0] - x_A[0] + 2 x_A.sum())', cross(lambda A, xa, za, B, xb, zb: (A.minmax(zb[0] - xa[0] + 2 * xa.sum(), abs(za) <= 1), A.st(xa >= 0), C.solve_model(A))))
                t(tag + ' second ldr.adapt(foreign random variable)', cross(lambda A, xa, za, B, xb, zb: (lambda y: (y.adapt(za[0]), y.adapt(zb[1])))(A.ldr(2))))
                t(tag + ' ldr slices: own then foreign random variable', cross(lambda A, xa, za, B, xb, zb: (lambda y: (y[0].adapt(za), y[1].adapt(zb)))(A.ldr(2))))
            if ka == 'dro':
                def amb_a(A, za):
                    fa = A.ambiguity(); fa.suppset(za <= 1, za >= 0); return fa
                t(tag + ' minsup(E(z_B.sum() + x_A.sum()))', cross(lambda A, xa, za, B, xb, zb: (A.minsup(rso.E(zb.sum() + xa.sum()), amb_a(A, za)), A.st(xa >= 0), C.solve_model(A))))
            if ka == 'ro':
                t(tag + ' ldr.adapt(foreign random variable)', cross(lambda A, xa, za, B, xb, zb: A.ldr(2).adapt(zb)))
            if ka == 'dro':
                t(tag + ' dvar.adapt(foreign random variable)', cross(lambda A, xa, za, B, xb, zb: xa.adapt(zb)))
            if ka == 'dro' and kb == 'dro':
                def amb_b(B, zb):
                    fb = B.ambiguity(); fb.suppset(zb <= 1, zb >= 0); return fb
                t(tag + ' minsup(foreign ambiguity set) at declaration', cross(lambda A, xa, za, B, xb, zb: A.minsup(rso.E(xa @ za), amb_b(B, zb))))
                t(tag + ' maxinf(foreign ambiguity set) at declaration', cross(lambda A, xa, za, B, xb, zb: A.maxinf(rso.E(xa @ za), amb_b(B, zb))))
                t(tag + ' linear constraint .forall(foreign ambiguity set)', cross(lambda A, xa, za, B, xb, zb: A.st((xa.sum() >= 0).forall(amb_b(B, zb)))))
                t(tag + ' robust constraint .forall(foreign ambiguity set)', cross(lambda A, xa, za, B, xb, zb: A.st((xa @ za >= 0).forall(amb_b(B, zb)))))
                t(tag + ' E-constraint .forall(foreign ambiguity set)', cross(lambda A, xa, za, B, xb, zb: A.st((rso.E(xa @ za) >= 0).forall(amb_b(B, zb)))))
                t(tag + ' adapt(scenarios of a foreign ambiguity set)', cross(lambda A, xa, za, B, xb, zb: xa.adapt(amb_b(B, zb)[0])))
            if ka == 'ro':
                t(tag + ' forall(foreign set)', cross(lambda A, xa, za, B, xb, zb: A.st((xa @ za <= 1).forall(zb <= 1, zb >= 0))))
                t(tag + ' minmax(foreign set)', cross(lambda A, xa, za, B, xb, zb: A.minmax(xa @ za, zb <= 1, zb >= 0)))
            if ka == 'dro' and kb == 'dro':
                def foreign_amb(A, xa, za, B, xb, zb):
                    fb = B.ambiguity(); fb.suppset(zb <= 1, zb >= 0)
                    A.minsup(rso.E(xa @ za), fb); A.st(xa >= 0, xa <= 1); C.solve_model(A)
                t(tag + ' minsup(foreign ambiguity set)', cross(foreign_amb))
                def foreign_supp(A, xa, za, B, xb, zb):
                    fa = A.ambiguity(); fa.suppset(zb <= 1, zb >= 0)
                t(tag + ' suppset(foreign constraints)', cross(foreign_supp))
    for k in ('ro', 'dro'):
        def one(f, k=k):
            def run():
                A, xa, za = mk(k)
                return f(A, xa, za)
            return run
        for first in ('0', '0.0', 'np.float64(0)', 'x.sum()', '3.5'):
            def redef(A, xa, za, first=first):
                A.min(eval(first, {'np': np, 'x': xa}))
                A.max(xa.sum())
            t(k + ' objective redefinition after min(%s)' % first, one(redef))
        t(k + ' non-scalar objective', one(lambda A, xa, za: A.min(xa)))
        t(k + ' non-scalar objective (2x)', one(lambda A, xa, za: A.max(2 * xa)))
        t(k + ' get() before solve', one(lambda A, xa, za: (A.min(xa.sum()), A.get())))
        t(k + ' x.get() before solve', one(lambda A, xa, za: (A.min(xa.sum()), xa.get())))
        def failed(A, xa, za):
            A.min(xa.sum()); A.st(xa[0] >= 1, xa[0] <= -1)
            with C.quiet():
                A.solve(display=False)
            return A.get()
        t(k + ' get() of an infeasible model', one(failed))
        def failed_x(A, xa, za):
            A.min(xa.sum()); A.st(xa[0] >= 1, xa[0] <= -1)
            with C.quiet():
                A.solve(display=False)
            return xa.get()
        t(k + ' x.get() of an infeasible model', one(failed_x))
        def unbounded(A, xa, za):
            A.min(xa.sum())
            with C.quiet():
                A.solve(display=False)
            return A.get()
        t(k + ' get() of an unbounded model', one(unbounded))
    # results of a failed model cannot be read, whichever interface was used
    from rsome import eco_solver, ort_solver, grb_solver
    for k in ('ro', 'dro'):
        for sname, solver in (('ecos', eco_solver), ('ortools', ort_solver), ('gurobi', grb_solver)):
            for what in ('infeasible', 'unbounded'):
                def failed_via(k=k, solver=solver, what=what):
                    A, xa, za = mk(k)
                    A.min(xa.sum())
                    if what == 'infeasible':
                        A.st(xa[0] >= 1, xa[0] <= -1, xa <= 5, xa >= -5)
                    with C.quiet():
                        A.solve(solver, display=False)
                    return A.get()
                t('%s get() of an %s model solved through %s' % (k, what, sname), failed_via)
                def failed_x_via(k=k, solver=solver, what=what):
                    A, xa, za = mk(k)
                    A.min(xa.sum())
                    if what == 'infeasible':
                        A.st(xa[0] >= 1, xa[0] <= -1, xa <= 5, xa >= -5)
                    with C.quiet():
                        A.solve(solver, display=False)
                    return xa.get()
                t('%s x.get() of an %s model solved through %s' % (k, what, sname), failed_x_via)
    # the stand-alone modelling layers (lp / socp / gcp Model objects used directly)
    from rsome import lp as lpm, socp as socpm, gcp as gcpm
    for lname, L in (('lp', lpm), ('socp', socpm), ('gcp', gcpm)):
        def two(f, L=L):
            def run():
                A = L.Model(); xa = A.dvar(2); B = L.Model(); xb = B.dvar(2)
                return f(A, xa, B, xb)
            return run
        t(lname + ' layer: st(foreign constraint)', two(lambda A, xa, B, xb: A.st(xb[0] + xb[1] <= 1)))
        t(lname + ' layer: mixed expression x_A + x_B', two(lambda A, xa, B, xb: A.st(xa[0] + xb[0] <= 1)))
        t(lname + ' layer: concat([x_A, x_B])', two(lambda A, xa, B, xb: A.st(rso.concat([xa, xb]) <= 1)))
        t(lname + ' layer: rstack(x_A, x_B)', two(lambda A, xa, B, xb: A.st(rso.rstack(xa, xb) <= 1)))
        t(lname + ' layer: concat([x_A, x_B]) added to B', two(lambda A, xa, B, xb: B.st(rso.concat([xa, xb]) <= 1)))
        t(lname + ' layer: cstack(x_B, x_A) added to A', two(lambda A, xa, B, xb: A.st(rso.cstack(xb, xa) <= 1)))
        t(lname + ' layer: objective vec(x_A, x_B).sum() of B', two(lambda A, xa, B, xb: (B.min(rso.concat([xa, xb]).sum()), B.st(xb >= 0), B.solve(display=False), B.get())))
        t(lname + ' layer: objective of another model', two(lambda A, xa, B, xb: (A.min(xb.sum()), A.st(xa >= 0), A.solve(display=False), A.get())))

    # solved rules evaluated at / queried for a random variable of ANOTHER model (positions would be read blindly)
    def solved_ro_rule():
        from rsome import ro
        A = ro.Model(); z1 = A.rvar(2); u1 = A.rvar(2); y = A.ldr(); tt = A.dvar()
        y.adapt(z1); y.adapt(u1); A.minmax(tt, abs(z1) <= 1, abs(u1) <= 1)
        tot = z1.sum() + 2 * u1.sum(); A.st(tt >= y - tot, tt >= tot - y); A.solve(display=False)
        B = ro.Model(); B.rvar(2); z2 = B.rvar(2)
        return y, z1, z2, (tot + y)

    def solved_dro_rule():
        from rsome import dro
        A = dro.Model(2); zz = A.rvar(2); v = A.dvar(); xs = A.dvar(); v.adapt(zz); fs = A.ambiguity(); fs.suppset(zz >= 0, zz <= 1)
        A.minsup(rso.E(v), fs); A.st(v >= zz.sum(), xs == 2); A.solve(display=False)
        B = dro.Model(2); w2 = B.rvar(2)
        return v, zz, w2, (xs * zz[0] + xs)
    for fam, mkr in (('ro', solved_ro_rule), ('dro', solved_dro_rule)):
        t(fam + ' solved rule evaluated at a foreign random variable', lambda mkr=mkr: (lambda y, z1, z2, e: y(z2.assign(np.ones(2))))(*mkr()))
        t(fam + ' solved rule: coefficients on a foreign random variable', lambda mkr=mkr: (lambda y, z1, z2, e: y.get(z2))(*mkr()))
        t(fam + ' solved bi-affine expression evaluated at a foreign random variable', lambda mkr=mkr: (lambda y, z1, z2, e: e(z2.assign(np.ones(2))))(*mkr()))

    # declarations that cannot mean what they look like: refused instead of silently changing the model
    for k in ('ro', 'dro'):
        def one(f, k=k):
            def run():
                A, xa, za = mk(k)
                return f(A, xa, za)
            return run
        t(k + ' chained comparison 0 <= x <= 1', one(lambda A, xa, za: A.st(0 <= xa <= 1)))
        t(k + ' chained comparison on an expression', one(lambda A, xa, za: A.st(0 <= 2 * xa + 1 <= 1)))
        t(k + ' chained comparison on a robust expression', one(lambda A, xa, za: A.st(0 <= xa @ za <= 1)))
        t(k + " dvar(3, vtype='INT')", one(lambda A, xa, za: A.dvar(3, vtype='INT')))
        t(k + " dvar(2, vtype='CX')", one(lambda A, xa, za: A.dvar(2, vtype='CX')))
        t(k + ' dvar(-2)', one(lambda A, xa, za: A.dvar(-2)))
        t(k + ' complex coefficients', one(lambda A, xa, za: A.st(xa * np.array([1 + 2j, 1]) <= 1)))

    def emax_plus_eventwise():
        A = dro.Model(2); y = A.dvar(); x = A.dvar(); z = A.rvar(); fs = A.ambiguity()
        y.adapt(0); y.adapt(1); fs.suppset(z >= 0, z <= 1); A.minsup(rso.E(x), fs)
        A.st(rso.E(rso.maxof(1 * z, 0)) + y <= x)
    t('dro E(maxof) + event-wise decision outside E()', emax_plus_eventwise)

    def amb_after(A, xa, za):
        A.st(xa >= 0)
        return A.ambiguity()
    t('dro ambiguity set after constraints', lambda: amb_after(*mk('dro')))
    for name, f in tests:
        ctx.search_cases += 1; ctx.evaluations += 1; ctx.programs += 1
        ctx.nontriv(name)
        try:
            with C.quiet():
                f()
            ctx.hit('misuse-accepted', {"what": name}, {"misuse": name})
        except Exception as ex:
            ctx.count('raised:' + type(ex).__name__)
    # legal uses that must NOT raise (a guard that is too eager is a defect as well)
    def legal_slice_objective():
        A, xa, za = mk('dro'); A.min(xa[0])
    def legal_slice_minsup():
        A, xa, za = mk('dro'); fa = A.ambiguity(); fa.suppset(za <= 1, za >= 0); A.minsup(rso.E(xa[1] + za[0]), fa)
    def legal_own_scen():
        A, xa, za = mk('dro'); fa = A.ambiguity(); xa.adapt(fa[0])
    def legal_own_rvar(fam):
        y, z1, z2, e = (solved_ro_rule if fam == 'ro' else solved_dro_rule)()
        y(z1.assign(np.ones(2))); y.get(z1); e(z1.assign(np.ones(2)))
    for name, f in [('dro min(x[0]) of a vector', legal_slice_objective), ('dro minsup(E(x[1] + z[0]))', legal_slice_minsup),
                    ('dro adapt(own scenario object)', legal_own_scen),
                    ('ro solved rule evaluated at / queried for its own random variable', lambda: legal_own_rvar('ro')),
                    ('dro solved rule evaluated at / queried for its own random variable', lambda: legal_own_rvar('dro'))]:
        ctx.search_cases += 1; ctx.evaluations += 1; ctx.programs += 1
        try:
            with C.quiet():
                f()
            ctx.count('legal:accepted')
        except Exception as ex:
            ctx.hit('legal-use-rejected', {"what": name, "error": type(ex).__name__ + ': ' + str(ex)[:80]}, {"legal": name})
    ctx.sample({"misuse_patterns": len(tests)}, limit=1)


def interleave(ctx, seed):
    """model A built and solved alone vs interleaved with the construction and solution of model B"""
    ctx.search_cases += 1; ctx.evaluations += 1
    r = np.random.default_rng(seed)
    kinds = [str(r.choice(['ro', 'dro'])), str(r.choice(['ro', 'dro']))]
    descs = []
    for k in kinds:
        rr, s_ = G.sub_rng(r)
        descs.append((O.gen_model(rr) if k == 'ro' else D.gen(rr)))
    case = {"kinds": kinds, "seed": seed}

    def build(k, d):
        return (O.build(d)[0] if k == 'ro' else D.build(d)[0])
    try:
        with C.quiet():
            A0 = build(kinds[0], descs[0]); fA0 = C.prog_json(A0.do_math())
        try:
            vA0 = C.solve_model(A0)
        except (RuntimeError, C.SkipCase):
            vA0 = None
        # interleaved: B is created first, A built, B formulated and solved, then A formulated and solved, then B again
        with C.quiet():
            B = build(kinds[1], descs[1])
            A1 = build(kinds[0], descs[0])
            B.do_math()
        try:
            C.solve_model(B)
        except (RuntimeError, C.SkipCase):
            pass
        with C.quiet():
            fA1 = C.prog_json(A1.do_math())
        try:
            vA1 = C.solve_model(A1)
        except (RuntimeError, C.SkipCase):
            vA1 = None
        with C.quiet():
            B.do_math(primal=False)
            fA2 = C.prog_json(A1.do_math())
    except Exception as ex:
        ctx.count('interleave-error:' + type(ex).__name__); return
    ctx.nontriv(case)
    keys = C.PROG_KEYS + ('qmat', 'xmat', 'vtype')
    if any(fA0[k] != fA1[k] for k in keys) or any(fA1[k] != fA2[k] for k in keys):
        ctx.hit('other-model-changes-standard-form', {"differs": [k for k in keys if fA0[k] != fA1[k] or fA1[k] != fA2[k]]}, case)
    elif (vA0 is None) != (vA1 is None) or (vA0 is not None and abs(vA0 - vA1) > 1e-7 * (1 + abs(vA0))):
        ctx.hit('other-model-changes-optimum', {"alone": vA0, "interleaved": vA1}, case)
    else:
        ctx.count('interleave:identical')


def params_do_not_leak(ctx, seed):
    """solver parameters given to one model's solve() (Gurobi: params={...}) do not change a later solve of another model"""
    from rsome import ro, grb_solver
    r = np.random.default_rng(seed)
    ctx.search_cases += 1; ctx.evaluations += 1
    c = r.integers(1, 6, 3).astype(float); w = r.integers(2, 7, 3).astype(float); cap = float(w.sum() // 2)

    def build_b():
        m = ro.Model(); x = m.dvar(3, vtype='I')
        m.max(c @ x); m.st(w @ x <= cap * 3, x >= 0, x <= 4)
        return m
    case = {"params_seed": seed}
    try:
        with C.quiet():
            B0 = build_b(); B0.solve(grb_solver, display=False); ref = B0.get()
            A = ro.Model(); xa = A.dvar(2); A.min(xa.sum()); A.st(xa >= 1, xa <= 3)
            A.solve(grb_solver, display=False, params={'Cutoff': -1e6, 'SolutionLimit': 1})
            B1 = build_b(); B1.solve(grb_solver, display=False)
            try:
                after = B1.get()
            except RuntimeError:
                after = None
            try:
                B0.solve(grb_solver, display=False); again = B0.get()
            except RuntimeError:
                again = None
    except Exception as ex:
        ctx.hit('solver-parameters-leak:raises:' + type(ex).__name__, {"error": str(ex)[:200]}, case); return
    if after is None or again is None or abs(after - ref) > 1e-7 * (1 + abs(ref)) or abs(again - ref) > 1e-7 * (1 + abs(ref)):
        ctx.hit('solver-parameters-leak', {"other_model_before": ref, "fresh_copy_after": after, "same_object_after": again}, case)
    else:
        ctx.count('params:no-leak')


def run(ctx):
    for k in range(ctx.n(3, 30)):
        params_do_not_leak(ctx, int(ctx.rng.integers(2 ** 31)))
    misuse_matrix(ctx)
    for k in range(ctx.n(40, 800)):
        interleave(ctx, int(ctx.rng.integers(2 ** 31)))


def replay(rp):
    ctx = C.Ctx('C17', 'quick', 0)
    if 'misuse' in rp['case']:
        misuse_matrix(ctx)
        hits = [h for h in ctx.hits if h['case'].get('misuse') == rp['case']['misuse']]
        return {"hits": [h['detail'] for h in hits], "fails": bool(hits)}
    interleave(ctx, rp['case']['seed'])
    return {"hits": [(h['key'], h['detail']) for h in ctx.hits], "fails": bool(ctx.hits)}
