"""C12 — solution queries return the right numbers for the right objects.

Theorems (Lean, RsomeV/Props/C12.lean): `get_reads_allocated` — the solver-vector positions DecVar.get() reads for
scenario s are exactly the columns rule_var allocated to the decision in s (for every partition and order of adapt
calls); `ldr_coeff` — the coefficient query returns the column allocated to (entry, component) iff the dependence was
declared; `objective_sense`.  Tie: the index maps of the Lean model vs the real get()/__call__ on synthetic solution
vectors (no solver: model.solution is set to a Solution whose x is a known vector).
Search: every get()/__call__ result is compared with NumPy evaluation at the synthetic solution."""
import numpy as np
from fractions import Fraction
from harness import common as C
from harness import atoms as AT
from harness import arrays as AR
from harness.props import c13, c10

THEOREMS = {
    'RsomeV.Props.C12': [
        'RsomeV.C12.get_reads_allocated',
        'RsomeV.C12.get_label_is_scenario',
        'RsomeV.C12.call_and_get_agree',
        'RsomeV.C12.objective_sense',
        'RsomeV.C12.legacy_labels_wrong',
        'RsomeV.C12.varIdx_spec',
        'RsomeV.C12.subIdx_spec',
    ],
    'RsomeV.Props.C13': ['RsomeV.C13.mask_respected', 'RsomeV.C13.rule_var_shares'],
    'RsomeV.Props.C12Call': ['RsomeV.C12Call.buildRvec_unassigned', 'RsomeV.C12Call.buildRvec_last_wins', 'RsomeV.C12Call.buildRvec_slice_only', 'RsomeV.C12Call.buildRvec_split',
                             'RsomeV.C12Call.buildRvec_comm', 'RsomeV.C12Call.roCall_eq_numpy', 'RsomeV.C12Call.droCall_eq_numpy', 'RsomeV.C12Call.droCall_eq_decCall',
                             'RsomeV.C12Call.buildRvecsSw_sees_scenario', 'RsomeV.C12Call.buildRvecsSw_sees_common', 'RsomeV.C12Call.series_paths'],
}
RULE = ("synthetic solution vectors on random ro models (variables, slices, affine and bi-affine expression trees, every atom with "
        "multiplier/offset chains, decision rules with random masks) and dro models (1-5 scenarios, integer and string labels, random "
        "partitions declared in random order, affine adaptation, slices); non-trivial = a query on a slice, an expression or an "
        "event-wise decision; distinct by content hash")
TRUSTED = ["pandas Series labelling", "NumPy evaluation of transcendental atoms"]
ASSUMPTIONS = []


def set_solution(m, vec, objval=0.0):
    from rsome.lp import Solution
    sol = Solution('synthetic', float(objval), np.asarray(vec, dtype=float), 0, 0.0)
    if hasattr(m, 'ro_model'):            # dro
        m.ro_model.rc_model.solution = sol; m.ro_model.solution = sol; m.solution = sol
    else:
        m.rc_model.solution = sol; m.solution = sol
    return sol


def ro_queries(ctx, seed):
    """variables, slices, expression trees and atoms on an ro model with a synthetic solution"""
    import rsome as rso
    r = np.random.default_rng(seed)
    env = AR.Env(r)
    m = env.m
    trees = []
    for _ in range(3):
        try:
            trees.append(AR.random_tree(env, int(r.integers(1, 4))))
        except Exception:
            pass
    # atoms on a dedicated vector
    xa = m.dvar(3); xa_val = r.choice([0.5, 1.0, 2.0, -1.0, 1.5, -3.0, -2.5], 3)      # the largest magnitude may sit on a negative entry
    env.vars.append((xa, xa_val, 'dec'))
    wv = m.dvar(); w_val = float(r.choice([-1.0, 0.5, 2.0])); env.vars.append((wv, np.array(w_val), 'dec'))
    # element-wise atoms on arrays that are not 1-D: a column, a matrix, a scalar
    shp2 = [(3, 1), (2, 3), (1, 3), (2, 2)][int(r.integers(4))]
    xm = m.dvar(shp2); xm_val = r.choice([0.5, 1.0, 2.0, -1.0, 1.5], shp2); env.vars.append((xm, xm_val, 'dec'))
    atoms = []
    for name in r.choice(list(AT.ATOMS), 4, replace=False):
        xt, sign, quad, outk, dom, cone, build, npf = AT.ATOMS[str(name)]
        arg_val = np.abs(xa_val) + 0.5 if dom == 'pos' else xa_val
        arg = (abs_shift(xa, xa_val) if dom == 'pos' else xa)
        ops = [o for o in c10.gen_chain(r, allow_zero=False)][:3]
        try:
            e = c10.apply_chain(build(arg), ops, wv)
        except Exception:
            continue
        atoms.append((str(name), ops, e, c10.np_chain(np.asarray(npf(arg_val), dtype=float), ops, w_val)))
    m.min(env.vars[0][0].sum() if env.vars[0][0].shape != () else env.vars[0][0])
    with C.quiet():
        f = m.do_math()
    xv, zv = env.assignment()
    vec = np.zeros(f.linear.shape[1]); vec[:len(xv)] = xv[:len(vec)] if len(xv) > len(vec) else xv
    objsign = 1
    set_solution(m, vec, objval=3.5)
    case0 = {"seed": seed}
    # model.get()
    q(ctx, 'model.get', case0, lambda: m.get(), 3.5)
    # variables and slices
    for v, val, kind in env.vars:
        if kind != 'dec':
            continue
        q(ctx, 'Vars.get', dict(case0, var=str(v.shape)), lambda v=v: v.get(), val)
        q(ctx, 'Vars.__call__', dict(case0, var=str(v.shape)), lambda v=v: v(), val)
        if val.ndim >= 1 and val.size > 1:
            ix = AR.rand_index(r, val.shape)
            try:
                ref = val[ix]
            except Exception:
                continue
            if np.size(ref) == 0:
                continue
            q(ctx, 'VarSub.get', dict(case0, var=str(v.shape), index=AR.index_repr(ix)), lambda v=v, ix=ix: v[ix].get(), ref)
            q(ctx, 'VarSub.__call__', dict(case0, var=str(v.shape), index=AR.index_repr(ix)), lambda v=v, ix=ix: v[ix](), ref)
    # expression trees
    from rsome.lp import RandVal
    assigns = []
    for z, val, _ in env.z:
        u = r.random()
        if u < 0.5 or val.ndim == 0 or val.shape[0] < 2:
            assigns.append(z.assign(val))                      # the whole array at once
        elif u < 0.8:
            k = int(r.integers(1, val.shape[0]))               # two slices that cover the array
            assigns += [z[:k].assign(val[:k]), z[k:].assign(val[k:])]
        else:
            assigns += [z[i].assign(val[i]) for i in range(val.shape[0])]     # entry by entry along the first axis
    ctx.count('ro-assign-args:%d' % min(len(assigns) - len(env.z), 3))
    for n in trees:
        if n.kind == 'const':
            continue
        if n.kind == 'rand':
            continue
        if n.kind == 'bi':
            q(ctx, 'RoAffine.__call__', dict(case0, expr=n.desc), lambda n=n: n.e(*assigns) if not hasattr(n.e, 'to_affine') or True else None, n.v, call_expr=True)
        else:
            q(ctx, 'Affine.__call__', dict(case0, expr=n.desc), lambda n=n: (n.e.to_affine() if hasattr(n.e, 'to_affine') else n.e)(), n.v)
    # realisations that broadcast against the random array (a column, a row, a number), as NumPy would
    if env.zb_val.ndim == 2 and min(env.zb_val.shape) > 1:
        others = [z.assign(val) for z, val, _ in env.z if z is not env.zb]
        n_, m_ = env.zb_val.shape
        for what, given in (('column', r.integers(-2, 3, (n_, 1)).astype(float)), ('row', r.integers(-2, 3, (m_,)).astype(float)),
                            ('number', float(r.integers(-2, 3)))):
            full = np.broadcast_to(np.asarray(given, dtype=float), env.zb_val.shape)
            q(ctx, 'RoAffine.__call__(broadcast realisation)', dict(case0, given=what, shape=list(env.zb_val.shape)),
              lambda given=given: ((env.xb * env.zb).sum() + env.xb.sum())(env.zb.assign(given), *others),
              float((env.xb_val * full).sum() + env.xb_val.sum()), call_expr=True)
    for nm_, bld_, npf_ in (('square', lambda e: rso.square(e), lambda v: v ** 2), ('abs', lambda e: abs(e), np.abs), ('exp', lambda e: rso.exp(e), np.exp)):
        q(ctx, 'Convex.__call__:%s(array %s)' % (nm_, 'x'.join(map(str, shp2))), dict(case0, atom=nm_, shape=list(shp2)), lambda b_=bld_: (2 * b_(xm) + 1)(), 2 * npf_(xm_val) + 1)
        q(ctx, 'Convex.__call__:%s(scalar)' % nm_, dict(case0, atom=nm_, shape=[]), lambda b_=bld_: b_(wv)(), npf_(np.array(w_val)))
    # atoms
    for name, ops, e, ref in atoms:
        q(ctx, 'Convex.__call__:' + name, dict(case0, atom=name, ops=ops), lambda e=e: e(), ref, tol=1e-9)
    # decision rule queries
    if env.ldr is not None:
        y = env.ldr
        q(ctx, 'DecRule.get', case0, lambda: y.get(), env.ldr_y0)
        for z, zval, _ in env.z:
            cols = list(range(z.first, z.first + z.size))
            ref = np.where(env.ldr_mask[:, cols], env.ldr_coef[:, cols], np.nan).reshape(tuple(y.shape) + tuple(z.shape))
            q(ctx, 'DecRule.get(rvar)', dict(case0, mask=env.ldr_mask.astype(int).tolist()), lambda z=z: y.get(z), ref, nan_ok=True)
        if env.ldr_mask.any():
            q(ctx, 'DecRule.__call__(assign)', case0, lambda: y(*assigns), env.ldr_value())
        else:
            q(ctx, 'DecRule.__call__()', case0, lambda: y(), env.ldr_y0)


def abs_shift(x, xval):
    """an affine expression with value |xval| + 0.5 at x = xval (keeps the argument of log-type atoms positive)"""
    s = np.where(xval >= 0, 1.0, -1.0)
    return s * x + 0.5


def q(ctx, what, case, f, ref, tol=1e-9, nan_ok=False, call_expr=False):
    ctx.search_cases += 1; ctx.evaluations += 1
    ctx.count('query:' + what.split(':')[0])
    case = dict(case, query=what)
    if what.startswith(('VarSub', 'Convex', 'RoAffine', 'DecRule', 'DecVar', 'DecAffine')):
        ctx.nontriv(case)
    try:
        with C.quiet():
            got = f()
    except ValueError as ex:
        if 'Unsupported convex/concave expression' in str(ex):
            ctx.count('unsupported-evaluation:' + what); return     # the atom does not support evaluation (allowed)
        ctx.hit('query-raises:' + what, {"error": type(ex).__name__ + ': ' + str(ex)[:200]}, case)
        return
    except Exception as ex:
        ctx.hit('query-raises:' + what, {"error": type(ex).__name__ + ': ' + str(ex)[:200]}, case)
        return
    try:
        g = np.asarray(got, dtype=float); rf = np.asarray(ref, dtype=float)
        same = g.shape == rf.shape and np.allclose(g, rf, rtol=tol, atol=tol, equal_nan=nan_ok)
    except Exception:
        same = False
    if not same:
        ctx.hit('wrong-value:' + what, {"got": np.asarray(got, dtype=float).tolist() if not isinstance(got, dict) else str(got),
                                         "expected": np.asarray(ref, dtype=float).tolist()}, case)
    else:
        ctx.sample(case, limit=4)


def dro_queries(ctx, seed):
    """event-wise decisions: per-scenario labels for every partition and order of adapt calls"""
    from rsome import dro
    r = np.random.default_rng(seed)
    S = int(r.integers(1, 6))
    labels = None if r.random() < 0.5 else ['s%d' % i for i in range(S)]
    m = dro.Model(labels if labels else S)
    z = m.rvar(2)
    ubar = m.rvar()
    decs = []
    for k in range(int(r.integers(1, 4))):
        shp = AR.rand_shape(r, maxrank=2)
        x = m.dvar(shp)
        part = c13.rand_partition(r, S)
        r.shuffle(part)
        for e in part[1:]:
            x.adapt([labels[i] for i in e] if labels else (e if len(e) > 1 or r.random() < 0.5 else e[0]))
        mask = np.zeros((int(np.prod(shp)), 2), bool)
        if r.random() < 0.5:
            mask = r.random(mask.shape) < 0.6
            for i in range(mask.shape[0]):
                for j in range(2):
                    if mask[i, j]:
                        (x if shp == () else x.to_affine)  # noqa
                        if shp == ():
                            x.adapt(z[j])
                        else:
                            x[np.unravel_index(i, shp)].adapt(z[j])
        decs.append((x, shp, mask))
    for _ in range(2):
        # two scalar, event-wise static decisions with partitions of their own (operands of atom(x) + y)
        x = m.dvar()
        part = c13.rand_partition(r, S); r.shuffle(part)
        for e in part[1:]:
            x.adapt([labels[i] for i in e] if labels else e)
        decs.append((x, (), np.zeros((1, 2), bool)))
    fset = m.ambiguity()
    fset.suppset(z >= -2, z <= 2, ubar >= -2, ubar <= 2)
    m.minsup(decs[0][0].sum() if decs[0][1] != () else decs[0][0], fset)
    with C.quiet():
        f = m.do_math()
    ncol = f.linear.shape[1]
    vec = r.integers(-9, 10, ncol).astype(float)
    set_solution(m, vec, objval=-2.0)
    q(ctx, 'dro model.get', {"seed": seed}, lambda: m.get(), -2.0)
    lst = m.rule_var()
    z0 = r.integers(-2, 3, 2).astype(float)
    all_consts = []; all_coefs = []
    for x, shp, mask in decs:
        case = {"seed": seed, "S": S, "labels": bool(labels), "events": [list(map(int, e)) for e in x.event_adapt], "shape": list(shp)}
        # expected per-scenario constant part and coefficients, read from the rule_var structure itself
        size = int(np.prod(shp))
        rows = slice(x.first, x.first + size)
        exp_const = []; exp_coef = []; exp_val = []
        for s in range(S):
            e = lst[s]
            aff = e.affine if hasattr(e, 'raffine') else e
            L = C.dense(aff.linear)[rows]
            c0 = (L @ vec[:L.shape[1]]).reshape(shp)
            exp_const.append(c0)
            if hasattr(e, 'raffine'):
                RL = e.raffine.linear
                coef = (RL @ vec[:RL.shape[1]]).reshape(-1, e.raffine.shape[1])[rows][:, :2]
            else:
                coef = np.zeros((size, 2))
            exp_coef.append(np.where(mask, coef, np.nan).reshape(tuple(shp) + (2,)))
            exp_val.append(c0 + (coef @ z0).reshape(shp))
        multi = len(x.event_adapt) > 1
        all_consts.append(exp_const); all_coefs.append(exp_coef)

        def series_vals(obj, n=S):
            import pandas as pd
            if isinstance(obj, pd.Series):
                idx = list(obj.index)
                want = labels if labels else list(range(S))
                if idx != want:
                    raise ValueError('series index %r != scenarios %r' % (idx, want))
                return [np.asarray(v, dtype=float) for v in obj.values]
            if n is None:
                if S > 1:
                    raise ValueError('one value per scenario expected, got a single %s' % type(obj).__name__)
                n = S
            return [np.asarray(obj, dtype=float)] * n
        for what, f_, ref in (('DecVar.get', lambda: series_vals(x.get()), exp_const),
                              ('DecVar.__call__', lambda: series_vals(x(z.assign(z0)) if mask.any() else x()), exp_val if mask.any() else exp_const)):
            ctx.search_cases += 1; ctx.evaluations += 1; ctx.count('query:' + what)
            c2 = dict(case, query=what); ctx.nontriv(c2)
            try:
                with C.quiet():
                    got = f_()
            except Exception as ex:
                ctx.hit('query-raises:' + what, {"error": type(ex).__name__ + ': ' + str(ex)[:200]}, c2); continue
            bad = [s for s in range(S) if got[s].shape != np.asarray(ref[s]).shape or not np.allclose(got[s], ref[s])]
            if bad:
                ordered = all(min(e) == sorted(min(e2) for e2 in x.event_adapt)[i] for i, e in enumerate(x.event_adapt))
                ctx.hit('wrong-scenario-values:' + what, {"scenarios": bad, "got": [g.tolist() for g in got], "expected": [np.asarray(v).tolist() for v in ref],
                                                          "events_in_increasing_order": ordered}, c2)
        if len(shp) >= 1 and shp[0] >= 1:
            # a slice, and a slice of a slice, of an event-wise decision are event-wise: one value per scenario, labelled
            n0 = int(shp[0]); k0 = int(r.integers(0, n0)); lo0 = int(r.integers(0, k0 + 1))
            refs = exp_val if mask.any() else exp_const
            for what, f_, ref in (('DecVarSub.__call__', lambda: x[k0], [np.asarray(v)[k0] for v in refs]),
                                  ('DecVarSub[slice][index].__call__', lambda: x[lo0:n0][k0 - lo0], [np.asarray(v)[lo0:n0][k0 - lo0] for v in refs]),
                                  ('(static + DecVarSub[slice][index]).__call__', lambda: 0 * decs[-1][0] + x[lo0:n0][k0 - lo0], [np.asarray(v)[lo0:n0][k0 - lo0] for v in refs])):
                ctx.search_cases += 1; ctx.evaluations += 1; ctx.count('query:' + what)
                c2 = dict(case, query=what, index=[lo0, k0]); ctx.nontriv(c2)
                try:
                    with C.quiet():
                        e_ = f_()
                        got = series_vals(e_(z.assign(z0)) if mask.any() else e_(), n=(None if len(x.event_adapt) > 1 else S))
                except Exception as ex:
                    ctx.hit('query-raises:' + what, {"error": type(ex).__name__ + ': ' + str(ex)[:200]}, c2); continue
                bad = [s_ for s_ in range(S) if np.asarray(got[s_]).reshape(-1).shape != np.asarray(ref[s_]).reshape(-1).shape
                       or not np.allclose(np.asarray(got[s_]).reshape(-1), np.asarray(ref[s_]).reshape(-1))]
                if bad:
                    ctx.hit('wrong-scenario-values:' + what, {"scenarios": bad, "got": [np.asarray(g).tolist() for g in got], "expected": [np.asarray(v).tolist() for v in ref]}, c2)
        if mask.any():
            # realisations given slice by slice, only partly (the rest is zero), and scenario-wise for a rule that need not be
            # event-wise: one value per scenario
            import pandas as pd
            v1 = float(r.integers(-2, 3)); Zs = r.integers(-2, 3, (S, 2)).astype(float)

            def val_at(s, zz):
                return exp_const[s] + (np.where(np.isnan(exp_coef[s]), 0.0, exp_coef[s]) @ zz).reshape(shp)
            for what, f_, ref in (
                    ('DecVar.__call__(slices)', lambda: series_vals(x(z[0].assign(z0[0]), z[1].assign(z0[1]))), exp_val),
                    ('DecVar.__call__(one slice)', lambda: series_vals(x(z[1].assign(v1))), [val_at(s, np.array([0.0, v1])) for s in range(S)]),
                    ('DecVar.__call__(scenario-wise)', lambda: series_vals(x(z.assign(Zs, sw=True)), n=None), [val_at(s, Zs[s]) for s in range(S)]),
                    ('DecVar.__call__(scenario-wise slice)', lambda: series_vals(x(z[0].assign(Zs[:, 0].copy(), sw=True)), n=None),
                     [val_at(s, np.array([Zs[s, 0], 0.0])) for s in range(S)])):
                ctx.search_cases += 1; ctx.evaluations += 1; ctx.count('query:' + what)
                c2 = dict(case, query=what); ctx.nontriv(c2)
                try:
                    with C.quiet():
                        got = f_()
                except Exception as ex:
                    ctx.hit('query-raises:' + what, {"error": type(ex).__name__ + ': ' + str(ex)[:200]}, c2); continue
                bad = [s_ for s_ in range(S) if got[s_].shape != np.asarray(ref[s_]).shape or not np.allclose(got[s_], ref[s_])]
                if bad:
                    ctx.hit('wrong-scenario-values:' + what, {"scenarios": bad, "got": [g.tolist() for g in got], "expected": [np.asarray(v).tolist() for v in ref]}, c2)
        if shp == () or len(shp) == 1:
            # bi-affine expressions evaluated at plain and scenario-wise realisations, in both argument orders:
            # (x * z[0] + u) (z.assign(Z, sw=True), u.assign(v)) must be one value per scenario
            what = 'DecRoAffine.__call__(scenario-wise)'
            ctx.search_cases += 1; ctx.evaluations += 1; ctx.count('query:' + what)
            c2 = dict(case, query=what)
            try:
                Zs = r.integers(-2, 3, (S, 2)).astype(float); uv = float(r.integers(-2, 3))
                expr = x * z[0] + 2.0 * ubar
                import pandas as pd
                with C.quiet():
                    outs_ = [expr(z.assign(Zs, sw=True), ubar.assign(uv)), expr(ubar.assign(uv), z.assign(Zs, sw=True))]
                for oi, out_ in enumerate(outs_):
                    if not isinstance(out_, pd.Series) or len(out_) != S:
                        ctx.hit('wrong-scenario-values:' + what, {"order": ['sw-first', 'plain-first'][oi], "returned": type(out_).__name__}, c2); break
                    got = [np.asarray(v, dtype=float) for v in out_.values]
                    ref = []
                    for s in range(S):
                        xs_ = exp_const[s] + ((np.where(np.isnan(exp_coef[s]), 0.0, exp_coef[s])) @ Zs[s]).reshape(shp) if mask.any() else exp_const[s]
                        ref.append(np.asarray(xs_ * Zs[s][0] + 2.0 * uv))
                    bad = [s for s in range(S) if got[s].shape != ref[s].shape or not np.allclose(got[s], ref[s])]
                    if bad:
                        ctx.hit('wrong-scenario-values:' + what, {"order": ['sw-first', 'plain-first'][oi], "scenarios": bad, "got": [g.tolist() for g in got], "expected": [v.tolist() for v in ref]}, c2); break
            except TypeError as ex:
                ctx.count('query:biaffine-call-unsupported:' + str(ex)[:40])
            except Exception as ex:
                ctx.hit('query-raises:' + what, {"error": type(ex).__name__ + ': ' + str(ex)[:200]}, c2)
        if mask.any():
            ctx.search_cases += 1; ctx.evaluations += 1; ctx.count('query:DecVar.get(rvar)')
            c2 = dict(case, query='DecVar.get(rvar)', mask=mask.astype(int).tolist()); ctx.nontriv(c2)
            try:
                with C.quiet():
                    got = series_vals(x.get(z))
                bad = [s for s in range(S) if got[s].shape != exp_coef[s].shape or not np.allclose(got[s], exp_coef[s], equal_nan=True)]
                if bad:
                    ctx.hit('wrong-scenario-values:DecVar.get(rvar)', {"scenarios": bad, "got": [g.tolist() for g in got], "expected": [v.tolist() for v in exp_coef]}, c2)
            except Exception as ex:
                ctx.hit('query-raises:DecVar.get(rvar)', {"error": type(ex).__name__ + ': ' + str(ex)[:200]}, c2)
    dro_convex_mixed(ctx, decs, all_consts, S, labels, {"seed": seed, "S": S, "labels": bool(labels)})
    # bi-affine expressions whose deterministic part holds ANOTHER decision - event-wise with its own partition and / or affinely
    # adaptive: (xe * z[0] + x)(z.assign(...)) is xe_s * z0 + x_s(z) in every scenario, for plain and scenario-wise realisations
    import pandas as pd
    xe, ce = decs[-1][0], all_consts[-1]
    for k_, (x, shp, mask) in enumerate(decs[:-2]):
        Zs = r.integers(-2, 3, (S, 2)).astype(float); z1 = r.integers(-2, 3, 2).astype(float)
        coef = [np.where(np.isnan(c_), 0.0, c_) for c_ in all_coefs[k_]]
        for what, arg, zz in (('DecRoAffine.__call__(other decision in the deterministic part)', lambda: z.assign(z1), [z1] * S),
                              ('DecRoAffine.__call__(other decision in the deterministic part, scenario-wise)', lambda: z.assign(Zs, sw=True), list(Zs))):
            ctx.search_cases += 1; ctx.evaluations += 1; ctx.count('query:' + what)
            c2 = {"seed": seed, "S": S, "query": what, "events_x": [list(map(int, e)) for e in x.event_adapt], "events_xe": [list(map(int, e)) for e in xe.event_adapt],
                  "shape": list(shp), "affinely_adaptive": bool(mask.any())}
            ctx.nontriv(c2)
            ref = [np.asarray(ce[s_] * zz[s_][0] + all_consts[k_][s_] + (coef[s_] @ zz[s_]).reshape(shp)) for s_ in range(S)]
            try:
                with C.quiet():
                    out_ = (xe * z[0] + x)(arg())
                if isinstance(out_, pd.Series):
                    want = labels if labels else list(range(S))
                    got = [np.asarray(v, dtype=float) for v in out_.values] if list(out_.index) == want else None
                else:
                    got = [np.asarray(out_, dtype=float)] * S if all(np.allclose(ref[0], v) for v in ref) else None
            except Exception as ex:
                ctx.hit('query-raises:' + what, {"error": type(ex).__name__ + ': ' + str(ex)[:200]}, c2); continue
            if got is None or any(np.asarray(g).reshape(-1).shape != v.reshape(-1).shape or not np.allclose(np.asarray(g).reshape(-1), v.reshape(-1)) for g, v in zip(got, ref)):
                ctx.hit('wrong-scenario-values:' + what, {"returned": (None if got is None else [np.asarray(g).tolist() for g in got]), "expected": [v.tolist() for v in ref]}, c2)


def dro_convex_mixed(ctx, decs, exp_consts, S, labels, case0):
    """atom(x) + y for decisions with different event partitions: one value per scenario of the common refinement"""
    import pandas as pd
    import rsome as rso
    sc = [(x, c) for (x, shp, mask), c in zip(decs, exp_consts) if shp == () and not mask.any()]
    for (xa, ca), (xb, cb) in [(a, b) for a in sc for b in sc if a is not b][:2]:
        for name, build, npf in (('abs', lambda e: abs(e), abs), ('square', lambda e: rso.square(e), lambda v: v * v)):
            what = 'DecConvex.__call__:' + name
            ctx.search_cases += 1; ctx.evaluations += 1; ctx.count('query:' + what)
            c2 = dict(case0, query=what, events_atom=[list(map(int, e)) for e in xa.event_adapt], events_affine=[list(map(int, e)) for e in xb.event_adapt])
            ctx.nontriv(c2)
            ref = [float(npf(ca[s]) + 2 * cb[s]) for s in range(S)]
            try:
                with C.quiet():
                    out = (build(xa) + 2 * xb)()
            except Exception as ex:
                ctx.hit('query-raises:' + what, {"error": type(ex).__name__ + ': ' + str(ex)[:200]}, c2); continue
            one = lambda v: float(np.asarray(v, dtype=float).reshape(-1)[0])
            if isinstance(out, pd.Series):
                want = labels if labels else list(range(S))
                got = [one(v) for v in out.values] if list(out.index) == want and all(np.size(v) == 1 for v in out.values) else None
            else:
                got = [one(out)] * S if (np.size(out) == 1 and len(set(round(v, 9) for v in ref)) == 1) else None   # a single number only if all scenarios agree
            if got is None or not np.allclose(got, ref):
                ctx.hit('wrong-scenario-values:' + what, {"returned": str(out)[:200], "expected": ref}, c2)


def run(ctx):
    for k in range(ctx.n(60, 1500)):
        seed = int(ctx.rng.integers(2 ** 31))
        try:
            ro_queries(ctx, seed)
        except Exception as ex:
            ctx.count('ro-harness-error:' + type(ex).__name__)
    for k in range(ctx.n(120, 3000)):
        seed = int(ctx.rng.integers(2 ** 31))
        try:
            dro_queries(ctx, seed)
        except Exception as ex:
            ctx.count('dro-harness-error:' + type(ex).__name__ + ':' + str(ex)[:40])
    correspondences(ctx)
    C.run_difftest(ctx, 'test_assign_call.py', ctx.n(40, 600), 'evaluation at assigned realisations: RoAffine / DecRoAffine / DecAffine / DecRule __call__ with whole, sliced, repeated, broadcast and scenario-wise arguments')


def correspondences(ctx):
    """index maps of the Lean model vs DecVar.get on solution vectors x = arange (so values are positions)"""
    from rsome import dro
    r = ctx.rng
    reqs, codes, cases = [], [], []
    for _ in range(ctx.n(80, 2000)):
        S = int(r.integers(1, 6))
        m = dro.Model(S)
        decs = []
        for k in range(int(r.integers(1, 4))):
            size = int(r.integers(1, 4))
            x = m.dvar(size)
            part = c13.rand_partition(r, S); r.shuffle(part)
            for e in part[1:]:
                x.adapt(e)
            decs.append(x)
        m.min(decs[0].sum())
        with C.quiet():
            f = m.do_math()
        vc = m.ro_model.rc_model.vars[1]
        vec = np.arange(f.linear.shape[1], dtype=float)
        set_solution(m, vec)
        alld = [{"size": int(dv.size), "events": [list(map(int, e)) for e in dv.event_adapt]} for dv in m.dec_vars]
        got = []
        ok = True
        for k, dv in enumerate(m.dec_vars):
            try:
                res = dv.get()
            except Exception as ex:
                ok = False; break
            import pandas as pd
            if isinstance(res, pd.Series):
                per = [np.asarray(v, dtype=float).reshape(-1) for v in res.values]
            else:
                per = [np.asarray(res, dtype=float).reshape(-1)] * S
            got.append([[int(v) - int(vc.first) for v in p] for p in per])
        if not ok:
            continue
        # model: for every scenario the concatenation over decisions
        cols = [[c for k in range(len(alld)) for c in got[k][s]] for s in range(S)]
        reqs.append({"op": "rule_cols", "S": S, "decs": alld}); codes.append({"cols": cols}); cases.append({"S": S, "decs": alld})
    outs = C.lean_run(reqs)
    for rq, code, case, out in zip(reqs, codes, cases, outs):
        ctx.corr('DecVar.get index map vs Lean constCols', case, code, out, ['cols'])


def replay(rp):
    case = rp['case']
    ctx = C.Ctx('C12', 'quick', 0)
    if 'S' in case and 'seed' in case:
        dro_queries(ctx, case['seed'])
    elif 'seed' in case:
        ro_queries(ctx, case['seed'])
    return {"hits": [(h['key'], h['detail']) for h in ctx.hits if h['key'] == rp.get('key')][:3], "fails": any(h['key'] == rp.get('key') for h in ctx.hits)}
