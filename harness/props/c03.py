"""C03 — DRO solutions are safe for every distribution in the ambiguity set.

Theorems (Lean, RsomeV/Props/C03.lean): `dro_sound` — with conditional expectation operators (linear, monotone on the
support, normalised; every probability measure on the support induces one) the second-stage robust rows and the
first-stage robust row over the lifted (probability, scaled-mean) support imply the bound on the expected integrand for
every distribution of the event-wise ambiguity set; `mixSupport_lift` — every admissible (p, means) lifts to a point of
the model of Ambiguity.mix_support.  Tie: the lifted support built by the real mix_support vs the Lean model; rule_var
(C13).  Search: extreme distributions by an LP over support vertices at the returned decisions."""
import numpy as np
from harness import common as C
from harness import dro_oracle as D
from harness import gen as G

THEOREMS = {
    'RsomeV.Props.C03Scen': ['RsomeV.RoToRoc.subst_eval', 'RsomeV.C03Scen.item_sound', 'RsomeV.C03Scen.ro_to_roc_sound'],
    'RsomeV.Props.C03Rows': ['RsomeV.C03Rows.first_stage_is_droRow', 'RsomeV.C03Rows.second_stage_gives_H2', 'RsomeV.C03Rows.dro_rows_sound'],
    'RsomeV.Props.C03': ['RsomeV.C03.mixSupport_lift', 'RsomeV.C03.dro_sound', 'RsomeV.C03.finExp_isCondExp', 'RsomeV.C03.dro_sound_compiled', 'RsomeV.C03.dro_sound_end_to_end'],
    'RsomeV.Props.C01': ['RsomeV.C01.rc_sound', 'RsomeV.C01.rc_sound_eq'],
    'RsomeV.Props.C08': ['RsomeV.C08.cone_dual_weak'],
    'RsomeV.Props.C13': ['RsomeV.C13.run_events', 'RsomeV.C13.rule_var_shares', 'RsomeV.C13.mask_respected'],
    'RsomeV.Props.C03Model': ['RsomeV.C03Model.dro_model_sound', 'RsomeV.C03Model.dro_model_sound_R', 'RsomeV.C03Model.dro_model_sound_E', "RsomeV.C03Model.dro_model_sound_E'", 'RsomeV.C03Model.droItems_piecesOK', 'RsomeV.C03Model.ex_sound'],
}
RULE = ("random dro models: 1-4 scenarios (default, string and non-positional integer labels), box supports per scenario, 0-2 "
        "expectation sets on random events (whole set or slices), fixed or box probability sets, a static and an event-wise "
        "(optionally affinely adaptive) decision declared in either order, E(maxof(...)) objectives with 1-3 bi-affine pieces and "
        "optional constant piece, one scenario-wise robust constraint, optional E(...) constraint; non-trivial = at least two "
        "scenarios or an expectation set; distinct by content hash")
TRUSTED = ["HiGHS/ECOS optimum of the compiled program; scipy LP for the vertex-distribution oracle"]
ASSUMPTIONS = ["integrands are maxima of affine pieces, so worst-case distributions are vertex-supported (boxes)"]


def search_one(ctx, d, exact=False):
    ctx.search_cases += 1; ctx.evaluations += 1
    case = {"desc": d}
    try:
        with C.quiet():
            m, h = D.build(d)
    except Exception as ex:
        ctx.hit('build-raises:' + type(ex).__name__, {"error": str(ex)[:300]}, case); return None
    try:
        val = C.solve_model(m)
    except C.SkipCase:
        ctx.count('skipped'); return None
    except RuntimeError:
        ctx.count('not-optimal'); return None
    except Exception as ex:
        ctx.hit('solve-raises:' + type(ex).__name__, {"error": str(ex)[:300]}, case); return None
    if d['S'] > 1 or d['exps']:
        ctx.nontriv(d)
    ctx.count('S=%d' % d['S']); ctx.count('exps=%d' % len(d['exps'])); ctx.count('affine' if d['y_affine'] else 'static')
    try:
        xs, y0, Y = D.read_solution(d, h)
    except Exception as ex:
        ctx.hit('readback-raises:' + type(ex).__name__, {"error": str(ex)[:300]}, case); return None
    rv = D.robust_violations(d, xs, y0, Y)
    if rv:
        ctx.hit('robust-constraint-violated', {"violations": rv[:3]}, case); return None
    ec = D.event_consistency(d, y0, Y)
    if ec:
        ctx.hit('decision-differs-within-event', {"violations": ec[:3]}, case); return None
    wc = D.worst_case(d, xs, y0, Y)
    if wc is None:
        ctx.count('oracle-lp-failed'); return None
    tol = 1e-5 * (1 + abs(val))
    if wc > val + tol:
        ctx.hit('unsafe-expected-objective', {"reported": float(val), "worst_case_expectation": float(wc)}, case); return None
    if d['econ']:
        we = D.worst_case(d, xs, y0, Y, integrand='econ')
        if we is not None and we > d['econ']['rhs'] + 1e-5 * (1 + abs(d['econ']['rhs'])):
            ctx.hit('unsafe-expectation-constraint', {"worst_case": float(we), "rhs": d['econ']['rhs']}, case); return None
    ctx.count('safe')
    ctx.sample({"S": d['S'], "events": d['y_events'], "exps": [e['ev'] for e in d['exps']], "affine": d['y_affine']}, limit=4)
    return val, wc


def run(ctx):
    # correspondence: the lifted (probability, scaled-mean) support built by the real mix_support vs the Lean model (exact)
    C.run_difftest(ctx, 'test_ro_to_roc.py', ctx.n(60, 1000), 'dro.Model.ro_to_roc (scenario-wise substitution of decision rules into robust / linear constraints)')
    C.run_difftest(ctx, 'test_dro_model.py', ctx.n(40, 600), 'dro.Model.do_math (whole compiled program of a dro model)')
    C.run_difftest(ctx, 'test_dro_rows.py', ctx.n(60, 1000), 'dro.Model.dro_to_roc (first-stage fragment and second-stage robust rows of an expectation constraint)')
    C.run_difftest(ctx, 'test_mix_support.py', ctx.n(120, 2500), 'Ambiguity.mix_support (lifted support of the event-wise ambiguity set)')
    for k in range(ctx.n(160, 2500)):
        r, seed = G.sub_rng(ctx.rng)
        d = D.gen(r); d['seed'] = seed
        search_one(ctx, d)


def replay(rp):
    ctx = C.Ctx('C03', 'quick', 0)
    search_one(ctx, rp['case']['desc'])
    return {"hits": [(h['key'], h['detail']) for h in ctx.hits], "fails": bool(ctx.hits)}
