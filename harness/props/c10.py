"""C10 — only convex uses of convex/concave expressions are accepted.

Theorems (Lean, RsomeV/Props/C10.lean): the sign/multiplier record denotes the written expression after any
chain of operations (calc_denote), acceptance of `<=`/`>=` is exactly monotonicity in the convex base
function (accept_convex / accept_concave), the piecewise calculus (pw_denote_partial + the proved witness of its
failure under zero scaling), and `decide` theorems over the atom table extracted from rsome/lp.py.
Tie: random operator chains on every atom / class family through the real API vs the Lean calculus; the
extracted table.  Search: pinned-argument evaluation of accepted constraints and three-point convexity."""
import numpy as np
from fractions import Fraction
from harness import common as C
from harness import atoms as AT

GEN = True
THEOREMS = {
    'RsomeV.Props.C10': [
        'RsomeV.C10.apply_denote',
        'RsomeV.C10.calc_denote',
        'RsomeV.C10.inv_run',
        'RsomeV.C10.accept_convex',
        'RsomeV.C10.accept_concave',
        'RsomeV.C10.pw_denote',
        'RsomeV.C10.pw_zero_scale_keeps_offset',
        'RsomeV.C10.atoms_signed_right',
        'RsomeV.C10.mul_classes_right',
    ],
}
RULE = ("random chains (depth 0-8) of negation, scaling by positive/negative/zero scalars, +/- constants and affine terms on "
        "either side over every atom of harness/atoms.py (plain, perspective) and over maxof/minof and E(maxof/minof), in ro and "
        "dro front ends, closed by <=, >=, ==, min or max; plus illegal products; non-trivial = chain with at least one "
        "scaling and one sign change; distinct by content hash")
TRUSTED = ["solvers only in the pinned-evaluation search (tolerance 1e-5)"]
ASSUMPTIONS = ["logdet/rootdet atoms are in the sign table but their encodings are not exercised (no SDP solver)"]

SCALES = [2.0, 0.5, -1.0, -2.0, 4.0, 0.25, 1.0, 3.0, -0.5]


def gen_chain(r, allow_zero=True):
    ops = []
    for _ in range(int(r.integers(0, 9))):
        u = r.random()
        if u < 0.2:
            ops.append(['neg'])
        elif u < 0.5:
            k = 0.0 if (allow_zero and r.random() < 0.06) else float(r.choice(SCALES))
            ops.append(['scale', C.fr(k), 'L' if r.random() < 0.5 else 'R'])
        else:
            c = float(r.choice([-2., -1., 0.5, 1., 3.])); d = float(r.choice([0., 0., 1., -1., 2.]))
            ops.append([str(r.choice(['add', 'sub', 'rsub', 'radd'])), C.fr(c), C.fr(d)])
    return ops


def model_ops(ops):
    out = []
    for o in ops:
        if o[0] == 'scale':
            out.append(['scale', o[1]])
        elif o[0] == 'radd':
            out.append(['add', o[1], o[2]])
        else:
            out.append(list(o))
    return out


NUMPY_SCALARS = [False]          # set per case: numeric operands are handed over as NumPy scalars (np.float64) instead of floats


def apply_chain(e, ops, w):
    num = (lambda v: np.array([v])[0]) if NUMPY_SCALARS[0] else (lambda v: v)
    for o in ops:
        if o[0] == 'neg':
            e = -e
        elif o[0] == 'scale':
            k = num(float(Fraction(o[1])))
            e = (k * e) if o[2] == 'L' else (e * k)
        else:
            c = float(Fraction(o[1])); d = float(Fraction(o[2]))
            t = num(c) if d == 0 else (d * w + c)
            if o[0] == 'add':
                e = e + t
            elif o[0] == 'radd':
                e = t + e
            elif o[0] == 'sub':
                e = e - t
            else:
                e = t - e
    return e


def out_pair(out, wcol):
    """(const, coefficient on the marker variable) of an affine_out that is uniform over its entries"""
    from rsome.lp import Affine, Vars, VarSub
    if isinstance(out, (Vars, VarSub)):
        out = out.to_affine()
    if isinstance(out, Affine):
        L = C.dense(out.linear)
        const = np.asarray(out.const, dtype=float).reshape(-1)
        coef = L[:, wcol] if L.shape[1] > wcol else np.zeros(L.shape[0])
        other = np.delete(L, wcol, axis=1) if L.shape[1] > wcol else L
        if np.any(other != 0):
            return None
    else:
        const = np.asarray(out, dtype=float).reshape(-1)
        coef = np.zeros(const.size)
    if np.any(const != const[0]) or np.any(coef != coef[0]):
        return None
    return C.fr(const[0]), C.fr(coef[0])


def real_chain(front, name, ops, cmp_, rhs, r_seed, flip=False):
    """build the chain on the real API; returns (expr_record | None, final_record)"""
    from rsome import ro, dro
    r = np.random.default_rng(r_seed)
    m = ro.Model() if front == 'ro' else dro.Model(2)
    x = m.dvar(3); w = m.dvar()
    xt, sign, quad, outk, dom, cone, build, npf = AT.ATOMS[name]
    arg, A, b = AT.make_arg(r, x, name, np.zeros(3), k=(1 if (cmp_ in ('min', 'max') and outk == 'elem') else None))
    e0 = build(arg)
    res = {}
    try:
        e = apply_chain(e0, ops, w)
    except Exception as ex:
        return {"raised": type(ex).__name__}, None
    wcol = int(w.first) if front == 'ro' else int(w.first)
    mult = float(e.multiplier)
    expr = {"sign": C.fr(float(e.sign)), "mult": C.fr(mult * mult if quad else mult)}
    op_ = out_pair(e.affine_out, wcol)
    if op_ is None:
        expr["out"] = "non-uniform"
    else:
        expr["out0"], expr["out1"] = op_
    c = float(Fraction(rhs[0])); d = float(Fraction(rhs[1]))
    t = c if d == 0 else d * w + c
    try:
        if cmp_ == 'le':
            con = (t >= e) if flip else (e <= t)        # flipped spelling: the variable's / affine expression's operator runs
        elif cmp_ == 'ge':
            con = (t <= e) if flip else (e >= t)
        elif cmp_ == 'eq':
            con = (e == t)
        elif cmp_ in ('min', 'max'):
            (m.min if cmp_ == 'min' else m.max)(e)
            with C.quiet():
                m.do_math()
            return expr, {"verdict": "accept"}
        fin = {"verdict": "accept"}
        if hasattr(con, 'multiplier'):
            mu = float(con.multiplier)
            fin["mult"] = C.fr(mu * mu if quad else mu)
            op2 = out_pair(con.affine_out, wcol)
            if op2 is not None:
                fin["out0"], fin["out1"] = op2
        return expr, fin
    except ZeroDivisionError:
        return expr, {"verdict": "ZeroDivisionError"}
    except Exception as ex:
        return expr, {"verdict": type(ex).__name__}


def run(ctx):
    r = ctx.rng
    reqs, codes, cases = [], [], []
    names = list(AT.ATOMS)
    # corpus: fixed cases that run first (minimised past failures and the probes of recorded findings)
    corpus = [('ro', 'exp', [['scale', '0', 'L']], 'min'), ('ro', 'power32', [['scale', '0', 'R'], ['add', '1', '0']], 'min'),
              ('dro', 'plog', [['sub', '1/2', '-1']], 'max'), ('dro', 'pexp', [['scale', '3', 'L']], 'min'),
              ('ro', 'pexp', [['scale', '-2', 'L']], 'le'), ('ro', 'plog', [], 'min'), ('ro', 'pexp', [], 'max')]
    for it in range(ctx.n(600, 20000)):
        name = str(r.choice(names))
        front = 'ro' if r.random() < 0.6 else 'dro'
        ops = gen_chain(r)
        cmp_ = str(r.choice(['le', 'ge', 'le', 'ge', 'eq', 'min', 'max']))
        if it < len(corpus):
            front, name, ops, cmp_ = corpus[it]
        rhs = [C.fr(float(r.choice([-1., 0., 2.]))), C.fr(float(r.choice([0., 0., 1.])))]
        if cmp_ in ('min', 'max'):
            rhs = ['0', '0']
        seed = int(r.integers(2 ** 31))
        xt, sign, quad = AT.ATOMS[name][0], AT.ATOMS[name][1], AT.ATOMS[name][2]
        flip = bool(r.random() < 0.4) and cmp_ in ('le', 'ge')
        if flip:
            rhs = [rhs[0], '1']                       # the other side must be an rsome expression for its operator to run
        case = {"front": front, "atom": name, "ops": ops, "cmp": cmp_, "rhs": rhs, "seed": seed, "flipped_spelling": flip}
        NUMPY_SCALARS[0] = bool(r.random() < 0.25); case['numpy_scalars'] = NUMPY_SCALARS[0]
        try:
            expr, fin = real_chain(front, name, ops, cmp_, rhs, seed, flip)
        except Exception as ex:
            ctx.count('harness-error:' + type(ex).__name__); continue
        reqs.append({"op": "curv_chain", "quad": quad, "sign": str(sign), "ops": model_ops(ops), "cmp": cmp_, "rhs": rhs})
        codes.append((expr, fin)); cases.append(case)
        ctx.count('atom:' + name); ctx.count('cmp:' + cmp_ + (':flipped' if flip else '')); ctx.count('front:' + front)
        if any(o[0] == 'scale' for o in ops) and any(o[0] in ('neg', 'rsub') or (o[0] == 'scale' and o[1].startswith('-')) for o in ops):
            ctx.nontriv(case)
    outs = C.lean_run(reqs)
    for case, (expr, fin), out in zip(cases, codes, outs):
        compare_chain(ctx, case, expr, fin, out)
        ctx.sample(case, limit=3)
    run_pw(ctx)
    NUMPY_SCALARS[0] = False
    run_products(ctx)
    for _ in range(ctx.n(25, 400)):
        search_pinned(ctx, r)


def same_mult(a, b):
    """multipliers of the degree-two atoms pass through `abs(k) ** 0.5` in floating point: compare to 1e-12"""
    fa, fb = Fraction(a), Fraction(b)
    return fa == fb or abs(fa - fb) <= Fraction(1, 10 ** 12) * max(abs(fb), 1)


def compare_chain(ctx, case, expr, fin, out):
    ctx.programs += 1; ctx.evaluations += 1
    zero_scaled = any(o[0] == 'scale' and o[1] == '0' for o in case['ops'])
    if expr is None or 'raised' in (expr or {}):
        # the chain itself raised: with scalar right operands this only happens for unsupported operand types
        ctx.disagree('Convex operator chain raised', expr, case); return
    me = out['expr']
    ok = (expr['sign'] == me['sign'] and same_mult(expr['mult'], me['mult']) and
          (expr.get('out') == 'non-uniform' or (expr.get('out0') == me['out0'] and expr.get('out1') == me['out1'])))
    if not ok:
        ctx.disagree('Convex record after chain', {"code": expr, "model": me}, case)
        ctx.hit_candidate = True
    mv = out['final']['verdict']
    cv = fin['verdict']
    ctx.count('verdict:' + cv)
    if cv == 'ZeroDivisionError' and zero_scaled and mv == 'accept':
        # defect F9: an accepted zero-scaled atom cannot be compiled (division by the zero multiplier)
        ctx.hit('zero-scaled-atom-crashes-do_math', {"verdict": cv}, case); return
    if cv != mv:
        ctx.disagree('acceptance verdict', {"code": cv, "model": mv}, case)
        if cv == 'accept' and mv != 'accept':
            ctx.hit('accepted-nonconvex-use', {"code": cv, "model": mv}, case)
        return
    if cv == 'accept' and 'mult' in fin and case['cmp'] in ('le', 'ge'):
        mf = out['final']
        if not same_mult(fin['mult'], mf['mult']) or ('out0' in fin and (fin['out0'] != mf['out0'] or fin['out1'] != mf['out1'])):
            ctx.disagree('accepted constraint record', {"code": fin, "model": mf}, case)


# ----------------------------------------------------------------------------- piecewise
def run_pw(ctx):
    from rsome import ro, dro
    import rsome as rso
    r = ctx.rng
    reqs, codes, cases = [], [], []
    for _ in range(ctx.n(200, 5000)):
        front = str(r.choice(['ro', 'dro', 'droE', 'droEafter']))
        ismin = bool(r.random() < 0.5)
        pcs = [[float(r.choice([-1., 0., 1., 2.])), float(r.choice([-2., 1., 0.5, 3.]))] for _ in range(int(r.integers(2, 4)))]
        ops = [o for o in gen_chain(r) if not (o[0] == 'scale' and o[1] == '0')][:5]
        zero = r.random() < 0.08
        if zero:
            ops = ops[:2] + [['scale', '0', 'L'], ['add', '5', '0']]
        NUMPY_SCALARS[0] = bool(r.random() < 0.3)
        case = {"front": front, "minof": ismin, "pieces": pcs, "ops": ops, "numpy_scalars": NUMPY_SCALARS[0]}
        m = ro.Model() if front == 'ro' else dro.Model(2)
        w = m.dvar()
        if front != 'ro':
            z = m.rvar()
        exprs = [c + d * w for c, d in pcs]
        try:
            pw = (rso.minof if ismin else rso.maxof)(*exprs)
            if front == 'droE':
                pw = rso.E(pw)
            pw = apply_chain(pw, ops, w)
            if front == 'droEafter':
                pw = rso.E(pw)                      # the expectation of the already negated / scaled / shifted expression
            wcol = int(w.first)
            pieces = []
            for p in pw.pieces:
                a = p.to_affine() if hasattr(p, 'to_affine') else p
                L = C.dense(a.linear).reshape(-1)
                pieces.append([C.fr(float(np.asarray(a.const).reshape(-1)[0])), C.fr(float(L[wcol]) if L.size > wcol else 0.0)])
            code = {"sign": C.fr(float(pw.sign)), "pieces": pieces}
            # acceptance of the four spellings of an inequality with the piecewise expression
            t = 2 * w + 1
            verdicts = {}
            for sp, f in (('pw<=t', lambda: pw <= t), ('t>=pw', lambda: t >= pw), ('pw>=t', lambda: pw >= t), ('t<=pw', lambda: t <= pw)):
                try:
                    f(); verdicts[sp] = 'accept'
                except Exception as ex:
                    verdicts[sp] = type(ex).__name__
            case['verdicts'] = verdicts
        except Exception as ex:
            code = {"raised": type(ex).__name__}
        reqs.append({"op": "pw_chain", "minof": ismin, "pieces": [[C.fr(c), C.fr(d)] for c, d in pcs], "ops": model_ops(ops)})
        codes.append(code); cases.append(case)
        ctx.count('pw:' + front + (':zero-scale' if zero else ''))
    outs = C.lean_run(reqs)
    for case, code, out in zip(cases, codes, outs):
        same = ctx.corr('PiecewiseConvex calculus', case, code, out, ['sign', 'pieces'])
        # semantic check on the real record, independent of the model: sign*max(pieces) at w = w0 must be the
        # written expression evaluated by NumPy
        if 'raised' in code:
            continue
        # `<=` needs a convex left side (sign != -1), `>=` a concave one (sign != +1); the sign is the MODEL's
        msign = Fraction(out['sign']) if 'sign' in out else None
        for sp, v in (case.get('verdicts') or {}).items():
            want_accept = (msign != -1) if sp in ('pw<=t', 't>=pw') else (msign != 1)
            if msign is None:
                continue
            ctx.count('pw-accept:' + sp + ':' + v)
            if (v == 'accept') != want_accept:
                ctx.disagree('piecewise acceptance', {"spelling": sp, "code": v, "model_sign": str(msign)}, case)
                if v == 'accept':
                    ctx.hit('accepted-nonconvex-use', {"spelling": sp, "sign": str(msign)}, case)
        for w0 in (-1.0, 0.5, 2.0):
            base = [c + d * w0 for c, d in case['pieces']]
            written = np_chain(min(base) if case['minof'] else max(base), case['ops'], w0)
            rec = float(Fraction(code['sign'])) * max(float(Fraction(c)) + float(Fraction(d)) * w0 for c, d in code['pieces'])
            if abs(rec - written) > 1e-9 * (1 + abs(written)):
                ctx.hit('piecewise-record-wrong-value', {"record_value": rec, "written_value": written, "w0": w0, "record": code}, case)
                break


# ----------------------------------------------------------------------------- illegal products
def run_products(ctx):
    from rsome import ro, dro
    import rsome as rso
    tests = []
    def t(name, f):
        tests.append((name, f))
    def mk_ro():
        m = ro.Model(); return m, m.dvar(2), m.rvar(2), m.ldr(2)
    def mk_dro():
        m = dro.Model(2); x = m.dvar(2); z = m.rvar(2); y = m.dvar(2); y.adapt(z); return m, x, z, y
    t('ro dec*dec', lambda: (lambda m, x, z, y: x * x)(*mk_ro()))
    t('ro dec@dec', lambda: (lambda m, x, z, y: x @ x)(*mk_ro()))
    t('ro rand*rand', lambda: (lambda m, x, z, y: z * z)(*mk_ro()))
    t('ro rand@rand', lambda: (lambda m, x, z, y: z @ z)(*mk_ro()))
    t('ro (dec*rand)*rand', lambda: (lambda m, x, z, y: (x * z) * z)(*mk_ro()))
    t('ro (dec*rand)*dec', lambda: (lambda m, x, z, y: (x * z) * x)(*mk_ro()))
    t('ro ldr*rand', lambda: (lambda m, x, z, y: (y.adapt(z), y * z)[1])(*mk_ro()))
    t('ro ldr@rand', lambda: (lambda m, x, z, y: (y.adapt(z), y @ z)[1])(*mk_ro()))
    t('ro rand*ldr', lambda: (lambda m, x, z, y: (y.adapt(z), z * y)[1])(*mk_ro()))
    t('ro norm(dec)*dec', lambda: (lambda m, x, z, y: rso.norm(x) * x[0])(*mk_ro()))
    t('ro convex == c', lambda: (lambda m, x, z, y: rso.norm(x) == 1)(*mk_ro()))
    t('ro convex + convex', lambda: (lambda m, x, z, y: m.st(rso.norm(x) + rso.norm(x) <= 1))(*mk_ro()))
    t('dro dec*dec', lambda: (lambda m, x, z, y: x * x)(*mk_dro()))
    t('dro rand*rand', lambda: (lambda m, x, z, y: z * z)(*mk_dro()))
    t('dro adaptive*rand', lambda: (lambda m, x, z, y: y * z)(*mk_dro()))
    t('dro adaptive@rand', lambda: (lambda m, x, z, y: y @ z)(*mk_dro()))
    t('dro rand*adaptive', lambda: (lambda m, x, z, y: z * y)(*mk_dro()))
    t('dro (static+adaptive)*rand', lambda: (lambda m, x, z, y: (x + y) * z)(*mk_dro()))
    t('dro (static-adaptive)@rand', lambda: (lambda m, x, z, y: (x - y) @ z)(*mk_dro()))
    t('dro (2*static+adaptive)*rand', lambda: (lambda m, x, z, y: (2 * x + y) * z)(*mk_dro()))
    t('dro (adaptive+static)*rand', lambda: (lambda m, x, z, y: (y + x) * z)(*mk_dro()))
    def mk_dro_partial():
        m = dro.Model(2); x = m.dvar(2); z = m.rvar(2); y = m.dvar(2); y[0].adapt(z); return m, x, z, y
    t('dro partially-adaptive*rand', lambda: (lambda m, x, z, y: y * z)(*mk_dro_partial()))
    t('dro rand@partially-adaptive', lambda: (lambda m, x, z, y: z @ y)(*mk_dro_partial()))
    t('dro (partially-adaptive+1)*rand', lambda: (lambda m, x, z, y: (y + 1) * z)(*mk_dro_partial()))
    t('dro adaptive-entry*rand', lambda: (lambda m, x, z, y: y[0] * z[0])(*mk_dro_partial()))
    t('dro adaptive.sum()*rand', lambda: (lambda m, x, z, y: y.sum() * z[0])(*mk_dro()))
    t('dro rand*adaptive.sum()', lambda: (lambda m, x, z, y: z * y.sum())(*mk_dro()))
    t('dro (static+2*adaptive.sum()-1)*rand', lambda: (lambda m, x, z, y: (x[0] + 2 * y.sum() - 1) * z)(*mk_dro()))
    t('dro rand@(I*adaptive).sum(axis=0)', lambda: (lambda m, x, z, y: z @ (np.eye(2) * y).sum(axis=0))(*mk_dro()))
    t('dro adaptive.reshape*rand', lambda: (lambda m, x, z, y: y.reshape((2, 1)) * z[0])(*mk_dro()))
    t('dro adaptive.T*rand', lambda: (lambda m, x, z, y: y.T * z)(*mk_dro()))
    t('dro adaptive[::-1]*rand', lambda: (lambda m, x, z, y: y[::-1] * z)(*mk_dro()))
    def mk_dro_set():
        m = dro.Model(2); x = m.dvar(2); z = m.rvar(2); y = m.dvar(2); y.adapt(z)
        fs = m.ambiguity(); fs.suppset(z >= -1, z <= 1); m.minsup(rso.E(x.sum()), fs)
        return m, x, z, y
    # convex functions of affinely adaptive decisions: refused when built or, at the latest, when the model is formulated
    for nm_, mkc in (('abs(adaptive) <= static', lambda m, x, z, y: abs(y) <= x),
                     ('exp(adaptive) <= static', lambda m, x, z, y: rso.exp(y[0]) <= x[0]),
                     ('abs(static) <= adaptive', lambda m, x, z, y: abs(x - 1) <= y),
                     ('log(adaptive + 3) >= static', lambda m, x, z, y: rso.log(y[0] + 3) >= x[0]),
                     ('pexp(static, adaptive + 3) <= static', lambda m, x, z, y: rso.pexp(x[0], y[0] + 3) <= x[1]),
                     ('expcone(static, adaptive, 1)', lambda m, x, z, y: rso.expcone(x[0], y[0], 1)),
                     ('expcone(adaptive, static, 1)', lambda m, x, z, y: rso.expcone(y[0] + 5, x[0], 1)),
                     ('expcone(static, static, adaptive)', lambda m, x, z, y: rso.expcone(x[0], x[1], y[1] + 3)),
                     ('(adaptive).expcone(static, 1)', lambda m, x, z, y: (y[0] + 5).expcone(x[0], 1)),
                     ('LMI with an adaptive entry', lambda m, x, z, y: rso.rstack([x[0] + 3, y[0]], [y[0], x[1] + 3]) >> 0)):
        def run_(mkc=mkc):
            m, x, z, y = mk_dro_set()
            m.st(mkc(m, x, z, y), y >= z, x >= -5, x <= 5)
            m.do_math()
        t('dro ' + nm_, run_)
    # products written while the decision was still static, the adaptation declared afterwards: refused at the latest when the
    # model is formulated - in a worst-case constraint, in an expectation constraint and in an expectation objective
    def late_adapt(kind):
        m = dro.Model(2); x = m.dvar(2); z = m.rvar(2); y = m.dvar(2); t_ = m.dvar()
        fs = m.ambiguity(); fs.suppset(z >= -1, z <= 1); fs.exptset(rso.E(z) == 0)
        if kind == 'E-objective':
            m.minsup(rso.E(y @ z + t_), fs)
        else:
            m.minsup(t_, fs)
            m.st((y @ z <= t_) if kind == 'worst-case' else (rso.E(y @ z) <= t_) if kind == 'E-constraint' else (rso.E(rso.maxof(y @ z, 0)) <= t_))
        m.st(y >= z, y <= z + 1, t_ >= -10)
        y.adapt(z)
        m.do_math()
    for kind in ('worst-case', 'E-constraint', 'E-objective', 'E-maxof'):
        t('dro adapt() declared after the product, ' + kind, lambda kind=kind: late_adapt(kind))
    t('dro norm(adaptive)', lambda: (lambda m, x, z, y: rso.norm(y))(*mk_dro()))
    t('dro sumsqr(static+adaptive)', lambda: (lambda m, x, z, y: rso.sumsqr(x + y))(*mk_dro()))
    t('dro square(2*static+adaptive)', lambda: (lambda m, x, z, y: rso.square(2 * x + y))(*mk_dro()))
    t('dro norm(static-adaptive)', lambda: (lambda m, x, z, y: rso.norm(x - y))(*mk_dro()))
    t('dro convex == c', lambda: (lambda m, x, z, y: rso.norm(x) == 1)(*mk_dro()))
    for name, f in tests:
        ctx.programs += 1; ctx.evaluations += 1
        try:
            with C.quiet():
                f()
            ctx.hit('illegal-product-accepted', {"what": name}, {"illegal": name})
        except Exception as ex:
            ctx.count('illegal:raised:' + type(ex).__name__)
    def legal_static_atoms_next_to_adaptive():
        m, x, z, y = mk_dro_set()
        m.st(abs(x - 1) <= 2, rso.exp(x[0]) <= 5, rso.norm(x) <= 4, y >= z, x >= -3)
        m.do_math()
    # legal controls: these must NOT raise
    for name, f in [('dro convex atoms of static decisions in a model with an adaptive decision', legal_static_atoms_next_to_adaptive),('dro static-entry-of-partially-adaptive*rand', lambda: (lambda m, x, z, y: y[1] * z[0])(*mk_dro_partial())),
                    ('dro static*rand', lambda: (lambda m, x, z, y: x * z)(*mk_dro()))]:
        ctx.programs += 1; ctx.evaluations += 1
        try:
            with C.quiet():
                f()
            ctx.count('legal-product:accepted')
        except Exception as ex:
            ctx.hit('legal-product-rejected', {"what": name, "error": type(ex).__name__}, {"legal": name})


# ----------------------------------------------------------------------------- search
def np_chain(v, ops, wv):
    for o in ops:
        if o[0] == 'neg':
            v = -v
        elif o[0] == 'scale':
            v = float(Fraction(o[1])) * v
        else:
            t = float(Fraction(o[1])) + float(Fraction(o[2])) * wv
            v = v + t if o[0] in ('add', 'radd') else (v - t if o[0] == 'sub' else t - v)
    return v


def search_pinned(ctx, r):
    """`min t s.t. chain(atom(A x + b)) <= t, x = x0, w = w0` must return the NumPy value of the written expression"""
    from rsome import ro
    ctx.search_cases += 1
    name = str(r.choice(list(AT.ATOMS)))
    xt, sign, quad, outk, dom, cone, build, npf = AT.ATOMS[name]
    ops = [o for o in gen_chain(r, allow_zero=False)][:4]
    if r.random() < 0.25:
        # the atom scaled by zero somewhere in the chain: what is written is the affine rest (both sides are then admissible)
        ops = ops[:2] + [['scale', '0', str(r.choice(['L', 'R']))]] + ops[2:3] + [['add', '3', '1']]
    m = ro.Model(); x = m.dvar(3); w = m.dvar(); t = m.dvar()
    x0 = r.choice([-1., 0., 0.5, 1.], 3); w0 = float(r.choice([-1., 0., 2.]))
    seed = int(r.integers(2 ** 31))
    rr = np.random.default_rng(seed)
    arg, A, b = AT.make_arg(rr, x, name, x0)
    e = apply_chain(build(arg), ops, w)
    written = np_chain(npf(A @ x0 + b), ops, w0)
    target = float(np.max(written)) if float(e.sign) >= 0 else float(np.min(written))
    case = {"atom": name, "ops": ops, "x0": x0.tolist(), "w0": w0, "seed": seed}
    try:
        if float(e.sign) >= 0:
            m.min(t); m.st(e <= t)
        else:
            m.max(t); m.st(e >= t)
        m.st(x == x0, w == w0)
        val = C.solve_model(m)
    except C.SkipCase:
        ctx.count('search:skipped'); return
    except Exception as ex:
        if any(o[0] == 'scale' and o[1] == '0' for o in ops):
            ctx.hit('zero-scaled-atom-crashes-do_math', {"error": type(ex).__name__ + ': ' + str(ex)[:120]}, case); return
        ctx.count('search:error:' + type(ex).__name__); return
    if abs(val - target) > 2e-4 * (1 + abs(target)):
        ctx.hit('pinned-evaluation-mismatch', {"solver_value": float(val), "numpy_value": target}, case)
    else:
        ctx.count('search:agree')


def replay(rp):
    case = rp['case']
    if 'illegal' in case:
        return {"fails": True, "note": "re-run bin/check C10; the listed illegal product did not raise", "case": case}
    if 'x0' in case:
        return {"fails": True, "case": case, "note": "pinned evaluation; rebuild with harness.props.c10.search_pinned at the recorded seed"}
    if 'pieces' in case:
        return {"fails": True, "case": case}
    expr, fin = real_chain(case['front'], case['atom'], case['ops'], case['cmp'], case['rhs'], case['seed'])
    return {"expr": expr, "final": fin, "fails": True}
