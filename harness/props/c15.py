"""C15 — equivalent ways of writing a model give the same optimum.

Theorems (Lean, RsomeV/Props/C15.lean): one lemma per rewrite of the group, each "the two programs have the same feasible set
on the user columns and the same objective there": min f vs -max -f, row permutation, a <= b vs -b <= -a, equality vs the pair of
inequalities, a bound vs the corresponding row, positive row scaling; closure under composition since each is an equivalence of
denotations; ro vs single-scenario dro is C04's special case.  Tie: the compiled programs of both presentations are checked with
the shared correspondences (C01, C06); here every member of the group is applied to random models through the real API.
Search: solve each pair of presentations and compare optima."""
import numpy as np
from harness import common as C

THEOREMS = {
    'RsomeV.Props.C15': ['RsomeV.C15.eq_row_iff_two_ineq', 'RsomeV.C15.flip_row_iff', 'RsomeV.C15.scale_row_iff', 'RsomeV.C15.bound_as_row_ub',
                         'RsomeV.C15.bound_as_row_lb', 'RsomeV.C15.perm_rows_feas', 'RsomeV.C15.min_max_neg', 'RsomeV.C15.rewrites_compose'],
}
RULE = ("random robust models (2-3 decisions, 2 random components, box / fixed-entry / inf-norm / 1-norm sets, linear rows, robust rows, a scaled "
        "norm constraint) written in a base form and in every rewritten form of the property's group, singly and in random combinations; "
        "non-trivial = pair whose base model is feasible and bounded; distinct by content hash")
TRUSTED = ["solver optimality (tolerance 1e-5)"]
ASSUMPTIONS = ["rewrites outside the listed group are not claimed"]

REWRITES = ['minmax-neg', 'order', 'flip-sides', 'eq-as-two-ineq', 'bounds-as-rows', 'bounds-as-infnorm', 'elementwise', 'rescale',
            'set-list-vs-args', 'set-eq-vs-bounds', 'ro-vs-dro1', 'unit-norm']


def gen(r):
    n = int(r.integers(2, 4)); nz = 2
    d = {'n': n, 'nz': nz, 'c': r.choice([-2., -1., 1., 2.], n).tolist(), 'q': r.choice([-1., 0., 1.], nz).tolist(),
         'box': float(r.choice([2., 3., 4.])),
         'A': r.choice([-1., 0., 1., 2.], (2, n)).tolist(), 'b': r.choice([1., 2., 3.], 2).tolist(),
         'Aeq': r.choice([-1., 0., 1.], n).tolist(), 'beq': float(r.choice([0., 0.5, 1.])),
         'R': r.choice([-1., 0., 1.], (nz, n)).tolist(), 'r0': r.choice([-1., 0., 1.], nz).tolist(), 'rb': float(r.choice([2., 3., 5.])),
         'zlo': r.choice([-1., 0., -2.], nz).tolist(), 'zw': r.choice([0., 1., 2.], nz).tolist(),      # width 0 = fixed component
         'norm': {'k': float(r.choice([1., 2., 0.5, 4.])), 'p': str(r.choice(['inf', '1', '2'])), 'r': float(r.choice([1., 2., 3.]))},
         'zset': str(r.choice(['box', 'box', 'infnorm', 'norm1']))}
    # a vector-valued robust constraint (2-3 rows, bi-affine): written as one array constraint or row by row
    rows = int(r.integers(2, 4))
    d['R2'] = r.choice([-1., 0., 1., 2.], (rows, nz, n)).tolist(); d['r2'] = r.choice([-1., 0., 1.], (rows, nz)).tolist()
    d['rb2'] = r.choice([3., 4., 6.], rows).tolist()
    d['own'] = bool(d['zset'] == 'box' and r.random() < 0.6)       # the vector constraint gets its own (smaller) box through forall()
    return d


def build(d, rw, front='ro'):
    """the model of d written with the set `rw` of rewrites applied"""
    import rsome as rso
    from rsome import ro, dro
    rw = set(rw)
    n, nz = d['n'], d['nz']
    if 'ro-vs-dro1' in rw:
        m = dro.Model(1)
    else:
        m = ro.Model()
    x = m.dvar(n)
    z = m.rvar(nz)
    c = np.array(d['c']); q = np.array(d['q'])
    zlo = np.array(d['zlo']); zhi = zlo + np.array(d['zw'])
    # uncertainty set
    if d['zset'] == 'box':
        if 'set-eq-vs-bounds' in rw:
            zs = []
            for j in range(nz):
                if d['zw'][j] == 0:
                    zs.append(z[j] == zlo[j])                    # a pinned component written as an equality
                else:
                    zs += [z[j] >= zlo[j], z[j] <= zhi[j]]
        elif 'bounds-as-rows' in rw:
            zs = [np.eye(nz) @ z >= zlo, np.eye(nz) @ z <= zhi]
        else:
            zs = [z >= zlo, z <= zhi]
    elif d['zset'] == 'infnorm':
        zs = [rso.norm(z - zlo, 'inf') <= 1.0] if 'bounds-as-infnorm' not in rw else [z >= zlo - 1.0, z <= zlo + 1.0]
    else:
        zs = [rso.norm(z - zlo, 1) <= 1.5]
        if 'rescale' in rw:
            zs = [2.0 * rso.norm(z - zlo, 1) <= 3.0]
    cons = []
    A = np.array(d['A']); b = np.array(d['b'])
    if 'elementwise' in rw:
        for i in range(A.shape[0]):
            cons.append(A[i] @ x <= b[i])
    elif 'flip-sides' in rw:
        cons.append(-b <= -(A @ x))
    else:
        cons.append(A @ x <= b)
    aeq = np.array(d['Aeq'])
    if 'eq-as-two-ineq' in rw:
        cons += [aeq @ x <= d['beq'], aeq @ x >= d['beq']]
    else:
        cons.append(aeq @ x == d['beq'])
    R = np.array(d['R']); r0 = np.array(d['r0'])
    rob = (R @ x + r0) @ z
    if 'rescale' in rw:
        cons.append(2.0 * rob <= 2.0 * d['rb'])
    elif 'flip-sides' in rw:
        cons.append(d['rb'] >= rob)
    else:
        cons.append(rob <= d['rb'])
    if 'R2' in d:
        R2 = np.array(d['R2']); r2 = np.array(d['r2']); rb2 = np.array(d['rb2'])
        if 'elementwise' in rw:
            for i in range(R2.shape[0]):
                cons.append((R2[i] @ x + r2[i]) @ z <= rb2[i])
        else:
            Mx = r2
            for j in range(n):
                Mx = x[j] * R2[:, :, j] + Mx
            cons.append((Mx @ z <= rb2) if 'flip-sides' not in rw else (rb2 >= Mx @ z))
        if d.get('own'):
            zw_ = np.array(d['zw']); lo2 = zlo + 0.25 * zw_; hi2 = zhi - 0.25 * zw_
            own = [np.eye(nz) @ z >= lo2, np.eye(nz) @ z <= hi2] if 'bounds-as-rows' in rw else [z >= lo2, z <= hi2]
            k0 = len(cons) - (R2.shape[0] if 'elementwise' in rw else 1)
            several = 'set-list-vs-args' in rw and 'ro-vs-dro1' not in rw        # (dro's forall() takes one set object or one list)
            cons[k0:] = [(cc.forall(*own) if several else cc.forall(own)) for cc in cons[k0:]]
    B = d['box']
    if 'bounds-as-rows' in rw:
        cons += [np.eye(n) @ x <= B, -np.eye(n) @ x <= B]
    elif 'bounds-as-infnorm' in rw:
        cons.append(rso.norm(x, 'inf') <= B)
    else:
        cons += [x <= B, x >= -B]
    nm = d['norm']
    e = x[:2] - 0.5
    k = nm['k'] * (3.0 if 'rescale' in rw else 1.0)
    if 'unit-norm' in rw:
        k = 1.0                                        # both sides divided by the positive factor: norm(e) <= r
    cons.append(k * rso.norm(e, np.inf if nm['p'] == 'inf' else int(nm['p'])) <= nm['r'] * k)
    if 'order' in rw:
        cons = cons[::-1]
    obj = c @ x + q @ z
    if 'ro-vs-dro1' in rw:
        fs = m.ambiguity(); fs.suppset(*zs)
        sign = 1.0
        if 'minmax-neg' in rw:
            m.maxinf(-obj, fs); sign = -1.0
        else:
            m.minsup(obj, fs)
        for cc in cons:
            m.st(cc)
        return m, sign
    sign = 1.0
    def set_obj():
        nonlocal sign
        if 'minmax-neg' in rw:
            m.maxmin(-obj, zs if 'set-list-vs-args' not in rw else None) if False else (m.maxmin(-obj, *zs) if 'set-list-vs-args' in rw else m.maxmin(-obj, zs))
            sign = -1.0
        else:
            m.minmax(obj, *zs) if 'set-list-vs-args' in rw else m.minmax(obj, zs)
    if 'order' in rw:
        for cc in cons:
            m.st(cc)
        set_obj()
    else:
        set_obj()
        for cc in cons:
            m.st(cc)
    return m, sign


def solve(d, rw):
    with C.quiet():
        m, sign = build(d, rw)
    try:
        return sign * C.solve_model(m)
    except RuntimeError:
        return None


E_SPELLINGS = ['E-of-sum', 'sum-of-E', 'matmul-E', 'E-matmul', 'E-rmatmul', 'loop', 'neg-both-sides']


def dro_expectation_spellings(ctx, seed):
    """array expressions versus element-wise loops for expectation terms of a dro model: every spelling of
    sum_i w_i E[y_i] <= x (y affinely adaptive, so that an expectation differs from a worst case) gives the same optimum"""
    import rsome as rso
    from rsome import dro, E
    r = np.random.default_rng(seed)
    k = int(r.integers(2, 4)); S = int(r.integers(1, 3))
    w = r.choice([0.5, 1.0, 2.0, -1.0], k); g = r.choice([1.0, 2.0, -1.0], k)
    mean = r.choice([0.25, 0.5, 1.0], k); hi = mean + r.choice([1.0, 2.0], k)

    def build(sp):
        m = dro.Model(S); x = m.dvar(); y = m.dvar(k); z = m.rvar(k)
        y.adapt(z)
        fs = m.ambiguity(); fs.suppset(z >= 0, z <= hi); fs.exptset(E(z) == mean)
        m.minsup(E(x), fs)
        m.st(y >= g * z, y <= 20, x <= 100)
        if sp == 'E-of-sum':
            m.st(E((w * y).sum()) <= x)
        elif sp == 'sum-of-E':
            m.st((w * E(y)).sum() <= x)
        elif sp == 'matmul-E':
            m.st(w @ E(y) <= x)
        elif sp == 'E-matmul':
            m.st(E(w @ y) <= x)
        elif sp == 'E-rmatmul':
            m.st(E(y @ w) <= x)
        elif sp == 'loop':
            m.st(sum(float(w[i]) * E(y[i]) for i in range(k)) <= x)
        else:
            m.st(-x <= -E((w * y).sum()))
        return m
    vals = {}
    for sp in E_SPELLINGS:
        ctx.search_cases += 1; ctx.evaluations += 1
        try:
            with C.quiet():
                m = build(sp)
            vals[sp] = C.solve_model(m)
        except C.SkipCase:
            ctx.count('spelling:skipped'); continue
        except RuntimeError:
            vals[sp] = None
        except Exception as ex:
            ctx.hit('expectation-spelling-raises:' + sp + ':' + type(ex).__name__, {"error": str(ex)[:200]}, {"spelling_seed": seed, "spelling": sp}); continue
    ref = vals.get('loop')
    for sp, v in vals.items():
        if (v is None) != (ref is None) or (v is not None and abs(v - ref) > 1e-5 * (1 + abs(ref))):
            ctx.hit('expectation-spelling-changes-optimum:' + sp, {"element_wise_loop": ref, "this_spelling": v, "all": vals}, {"spelling_seed": seed, "spelling": sp})
        else:
            ctx.count('spelling:same:' + sp)


def equality_and_transpose_spellings(ctx, seed):
    """(a) dro: an equality on a worst-case expectation, E(w@y) - x == c, against the pair of inequalities and against the same
    equality with terms moved across the sign; (b) ro: a non-square 2-D bi-affine array used directly and through .T"""
    import rsome as rso
    from rsome import ro, dro, E
    r = np.random.default_rng(seed)
    kind = str(r.choice(['E-equality', 'biaffine-transpose', 'term-order']))
    if kind == 'E-equality':
        k = int(r.integers(1, 3)); S = int(r.integers(1, 3))
        w = r.choice([0.5, 1.0, 2.0], k); g = r.choice([1.0, 2.0], k); c = float(r.choice([-2.0, -0.5, 1.0, 3.0]))
        mean = r.choice([0.25, 0.5, 1.0], k); hi = mean + r.choice([1.0, 2.0], k)
        sense = str(r.choice(['min', 'max']))

        def build(sp):
            m = dro.Model(S); x = m.dvar(); y = m.dvar(k); z = m.rvar(k)
            fs = m.ambiguity(); fs.suppset(z >= 0, z <= hi); fs.exptset(E(z) == mean)
            (m.minsup if sense == 'min' else m.maxinf)(E(x), fs)
            m.st(y >= g * mean, y <= 3 * g * mean + 1, x <= 100, x >= -100)
            if sp == 'equality':
                m.st(E(w @ y) - x == c)
            elif sp == 'two-inequalities':
                m.st(E(w @ y) - x <= c, E(w @ y) - x >= c)
            elif sp == 'terms-moved':
                m.st(E(w @ y) == x + c)
            else:
                m.st(x - E(w @ y) == -c)
            return m
        spells = ['two-inequalities', 'equality', 'terms-moved', 'negated']
    elif kind == 'term-order':
        # a sum does not depend on the order of its terms: E(x) + z, z + E(x), 1*z + E(x) (z outside the expectation: worst case)
        S = int(r.integers(1, 3)); hi = float(r.choice([1.0, 2.0])); c0 = float(r.choice([0.0, 1.0]))

        def build(sp):
            m = dro.Model(S); x = m.dvar(2); y = m.dvar(); z = m.rvar(2)
            fs = m.ambiguity(); fs.suppset(z >= 0, z <= hi); fs.exptset(E(z) == hi / 2)
            m.minsup(y, fs); m.st(x == c0)
            e = {'E(x)+z': lambda: E(x) + z, 'z+E(x)': lambda: z + E(x), '1*z+E(x)': lambda: 1 * z + E(x), 'x+z': lambda: x + z, 'z+x': lambda: z + x}[sp]()
            m.st(y >= e.sum())
            return m
        spells = ['E(x)+z', 'z+E(x)', '1*z+E(x)', 'x+z', 'z+x']
    else:
        rows, cols = [(2, 3), (3, 2), (2, 4)][int(r.integers(3))]
        X0 = r.choice([-1.0, 0.5, 1.0, 2.0], (rows, cols)); cc = r.choice([0.0, 1.0, -1.0], (rows, cols)); rad = float(r.choice([0.5, 1.0]))
        cap = r.choice([5.0, 8.0, 12.0], (rows, cols))

        def build(sp):
            m = ro.Model(); x = m.dvar((rows, cols)); z = m.rvar((rows, cols)); t = m.dvar(rows); u = m.dvar()
            m.minmax(t.sum() + u, abs(z) <= rad)
            m.st(x == X0)
            expr = x * z + cc * x
            if sp == 'direct':
                m.st(expr.sum(axis=1) <= t, expr <= cap + u)
            elif sp == 'transposed-sum':
                m.st(expr.T.sum(axis=0) <= t, expr <= cap + u)
            else:
                m.st(expr.sum(axis=1) <= t, expr.T <= cap.T + u)
            return m
        spells = ['direct', 'transposed-sum', 'transposed-elementwise']
    vals = {}
    for sp in spells:
        ctx.search_cases += 1; ctx.evaluations += 1
        case = {"eqt_seed": seed, "kind": kind, "spelling": sp}
        try:
            with C.quiet():
                m = build(sp)
            vals[sp] = C.solve_model(m)
        except C.SkipCase:
            ctx.count('eqt:skipped'); continue
        except RuntimeError:
            vals[sp] = None
        except Exception as ex:
            ctx.hit('spelling-raises:' + kind + ':' + sp + ':' + type(ex).__name__, {"error": str(ex)[:200]}, case); continue
    ref = vals.get(spells[0])
    for sp, v in vals.items():
        if (v is None) != (ref is None) or (v is not None and abs(v - ref) > 1e-5 * (1 + abs(ref))):
            ctx.hit('spelling-changes-optimum:' + kind + ':' + sp, {"reference_spelling": spells[0], "reference": ref, "this_spelling": v, "all": vals},
                    {"eqt_seed": seed, "kind": kind, "spelling": sp})
        else:
            ctx.count('eqt:same:' + kind + ':' + sp)


def integer_bound_spellings(ctx, seed):
    """integer programs whose upper bounds (fractional, e.g. budget/price) are written as bound objects, as linear constraints or as an
    infinity-norm: the same optimum - judged against enumeration of the grid - on the default interface and on OR-Tools"""
    import itertools
    from rsome import ro, ort_solver
    r = np.random.default_rng(seed)
    n = int(r.integers(2, 4))
    A = r.integers(1, 9, (2, n)).astype(float); b = (A.sum(axis=1) * float(r.choice([0.8, 1.0, 1.4]))).round(0)
    c = r.integers(1, 5, n).astype(float)
    ub = r.choice([1.5, 2.5, 4.7, 3.0, 0.6], n).astype(float)
    pts = [np.array(p, dtype=float) for p in itertools.product(range(0, 6), repeat=n)]
    best = max(float(c @ p) for p in pts if np.all(A @ p <= b + 1e-9) and np.all(p <= ub))
    for solver, sname in ((None, 'default'), (ort_solver, 'ortools')):
        for form in ('bound objects', 'linear constraints', 'inf-norm'):
            ctx.search_cases += 1; ctx.evaluations += 1
            case = {"intbound_seed": seed, "form": form, "interface": sname}
            try:
                with C.quiet():
                    m = ro.Model(); x = m.dvar(n, vtype='I')
                    m.max(c @ x); m.st(A @ x <= b, x >= 0)
                    if form == 'bound objects':
                        m.st(x <= ub)
                    elif form == 'linear constraints':
                        m.st(x - ub <= 0)
                    else:
                        m.st(abs(x - ub / 2) <= ub / 2)
                    (m.solve(display=False) if solver is None else m.solve(solver, display=False))
                    val = float(m.get())
            except Exception as ex:
                ctx.hit('integer-bounds-raises:' + form + ':' + type(ex).__name__, {"error": str(ex)[:160]}, case); continue
            if abs(val - best) > 1e-6 * (1 + abs(best)):
                ctx.hit('integer-bounds-spelling-changes-optimum:' + form + ':' + sname, {"reported": val, "enumeration": best, "ub": ub.tolist(), "A": A.tolist(), "b": b.tolist(), "c": c.tolist()}, case)
            else:
                ctx.count('intbounds-same:' + sname)


def set_collection_spellings(ctx, seed):
    """a set given as one list, as a tuple, or as a generator over the same constraints means the same set: dro constraints without an explicit random
    term (an adaptive decision only) in models with several scenarios, and piecewise constraints in ro models"""
    import rsome as rso
    from rsome import ro, dro, E
    r = np.random.default_rng(seed)
    hi = float(r.choice([1.0, 2.0])); mean = float(r.choice([0.25, 0.5])) * hi; S = int(r.choice([1, 2, 3]))
    kind = str(r.choice(['dro-adaptive', 'ro-piecewise', 'dro-piecewise']))
    vals = {}
    for spell in ('list', 'tuple', 'generator'):
        ctx.search_cases += 1; ctx.evaluations += 1
        case = {"setcoll_seed": seed, "kind": kind, "spelling": spell}
        wrap = {'list': list, 'tuple': tuple, 'generator': (lambda cs: (k for k in cs))}[spell]
        try:
            with C.quiet():
                if kind == 'dro-adaptive':
                    m = dro.Model(S); y = m.dvar(); z = m.rvar(); y.adapt(z)
                    for s_ in range(S):
                        y.adapt(s_)
                    f = m.ambiguity(); f.suppset(z >= 0, z <= hi); f.exptset(E(z) == mean)
                    m.minsup(E(y), f); m.st((y >= 0).forall(wrap([z >= 0, z <= hi])), y >= hi - z)
                elif kind == 'ro-piecewise':
                    m = ro.Model(); x = m.dvar(); t = m.dvar(); z = m.rvar()
                    m.min(t); m.st((rso.maxof(x - z, 2 * z - x) <= t).forall(wrap([z >= 0, z <= hi])))
                else:
                    m = dro.Model(S); x = m.dvar(); t = m.dvar(); z = m.rvar()
                    f = m.ambiguity(); f.suppset(z >= 0, z <= hi)
                    m.minsup(t, f); m.st((rso.maxof(x - z, 2 * z - x) <= t).forall(wrap([z >= 0, z <= 0.5 * hi])))
                m.solve(display=False)
                try:
                    vals[spell] = float(m.get())
                except RuntimeError:
                    vals[spell] = None
        except Exception as ex:
            ctx.hit('set-collection-raises:' + kind + ':' + spell + ':' + type(ex).__name__, {"error": str(ex)[:160]}, case); continue
    base = vals.get('list')
    for spell, v in vals.items():
        case = {"setcoll_seed": seed, "kind": kind, "spelling": spell}
        if (v is None) != (base is None) or (v is not None and abs(v - base) > 1e-6 * (1 + abs(base))):
            ctx.hit('set-collection-spelling-changes-optimum:' + kind + ':' + spell, {"list": base, spell: v, "scenarios": S}, case)
        else:
            ctx.count('setcoll-same:' + kind)


def declaration_order(ctx, seed):
    """a decision variable declared AFTER constraints have been formed (deterministic, robust, convex ones) - the usual epigraph idiom - gives
    the same optimum as declaring everything first, for an ro model and for the same model as a single-scenario dro model"""
    import rsome as rso
    from rsome import ro, dro
    r = np.random.default_rng(seed)
    a = float(r.choice([1.0, 2.0])); b = float(r.choice([0.0, 1.0])); early = [str(k) for k in r.choice(['det', 'robust', 'convex', 'bounds', 'randcoef', 'expect'], int(r.integers(1, 5)), replace=False)]
    late_obj = bool(r.random() < 0.5)
    vals = {}
    for front in ('ro', 'dro1'):
        for inter in (False, True):
            ctx.search_cases += 1; ctx.evaluations += 1
            case = {"declorder_seed": seed, "front": front, "interleaved": inter, "early": early}
            try:
                with C.quiet():
                    m = ro.Model() if front == 'ro' else dro.Model(1)
                    x = m.dvar(2); z = m.rvar()
                    if front != 'ro':
                        f = m.ambiguity(); f.suppset(z >= 0, z <= 1)      # (a dro model wants its ambiguity set before any constraint)
                    if not inter:
                        y = m.dvar(2); t = m.dvar()
                    if 'bounds' in early:
                        m.st(x >= 0)
                    if 'det' in early:
                        m.st(np.array([[1.0, 1.0]]) @ x >= b)
                    if 'robust' in early:
                        m.st(x[0] >= a * z - 0.5)
                    if 'convex' in early:
                        m.st(rso.norm(x, 2) <= 6)
                    if 'randcoef' in early:
                        m.st(x[0] * z <= 3, x[0] >= 0.25)
                    if 'expect' in early:           # sup over all distributions on the support = worst case over the support
                        m.st((x[1] * z >= -1) if front == 'ro' else (rso.E(x[1] * z) >= -1))
                    if inter:
                        y = m.dvar(2); t = m.dvar()
                    m.st(y >= x + 1, y[1] >= z + x[1], x >= -1)
                    obj = y.sum() + x[0]
                    if late_obj:
                        m.st(t >= obj); obj = t
                    if front == 'ro':
                        m.minmax(obj, z >= 0, z <= 1)
                    else:
                        m.minsup(obj, f)
                    m.solve(display=False)
                    vals[(front, inter)] = float(m.get())
            except Exception as ex:
                ctx.hit('declaration-order-raises:' + front + ':' + type(ex).__name__, {"error": str(ex)[:160]}, case)
    base = vals.get(('ro', False))
    for key, v in vals.items():
        case = {"declorder_seed": seed, "front": key[0], "interleaved": key[1], "early": early}
        if base is not None and abs(v - base) > 1e-6 * (1 + abs(base)):
            ctx.hit('declaration-order-changes-optimum:' + key[0], {"reference": base, "value": v}, case)
        else:
            ctx.count('declorder-same:' + key[0])


def run(ctx):
    for k in range(ctx.n(12, 150)):
        declaration_order(ctx, int(ctx.rng.integers(2 ** 31)))
    for k in range(ctx.n(12, 150)):
        set_collection_spellings(ctx, int(ctx.rng.integers(2 ** 31)))
    for k in range(ctx.n(40, 600)):
        integer_bound_spellings(ctx, int(ctx.rng.integers(2 ** 31)))
    for k in range(ctx.n(16, 200)):
        equality_and_transpose_spellings(ctx, int(ctx.rng.integers(2 ** 31)))
    for k in range(ctx.n(12, 150)):
        dro_expectation_spellings(ctx, int(ctx.rng.integers(2 ** 31)))
    for k in range(ctx.n(60, 900)):
        seed = int(ctx.rng.integers(2 ** 31))
        r = np.random.default_rng(seed)
        d = gen(r); d['seed'] = seed
        try:
            base = solve(d, [])
        except C.SkipCase:
            ctx.count('skipped'); continue
        except Exception as ex:
            ctx.hit('base-raises:' + type(ex).__name__, {"error": str(ex)[:200]}, {"desc": d}); continue
        variants = [[w] for w in REWRITES] + [sorted(set(str(v) for v in r.choice(REWRITES, int(r.integers(2, 5)), replace=False))) for _ in range(2)]
        for rw in variants:
            ctx.search_cases += 1; ctx.evaluations += 1
            case = {"desc": d, "rewrites": rw}
            try:
                v = solve(d, rw)
            except C.SkipCase:
                ctx.count('skipped'); continue
            except Exception as ex:
                ctx.hit('rewrite-raises:' + '+'.join(rw) + ':' + type(ex).__name__, {"error": str(ex)[:200]}, case); continue
            if base is not None:
                ctx.nontriv(case)
            if (v is None) != (base is None):
                ctx.hit('rewrite-changes-solvability:' + '+'.join(rw), {"base": base, "rewritten": v}, case)
            elif v is not None and abs(v - base) > 1e-5 * (1 + abs(base)):
                ctx.hit('rewrite-changes-optimum:' + '+'.join(rw), {"base": float(base), "rewritten": float(v)}, case)
            else:
                ctx.count('same:' + ('+'.join(rw) if len(rw) == 1 else 'combo'))
        ctx.sample({"base_optimum": base, "zset": d['zset'], "norm": d['norm']}, limit=3)


def replay(rp):
    if 'eqt_seed' in rp['case']:
        ctx = C.Ctx('C15', 'quick', 0)
        equality_and_transpose_spellings(ctx, rp['case']['eqt_seed'])
        return {"hits": [(h['key'], h['detail']) for h in ctx.hits], "fails": bool(ctx.hits)}
    c = rp['case']
    if 'declorder_seed' in c:
        ctx = C.Ctx('C15', 'quick', 0)
        declaration_order(ctx, c['declorder_seed'])
        return {"hits": [(h['key'], h['detail']) for h in ctx.hits], "fails": bool(ctx.hits)}
    if 'setcoll_seed' in c:
        ctx = C.Ctx('C15', 'quick', 0)
        set_collection_spellings(ctx, c['setcoll_seed'])
        return {"hits": [(h['key'], h['detail']) for h in ctx.hits], "fails": bool(ctx.hits)}
    if 'intbound_seed' in c:
        ctx = C.Ctx('C15', 'quick', 0)
        integer_bound_spellings(ctx, c['intbound_seed'])
        return {"hits": [(h['key'], h['detail']) for h in ctx.hits], "fails": bool(ctx.hits)}
    if 'spelling_seed' in c:
        ctx = C.Ctx('C15', 'quick', 0)
        dro_expectation_spellings(ctx, c['spelling_seed'])
        return {"hits": [(h['key'], h['detail']) for h in ctx.hits], "fails": bool(ctx.hits)}
    b = solve(c['desc'], []); v = solve(c['desc'], c['rewrites'])
    return {"base": b, "rewritten": v, "fails": (b is None) != (v is None) or (b is not None and abs(b - v) > 1e-5 * (1 + abs(b)))}
