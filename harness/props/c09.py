"""C09 — sets and expressions do not leak: results are independent of build history.

Theorems (Lean, RsomeV/Props/C09.lean): the scratch-model protocol used by forall()/minmax()/maxmin()/suppset
(reset; st each constraint; do_math(dual)) returns the formulation of exactly the set passed, from every reachable
state (`scratch_independent`), given that reset() clears every list st() can append to — which is a `decide` theorem
over the tables extracted from rsome/socp.py and rsome/gcp.py on every run (`reset_covers_st`); caches are consistent
with their dirty flags (`cache_coherent`).  Tie: extracted tables + random histories on the real API.
Search: the same declared model is built from scratch and through a random history (shuffled order, unrelated sets
defined in between, do_math / do_math(primal=False) / solve interleaved, constraints added after a solve) and the
optimal values and worst-case safety are compared."""
import numpy as np
from harness import common as C
from harness import ro_oracle as O
from harness.props import c01

GEN = True
THEOREMS = {
    'RsomeV.Props.C09': [
        'RsomeV.C09.scratch_independent',
        'RsomeV.C09.doMath_correct',
        'RsomeV.C09.history_independent',
        'RsomeV.C09.items_after_set',
        'RsomeV.C09.legacy_reset_leaks',
        'RsomeV.C09.reset_covers_st',
        'RsomeV.C09.reset_defined',
    ],
}
RULE = ("ro model descriptions of C01 rebuilt through random histories: constraint order shuffled, objective declared first or "
        "last, unrelated robust constraints with other sets (boxes, 1/2/inf/3-norm, sum of squares) created and discarded in between, "
        "do_math()/do_math(primal=False)/solve() interleaved, constraints and variables added after a first solve, expressions reused "
        "in several constructs; non-trivial = history with at least one interleaved formulation and one foreign set; distinct by hash")
TRUSTED = c01.TRUSTED
ASSUMPTIONS = ["Python object identity is modelled only for sets, expressions and models"]


def foreign_set(r, z):
    import rsome as rso
    nz = z.size
    u = r.random()
    c = r.choice([-1., 0., 0.5], nz)
    if u < 0.12:
        # pieces lifted through exponential cones (the support model keeps them in a list of their own)
        k = int(r.integers(0, 3))
        if k == 0:
            return [rso.exp(z[0] - c[0]) <= float(r.choice([0.5, 0.9]))]
        if k == 1:
            return [rso.log(z[0] - c[0] + 2) >= float(r.choice([0.75, 1.0])), z <= 3]
        return [rso.entropy(z + 2) >= float(nz) * 0.3, z >= -1.5, z <= c + 0.5]
    if u < 0.25:
        return [rso.norm(z - c, 3) <= float(r.choice([0.1, 0.5]))]          # p-norm piece (second-order-cone tower)
    if u < 0.45:
        return [rso.norm(z - c, 2) <= float(r.choice([0.25, 0.5]))]
    if u < 0.6:
        return [rso.sumsqr(z - c) <= 0.25]
    if u < 0.75:
        return [rso.norm(z - c, 1) <= 0.5]
    if u < 0.85:
        return []                                                              # an empty set
    return [z >= c - 0.25, z <= c + 0.25]


def build_history(d, r):
    """the model of description d, built through a random history; returns (model, handles, history log)"""
    import rsome as rso
    from rsome import ro
    nd, nz = d['nd'], d['nz']
    log = []
    m = ro.Model()
    x = m.dvar(nd)
    if d.get('extra_rvar_before'):
        m.rvar(2)
    z = m.rvar(nz)
    y = None
    if d['ldr']:
        y = m.ldr()
        for j, b in enumerate(d['ldr']['mask']):
            if b:
                y.adapt(z[j])
    steps = [('con', i) for i in range(len(d['cons']))] + [('box', 0), ('obj', 0)]
    r.shuffle(steps)
    solved_once = False

    def noise():
        u = r.random()
        try:
            if u < 0.3:
                fs = foreign_set(r, z)
                c = (np.ones(nd) @ x + np.ones(nz) @ z <= 100.0)
                if fs or r.random() < 0.5:
                    c.forall(fs)                    # never added to the model
                log.append('foreign-forall(%d)' % len(fs))
            elif u < 0.45 and m.obj is not None:
                with C.quiet():
                    m.do_math(); log.append('do_math')
            elif u < 0.55 and m.obj is not None:
                with C.quiet():
                    m.do_math(primal=False); log.append('do_math(dual)')
            elif u < 0.7 and m.obj is not None:
                with C.quiet():
                    try:
                        C.solve_model(m)
                    except Exception:
                        pass
                log.append('solve')
        except C.SkipCase:
            pass

    for kind, i in steps:
        if r.random() < 0.6:
            noise()
        if kind == 'con':
            con = d['cons'][i]
            R = np.array(con['R']); r0 = np.array(con['r0']); a = np.array(con['a']); a0 = np.array(con['a0'])
            rows = con['rows']
            if rows == 1:
                expr = (R[0] @ x + r0[0]) @ z + a[0] @ x + a0[0] + (con['coef'] * y if y is not None else 0)
            else:
                Mx = r0
                for dd in range(nd):
                    Mx = x[dd] * R[:, :, dd] + Mx
                expr = Mx @ z + a @ x + a0
            c = (expr <= 0) if con['sense'] == 'le' else ((-expr >= 0) if con['sense'] == 'ge' else (expr == 0))
            if con['own'] is not None:
                c = c.forall(O.rs_set(z, con['own']))
            if r.random() < 0.3:
                noise()                       # other sets defined between forall() and st()
            m.st(c); log.append('st(con%d)' % i)
        elif kind == 'box':
            m.st(x >= -5, x <= 5); log.append('st(box)')
        else:
            o = d['obj']
            e0 = np.array(o['c0']) @ x + np.array(o['q']) @ z + (o['cy'] * y if y is not None else 0)
            if o['kind'] == 'pw':
                e1 = np.array(o['c1']) @ x + np.array(o['q1']) @ z
                add = np.array(o['add']) @ x + np.array(o['addz']) @ z
                objexpr = o['scale'] * (rso.minof if o['max'] else rso.maxof)(e0, e1) + add
            else:
                objexpr = e0
            (m.maxmin if o['max'] else m.minmax)(objexpr, O.rs_set(z, d['S0']))
            log.append('objective')
    if r.random() < 0.5:
        noise()
    return m, {'x': x, 'z': z, 'y': y}, log


def search_one(ctx, d, seed):
    ctx.search_cases += 1; ctx.evaluations += 1
    r = np.random.default_rng(seed)
    case = {"desc": d, "history_seed": seed}
    try:
        with C.quiet():
            m0, h0 = O.build(d)
        v0 = O.solve(m0)
    except C.SkipCase:
        ctx.count('skipped'); return
    except Exception:
        v0 = None
    try:
        with C.quiet():
            m1, h1, log = build_history(d, r)
    except Exception as ex:
        ctx.hit('history-build-raises:' + type(ex).__name__, {"error": str(ex)[:200]}, case); return
    case['history'] = log
    try:
        v1 = C.solve_model(m1)
    except C.SkipCase:
        ctx.count('skipped'); return
    except RuntimeError:
        v1 = None
    except Exception as ex:
        ctx.hit('history-solve-raises:' + type(ex).__name__, {"error": str(ex)[:200], "history": log}, case); return
    if any(s.startswith(('foreign', 'do_math', 'solve')) for s in log):
        ctx.nontriv(case)
    for s in log:
        ctx.count('op:' + s.split('(')[0])
    if (v0 is None) != (v1 is None):
        ctx.hit('history-changes-solvability', {"from_scratch": v0, "through_history": v1, "history": log}, case); return
    if v0 is None:
        ctx.count('both-not-optimal'); return
    if abs(v0 - v1) > 1e-5 * (1 + abs(v0)):
        ctx.hit('history-changes-optimum', {"from_scratch": float(v0), "through_history": float(v1), "history": log}, case); return
    viol, info = O.check_safety(d, m1, h1)
    if viol:
        ctx.hit('history-unsafe:' + viol[0]['what'], {"violation": viol[0], "history": log}, case); return
    ctx.count('agree')
    ctx.sample({"history": log}, limit=4)


def resolve_after_add(ctx, seed):
    """solve, add a constraint and a variable, solve again == build the final model from scratch"""
    from rsome import ro
    import rsome as rso
    ctx.search_cases += 1; ctx.evaluations += 1
    r = np.random.default_rng(seed)
    nz = 2
    S = {'lo': [-1., -1.], 'hi': [1., 1.], 'ineq': [], 'eq': [], 'norm': [2, 1.0, [0., 0.], 1.0] if r.random() < 0.5 else None, 'quad': None}
    a = r.choice([-1., 1., 2.], 2); b = r.choice([-1., 0.5, 1.], 2)

    def stage1(m):
        x = m.dvar(2); z = m.rvar(nz)
        m.minmax(x.sum() + b @ z, O.rs_set(z, S))
        m.st((a * z) @ x >= 1 if False else x[0] + x[1] >= 1 + a @ z, x >= -4, x <= 6)
        return x, z

    kind2 = str(r.choice(['var+rows', 'exp-only', 'log-only', 'entropy-only', 'norm-only', 'bound-only', 'kl-only']))

    def stage2(m, x, z):
        # what is declared after the first solve: several kinds, each alone (so that only its own st() branch marks the caches stale)
        if kind2 == 'var+rows':
            w = m.dvar(vtype='C')
            m.st(w >= x[0] - 2 * z[0], w <= 9, x[1] >= 0.5 * w - 3)
        elif kind2 == 'exp-only':
            m.st(rso.exp(x[0] - 2) <= 0.5)
        elif kind2 == 'log-only':
            m.st(rso.log(x[1] + 5) >= 1.7)
        elif kind2 == 'entropy-only':
            m.st(rso.entropy(x + 5) >= -28.0)
        elif kind2 == 'norm-only':
            m.st(rso.norm(x, 2) <= 1.2)
        elif kind2 == 'kl-only':
            m.st(rso.kldiv((x + 5) * 0.1, np.array([0.5, 0.5]), 0.9))
        else:
            m.st(x[0] <= 0.25)
    case = {"resolve_seed": seed, "added_after_first_solve": kind2}
    def sol(m):
        try:
            return C.solve_model(m)
        except RuntimeError:
            return None
    try:
        mA = ro.Model(); xA, zA = stage1(mA)
        sol(mA)
        stage2(mA, xA, zA)
        vA = sol(mA)
        mB = ro.Model(); xB, zB = stage1(mB); stage2(mB, xB, zB)
        vB = sol(mB)
    except C.SkipCase:
        ctx.count('skipped'); return
    except Exception as ex:
        ctx.hit('resolve-after-add-raises:' + type(ex).__name__, {"error": str(ex)[:200]}, case); return
    if (vA is None) != (vB is None):
        ctx.hit('resolve-after-add-differs', {"incremental": vA, "from_scratch": vB}, case); return
    if vA is None:
        ctx.count('resolve:both-infeasible'); return
    if abs(vA - vB) > 1e-5 * (1 + abs(vB)):
        ctx.hit('resolve-after-add-differs', {"incremental": float(vA), "from_scratch": float(vB)}, case)
    else:
        ctx.count('resolve:agree')
    fA = mA.do_math()
    if len(fA.vtype) != fA.linear.shape[1] or len(fA.ub) != fA.linear.shape[1]:
        ctx.hit('resolve-after-add-inconsistent-program', {"vtype": len(fA.vtype), "ub": len(fA.ub), "cols": int(fA.linear.shape[1])}, case)


def dro_adapt_after_solve(ctx, seed):
    """a dro model solved once before the adaptation of its recourse variable is declared (then completed and solved
    again) == the same model declared in the documented order"""
    from harness import dro_oracle as DO
    ctx.search_cases += 1; ctx.evaluations += 1
    r = np.random.default_rng(seed)
    d = DO.gen(r)
    case = {"dro_seed": seed, "history": "declare, objective, solve, adapt, constraints, solve"}

    def pre(m):
        try:
            with C.quiet():
                C.solve_model(m)
        except Exception:
            pass
    def sol(m):
        try:
            return C.solve_model(m)
        except RuntimeError:
            return None
    try:
        with C.quiet():
            mA, _ = DO.build(d, presolve=pre)
            mB, _ = DO.build(d)
        vA, vB = sol(mA), sol(mB)
    except C.SkipCase:
        ctx.count('dro-history:skipped'); return
    except Exception as ex:
        ctx.hit('dro-adapt-after-solve-raises:' + type(ex).__name__, {"error": str(ex)[:200]}, case); return
    if (vA is None) != (vB is None):
        ctx.hit('dro-adapt-after-solve-differs', {"with_presolve": vA, "documented_order": vB}, case)
    elif vA is None:
        ctx.count('dro-history:both-infeasible')
    elif abs(vA - vB) > 1e-5 * (1 + abs(vB)):
        ctx.hit('dro-adapt-after-solve-differs', {"with_presolve": float(vA), "documented_order": float(vB)}, case)
    else:
        ctx.count('dro-history:agree')


def dro_exptset_order(ctx, seed):
    """the expectation sets of an ambiguity set are independent pieces: declaring them in another order is the same set"""
    from harness import dro_oracle as DO
    import copy
    r = np.random.default_rng(seed)
    for _ in range(20):
        d = DO.gen(r)
        if len(d['exps']) >= 2:
            break
    else:
        ctx.count('dro-exptset-order:no-case'); return
    ctx.search_cases += 1; ctx.evaluations += 1
    case = {"dro_exptset_seed": seed, "history": "exptset() calls in declared vs reversed order"}
    d2 = copy.deepcopy(d); d2['exps'] = d2['exps'][::-1]
    def sol(m):
        try:
            return C.solve_model(m)
        except RuntimeError:
            return None
    try:
        with C.quiet():
            mA, _ = DO.build(d)
            mB, _ = DO.build(d2)
        vA, vB = sol(mA), sol(mB)
    except C.SkipCase:
        ctx.count('dro-exptset-order:skipped'); return
    except Exception as ex:
        ctx.hit('dro-exptset-order-raises:' + type(ex).__name__, {"error": str(ex)[:200]}, case); return
    if (vA is None) != (vB is None) or (vA is not None and abs(vA - vB) > 1e-5 * (1 + abs(vB))):
        ctx.hit('dro-exptset-order-changes-optimum', {"declared_order": vA, "reversed_order": vB}, case)
    else:
        ctx.count('dro-exptset-order:agree')


def dro_redeclare_sets(ctx, seed):
    """the support / probability sets of an ambiguity set declared twice (a provisional declaration replaced by the final
    one, before or after a first solve) == the final declaration alone; an expectation set added after a first solve
    == declared up front"""
    from rsome import dro, E
    r = np.random.default_rng(seed)
    ctx.search_cases += 1; ctx.evaluations += 1
    S = int(r.integers(2, 4))
    lo = r.integers(-3, 1, S).astype(float); hi = lo + r.integers(1, 4, S)
    plo = np.maximum(1.0 / S - 0.2, 0.0); phi = 1.0 / S + 0.2
    mean_hi = float(np.mean((lo + hi) / 2) + 0.25)
    g = float(r.choice([1.0, 2.0, -1.0])); per_scen = bool(r.random() < 0.5)
    mode = str(r.choice(['final-only', 'provisional-then-final', 'solve-then-redeclare']))
    case = {"redeclare_seed": seed, "mode": mode}

    def build(mode):
        m = dro.Model(S); x = m.dvar(); y = m.dvar(); z = m.rvar()
        y.adapt(z)
        for s in range(S):
            y.adapt(s)
        fs = m.ambiguity()
        def supp(l, h):
            for s in range(S):
                (fs[s] if per_scen else fs[s]).suppset(z >= l[s], z <= h[s])
        def final_sets():
            supp(lo, hi)
            fs.probset(m.p >= plo, m.p <= phi)
        if mode != 'final-only':
            supp(lo - 2, hi + 3)                                  # provisional, larger supports
            fs.probset(m.p >= 0.0, m.p <= 1.0 / S + 0.05)         # provisional, different probability box
        if mode in ('provisional-then-final', 'final-only'):
            final_sets()
        m.minsup(E(x + y), fs)
        m.st(y >= g * z, x >= -2, y <= 50, x >= 0.5 * y - 4)
        if mode == 'solve-then-redeclare':
            try:
                C.solve_model(m)
            except Exception:
                pass
            final_sets()
        if mode == 'final-only':
            pass
        fs.exptset(E(z) <= mean_hi) if mode != 'solve-then-redeclare' else None
        if mode == 'solve-then-redeclare':
            fs.exptset(E(z) <= mean_hi)                           # added after the first solve
        return m
    def build_ref():
        m = dro.Model(S); x = m.dvar(); y = m.dvar(); z = m.rvar()
        y.adapt(z)
        for s in range(S):
            y.adapt(s)
        fs = m.ambiguity()
        for s in range(S):
            fs[s].suppset(z >= lo[s], z <= hi[s])
        fs.probset(m.p >= plo, m.p <= phi)
        fs.exptset(E(z) <= mean_hi)
        m.minsup(E(x + y), fs)
        m.st(y >= g * z, x >= -2, y <= 50, x >= 0.5 * y - 4)
        return m
    def sol(m):
        try:
            return C.solve_model(m)
        except RuntimeError:
            return None
    try:
        with C.quiet():
            mA = build(mode); mB = build_ref()
        vA, vB = sol(mA), sol(mB)
    except C.SkipCase:
        ctx.count('dro-redeclare:skipped'); return
    except Exception as ex:
        ctx.hit('dro-redeclare-raises:' + type(ex).__name__, {"error": str(ex)[:200]}, case); return
    if (vA is None) != (vB is None) or (vA is not None and abs(vA - vB) > 1e-5 * (1 + abs(vB))):
        ctx.hit('dro-redeclared-set-differs:' + mode, {"through_history": vA, "final_declaration_only": vB}, case)
    else:
        ctx.count('dro-redeclare:agree:' + mode)


def forall_histories(ctx, seed):
    """(1) solve; c.forall(another set); solve == a fresh model with that set; (2) c1 = c.forall(S1); c2 = c.forall(S2) of a piecewise
    constraint are two constraints with their own sets; (3) an integer variable declared after a first solve of a model whose first
    formulation needed auxiliary columns keeps its type - each compared with the model built from scratch"""
    import rsome as rso
    from rsome import ro, dro
    r = np.random.default_rng(seed)
    ctx.search_cases += 1; ctx.evaluations += 1
    kind = str(r.choice(['forall-after-solve', 'forall-after-solve-dro', 'piecewise-forall-twice', 'integer-var-after-solve', 'equality-forall-after-st', 'rvar-after-sets', 'rvar-after-sets']))
    a = float(r.choice([1.0, 2.0, 0.5])); r1 = float(r.choice([1.0, 2.0])); r2 = r1 + float(r.choice([1.0, 3.0]))
    case = {"forall_seed": seed, "kind": kind}

    def sol(m, solver='auto'):
        try:
            return C.solve_model(m, solver)
        except RuntimeError:
            return None
    try:
        with C.quiet():
            if kind == 'forall-after-solve':
                m = ro.Model(); x = m.dvar(); z = m.rvar(); c = (x >= a * z); m.min(x)
                m.st(c.forall(z >= 0, z <= r1)); sol(m)
                c.forall(z >= 0, z <= r2)
                ref = ro.Model(); x2 = ref.dvar(); z2 = ref.rvar(); ref.min(x2); ref.st((x2 >= a * z2).forall(z2 >= 0, z2 <= r2))
            elif kind == 'forall-after-solve-dro':
                m = dro.Model(1); x = m.dvar(); z = m.rvar()
                f1 = m.ambiguity(); f1.suppset(z >= 0, z <= r1); f2 = m.ambiguity(); f2.suppset(z >= 0, z <= r2)
                c = (x >= a * z); m.minsup(rso.E(x), f1); m.st(c.forall(f1)); sol(m)
                c.forall(f2)
                ref = dro.Model(1); x2 = ref.dvar(); z2 = ref.rvar()
                g1 = ref.ambiguity(); g1.suppset(z2 >= 0, z2 <= r1); g2 = ref.ambiguity(); g2.suppset(z2 >= 0, z2 <= r2)
                ref.minsup(rso.E(x2), g1); ref.st((x2 >= a * z2).forall(g2))
            elif kind == 'equality-forall-after-st':
                # a robust equality added to the model first and given its own set afterwards (with or without a solve in between)
                def build(late):
                    mm = ro.Model(); x = mm.dvar(2); y = mm.dvar(); z = mm.rvar(2)
                    mm.minmax(y + 0 * z.sum(), abs(z) <= r2)
                    c = ((x - 1) @ z + y - a * x.sum() == 0)
                    mm.st(x >= 0, x <= 3)
                    if late:
                        mm.st(c)
                        if r1 > 1:
                            sol(mm)
                        c.forall(z == 0.5 * r1)
                    else:
                        mm.st(c.forall(z == 0.5 * r1))
                    return mm
                m = build(True); ref = build(False)
            elif kind == 'rvar-after-sets':
                # a random variable declared after sets with auxiliary columns (1-norm, inf-norm) were formulated - with another set
                # of fewer auxiliary columns in between - and then used with a decision coefficient under the DEFAULT set: it is
                # unrestricted there, exactly as if it had been declared first
                p1 = str(r.choice(['norm1', 'norminf', 'norm1'])); other = str(r.choice(['box', 'norm2', 'norminf']))
                cw = float(r.choice([1.0, -1.0, 2.0]))

                def build(late):
                    mm = ro.Model(); x = mm.dvar(); y = mm.dvar(); z = mm.rvar(2)
                    w = None if late else mm.rvar()
                    mm.minmax(x, (rso.norm(z, 1) <= r1) if p1 == 'norm1' else (rso.norm(z, 'inf') <= r1))
                    own = [z >= -r2, z <= r2] if other == 'box' else ([rso.norm(z, 2) <= r2] if other == 'norm2' else [rso.norm(z, 'inf') <= r2])
                    mm.st((x >= a * z[0] - 10).forall(own))
                    if late:
                        w = mm.rvar()
                    mm.st(x >= z.sum() + cw * y * w + y, y >= -5, y <= 5)
                    return mm
                m = build(True); ref = build(False)
            elif kind == 'piecewise-forall-twice':
                # forall() gives the set to the constraint itself and returns it - for piecewise constraints exactly as for affine
                # ones: after a second forall() the constraint carries the second set, whichever handle is added to the model,
                # and a forall() after st() takes effect
                pw = lambda x_, z_: (rso.maxof(a * z_ - x_, -a * z_ - x_) <= 0)
                aff = lambda x_, z_: (a * z_ - x_ <= 0)
                which = str(r.choice(['twice', 'after-st', 'after-st-dro-E']))
                if which == 'after-st-dro-E':
                    m = dro.Model(1); x = m.dvar(); z = m.rvar()
                    f1 = m.ambiguity(); f1.suppset(z >= 0, z <= r1); f2 = m.ambiguity(); f2.suppset(z >= 0, z <= r2)
                    c = (rso.E(rso.maxof(a * z - x, -x - 7)) <= 0); m.minsup(rso.E(x), f1); m.st(c); c.forall(f2)
                    ref = dro.Model(1); x2 = ref.dvar(); z2 = ref.rvar()
                    g1 = ref.ambiguity(); g1.suppset(z2 >= 0, z2 <= r1); g2 = ref.ambiguity(); g2.suppset(z2 >= 0, z2 <= r2)
                    ref.minsup(rso.E(x2), g1); ref.st((rso.E(rso.maxof(a * z2 - x2, -x2 - 7)) <= 0).forall(g2))
                else:
                    m = ro.Model(); x = m.dvar(); z = m.rvar(); c = pw(x, z); m.minmax(x, abs(z) <= 0.5)
                    if which == 'twice':
                        c1 = c.forall(abs(z) <= r1); c2 = c.forall(abs(z) <= r2); m.st(c1)
                    else:
                        m.st(c); c.forall(abs(z) <= r2)
                    ref = ro.Model(); x2 = ref.dvar(); z2 = ref.rvar(); c_ = aff(x2, z2); ref.minmax(x2, abs(z2) <= 0.5)
                    if which == 'twice':
                        d1 = c_.forall(abs(z2) <= r1); d2 = c_.forall(abs(z2) <= r2); ref.st(d1)
                    else:
                        ref.st(c_); c_.forall(abs(z2) <= r2)
                    ref.st(x2 >= 0)
                    m.st(x >= 0)
                case['which'] = which
            else:
                def build(presolve):
                    mm = ro.Model(); t = mm.dvar(); x = mm.dvar(2); mm.min(t)
                    mm.st(rso.norm(x, 1) <= 1, t >= a * x.sum())
                    if presolve:
                        sol(mm, None)
                    y = mm.dvar(vtype='I'); mm.st(y >= 0.3 * r1, t >= y)
                    return mm
                m = build(True); ref = build(False)
        vA = sol(m, None if kind == 'integer-var-after-solve' else 'auto'); vB = sol(ref, None if kind == 'integer-var-after-solve' else 'auto')
        if kind == 'integer-var-after-solve':
            fA = m.do_math()
            if len(fA.vtype) != fA.linear.shape[1]:
                ctx.hit('history-misaligns-variable-types', {"vtype": len(fA.vtype), "cols": int(fA.linear.shape[1])}, case); return
    except C.SkipCase:
        ctx.count('forall-history:skipped'); return
    except Exception as ex:
        ctx.hit('forall-history-raises:' + kind + ':' + type(ex).__name__, {"error": str(ex)[:200]}, case); return
    if (vA is None) != (vB is None) or (vA is not None and abs(vA - vB) > 1e-6 * (1 + abs(vB))):
        ctx.hit('history-differs-from-scratch:' + kind, {"through_history": vA, "from_scratch": vB}, case)
    else:
        ctx.count('forall-history:agree:' + kind)


def expression_reuse(ctx):
    """using an expression inside one construct does not change what it means elsewhere: `e <= 0.5` written before or
    after `E(maxof(e, ..))` is the same robust constraint"""
    from rsome import dro
    import rsome as rso
    ctx.search_cases += 1; ctx.evaluations += 1

    def build(order):
        m = dro.Model(1); x = m.dvar(); z = m.rvar()
        fs = m.ambiguity(); fs.suppset(z >= -1, z <= 1); fs.exptset(rso.E(z) == 0)
        e = x - z
        if order == 'before':
            c = (e <= 0.5); obj = rso.E(rso.maxof(e, 0 * x))
        else:
            obj = rso.E(rso.maxof(e, 0 * x)); c = (e <= 0.5)
        m.max(x); m.st(c.forall(fs)); m.st((obj <= 10).forall(fs))
        return m
    probe = {"probe": "e = x - z;  c = (e <= 0.5) written before / after E(maxof(e, 0*x))"}
    try:
        v = [C.solve_model(build(o)) for o in ('before', 'after')]
    except Exception as ex:
        ctx.hit('expression-reuse-raises:' + type(ex).__name__, {"error": str(ex)[:200]}, probe); return
    if abs(v[0] - v[1]) > 1e-6 * (1 + abs(v[1])):
        ctx.hit('expression-reuse-changes-meaning', {"constraint_written_before": float(v[0]), "constraint_written_after": float(v[1])}, probe)
    else:
        ctx.count('reuse:agree')


def direct_layers(ctx, seed):
    """the lp / socp / gcp modelling layers used directly (rsome.lp.Model, rsome.socp.Model, rsome.gcp.Model): declare, formulate,
    declare one more constraint of a single kind, formulate again == from scratch"""
    import rsome as rso
    from rsome import lp as lpm, socp as socpm, gcp as gcpm
    r = np.random.default_rng(seed)
    layer = str(r.choice(['lp', 'socp', 'gcp', 'gcp']))
    kinds = {'lp': ['row', 'bound', 'abs'], 'socp': ['row', 'bound', 'abs', 'norm2', 'sumsqr', 'square'],
             'gcp': ['row', 'bound', 'abs', 'norm2', 'sumsqr', 'exp', 'log', 'entropy', 'kl', 'expcone']}[layer]
    objective = str(r.choice(['affine', 'affine', 'sumsqr', 'norm2'])) if layer != 'lp' else 'affine'
    first = [str(v) for v in r.choice(kinds, int(r.integers(1, 3)))]
    second = str(r.choice(kinds))
    ctx.search_cases += 1; ctx.evaluations += 1
    case = {"layer": layer, "first": first, "then": second, "seed": seed, "objective": objective}

    def add(m, x, t, kind, i):
        if kind == 'row':
            m.st(x[0] + 2 * x[1] <= 3 + i)
        elif kind == 'bound':
            m.st(x[1] <= 2.5 - 0.5 * i)
        elif kind == 'abs':
            m.st(abs(x[0] - 1) <= 2 + i)
        elif kind == 'norm2':
            m.st(rso.norm(x, 2) <= 3 + i)
        elif kind == 'sumsqr':
            m.st(rso.sumsqr(x) <= 8 + i)
        elif kind == 'square':
            m.st(rso.square(x[1]) <= 6 + i)
        elif kind == 'exp':
            m.st(rso.exp(x[0]) <= t + i)
        elif kind == 'log':
            m.st(rso.log(x[1] + 4) >= 0.5 + 0.25 * i)
        elif kind == 'entropy':
            m.st(rso.entropy(x + 4) >= -30 + i)
        elif kind == 'kl':
            m.st(rso.kldiv((x + 4) * 0.1, np.array([0.5, 0.5]), 1.0 + i))
        elif kind == 'expcone':
            m.st(rso.expcone(t + 3, x[0], 1.0 + i))

    def fresh():
        M = {'lp': lpm, 'socp': socpm, 'gcp': gcpm}[layer].Model()
        x = M.dvar(2); t = M.dvar()
        M.min((t - x[0]) + (rso.sumsqr(x) if objective == 'sumsqr' else (rso.norm(x, 2) if objective == 'norm2' else 0)))
        M.st([x >= -3, x <= 3, t >= -5, t <= 50])
        return M, x, t
    try:
        with C.quiet():
            A, x, t = fresh()
            for i, k in enumerate(first):
                add(A, x, t, k, i)
            A.do_math(); A.do_math(primal=False)
            add(A, x, t, second, 2)
            pa = C.prog_json(A.do_math()); da = C.prog_json(A.do_math(primal=False))
            B, xb, tb = fresh()
            for i, k in enumerate(first):
                add(B, xb, tb, k, i)
            add(B, xb, tb, second, 2)
            pb = C.prog_json(B.do_math()); db = C.prog_json(B.do_math(primal=False))
    except Exception as ex:
        ctx.count('direct-layer-error:' + type(ex).__name__); return
    keys = C.PROG_KEYS + ('qmat', 'xmat', 'vtype')
    ctx.nontriv(case)
    if any(pa[k] != pb[k] for k in keys) or any(da[k] != db[k] for k in keys):
        ctx.hit('incremental-formulation-differs:' + layer, {"primal_fields": [k for k in keys if pa[k] != pb[k]], "dual_fields": [k for k in keys if da[k] != db[k]],
                                                              "shape_incremental": [pa['nr'], pa['nc']], "shape_scratch": [pb['nr'], pb['nc']]}, case)
    else:
        ctx.count('direct-layer:identical')


def run(ctx):
    for k in range(ctx.n(40, 600)):
        direct_layers(ctx, int(ctx.rng.integers(2 ** 31)))
    expression_reuse(ctx)
    for k in range(ctx.n(24, 200)):
        resolve_after_add(ctx, int(ctx.rng.integers(2 ** 31)))
    for k in range(ctx.n(16, 200)):
        dro_adapt_after_solve(ctx, int(ctx.rng.integers(2 ** 31)))
    for k in range(ctx.n(24, 300)):
        forall_histories(ctx, int(ctx.rng.integers(2 ** 31)))
    for k in range(ctx.n(30, 300)):
        dro_redeclare_sets(ctx, int(ctx.rng.integers(2 ** 31)))
    for k in range(ctx.n(40, 400)):
        dro_exptset_order(ctx, int(ctx.rng.integers(2 ** 31)))
    for k in range(ctx.n(60, 1200)):
        r, seed = c01.O_sub(ctx)
        d = O.gen_model(r); d['seed'] = seed; d['late'] = None     # late rvars are C01/C02's scenario; histories here permute steps
        search_one(ctx, d, int(ctx.rng.integers(2 ** 31)))


def replay(rp):
    case = rp['case']
    ctx = C.Ctx('C09', 'quick', 0)
    if 'desc' in case:
        search_one(ctx, case['desc'], case['history_seed'])
    elif 'resolve_seed' in case:
        resolve_after_add(ctx, case['resolve_seed'])
    elif 'forall_seed' in case:
        forall_histories(ctx, case['forall_seed'])
    elif 'redeclare_seed' in case:
        dro_redeclare_sets(ctx, case['redeclare_seed'])
    elif 'dro_exptset_seed' in case:
        dro_exptset_order(ctx, case['dro_exptset_seed'])
    elif 'dro_seed' in case:
        dro_adapt_after_solve(ctx, case['dro_seed'])
    elif 'layer' in case:
        direct_layers(ctx, case['seed'])
    else:
        expression_reuse(ctx)
    return {"hits": [(h['key'], h['detail']) for h in ctx.hits][:3], "fails": bool(ctx.hits)}
