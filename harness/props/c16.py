"""C16 — exports (.lp file, show tables) describe exactly the solved program.

Theorems (Lean, RsomeV/Props/C16.lean): lp_roundtrip / lp_roundtrip_text — parsing the rendered LP text recovers every stored
row entry with sign, token and column, every sense, right-hand side, bound, integrality class and cone (objective up to
dropped zeros), at line level and at character level; render_injective.  Tie: the Lean renderer vs the real lp_export()
character for character (tokens are Python's own str(float)).  Search: to_lp() files are read by an independent reader
(gurobipy.read) and solved; show() tables are compared cell by cell with the formula."""
import os, tempfile
import numpy as np
from harness import common as C
from harness import det_models as DM
from harness import atoms as AT

THEOREMS = {
    'RsomeV.Props.C16Show': ['RsomeV.C16Show.show_roundtrip', 'RsomeV.C16Show.show_roundtrip_lin', 'RsomeV.C16Show.show_injective', 'RsomeV.C16Show.show_determines',
                              'RsomeV.C16Show.show_determines_cones', 'RsomeV.C16Show.tail_order_lost'],
    'RsomeV.Props.C16': ['RsomeV.C16.lp_roundtrip', 'RsomeV.C16.lp_roundtrip_text', 'RsomeV.C16.split_render', 'RsomeV.C16.render_injective',
                         'RsomeV.C16.toParsed_determines', 'RsomeV.C16.text_determines', 'RsomeV.C16.lp_roundtrip_rows', 'RsomeV.C16.lp_roundtrip_bounds',
                         'RsomeV.C16.lp_roundtrip_types', 'RsomeV.C16.lp_roundtrip_cones'],
}
RULE = ("random LP / MILP (binaries and integers together) / SOCP models and their duals exported with to_lp(), read with gurobipy.read and "
        "solved; show() compared with the formula; non-trivial = model with integer or cone data; distinct by content hash")
TRUSTED = ["gurobipy.read as the independent LP-format reader (restricted licence: <= 2000 rows/columns)", "Python's str(float)"]
ASSUMPTIONS = []


def read_and_solve(path):
    import gurobipy as gp
    with C.quiet():
        g = gp.read(path)
        g.Params.OutputFlag = 0
        g.optimize()
    return g.Status, (g.ObjVal if g.Status == 2 else None), g


def check_formula(ctx, f, case, tag):
    from rsome import grb_solver
    ctx.search_cases += 1; ctx.evaluations += 1
    tmp = tempfile.mkdtemp(prefix='c16_')
    # the file must be written under exactly the given name + '.lp', whatever the name ends with
    stem = ['out', 'milp', 'socp', 'model_lp', 'tmp', 'a.b', 'lp'][int(ctx.rng.integers(0, 7))]
    base = os.path.join(tmp, stem)
    try:
        f.to_lp(base)
        written = sorted(os.listdir(tmp))
        if written != [stem + '.lp']:
            ctx.hit('to_lp-writes-another-file', {"asked_for": stem + '.lp', "directory_now_holds": written}, case)
            return
        if open(base + '.lp').read() != f.lp_export():
            ctx.hit('to_lp-file-differs-from-lp_export', {"name": stem}, case)
        st, val, g = read_and_solve(base + '.lp')
        with C.quiet():
            sol = grb_solver.solve(f, display=False)
        direct = None if (sol is None or sol.x is None) else float(sol.objval)
        if (val is None) != (direct is None):
            ctx.hit('export-changes-solvability:' + tag, {"file": val, "direct": direct}, case)
        elif val is not None and abs(val - direct) > 1e-5 * (1 + abs(direct)):
            ctx.hit('export-changes-optimum:' + tag, {"file": float(val), "direct": direct}, case)
        else:
            ctx.count('lp-file-agrees:' + tag)
        # a second independent reader (HiGHS, as bundled with SciPy) for programs without cones
        if not getattr(f, 'qmat', None) and not getattr(f, 'xmat', None):
            try:
                import scipy.optimize._highspy._core as hc
                with C.quiet():
                    hg = hc._Highs(); hg.setOptionValue('output_flag', False)
                    if any(v != 'C' for v in f.vtype):
                        hg.setOptionValue('presolve', 'off')      # HiGHS' MILP presolve misjudges fractional bounds of integer columns (cf. repair 296dfe0)
                    hg.readModel(base + '.lp'); hg.run()
                    hstat = str(hg.getModelStatus()); hval = float(hg.getObjectiveValue()) if 'kOptimal' in hstat else None
            except Exception as ex_:
                hstat, hval = 'reader-unavailable:' + type(ex_).__name__, 'skip'
            lbv, ubv = np.asarray(f.lb, dtype=float), np.asarray(f.ub, dtype=float); disc = np.array([v != 'C' for v in f.vtype])
            frac_int_bounds = bool(np.any(disc & np.isfinite(lbv) & (lbv != np.round(lbv))) or np.any(disc & np.isfinite(ubv) & (ubv != np.round(ubv))))
            if frac_int_bounds and hval != 'skip' and ((hval is None) != (direct is None) or (hval is not None and abs(hval - direct) > 1e-5 * (1 + abs(direct)))):
                # this reader is not a reliable judge of such files (the Gurobi reader above is): not held against the export
                ctx.count('lp-file:highs-reader-unreliable-on-fractional-integer-bounds'); hval = 'skip'
            if hval != 'skip' and not any(k_ in hstat for k_ in ('kTimeLimit', 'kIterationLimit', 'kUnknown', 'kNotset', 'kLoadError', 'kModelError')):
                if (hval is None) != (direct is None):
                    ctx.hit('export-changes-solvability:highs-reader:' + tag, {"file_status": hstat, "direct": direct}, case)
                elif hval is not None and abs(hval - direct) > 1e-5 * (1 + abs(direct)):
                    # (HiGHS' MILP presolve is known to return suboptimal points for some fractional integer bounds: only a
                    #  value that the same solver does NOT return for the formula itself is held against the file)
                    from rsome.lp import def_sol
                    with C.quiet():
                        s2 = def_sol(f, display=False)
                    same_solver = None if (s2 is None or s2.x is None) else float(s2.objval)
                    if same_solver is not None and abs(same_solver - direct) <= 1e-5 * (1 + abs(direct)):
                        ctx.hit('export-changes-optimum:highs-reader:' + tag, {"file": hval, "direct": direct}, case)
                    else:
                        ctx.count('lp-file:highs-solver-disagrees-with-itself')
                else:
                    ctx.count('lp-file-agrees:highs-reader:' + tag)
        # integrality sections
        vt = ''.join('B' if v.VType == 'B' else ('I' if v.VType == 'I' else 'C') for v in g.getVars())
        names = [v.VarName for v in g.getVars()]
        want = {('x%d' % (i + 1)): t for i, t in enumerate(f.vtype)}
        got = dict(zip(names, vt))
        if any(got.get(k, 'C') != t for k, t in want.items() if t != 'C') or any(t != 'C' and want.get(k, 'C') == 'C' for k, t in got.items()):
            ctx.hit('export-loses-variable-types:' + tag, {"formula": ''.join(f.vtype), "file": got}, case)
    except Exception as ex:
        ctx.hit('export-raises:' + tag + ':' + type(ex).__name__, {"error": str(ex)[:200]}, case)
    finally:
        for fn in os.listdir(tmp):
            os.unlink(os.path.join(tmp, fn))
        os.rmdir(tmp)
    # show(): coefficient, sense, rhs, bounds, types
    try:
        tb = f.show()
        nr, nc = f.linear.shape
        A = C.dense(f.linear)
        cols = ['x%d' % (i + 1) for i in range(nc)]
        rows = ['LC%d' % (i + 1) for i in range(nr)]
        bad = []
        if not np.allclose(tb.loc[rows, cols].to_numpy(dtype=float), A):
            bad.append('coefficients')
        if list(tb.loc[rows, 'sense']) != ['==' if s else '<=' for s in f.sense]:
            bad.append('sense')
        if not np.allclose(tb.loc[rows, 'constant'].to_numpy(dtype=float), f.const):
            bad.append('constant')
        if not np.allclose(tb.loc['Obj', cols].to_numpy(dtype=float), np.asarray(f.obj).reshape(-1)):
            bad.append('objective')
        if not np.array_equal(tb.loc['UB', cols].to_numpy(dtype=float), f.ub) or not np.array_equal(tb.loc['LB', cols].to_numpy(dtype=float), f.lb):
            bad.append('bounds')
        if list(tb.loc['Type', cols]) != list(f.vtype):
            bad.append('types')
        for k, q in enumerate(getattr(f, 'qmat', [])):
            row = tb.loc['QC%d' % (k + 1), cols].to_numpy(dtype=float)
            exp_ = np.zeros(nc); exp_[q[1:]] = 1.0; exp_[q[0]] = -1.0
            if not np.allclose(row, exp_):
                bad.append('cone')
        if bad:
            ctx.hit('show-table-differs:' + bad[0], {"fields": bad}, case)
        else:
            ctx.count('show-ok')
    except Exception as ex:
        ctx.hit('show-raises:' + type(ex).__name__, {"error": str(ex)[:200]}, case)


def run(ctx):
    C.run_difftest(ctx, 'test_export.py', ctx.n(150, 3000), 'LinProg/SOCProg.lp_export text')
    C.run_difftest(ctx, 'test_show.py', ctx.n(80, 1500), 'show() tables of LinProg / SOCProg / GCProg, cell by cell')
    for k in range(ctx.n(50, 900)):
        seed = int(ctx.rng.integers(2 ** 31))
        r = np.random.default_rng(seed)
        cls = str(r.choice(['lp', 'milp', 'milp', 'soc']))
        atoms = ['abs', 'norm1', 'norminf'] + (['norm2', 'sumsqr', 'square'] if cls == 'soc' else [])
        front = 'ro' if r.random() < 0.5 else ('socp' if cls == 'soc' else 'lp')       # ro front end or the stand-alone layer
        d = DM.gen(r, atoms=atoms, integer=(cls == 'milp'), front=front); d['seed'] = seed; d.pop('pw', None)
        if d['obj']['kind'] == 'pw' and front != 'ro':
            continue
        if cls == 'milp' and not ('B' in d['vtype'] and 'I' in d['vtype']) and d['n'] >= 2:
            d['vtype'] = ('BI' + d['vtype'])[:d['n']]            # binaries and integers in one model
            d['x0'] = [float(min(max(round(v), 0), 1)) if t == 'B' else float(round(v)) if t == 'I' else v for v, t in zip(d['x0'], d['vtype'])]
        case = {"desc": d, "class": cls}
        ctx.count('front:' + front)
        empty_row = None
        if r.random() < 0.2:
            # a compiled row without any stored coefficient: satisfied (0 <= 4), violated (0 <= -1.5) or a violated equality (0 == 2)
            empty_row = str(r.choice(['satisfied', 'violated', 'violated-equality']))
            case['empty_row'] = empty_row
        try:
            with C.quiet():
                m, x = DM.build(d)
                if empty_row == 'satisfied':
                    m.st(0 * x[0] <= 4.0)
                elif empty_row == 'violated':
                    m.st(0 * x[0] <= -1.5)
                elif empty_row == 'violated-equality':
                    m.st(0 * x[0] == 2.0)
                f = m.do_math()
        except Exception as ex:
            ctx.count('build-error:' + type(ex).__name__); continue
        ctx.nontriv(case)
        check_formula(ctx, f, dict(case, formula='primal'), 'primal')
        if cls in ('lp', 'soc') and not empty_row:
            try:
                with C.quiet():
                    m2, x2 = DM.build(d)
                    fd = m2.do_math(primal=False)
                check_formula(ctx, fd, dict(case, formula='dual'), 'dual')
            except Exception as ex:
                ctx.count('dual-error:' + type(ex).__name__)
        ctx.sample({"class": cls, "vtype": d['vtype']}, limit=3)


def replay(rp):
    ctx = C.Ctx('C16', 'quick', 0)
    c = rp['case']; d = c['desc']
    with C.quiet():
        m, x = DM.build(d)
        if c.get('empty_row'):
            m.st({'satisfied': 0 * x[0] <= 4.0, 'violated': 0 * x[0] <= -1.5}.get(c['empty_row'], 0 * x[0] == 2.0))
        f = m.do_math() if c.get('formula') != 'dual' else m.do_math(primal=False)
    check_formula(ctx, f, c, c.get('formula', 'primal'))
    return {"hits": [(h['key'], h['detail']) for h in ctx.hits], "fails": bool(ctx.hits)}
