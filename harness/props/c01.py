"""C01 — robust solutions are feasible for every realisation of the attached set.

Theorems (Lean): `rc_sound` — for the order-faithful model of `RoConstr.le_to_rc` over the model of the
support's conic dual: every assignment feasible for the counterpart rows satisfies the uncertain row at
every realisation of the (lifted) support program; built on conic weak duality.
Tie: (a) the support stored by forall()/minmax() vs the Lean dual of the support's own primal,
(b) the constraint list returned by the real `le_to_rc` vs the Lean model, entry by entry,
(c) the late-random-variable block (test_late_rvar.py), (d) the whole compiled program of ro.Model.do_math() vs the Lean
`roModel` (st order, equality split, default-set rule, objective blocks, multiplier numbering, bound folding, cones):
`ro_model_sound` lifts rc_sound to every robust block, deterministic row and bound of the whole program.
Search: solve and evaluate every robust row / the objective at an independently computed worst case."""
import numpy as np
from harness import common as C
from harness import ro_oracle as O

THEOREMS = {
    'RsomeV.Props.C01': [
        'RsomeV.C01.rc_sound',
        'RsomeV.C01.eval_negRows',
        'RsomeV.C01.rc_sound_eq',
        'RsomeV.C01.rc_sound_late',
        'RsomeV.C01.rc_sound_late\'',
    ],
    'RsomeV.Props.C01Stray': ['RsomeV.C01Stray.rc_sound_stray', 'RsomeV.C01Stray.rc_sound_late_val', 'RsomeV.C01Stray.leToRcK_coef_zero',
                              'RsomeV.C01Stray.eval_indep_late'],
    'RsomeV.Props.C08': ['RsomeV.C08.cone_dual_weak'],
    'RsomeV.Props.Lmi': ['RsomeV.Lmi.rc_sound_lmi', 'RsomeV.Lmi.lmi_dual_weak'],
    'RsomeV.Props.C01Model': ['RsomeV.C01Model.block_feas', 'RsomeV.C01Model.ro_model_sound', 'RsomeV.C01Model.ro_model_sound_late',
                              'RsomeV.C01Model.ro_model_sound_eq', 'RsomeV.C01Model.ro_model_sound_obj',
                              'RsomeV.C01Model.ro_model_sound_obj_plain'],
}
RULE = ("random ro models from a description grammar (1-3 decisions, 1-3 random components, optional LDR with random "
        "dependency mask, 1-3 scalar or vector robust rows with <=, >=, == senses, default and per-constraint sets: boxes "
        "with lb=0/ub=0/fixed patterns, linear (in)equalities, 1/2/inf-norm with multiplier and radius != 1, sum of squares; "
        "affine and maxof/minof objectives under minmax/maxmin); non-trivial = at least one robust row whose support has a "
        "bounded multiplier column and a non-zero random coefficient; distinct by content hash")
TRUSTED = ["ECOS / Gurobi / HiGHS return (near-)optimal points of the data they are given (search only, tolerance 1e-5)",
           "the independent worst-case oracle harness/ro_oracle.py:maxlin (own ECOS model of the user-level set)"]
ASSUMPTIONS = ["LMI supports are not modelled", "the returned vector satisfies the compiled program to solver tolerance"]


def fragment_from_code(out, nc):
    """the list returned by le_to_rc as one dense program fragment"""
    from rsome.lp import LinConstr, Bounds, ConeConstr, ExpConstr
    rows = []; b = []; eq = []; sizes = []
    ub = [None] * nc; lb = [None] * nc
    qmat = []; xmat = []
    for c in out:
        if isinstance(c, LinConstr):
            A = C.dense(c.linear)
            A = np.hstack([A, np.zeros((A.shape[0], nc - A.shape[1]))])
            rows.append(A); b += [C.fr(v) for v in np.asarray(c.const).reshape(-1)]
            eq += [int(s) for s in np.asarray(c.sense).reshape(-1)]
            sizes.append(A.shape[0])
        elif isinstance(c, Bounds):
            for i, v in zip(np.asarray(c.indices).reshape(-1), np.asarray(c.values).reshape(-1)):
                if c.btype == 'U':
                    ub[int(i)] = C.fr(v) if ub[int(i)] is None else C.fr(min(float(C.unfr(ub[int(i)])), v))
                else:
                    lb[int(i)] = C.fr(v) if lb[int(i)] is None else C.fr(max(float(C.unfr(lb[int(i)])), v))
        elif isinstance(c, ConeConstr):
            qmat.append([int(c.right_var.first + c.right_index)] + [int(c.left_var.first + i) for i in c.left_index])
        elif isinstance(c, ExpConstr):
            cols = []
            for e in (c.expr1, c.expr2, c.expr3):
                a = e.to_affine()
                L = C.dense(a.linear)
                nzc = np.nonzero(L.reshape(-1))[0]
                assert len(nzc) == 1 and L.reshape(-1)[nzc[0]] == 1 and not np.any(a.const)
                cols.append(int(nzc[0]))
            xmat.append(cols)
        else:
            raise TypeError(type(c).__name__)
    A = np.vstack(rows) if rows else np.zeros((0, nc))
    return {"nr": int(A.shape[0]), "nc": int(nc), "a": [[C.fr(v) for v in r] for r in A], "b": b, "eq": eq,
            "ub": ub, "lb": lb, "qmat": qmat, "xmat": xmat,
            "n1": sizes[0] if sizes else 0, "n2": sizes[1] if len(sizes) > 1 else 0, "third": sizes[2] if len(sizes) > 2 else 0,
            "nblocks": len(sizes)}


def rows_json(con, nd):
    raff = con.raffine
    m_, nz = raff.shape
    Rl = C.dense(raff.linear)
    Rl = np.hstack([Rl, np.zeros((Rl.shape[0], nd - Rl.shape[1]))]).reshape(m_, nz, nd)
    Rc = np.asarray(raff.const).reshape(m_, nz)
    al = C.dense(con.affine.linear)
    al = np.hstack([al, np.zeros((al.shape[0], nd - al.shape[1]))]).reshape(m_, nd)
    ac = np.asarray(con.affine.const).reshape(m_)
    return {"nd": int(nd), "m": int(m_), "nz": int(nz),
            "Rl": [[[C.fr(v) for v in r] for r in blk] for blk in Rl], "Rc": [[C.fr(v) for v in r] for r in Rc],
            "al": [[C.fr(v) for v in r] for r in al], "ac": [C.fr(v) for v in ac]}


SUPKEYS = C.PROG_KEYS + ('qmat', 'xmat')


def correspondence(ctx, d, reqs, meta):
    """collect the le_to_rc correspondence requests of one model description"""
    from rsome.lp import RoConstr
    with C.quiet():
        m, h = O.build(d)
    parts = []
    for con in m.all_constr:
        if not isinstance(con, RoConstr):
            continue
        sense = con.sense[0] if isinstance(con.sense, np.ndarray) else con.sense
        if sense == 0:
            parts.append(con)
        else:
            # a robust equality is split into two inequalities when the model is formulated (ro.Model.do_math)
            from rsome.lp import RoAffine
            for sg in (1, -1):
                p_ = RoConstr(RoAffine(sg * con.raffine, sg * con.affine, con.rand_model), sense=0)
                p_.support = con.support
                parts.append(p_)
    for ci, con in enumerate(parts):
        support = con.support if con.support else m.obj_support
        if support is None or getattr(support, 'lmi', None):
            continue
        nd = con.dec_model.last
        rj = rows_json(con, nd)        # before the call: le_to_rc zero-pads con.affine.linear in place
        sj = C.prog_json(support)
        with C.quiet():
            out = con.le_to_rc(None if con.support else m.obj_support)
        nc = con.dec_model.last
        code = fragment_from_code(out, nc)
        # a third block of rows is either the support's extra rows (fewer random components in the row block than rows in
        # the support's dual: nz < nr) or the vanishing coefficients of late random variables (nz > nr) - never both
        third = code.pop('third'); nblocks = code.pop('nblocks')
        if nblocks > 3:
            ctx.hit('le_to_rc-returns-unexpected-blocks', {"blocks": nblocks}, {"desc": d, "constraint": ci}); continue
        code['n3'] = third if rj['nz'] < sj['nr'] else 0
        code['n4'] = third if rj['nz'] > sj['nr'] else 0
        if rj['nz'] > sj['nr']:
            ctx.count('rc:late-rvar:block-present' if third else 'rc:late-rvar:block-absent')
        reqs.append({"op": "le_to_rc", "support": {k: sj[k] for k in SUPKEYS + ('sp',)}, "rows": rj})
        meta.append({"desc": d, "constraint": ci, "code": code, "support": sj})
        # non-trivial: a bounded multiplier column and a non-zero random coefficient
        if any(v == '0' for v in sj['ub'] + sj['lb']) and (any(x != '0' for blk in rj['Rl'] for r_ in blk for x in r_) or any(x != '0' for r_ in rj['Rc'] for x in r_)):
            ctx.nontriv({"s": sj, "r": rj})
        ctx.count('rc:rows=%d' % rj['m'] if rj['m'] < 3 else 'rc:rows>=3')
        ctx.count('rc:extra-rows(n3>0)' if code['n3'] else 'rc:no-extra-rows')
        if sj['qmat']:
            ctx.count('rc:soc-support')
        if any(s == 1 for s in sj['eq'][:rj['nz']]) and any(s == 0 for s in sj['eq'][:rj['nz']]):
            ctx.count('rc:mixed-senses')


FRAGKEYS = ('nr', 'nc', 'a', 'b', 'eq', 'ub', 'lb', 'qmat', 'xmat', 'n1', 'n2', 'n3', 'n4')


def run(ctx):
    n_models = ctx.n(120, 2000)
    n_search = ctx.n(40, 600)
    descs = []
    for k in range(n_models):
        r, seed = O_sub(ctx)
        d = O.gen_model(r)
        d['seed'] = seed
        descs.append(d)
    # ---- (a)+(b) correspondence ----------------------------------------------------------
    reqs, meta = [], []
    for d in descs:
        try:
            correspondence(ctx, d, reqs, meta)
        except Exception as e:
            ctx.count('build-error:' + type(e).__name__)
    outs = C.lean_run(reqs)
    for rq, mt, out in zip(reqs, meta, outs):
        case = {"desc": mt['desc'], "constraint": mt['constraint']}
        ctx.corr('RoConstr.le_to_rc', case, mt['code'], out, FRAGKEYS)
        ctx.sample({"desc": mt['desc'], "constraint": mt['constraint'], "fragment_shape": [mt['code']['nr'], mt['code']['nc']]}, limit=2)
    # ---- (c) the late-random-variable branches of le_to_rc (block 4), dedicated generator -------------------------
    C.run_difftest(ctx, 'test_late_rvar.py', ctx.n(40, 400), 'RoConstr.le_to_rc (random variables declared after the set)')
    # ---- (d) the whole ro.Model.do_math() assembly (st order, equality split, default set, objective blocks, multiplier
    #          numbering, bound folding, cones) vs the Lean roModel, entry by entry ------------------------------------
    C.run_difftest(ctx, 'test_stray_rvar.py', ctx.n(30, 300), 'RoConstr.le_to_rc with the stray block (random variables declared after a set with auxiliary columns was formulated)')
    C.run_difftest(ctx, 'test_ro_model.py', ctx.n(60, 1200), 'ro.Model.do_math (whole compiled program of an ro model)')
    C.run_difftest(ctx, 'test_lmi.py', ctx.n(40, 800), 'LMI supports: do_math(primal=False) with LMI blocks and the LMI rows of le_to_rc')
    # ---- search --------------------------------------------------------------------------
    bad = {id(dg['case'].get('desc')) for dg in ctx.disagreements}
    order = sorted(range(len(descs)), key=lambda i: 0 if id(descs[i]) in bad else 1)
    for i in order[:n_search]:
        search_one(ctx, descs[i])
    stray_probes(ctx, ctx.n(6, 40))


def O_sub(ctx):
    from harness import gen
    return gen.sub_rng(ctx.rng)


def search_one(ctx, d):
    ctx.search_cases += 1
    try:
        with C.quiet():
            m, h = O.build(d)
        O.solve(m)
    except C.SkipCase:
        ctx.count('search:skipped-unsafe-for-ecos'); return
    except RuntimeError as e:
        ctx.count('search:not-optimal'); return
    except Exception as e:
        ctx.count('search:error:' + type(e).__name__); return
    viol, info = O.check_safety(d, m, h)
    ctx.count('search:solved')
    for v in viol:
        ctx.hit('unsafe:' + v['what'], v, {"desc": d})


def stray_case(r):
    return {"kind": "stray", "default": r.choice(['l1', 'linf', 'l1']), "nz": r.choice([2, 3]), "a": r.choice([1, 2]),
            "cy": r.choice([1, 2, -1, -2]), "c0": r.choice([0, 1, -1]), "yb": r.choice([3, 5]), "own_first": r.random() < 0.25}


def stray_probe(ctx, case):
    """a random variable declared after a set with auxiliary columns was formulated (and after another set with fewer of them):
    it is unrestricted under the default set, so a row that multiplies it by a decision must force that coefficient to 0"""
    import rsome as rso
    from rsome import ro
    ctx.search_cases += 1
    nz = case['nz']
    with C.quiet():
        m = ro.Model(); x = m.dvar(); y = m.dvar(); z = m.rvar(nz)
        dset = (rso.norm(z, 1) <= 1) if case['default'] == 'l1' else (rso.norm(z, 'inf') <= 1)
        if case['own_first']:       # sets are formulated when forall()/minmax() is called: the one formulated LAST decides the column of w
            m.st((x >= z[0] - 10).forall(z >= -1, z <= 1)); m.minmax(x, dset)
        else:
            m.minmax(x, dset); m.st((x >= z[0] - 10).forall(z >= -1, z <= 1))
        w = m.rvar()
        m.st(x >= case['a'] * z.sum() + case['cy'] * y * w + y + case['c0'], y >= -case['yb'], y <= case['yb'])
    try:
        O.solve(m)
    except Exception as e:
        ctx.count('stray:not-solved:' + type(e).__name__); return
    xs, ys = float(np.asarray(x.get()).reshape(-1)[0]), float(np.asarray(y.get()).reshape(-1)[0])
    coef = case['cy'] * ys
    ctx.count('stray:solved')
    if abs(coef) > 1e-5:
        wv = 1e3 * np.sign(coef)
        ctx.hit('unsafe:row violated at a realisation of the set (late random variable unrestricted)',
                {'x': xs, 'y': ys, 'z': [0.0] * nz, 'w': wv, 'row': 'x >= a*sum(z) + cy*y*w + y + c0', 'lhs_minus_rhs': xs - (coef * wv + ys + case['c0'])},
                dict(case))
    worst = case['a'] * (1 if case['default'] == 'l1' else nz)
    if xs < worst + ys + case['c0'] - 1e-5 * max(1, abs(xs)):
        ctx.hit('unsafe:row violated at a vertex of the default set', {'x': xs, 'y': ys, 'need': worst + ys + case['c0']}, dict(case))


def stray_probes(ctx, n):
    for k in range(n):
        r, seed = O_sub(ctx)
        stray_probe(ctx, stray_case(r))


def search_only(ctx):
    stray_probes(ctx, 8)
    for k in range(ctx.n(60, 600)):
        r, seed = O_sub(ctx)
        d = O.gen_model(r); d['seed'] = seed
        search_one(ctx, d)
        if ctx.hits and not ctx.quick:
            break       # escalated search: one failing input is enough


def replay(rp):
    if rp['case'].get('kind') == 'stray':
        ctx = C.Ctx('C01', 'quick', 0)
        stray_probe(ctx, rp['case'])
        return {"violations": [h['detail'] for h in ctx.hits], "fails": bool(ctx.hits)}
    d = rp['case']['desc']
    with C.quiet():
        m, h = O.build(d)
    O.solve(m)
    viol, info = O.check_safety(d, m, h)
    return {"violations": viol, "info": info, "fails": bool(viol)}
