"""C18 — soc_solve approximates exponential cones accurately and changes nothing else.

Theorems (Lean, RsomeV/Props/C18.lean): socp_carry (all original rows, bounds, types, cost and cones are an unchanged
prefix), socp_block_sound (what one block of rows and rotated cones enforces: alpha1*P4(x1/(alpha1 2^L))^(2^L) <= t with P4 the
degree-4 Taylor polynomial), taylor4_pow_close_two_pow (|P4(u)^(2^L) / exp(2^L u) - 1| <= 1e-3 for L >= 4, |2^L u| <= 4) and
socp_exp_lower (the enforced bound is within 1e-3 of the exponential for exponents in the cut-off range).
Tie: to_socp() vs the Lean model, exact, for 0-3 cones and degrees 1-8.
Search: ECOS on the exact cone vs soc_solve on a grid of exponents and degrees; other constraints unchanged; the source
program is not modified by to_socp/soc_solve."""
import numpy as np
from harness import common as C

THEOREMS = {
    'RsomeV.Props.C18Upper': ['RsomeV.C18Upper.socp_block_complete', 'RsomeV.C18Upper.socp_block_iff', 'RsomeV.C18Upper.socp_exp_upper', 'RsomeV.C18Upper.socp_sandwich',
                               'RsomeV.C18Upper.socp_lower_cut_tight', 'RsomeV.C18Upper.old_lower_cut_gap', 'RsomeV.C18Upper.socp_block_exp_lower_orig', 'RsomeV.C18Upper.toSocp_sound', 'RsomeV.C18Upper.toSocp_complete', 'RsomeV.C18Upper.toSocp_sound_orig'],
    'RsomeV.Props.C18': ['RsomeV.C18.socp_carry', 'RsomeV.C18.socp_carry_feas', 'RsomeV.C18.socp_feas_block', 'RsomeV.C18.socp_block_sound',
                         'RsomeV.C18.socp_block_sound_div', 'RsomeV.C18.taylor4_close', 'RsomeV.C18.taylor4_pow_close_two_pow',
                         'RsomeV.C18.socp_block_exp_lower', 'RsomeV.C18.socp_exp_lower'],
}
RULE = ("pinned-exponent models min sum t s.t. exp(x) <= t, x = c for c on a grid in [-4, 4], degrees 4-8, on ro.Model with ECOS and Gurobi as "
        "SOC interfaces; mixed models with a genuine SOC constraint and bounds; repeated soc_solve / solve sequences; distinct by parameters")
TRUSTED = ["ECOS on the exact exponential cone as the reference optimum"]
ASSUMPTIONS = ["accuracy is claimed for exponents in [-4, 4] only (the property's range); the upper direction of the sandwich is checked numerically, not proved"]


def model(cvals, mixed=False):
    import rsome as rso
    from rsome import ro
    n = len(cvals)
    m = ro.Model(); x = m.dvar(n); t = m.dvar(n)
    if mixed:
        m.min(t.sum() - 5 * x.sum()); m.st(rso.exp(x) <= t, rso.norm(x, 2) <= 1, x >= -4, x <= 4)
    else:
        m.min(t.sum()); m.st(rso.exp(x) <= t, x == np.array(cvals))
    return m, x, t


class _Capture:
    """a solver interface that records the program it is handed and solves nothing"""
    def __init__(self):
        self.formula = None

    def solve(self, formula, display=True, log=False, params={}):
        self.formula = formula
        return None


def plumbing(ctx, seed):
    """soc_solve(solver, degree, cuts) of every front end hands the solver exactly do_math().to_socp(degree, cuts)"""
    import rsome as rso
    from rsome import ro, dro, gcp, E
    r = np.random.default_rng(seed)
    front = str(r.choice(['ro', 'dro', 'gcp']))
    degree = int(r.choice([2, 3, 4, 5, 6, 8])); cuts = (int(r.choice([-30, -20, -8])), int(r.choice([60, 30, 10])))
    use_default = bool(r.random() < 0.4)
    case = {"plumbing_seed": seed, "front": front, "degree": degree, "cuts": list(cuts), "default_arguments": use_default}
    ctx.search_cases += 1; ctx.evaluations += 1
    try:
        with C.quiet():
            if front == 'gcp':
                m = gcp.Model(); x = m.dvar(2); t = m.dvar()
                m.min(t)
                for cc in (rso.exp(x[0]) + 0.5 * x[1] <= t, rso.log(x[1] + 3) >= 0.5, x <= 2, x >= -2):
                    m.st(cc)                                          # the stand-alone layers take one constraint per st()
            elif front == 'ro':
                m = ro.Model(); x = m.dvar(2); t = m.dvar(); z = m.rvar()
                m.minmax(t + z, z >= -1, z <= 1); m.st(rso.exp(x[0]) + 0.5 * x[1] <= t, (x[1] >= z * x[0]).forall(z >= -1, z <= 1), x <= 2, x >= -2)
            else:
                m = dro.Model(2); x = m.dvar(2); t = m.dvar(); z = m.rvar()
                fs = m.ambiguity(); fs.suppset(z >= -1, z <= 1)
                m.minsup(E(t + z), fs); m.st(rso.exp(x[0]) + 0.5 * x[1] <= t, x[1] >= z * x[0], x <= 2, x >= -2)
            cap = _Capture()
            if use_default:
                m.soc_solve(cap, display=False); degree, cuts = 4, (-30, 60)
            else:
                m.soc_solve(cap, degree=degree, cuts=cuts, display=False)
            want = m.do_math().to_socp(degree, cuts)
        got = cap.formula
        if got is None:
            ctx.hit('soc_solve-did-not-call-the-solver', {}, case); return
        gj, wj = C.prog_json(got), C.prog_json(want)
        keys = [k for k in C.PROG_KEYS + ('qmat', 'xmat', 'vtype') if gj.get(k) != wj.get(k)]
        if keys:
            ctx.hit('soc_solve-hands-over-another-program', {"differs_in": keys, "shape_handed": [gj['nr'], gj['nc']], "shape_expected": [wj['nr'], wj['nc']]}, case)
        else:
            ctx.count('plumbing:' + front + ':identical')
    except Exception as ex:
        ctx.hit('soc_solve-plumbing-raises:' + type(ex).__name__, {"error": str(ex)[:200]}, case)


def run(ctx):
    for k in range(ctx.n(18, 200)):
        plumbing(ctx, int(ctx.rng.integers(2 ** 31)))
    from rsome import eco_solver, grb_solver
    C.run_difftest(ctx, 'test_to_socp.py', ctx.n(60, 1200), 'GCProg.to_socp')
    r = ctx.rng
    grid = [-4.0, -2.5, -1.0, 0.0, 0.5, 1.5, 3.0, 4.0]
    for degree in ([4, 5, 6] if ctx.quick else [4, 5, 6, 7, 8]):
        for solver, sname in ((eco_solver, 'ecos'), (grb_solver, 'gurobi')):
            cvals = [float(v) for v in r.choice(grid, 3, replace=False)]
            ctx.search_cases += 1; ctx.evaluations += 1
            case = {"cvals": cvals, "degree": degree, "solver": sname}
            ctx.nontriv(case)
            try:
                m, x, t = model(cvals)
                with C.quiet():
                    m.soc_solve(solver, degree=degree, display=False)
                approx = m.get()
            except Exception as ex:
                ctx.hit('soc_solve-raises:' + type(ex).__name__, {"error": str(ex)[:200]}, case); continue
            exact = float(np.exp(cvals).sum())
            rel = abs(approx - exact) / exact
            if rel > 1e-3:
                ctx.hit('soc-approximation-inaccurate', {"approx": float(approx), "exact": exact, "relative_error": float(rel)}, case)
            else:
                ctx.count('accurate:deg%d' % degree)
                ctx.sample(dict(case, relative_error=float(rel)), limit=4)
    # user-given cuts: every exponent INSIDE the cut-off range (also within one unit of the lower cut) is approximated to 1e-3
    for cuts in ((-4.0, 4.0), (-4.5, 4.5), (-6.0, 5.0)):
        for solver, sname in ((eco_solver, 'ecos'), (grb_solver, 'gurobi')):
            lo = cuts[0]
            pool = [max(lo, -4.0), max(lo, -4.0) + 0.1, max(lo, -4.0) + 0.4, -3.0, 0.5, 2.5, 4.0]
            cvals = [float(v) for v in r.choice(pool[:3], 2, replace=False)] + [float(r.choice(pool[3:]))]
            degree = int(r.choice([4, 5, 6]))
            ctx.search_cases += 1; ctx.evaluations += 1
            case = {"cvals": cvals, "degree": degree, "solver": sname, "cuts": list(cuts)}
            try:
                approx = []
                for c in cvals:         # one cone per model: the relative error of each exponent separately
                    m, x, t = model([c])
                    with C.quiet():
                        m.soc_solve(solver, degree=degree, cuts=cuts, display=False)
                    approx.append(float(m.get()))
            except Exception as ex:
                ctx.hit('soc_solve-raises:' + type(ex).__name__, {"error": str(ex)[:200]}, case); continue
            rel = [abs(a - np.exp(c)) / np.exp(c) for a, c in zip(approx, cvals)]
            if max(rel) > 1e-3:
                ctx.hit('soc-approximation-inaccurate-inside-user-cuts', {"approx": approx, "exact": [float(np.exp(c)) for c in cvals], "relative_error": [float(v) for v in rel]}, case)
            else:
                ctx.count('accurate:user-cuts')
    # mixed model: the model's own SOC constraint and bounds must survive
    for degree in (4, 6):
        for solver, sname in ((eco_solver, 'ecos'), (grb_solver, 'gurobi')):
            ctx.search_cases += 1; ctx.evaluations += 1
            case = {"mixed": True, "degree": degree, "solver": sname}
            try:
                m, x, t = model([0, 0, 0], mixed=True)
                with C.quiet():
                    m.soc_solve(solver, degree=degree, display=False)
                approx = m.get(); xs = x.get()
                m2, x2, t2 = model([0, 0, 0], mixed=True)
                with C.quiet():
                    m2.solve(eco_solver, display=False)
                exact = m2.get()
            except Exception as ex:
                ctx.hit('soc_solve-raises:' + type(ex).__name__, {"error": str(ex)[:200]}, case); continue
            if np.linalg.norm(xs) > 1 + 1e-5 or np.any(np.abs(xs) > 4 + 1e-6):
                ctx.hit('soc_solve-drops-other-constraints', {"norm_x": float(np.linalg.norm(xs)), "x": xs.tolist()}, case)
            elif abs(approx - exact) > 1e-3 * (1 + abs(exact)):
                ctx.hit('soc-approximation-inaccurate', {"approx": float(approx), "exact": float(exact)}, case)
            else:
                ctx.count('mixed-ok')
    # the source program is not changed: to_socp twice gives the same program; solve after soc_solve works
    ctx.search_cases += 1; ctx.evaluations += 1
    case = {"sequence": "do_math; to_socp; to_socp; soc_solve; solve"}
    try:
        m, x, t = model([0.5, -1.0, 2.0], mixed=True)
        with C.quiet():
            f = m.do_math()
            q0 = [list(q) for q in f.qmat]; nx0 = len(f.xmat)
            s1 = f.to_socp(4); s2 = f.to_socp(4)
        if [list(q) for q in f.qmat] != q0 or len(f.xmat) != nx0:
            ctx.hit('to_socp-mutates-source-program', {"qmat_before": len(q0), "qmat_after": len(f.qmat)}, case)
        elif len(s1.qmat) != len(s2.qmat) or s1.linear.shape != s2.linear.shape:
            ctx.hit('to_socp-not-repeatable', {"first": [int(v) for v in s1.linear.shape], "second": [int(v) for v in s2.linear.shape]}, case)
        else:
            with C.quiet():
                m.soc_solve(eco_solver, display=False); a = m.get()
                m.solve(eco_solver, display=False); b = m.get()
                m.soc_solve(eco_solver, display=False); c_ = m.get()
            if abs(a - c_) > 1e-6 * (1 + abs(a)) or abs(a - b) > 2e-3 * (1 + abs(b)):
                ctx.hit('soc_solve-sequence-differs', {"soc_solve": float(a), "solve": float(b), "soc_solve_again": float(c_)}, case)
            else:
                ctx.count('sequence-ok')
    except Exception as ex:
        ctx.hit('soc_solve-sequence-raises:' + type(ex).__name__, {"error": str(ex)[:200]}, case)


def replay(rp):
    if 'plumbing_seed' in rp.get('case', {}):
        ctx = C.Ctx('C18', 'quick', 0)
        plumbing(ctx, rp['case']['plumbing_seed'])
        return {"hits": [(h['key'], h['detail']) for h in ctx.hits], "fails": bool(ctx.hits)}
    return {"fails": True, "case": rp['case'], "note": "deterministic: re-run bin/check C18"}
