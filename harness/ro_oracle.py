"""Random ro models as JSON-able descriptions, their construction through the public API, and an
independent worst-case oracle (own ECOS formulation of max_z g.z over the *user-level* set; it never
touches rsome's support/dual code).  Used by C01 (safety), C02 (exactness) and C09/C15."""
import numpy as np, ecos, scipy.sparse as sp
import rsome as rso
from rsome import ro
from harness import common as C


def rint(r, lo, hi, size=None):
    return r.integers(lo, hi + 1, size=size).astype(float)


# ----------------------------------------------------------------------------- sets
def gen_set(r, nz, wide=0.0):
    lo = rint(r, -3, 0, nz) - wide
    hi = lo + rint(r, 1, 4, nz) + 2 * wide
    for j in range(nz):
        u = r.random()
        if u < 0.15:
            lo[j] = 0.0; hi[j] = float(rint(r, 1, 3))
        elif u < 0.3:
            hi[j] = 0.0; lo[j] = -float(rint(r, 1, 3))
        elif u < 0.36:
            hi[j] = lo[j] = float(r.choice([-1.0, 0.0, 2.0]))      # a fixed component
    mid = (lo + hi) / 2
    S = {'lo': lo.tolist(), 'hi': hi.tolist(), 'ineq': [], 'eq': [], 'norm': None, 'quad': None}
    if r.random() < 0.5:
        a = rint(r, -2, 2, nz)
        if np.any(a):
            S['ineq'].append([a.tolist(), float(a @ mid + 1)])
    if r.random() < 0.3 and nz > 1:
        a = rint(r, -2, 2, nz)
        if np.any(a):
            S['eq'].append([a.tolist(), float(a @ mid)])
    u = r.random()
    if u < 0.2:
        S['norm'] = [1, float(r.choice([1.0, 2.0, 0.5])), mid.tolist(), float(r.choice([3.0, 1.0, 2.0]))]
    elif u < 0.45:
        S['norm'] = [2, float(r.choice([1.0, 0.5, 2.0])), mid.tolist(), float(r.choice([1.5, 1.0, 2.0]))]
    elif u < 0.6:
        S['norm'] = ['inf', float(r.choice([1.0, 2.0])), mid.tolist(), float(r.choice([2.0, 1.0]))]
    elif u < 0.7:
        S['quad'] = [mid.tolist(), float(r.choice([1.0, 4.0, 2.25]))]       # sumsqr(z - mid) <= rho
    # a piece lifted through an exponential cone: exp(z_j - c) <= rho  (<=> z_j <= c + ln rho) or log(z_j - c + 2) >= t
    # (<=> z_j >= c - 2 + e^t); the oracle uses the equivalent bound
    S['xc'] = None
    if r.random() < 0.12:
        j = int(r.integers(0, nz))
        if r.random() < 0.5:
            S['xc'] = ['exp', j, float(mid[j]), float(r.choice([1.5, 2.0, 4.0]))]
        else:
            S['xc'] = ['log', j, float(mid[j]), float(r.choice([0.25, 0.5]))]
    if (S['norm'] and S['norm'][0] == 2) or S['quad'] or S['xc']:
        # sets with a genuine cone constraint must be strictly feasible (the properties assume Slater's condition):
        # no equality rows and no pinned components, so that `mid` is an interior point
        S['eq'] = []
        for j in range(nz):
            if S['lo'][j] == S['hi'][j]:
                S['lo'][j] -= 1.0; S['hi'][j] += 1.0
        if S['norm']:
            S['norm'][2] = ((np.array(S['lo']) + np.array(S['hi'])) / 2).tolist()
        if S['quad']:
            S['quad'][0] = ((np.array(S['lo']) + np.array(S['hi'])) / 2).tolist()
        S['ineq'] = [[a, float(np.array(a) @ ((np.array(S['lo']) + np.array(S['hi'])) / 2) + 1)] for a, b in S['ineq']]
        if S['xc']:
            S['xc'][2] = float((S['lo'][S['xc'][1]] + S['hi'][S['xc'][1]]) / 2)
    return S


def xc_bound(S):
    """(j, 'ub'/'lb', value) of the exponential-cone piece"""
    kind, j, c, par = S['xc']
    return (j, 'ub', c + float(np.log(par))) if kind == 'exp' else (j, 'lb', c - 2.0 + float(np.exp(par)))


def rs_set(z, S, r=None):
    """the set as rsome constraints, in one of several equivalent spellings"""
    lo, hi = np.array(S['lo']), np.array(S['hi'])
    cs = [z >= lo, z <= hi]
    for a, b in S['ineq']:
        cs.append(np.array(a) @ z <= b)
    for a, b in S['eq']:
        cs.append(np.array(a) @ z == b)
    if S['norm']:
        p, m, c, rho = S['norm']
        p = np.inf if p == 'inf' else p
        e = m * (z - np.array(c))
        cs.append(rso.norm(e, p) <= rho if (r is None or r.random() < 0.5) else e.norm(p) <= rho)
    if S.get('quad'):
        c, rho = S['quad']
        cs.append(rso.sumsqr(z - np.array(c)) <= rho)
    if S.get('xc'):
        kind, j, c, par = S['xc']
        cs.append(rso.exp(z[j] - c) <= par if kind == 'exp' else rso.log(z[j] - c + 2) >= par)
    return cs


def maxlin(g, S):
    """max g.z over the user-level set S by an own ECOS model; returns (value, argmax) or (None, None)"""
    g = np.asarray(g, dtype=float)
    nz = len(g)
    G = []; h = []
    for j in range(nz):
        e = np.zeros(nz); e[j] = 1
        G.append(e); h.append(S['hi'][j]); G.append(-e); h.append(-S['lo'][j])
    for a, b in S['ineq']:
        G.append(np.array(a, dtype=float)); h.append(b)
    if S.get('xc'):
        j, side, v = xc_bound(S)
        e = np.zeros(nz); e[j] = 1.0 if side == 'ub' else -1.0
        G.append(e); h.append(v if side == 'ub' else -v)
    Gq = []; hq = []; qd = []
    extra = 0
    if S['norm']:
        p, m, c, rho = S['norm']
        if p == 2:
            Gq.append(np.zeros(nz)); hq.append(rho)
            for j in range(nz):
                e = np.zeros(nz); e[j] = -m; Gq.append(e); hq.append(-m * c[j])
            qd.append(nz + 1)
        elif p == 'inf':
            for j in range(nz):
                e = np.zeros(nz); e[j] = m
                G.append(e); h.append(rho + m * c[j]); G.append(-e); h.append(rho - m * c[j])
        else:
            extra = nz
    if S.get('quad'):
        c, rho = S['quad']
        Gq.append(np.zeros(nz)); hq.append(float(np.sqrt(rho)))
        for j in range(nz):
            e = np.zeros(nz); e[j] = -1.0; Gq.append(e); hq.append(-c[j])
        qd.append(nz + 1)
    n = nz + extra
    rows = [np.concatenate([r_, np.zeros(extra)]) for r_ in G]; hh = list(h)
    if extra:
        p, m, c, rho = S['norm']
        for j in range(nz):
            e = np.zeros(n); e[j] = m; e[nz + j] = -1; rows.append(e); hh.append(m * c[j])
            e = np.zeros(n); e[j] = -m; e[nz + j] = -1; rows.append(e); hh.append(-m * c[j])
        e = np.zeros(n); e[nz:] = 1; rows.append(e); hh.append(rho)
    nl = len(rows)
    for r_, hv in zip(Gq, hq):
        rows.append(np.concatenate([r_, np.zeros(extra)])); hh.append(hv)
    Gm = sp.csc_matrix(np.array(rows)); hv = np.array(hh, dtype=float)
    A = b = None
    if S['eq']:
        A = sp.csc_matrix(np.array([np.concatenate([np.array(a, dtype=float), np.zeros(extra)]) for a, _ in S['eq']]))
        b = np.array([bb for _, bb in S['eq']], dtype=float)
    c = -np.concatenate([g, np.zeros(extra)])
    try:
        with C.quiet():
            sol = ecos.solve(c, Gm, hv, {'l': nl, 'q': qd, 'e': 0}, A, b, verbose=False)
    except Exception:
        return None, None
    if sol['info']['exitFlag'] not in (0, 10):
        return None, None
    return -sol['info']['pcost'], sol['x'][:nz]


# ----------------------------------------------------------------------------- models
def gen_model(r):
    """description of a random ro model (feasible at x = 0 by construction of the right-hand sides)"""
    nd = int(r.integers(1, 4)); nz = int(r.integers(1, 4))
    d = {'nd': nd, 'nz': nz, 'ldr': None, 'cons': [], 'extra_rvar_before': bool(r.random() < 0.15)}
    use_ldr = r.random() < 0.5
    if use_ldr:
        mask = (r.random(nz) < 0.6)
        d['ldr'] = {'mask': [bool(b) for b in mask]}
    else:
        mask = np.zeros(nz, bool)
    for _ in range(8):
        S0 = gen_set(r, nz)
        if maxlin(np.zeros(nz), S0)[0] is not None:
            break
    else:
        S0 = {'lo': [-1.0] * nz, 'hi': [1.0] * nz, 'ineq': [], 'eq': [], 'norm': None, 'quad': None}
    d['S0'] = S0
    vec = r.random() < 0.3          # a vector-valued constraint block
    for c in range(int(r.integers(1, 4))):
        rows = int(r.integers(2, 4)) if (vec and c == 0) else 1
        for _ in range(1):
            con = {'rows': rows,
                   'R': rint(r, -2, 2, (rows, nz, nd)).tolist(), 'r0': rint(r, -2, 2, (rows, nz)).tolist(),
                   'a': rint(r, -2, 2, (rows, nd)).tolist(), 'a0': rint(r, -8, -1, rows).tolist(),
                   'coef': (float(rint(r, -2, 2)) if (use_ldr and rows == 1) else 0.0)}
            sense = str(r.choice(['le', 'ge', 'eq'], p=[0.6, 0.25, 0.15]))
            if sense == 'eq':
                if not use_ldr or rows > 1:
                    sense = 'le'
                else:
                    con['R'] = (np.array(con['R']) * 0).tolist(); con['coef'] = 1.0
                    con['r0'] = (np.array(con['r0']) * mask).tolist()
            con['sense'] = sense
            own = None
            if r.random() < 0.35:
                own = gen_set(r, nz, wide=0.5)
                if maxlin(np.zeros(nz), own)[0] is None:
                    own = None
            con['own'] = own
            d['cons'].append(con)
    kind = str(r.choice(['affine', 'affine', 'pw']))
    obj = {'max': bool(r.random() < 0.35), 'kind': kind,
           'c0': rint(r, -2, 2, nd).tolist(), 'q': rint(r, -1, 1, nz).tolist(),
           'cy': (float(rint(r, 0, 1)) if use_ldr else 0.0)}
    if kind == 'pw':
        obj['c1'] = rint(r, -2, 2, nd).tolist(); obj['q1'] = rint(r, -1, 1, nz).tolist()
        obj['add'] = rint(r, -2, 2, nd).tolist(); obj['addz'] = rint(r, -1, 1, nz).tolist()
        obj['scale'] = float(r.choice([1.0, 2.0, 0.5]))
    d['obj'] = obj
    d['late'] = None
    if r.random() < 0.12:
        # a random variable declared after minmax()/maxmin() fixed the default set: unrestricted in that set, so the
        # row  (R x + r0).z + a.x + a0 + (g.x)*u <= 0  means the robust row without u together with g.x == 0
        d['late'] = {'g': rint(r, -1, 1, nd).tolist(), 'R': rint(r, -2, 2, (nz, nd)).tolist(), 'r0': rint(r, -2, 2, nz).tolist(),
                     'a': rint(r, -2, 2, nd).tolist(), 'a0': float(rint(r, -8, -1))}
    return d


def late_con(d):
    """the robust part of the late row, in the format of d['cons'] entries"""
    L = d.get('late')
    if not L:
        return []
    return [{'rows': 1, 'R': [L['R']], 'r0': [L['r0']], 'a': [L['a']], 'a0': [L['a0']], 'coef': 0.0, 'sense': 'le', 'own': None}]


def build(d, spell=None):
    """description -> (model, handles)"""
    nd, nz = d['nd'], d['nz']
    m = ro.Model()
    x = m.dvar(nd)
    if d.get('extra_rvar_before'):
        m.rvar(2)
    z = m.rvar(nz)
    y = None
    if d['ldr']:
        y = m.ldr()
        for j, b in enumerate(d['ldr']['mask']):
            if b:
                y.adapt(z[j])
    for con in d['cons']:
        R = np.array(con['R']); r0 = np.array(con['r0']); a = np.array(con['a']); a0 = np.array(con['a0'])
        rows = con['rows']
        if rows == 1:
            expr = (R[0] @ x + r0[0]) @ z + a[0] @ x + a0[0] + (con['coef'] * y if y is not None else 0)
        else:
            # rows x nz coefficient matrix, bi-affine in x
            Mx = r0
            for dd in range(nd):
                Mx = x[dd] * R[:, :, dd] + Mx
            expr = Mx @ z + a @ x + a0
        if con['sense'] == 'le':
            c = (expr <= 0)
        elif con['sense'] == 'ge':
            c = (-expr >= 0)
        else:
            c = (expr == 0)
        if con['own'] is not None:
            c = c.forall(rs_set(z, con['own']))
        m.st(c)
    m.st(x >= -5, x <= 5)
    o = d['obj']
    e0 = np.array(o['c0']) @ x + np.array(o['q']) @ z + (o['cy'] * y if y is not None else 0)
    if o['kind'] == 'pw':
        e1 = np.array(o['c1']) @ x + np.array(o['q1']) @ z
        add = np.array(o['add']) @ x + np.array(o['addz']) @ z
        if o['max']:
            objexpr = o['scale'] * rso.minof(e0, e1) + add
        else:
            objexpr = o['scale'] * rso.maxof(e0, e1) + add
    else:
        objexpr = e0
    if o['max']:
        m.maxmin(objexpr, rs_set(z, d['S0']))
    else:
        m.minmax(objexpr, rs_set(z, d['S0']))
    L = d.get('late')
    if L:
        u = m.rvar()
        m.st((np.array(L['R']) @ x + np.array(L['r0'])) @ z + np.array(L['a']) @ x + L['a0'] + (np.array(L['g']) @ x) * u <= 0)
    return m, {'x': x, 'z': z, 'y': y}


def solve(m, solver='auto'):
    return C.solve_model(m, solver)


def check_safety(d, m, h, tol=1e-5):
    """evaluate every robust row and the objective bound at the returned solution against the
    independent worst case.  Returns list of violations (dicts)."""
    nd, nz = d['nd'], d['nz']
    xs = np.asarray(h['x'].get(), dtype=float).reshape(nd)
    obj = m.get()
    out = []
    if h['y'] is not None:
        mask = np.array(d['ldr']['mask'])
        y0 = float(np.asarray(h['y'].get()).reshape(-1)[0])
        if mask.any():
            yz = np.nan_to_num(np.array(h['y'].get(h['z']), dtype=float), nan=0.0).reshape(nz)
        else:
            yz = np.zeros(nz)
        if np.any(np.abs(yz[~mask]) > 1e-9):
            out.append({'what': 'ldr depends on undeclared component', 'yz': yz.tolist()})
    else:
        y0 = 0.0; yz = np.zeros(nz)
    if d.get('late'):
        gx = float(np.array(d['late']['g']) @ xs)
        if abs(gx) > 1e-6:
            out.append({'what': 'coefficient of an unrestricted (late) random variable is not zero', 'coefficient': gx, 'x': xs.tolist()})
    for ci, con in enumerate(d['cons'] + late_con(d)):
        S = con['own'] if con['own'] is not None else d['S0']
        for k in range(con['rows']):
            R = np.array(con['R'][k]); r0 = np.array(con['r0'][k]); a = np.array(con['a'][k]); a0 = con['a0'][k]
            g = R @ xs + r0 + con['coef'] * yz
            const = a @ xs + a0 + con['coef'] * y0
            for sgn in ([1] if con['sense'] in ('le', 'ge') else [1, -1]):
                w, zw = maxlin(sgn * g, S)
                if w is None:
                    continue
                val = w + sgn * const
                # relative to the magnitude of the row's terms (a solver's feasibility tolerance is relative to its data), not to their
                # sum - which is ~0 at an active or equality row
                scale = 1 + np.abs(a) @ np.abs(xs) + abs(a0) + abs(con['coef'] * y0) + (np.abs(R) @ np.abs(xs) + np.abs(r0) + np.abs(con['coef'] * yz)).sum() * 5
                if val > tol * scale:
                    out.append({'what': 'robust row violated', 'constraint': ci, 'row': k, 'sense': con['sense'],
                                'own_set': con['own'] is not None, 'violation': float(val),
                                'z': None if zw is None else zw.tolist(), 'x': xs.tolist()})
    o = d['obj']
    pieces = [(np.array(o['q']) + o['cy'] * yz, np.array(o['c0']) @ xs + o['cy'] * y0)]
    if o['kind'] == 'pw':
        pieces.append((np.array(o['q1']), np.array(o['c1']) @ xs))
        addg = np.array(o['addz']); addc = np.array(o['add']) @ xs
        pieces = [(o['scale'] * g + addg, o['scale'] * c + addc) for g, c in pieces]
    if o['max']:
        # reported optimum must be a lower bound of min over pieces at every z: for the concave min of pieces,
        # min_z min_k = min_k min_z
        vals = []
        for g, c in pieces:
            w, _ = maxlin(-g, d['S0'])
            if w is not None:
                vals.append(-w + c)
        if vals and obj > min(vals) + tol * (1 + abs(min(vals))):
            out.append({'what': 'maxmin objective is not a lower bound', 'reported': float(obj), 'worst_case': float(min(vals)), 'x': xs.tolist()})
        true = min(vals) if vals else None
    else:
        vals = []
        for g, c in pieces:
            w, _ = maxlin(g, d['S0'])
            if w is not None:
                vals.append(w + c)
        if vals and obj < max(vals) - tol * (1 + abs(max(vals))):
            out.append({'what': 'minmax objective is not an upper bound', 'reported': float(obj), 'worst_case': float(max(vals)), 'x': xs.tolist()})
        true = max(vals) if vals else None
    return out, {'obj': float(obj), 'worst_case_at_solution': true}
