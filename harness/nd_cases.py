"""(A) NumPy-spec correspondence cases for the Lean NdArray model: each case is a driver request and the reply real
NumPy dictates (`np.arange(size).reshape(shape)` pushed through the NumPy operation is the index map).  Generated from one
seed; used by harness/props/c05.py."""
import json, random
import numpy as np


def gen_cases(seed, N):
    r = random.Random(seed)
    cases = []  # (request, expected)

    def rshape(maxrank=4, maxd=4, mind=0, minrank=0):
        return [r.choice([1, 1, 2, 3, maxd] if mind else [0, 1, 1, 2, 3, maxd]) for _ in range(r.randint(minrank, maxrank))]

    def ar(shape):
        return np.arange(int(np.prod(shape, dtype=int))).reshape(shape)

    for _ in range(N):
        # ravel / unravel
        s = rshape(mind=1)
        n = int(np.prod(s, dtype=int))
        k = r.randrange(n)
        idx = [int(v) for v in np.unravel_index(k, s)] if s else []
        cases.append(({"op": "nd_unravel", "shape": s, "flat": k}, {"idx": idx}))
        cases.append(({"op": "nd_ravel", "shape": s, "idx": idx}, {"flat": int(np.ravel_multi_index(tuple(idx), s)) if s else 0}))
        # bcast
        a = rshape(); b = rshape()
        if r.random() < 0.6:
            # make compatible
            t = rshape()
            a = [d if r.random() < 0.6 else 1 for d in t][r.randint(0, len(t)):]
            b = [d if r.random() < 0.6 else 1 for d in t][r.randint(0, len(t)):]
        try:
            t = list(np.broadcast_shapes(tuple(a), tuple(b)))
            exp = {"shape": t, "ia": np.broadcast_to(ar(a), t).ravel().tolist(), "ib": np.broadcast_to(ar(b), t).ravel().tolist()}
        except ValueError:
            exp = {"shape": None}
        cases.append(({"op": "nd_bcast", "a": a, "b": b}, exp))
        # transpose
        s = rshape()
        cases.append(({"op": "nd_transpose", "shape": s}, {"shape": list(ar(s).T.shape), "src": ar(s).T.ravel().tolist()}))
        s = rshape(minrank=2)
        sw = np.swapaxes(ar(s), -1, -2)
        cases.append(({"op": "nd_swaplast", "shape": s}, {"shape": list(sw.shape), "src": sw.ravel().tolist()}))
        # matmul
        a = rshape(); b = rshape()
        if r.random() < 0.8:
            n = r.choice([0, 1, 2, 3]); m = r.choice([0, 1, 2, 3]); p = r.choice([0, 1, 2, 3])
            t = rshape(maxrank=3)
            ba = [d if r.random() < 0.6 else 1 for d in t][r.randint(0, len(t)):]
            bb = [d if r.random() < 0.6 else 1 for d in t][r.randint(0, len(t)):]
            a = ba + [m, n]; b = bb + [n, p]
            u = r.random()
            if u < 0.2: a = [n]
            elif u < 0.4: b = [n]
            elif u < 0.5: a = [n]; b = [n]
        try:
            A = np.empty(a, dtype=object); B = np.empty(b, dtype=object)
            for i in range(A.size): A.ravel()[i] = None
            # integer polynomial trick: encode a-index and b-index pairs via object arrays of python sets
            class T:
                def __init__(s, terms): s.terms = terms
                def __mul__(s, o): return T([(x[0], y[0]) for x in s.terms for y in o.terms])
                def __add__(s, o): return T(s.terms + o.terms)
                def __radd__(s, o): return s if o == 0 else NotImplemented
            A = np.array([T([(i,)]) for i in range(int(np.prod(a, dtype=int)))] + [None], dtype=object)[:-1].reshape(a)
            B = np.array([T([(i,)]) for i in range(int(np.prod(b, dtype=int)))] + [None], dtype=object)[:-1].reshape(b)
            if len(a) == 0 or len(b) == 0: raise ValueError
            # shape via numeric matmul (object matmul with empty inner dim is problematic)
            shp = list((np.zeros(a) @ np.zeros(b)).shape)
            inner = a[-1]
            if inner == 0 or int(np.prod(shp, dtype=int)) == 0:
                pairs = [[] for _ in range(int(np.prod(shp, dtype=int)))]
            else:
                C = A @ B
                flat = [C] if not isinstance(C, np.ndarray) else list(C.ravel())
                pairs = [[list(t) for t in c.terms] for c in flat]
            exp = {"shape": shp, "pairs": pairs}
        except ValueError:
            exp = {"shape": None}
        cases.append(({"op": "nd_matmul", "a": a, "b": b}, exp))
        # slice
        n = r.randint(0, 7)
        def ri(): return r.choice([None, None] + list(range(-10, 11)))
        st, sp, se = ri(), ri(), r.choice([None, 1, 2, 3, -1, -2, -3, 5, -7])
        cases.append(({"op": "nd_slice", "n": n, "start": st, "stop": sp, "step": se}, {"idx": list(range(*slice(st, sp, se).indices(n)))}))
        # also against numpy indexing
        assert np.arange(n)[st:sp:se].tolist() == list(range(*slice(st, sp, se).indices(n)))
        # sum axis
        s = rshape(minrank=1)
        ax = r.randint(-len(s) - 1, len(s))
        try:
            a_ = ar(s)
            outshape = list(a_.sum(axis=ax).shape)
            # groups: move axis to the end
            mv = np.moveaxis(a_, ax, -1).reshape(int(np.prod(outshape, dtype=int)), s[ax])
            exp = {"shape": outshape, "groups": mv.tolist()}
            # sanity: numeric check
            assert (np.array([sum(g) for g in mv.tolist()], dtype=int).reshape(outshape) == a_.sum(axis=ax)).all()
        except (np.exceptions.AxisError, ValueError):
            exp = {"shape": None}
        cases.append(({"op": "nd_sum_axis", "shape": s, "axis": ax}, exp))
        # concat
        sa = rshape(minrank=1); sb = list(sa)
        ax = r.randint(-len(sa), len(sa) - 1)
        sb[ax] = r.choice([0, 1, 2, 3])
        if r.random() < 0.25:
            j = r.randrange(len(sb)); sb[j] = sb[j] + 1
        if r.random() < 0.1: sb = sb + [1]
        if r.random() < 0.1: ax = r.choice([-len(sa) - 1, len(sa)])
        try:
            na = int(np.prod(sa, dtype=int))
            cat = np.concatenate((ar(sa), ar(sb) + na), axis=ax)
            exp = {"shape": list(cat.shape), "src": [[0, v] if v < na else [1, v - na] for v in cat.ravel().tolist()]}
        except (np.exceptions.AxisError, ValueError):
            exp = {"shape": None}
        cases.append(({"op": "nd_concat", "a": sa, "b": sb, "axis": ax}, exp))
        # diag
        rows, cols, k = r.randint(0, 5), r.randint(0, 5), r.randint(-6, 6)
        cases.append(({"op": "nd_diag", "rows": rows, "cols": cols, "k": k}, {"idx": np.diag(ar([rows, cols]), k).tolist()}))

    return cases
