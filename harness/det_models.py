"""Random deterministic models (no random variables) as JSON-able descriptions, built through the ro or dro
front end, with a NumPy evaluator of every user constraint and of the objective.  Used by C06, C07, C11, C15, C16."""
import numpy as np
from fractions import Fraction
import rsome as rso
from rsome import ro, dro
from harness import common as C
from harness import atoms as AT

VALS = [-2., -1., -0.5, 0., 0., 0.5, 1., 2.]


def gen(r, atoms=None, integer=False, max_atoms=2, front=None):
    """description of a bounded, feasible-at-x0 deterministic model"""
    n = int(r.integers(1, 4))
    x0 = r.choice([-1., 0., 0.5, 1., 2.], n)
    d = {'front': front or str(r.choice(['ro', 'ro', 'dro'])), 'n': n, 'x0': x0.tolist(), 'vtype': 'C',
         'lin': [], 'bounds': [], 'atoms': [], 'seed': int(r.integers(2 ** 31))}
    if integer:
        d['vtype'] = ''.join(r.choice(['I', 'B', 'C', 'I'], n))
        x0 = np.array([round(v) if t != 'C' else v for v, t in zip(x0, d['vtype'])], dtype=float)
        x0 = np.array([min(max(v, 0.0), 1.0) if t == 'B' else v for v, t in zip(x0, d['vtype'])])
        d['x0'] = x0.tolist()
    # bounds: possibly several on the same entry, in either order, as Bounds objects or as rows
    for j in range(n):
        lo, hi = x0[j] - float(r.choice([1., 2., 3.])), x0[j] + float(r.choice([1., 2., 3.]))
        d['bounds'].append(['L', j, lo]); d['bounds'].append(['U', j, hi])
        if r.random() < 0.4:
            d['bounds'].append(['U', j, hi + float(r.choice([1., 2.]))])      # a looser bound stated after the tighter one
        if r.random() < 0.3:
            d['bounds'].insert(0, ['L', j, lo - 1.0])                            # a looser bound stated before
    if integer:
        for j, t in enumerate(d['vtype']):
            # user bounds on binaries / integers that are tighter than the type's own range
            if t == 'B' and r.random() < 0.5:
                if r.random() < 0.5:
                    d['bounds'].append(['U', j, 0.0]); x0[j] = 0.0
                else:
                    d['bounds'].append(['L', j, 1.0]); x0[j] = 1.0
        d['x0'] = x0.tolist()
    r.shuffle(d['bounds'])
    for _ in range(int(r.integers(0, 3))):
        a = r.choice(VALS, n)
        sense = str(r.choice(['le', 'ge', 'eq'], p=[0.5, 0.3, 0.2]))
        lhs = float(a @ x0)
        rhs = lhs + (float(r.choice([0.5, 1., 2.])) if sense == 'le' else (-float(r.choice([0.5, 1., 2.])) if sense == 'ge' else 0.0))
        d['lin'].append([a.tolist(), sense, rhs])
    names = atoms if atoms is not None else list(AT.ATOMS)
    if integer:
        # ECOS' branch-and-bound (the only exp-cone MI solver here) can run for hours: integer models use LP/SOC atoms only
        names = [nm for nm in names if AT.ATOMS[nm][5] != 'exp']
    for _ in range(int(r.integers(0 if atoms is None else 1, max_atoms + 1))):
        name = str(r.choice(names))
        xt, sign, quad, outk, dom, cone, build, npf = AT.ATOMS[name]
        k = 3 if name == 'gmean_w' else int(r.integers(1, 4))
        A = r.choice(VALS, (k, n)); b = r.choice([-1., 0., 0.5, 1.], k)
        if dom == 'pos':
            v = A @ x0 + b
            b = b + np.ceil(np.maximum(0.0, 0.5 - v) * 2) / 2 + r.choice([0.5, 1.0], k)
        scale = float(r.choice([1., 1., 2., 0.5, 4.]))
        off = r.choice(VALS, n)          # affine offset c.x added to the atom
        val = np.asarray(npf(A @ x0 + b), dtype=float)
        expr0 = scale * val + off @ x0
        if sign == 1:
            rhs = float(np.ceil(np.max(expr0) * 2) / 2 + float(r.choice([0.5, 1.0])))      # scale*f + off.x <= rhs
        else:
            rhs = float(np.floor(np.min(expr0) * 2) / 2 - float(r.choice([0.5, 1.0])))     # scale*f + off.x >= rhs
        d['atoms'].append({'name': name, 'A': A.tolist(), 'b': b.tolist(), 'scale': scale, 'off': off.tolist(), 'rhs': rhs})
    # piecewise (maxof / minof) constraints with affine pieces, scaling and an affine offset
    if atoms is None and r.random() < 0.4:
        ismin = bool(r.random() < 0.5)
        pcs = [[r.choice(VALS, n).tolist(), float(r.choice([-1., 0., 1., 2.]))] for _ in range(int(r.integers(2, 4)))]
        scale = float(r.choice([1., 2., 0.5])); off = r.choice(VALS, n); offc = float(r.choice([-1.5, 0., 0.5, 2.]))
        vals = [float(np.array(a) @ x0 + b) for a, b in pcs]
        e0 = scale * (min(vals) if ismin else max(vals)) + off @ x0 + offc
        rhs = float(np.floor(e0 * 2) / 2 - 0.5) if ismin else float(np.ceil(e0 * 2) / 2 + 0.5)
        d['pw'] = {'minof': ismin, 'pieces': pcs, 'scale': scale, 'off': off.tolist(), 'offc': offc, 'rhs': rhs}
    # objective: linear or an atom in objective position
    if atoms is None and r.random() < 0.2:
        ismin = bool(r.random() < 0.5)
        d['obj'] = {'kind': 'pw', 'minof': ismin, 'max': ismin,
                    'pieces': [[r.choice(VALS, n).tolist(), float(r.choice([-1., 0., 1., 2.]))] for _ in range(int(r.integers(2, 4)))],
                    'scale': float(r.choice([1., 2., 0.5])), 'off': r.choice(VALS, n).tolist(), 'offc': float(r.choice([-1.5, 0., 0.5, 2.]))}
    elif r.random() < 0.5 or not names:
        d['obj'] = {'kind': 'lin', 'c': r.choice(VALS, n).tolist(), 'max': bool(r.random() < 0.4)}
    else:
        name = str(r.choice(names))
        xt, sign, quad, outk, dom, cone, build, npf = AT.ATOMS[name]
        k = 1 if outk == 'elem' else (3 if name == 'gmean_w' else int(r.integers(1, 4)))
        A = r.choice(VALS, (k, n)); b = r.choice([-1., 0., 0.5, 1.], k)
        if dom == 'pos':
            v = A @ x0 + b
            b = b + np.ceil(np.maximum(0.0, 0.5 - v) * 2) / 2 + r.choice([0.5, 1.0], k)
            # keep the argument positive on the whole box: add the row A x + b >= 0.25
            d['posrow'] = [A.tolist(), b.tolist()]
        d['obj'] = {'kind': 'atom', 'name': name, 'A': A.tolist(), 'b': b.tolist(), 'scale': float(r.choice([1., 2., 0.5])),
                    'off': r.choice(VALS, n).tolist(), 'max': bool(sign == -1)}
    return d


def build(d, spell=0):
    """description -> (model, x).  `spell` selects among equivalent spellings."""
    if d['front'] in ('lp', 'socp'):
        # the stand-alone layers (formula classes LinProg / SOCProg)
        from rsome import lp as rlp, socp as rsocp
        m = rlp.Model() if d['front'] == 'lp' else rsocp.Model()
    else:
        m = ro.Model() if d['front'] == 'ro' else dro.Model(1)
    n = d['n']
    x = m.dvar(n, vtype=d['vtype'])
    for kind, j, v in d['bounds']:
        if kind == 'L':
            m.st(x[j] >= v)
        else:
            m.st(x[j] <= v)
    for a, sense, rhs in d['lin']:
        a = np.array(a)
        if sense == 'le':
            m.st(a @ x <= rhs)
        elif sense == 'ge':
            m.st(a @ x >= rhs)
        else:
            m.st(a @ x == rhs)
    for at in d['atoms']:
        xt, sign, quad, outk, dom, cone, bld, npf = AT.ATOMS[at['name']]
        e = at['scale'] * bld(np.array(at['A']) @ x + np.array(at['b'])) + np.array(at['off']) @ x
        m.st(e <= at['rhs'] if sign == 1 else e >= at['rhs'])
    if 'posrow' in d:
        m.st(np.array(d['posrow'][0]) @ x + np.array(d['posrow'][1]) >= 0.25)
    if 'pw' in d:
        w = d['pw']
        pw = (rso.minof if w['minof'] else rso.maxof)(*[np.array(a) @ x + b for a, b in w['pieces']])
        e = w['scale'] * pw + (np.array(w['off']) @ x + w['offc'])
        m.st(e >= w['rhs'] if w['minof'] else e <= w['rhs'])
    o = d['obj']
    if o['kind'] == 'pw':
        pw = (rso.minof if o['minof'] else rso.maxof)(*[np.array(a) @ x + b for a, b in o['pieces']])
        e = o['scale'] * pw + (np.array(o['off']) @ x + o['offc'])
        (m.max if o['max'] else m.min)(e)
    elif o['kind'] == 'lin':
        (m.max if o['max'] else m.min)(np.array(o['c']) @ x)
    else:
        xt, sign, quad, outk, dom, cone, bld, npf = AT.ATOMS[o['name']]
        e = o['scale'] * bld(np.array(o['A']) @ x + np.array(o['b'])) + np.array(o['off']) @ x
        (m.max if o['max'] else m.min)(e)
    return m, x


def np_obj(d, xs):
    o = d['obj']
    if o['kind'] == 'pw':
        vals = [float(np.array(a) @ xs + b) for a, b in o['pieces']]
        return float(o['scale'] * (min(vals) if o['minof'] else max(vals)) + np.array(o['off']) @ xs + o['offc'])
    if o['kind'] == 'lin':
        return float(np.array(o['c']) @ xs)
    npf = AT.ATOMS[o['name']][7]
    if AT.ATOMS[o['name']][4] == 'pos':
        return float(np.sum(o['scale'] * np.asarray(npf(np.maximum(np.array(o['A']) @ xs + np.array(o['b']), 1e-12)))) + np.array(o['off']) @ xs)
    return float(np.sum(o['scale'] * np.asarray(npf(np.array(o['A']) @ xs + np.array(o['b'])))) + np.array(o['off']) @ xs)


def violations(d, xs, tol=1e-5):
    """user constraints evaluated directly at xs; returns list of (what, amount)"""
    out = []
    lo = {}; hi = {}
    for kind, j, v in d['bounds']:
        if kind == 'L' and xs[j] < v - tol:
            out.append(('bound x[%d] >= %g' % (j, v), float(v - xs[j])))
        if kind == 'U' and xs[j] > v + tol:
            out.append(('bound x[%d] <= %g' % (j, v), float(xs[j] - v)))
    for a, sense, rhs in d['lin']:
        v = float(np.array(a) @ xs)
        s = 1 + abs(rhs)
        if sense in ('le', 'eq') and v > rhs + tol * s:
            out.append(('row <=', v - rhs))
        if sense in ('ge', 'eq') and v < rhs - tol * s:
            out.append(('row >=', rhs - v))
    for at in d['atoms']:
        xt, sign, quad, outk, dom, cone, bld, npf = AT.ATOMS[at['name']]
        arg = np.array(at['A']) @ xs + np.array(at['b'])
        if dom == 'pos':
            if np.min(arg) < -1e-5:
                out.append(('atom %s domain' % at['name'], float(-np.min(arg)))); continue
            arg = np.maximum(arg, 1e-12)          # solver tolerance at the boundary of the domain
        with np.errstate(all='ignore'):
            val = at['scale'] * np.asarray(npf(arg), dtype=float) + np.array(at['off']) @ xs
            if dom == 'pos' and sign == -1 and np.min(arg) < 1e-3:
                # next to the boundary of the domain (log, entropy: unbounded slope at 0) the returned point is judged in the
                # argument: the constraint must hold once the argument is moved by the solver's feasibility tolerance
                val = np.maximum(val, at['scale'] * np.asarray(npf(arg + 2e-6), dtype=float) + np.array(at['off']) @ xs)
        s = 1 + abs(at['rhs'])
        if sign == 1 and np.max(val) > at['rhs'] + tol * s * 10:
            out.append(('atom %s <=' % at['name'], float(np.max(val) - at['rhs'])))
        if sign == -1 and not (np.min(val) >= at['rhs'] - tol * s * 10):
            out.append(('atom %s >=' % at['name'], float(at['rhs'] - np.min(val))))
    if 'pw' in d:
        w = d['pw']
        vals = [float(np.array(a) @ xs + b) for a, b in w['pieces']]
        e = w['scale'] * (min(vals) if w['minof'] else max(vals)) + np.array(w['off']) @ xs + w['offc']
        if w['minof'] and e < w['rhs'] - tol * (1 + abs(w['rhs'])):
            out.append(('atom minof >=', float(w['rhs'] - e)))
        if not w['minof'] and e > w['rhs'] + tol * (1 + abs(w['rhs'])):
            out.append(('atom maxof <=', float(e - w['rhs'])))
    if 'posrow' in d:
        v = np.array(d['posrow'][0]) @ xs + np.array(d['posrow'][1])
        if np.min(v) < 0.25 - tol:
            out.append(('posrow', float(0.25 - np.min(v))))
    for j, t in enumerate(d['vtype'] if len(d['vtype']) > 1 else d['vtype'] * d['n']):
        if t in 'BI' and abs(xs[j] - round(xs[j])) > 2e-5:      # MILP solvers' integrality tolerance (Gurobi IntFeasTol = 1e-5)
            out.append(('integrality x[%d]' % j, float(abs(xs[j] - round(xs[j])))))
        if t == 'B' and not (-1e-6 <= xs[j] <= 1 + 1e-6):
            out.append(('binary range x[%d]' % j, float(xs[j])))
    return out


def box(d):
    """tightest declared box per entry"""
    n = d['n']
    lo = np.full(n, -np.inf); hi = np.full(n, np.inf)
    for kind, j, v in d['bounds']:
        if kind == 'L':
            lo[j] = max(lo[j], v)
        else:
            hi[j] = min(hi[j], v)
    vt = d['vtype'] if len(d['vtype']) > 1 else d['vtype'] * n
    for j, t in enumerate(vt):
        if t == 'B':
            lo[j] = max(lo[j], 0.0); hi[j] = min(hi[j], 1.0)
    return lo, hi
