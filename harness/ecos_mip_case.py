"""one small mixed-integer model solved through rsome.eco_solver in a process of its own (ECOS_BB may not return: the parent uses a timeout).
usage: ecos_mip_case.py '<json case>'  ->  prints `value <objective>` """
import sys, os, json, contextlib
sys.path.insert(0, os.environ.get('RSOME_REPO', '/repo'))
import numpy as np


def build(case):
    from rsome import ro
    m = ro.Model()
    vs = []
    for kind, size in case['decl']:          # declaration order is the column order
        vs.append(m.dvar(size, vtype=kind) if size else m.dvar(vtype=kind))
    x = [v if v.shape != () else v for v in vs]
    flat = []
    for v in vs:
        if v.shape == ():
            flat.append(v)
        else:
            flat += [v[i] for i in range(v.shape[0])]
    c = case['c']; a = case['a']
    obj = sum(float(ci) * fi for ci, fi in zip(c, flat))
    m.max(obj)
    m.st(sum(float(ai) * fi for ai, fi in zip(a, flat)) <= float(case['cap']))
    for fi, lt in zip(flat, case['letters']):
        if lt == 'I':
            m.st(fi >= 0, fi <= float(case['imax']))
    return m


def build_deep(seed):
    """the 0/1 program of c11.deep_tree_binary"""
    from rsome import lp as lpm
    r = np.random.default_rng(seed)
    n, k = 16, 2
    A = r.integers(0, 100, (k, n)).astype(float); t = np.floor(A.sum(axis=1) / 2)
    m = lpm.Model(); x = m.dvar(n, vtype='B'); y = m.dvar(k)
    m.min(y.sum()); m.st(y >= 0); m.st(A @ x - t <= y); m.st(t - A @ x <= y)
    return m


if __name__ == '__main__':
    case = json.loads(sys.argv[1])
    from rsome import eco_solver
    if 'deep_tree_seed' in case:
        saved = os.dup(1); null = os.open(os.devnull, os.O_WRONLY); os.dup2(null, 1)      # ECOS writes to fd 1
        m = build_deep(case['deep_tree_seed'])
        m.solve(eco_solver, display=False)
        sol = m.solution
        os.dup2(saved, 1)
        print('value', 'none' if (sol is None or sol.x is None or np.isnan(sol.objval)) else repr(float(sol.objval)))
        sys.exit(0)
    with open(os.devnull, 'w') as fh, contextlib.redirect_stdout(fh):
        m = build(case)
        m.solve(eco_solver, display=False)
        v = float(m.get())
    print('value', repr(v))
