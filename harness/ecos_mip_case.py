"""one small mixed-integer model solved through rsome.eco_solver in a process of its own (ECOS_BB may not return: the parent uses a timeout).
usage: ecos_mip_case.py '<json case>'  ->  prints `value <objective>` """
import sys, os, json, contextlib
sys.path.insert(0, os.environ.get('RSOME_REPO', '/repo'))
import numpy as np


def build(case):
    from rsome import ro
    m = ro.Model()
    vs = []
    for kind, size in case['decl']:          # declaration order is the column order
        vs.append(m.dvar(size, vtype=kind) if size else m.dvar(vtype=kind))
    x = [v if v.shape != () else v for v in vs]
    flat = []
    for v in vs:
        if v.shape == ():
            flat.append(v)
        else:
            flat += [v[i] for i in range(v.shape[0])]
    c = case['c']; a = case['a']
    obj = sum(float(ci) * fi for ci, fi in zip(c, flat))
    m.max(obj)
    m.st(sum(float(ai) * fi for ai, fi in zip(a, flat)) <= float(case['cap']))
    for fi, lt in zip(flat, case['letters']):
        if lt == 'I':
            m.st(fi >= 0, fi <= float(case['imax']))
    return m


if __name__ == '__main__':
    case = json.loads(sys.argv[1])
    from rsome import eco_solver
    with open(os.devnull, 'w') as fh, contextlib.redirect_stdout(fh):
        m = build(case)
        m.solve(eco_solver, display=False)
        v = float(m.get())
    print('value', repr(v))
