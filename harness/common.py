"""Shared machinery of the rsome verification harness (run with /venv/bin/python).

* exact-rational export of rsome standard forms,
* the JSON line protocol to the Lean driver (`lake env lean --run Driver.lean`),
* the per-run context that collects correspondence disagreements, search hits, branch
  histograms and samples, and turns them into the verdict / evidence / replay files.
"""
import os, sys, json, time, subprocess, hashlib, contextlib, warnings, traceback
from fractions import Fraction

VERIF = os.path.dirname(os.path.dirname(os.path.abspath(__file__)))
REPO = os.environ.get('RSOME_REPO', '/repo')
LEAN_DIR = os.path.join(VERIF, 'lean')
if REPO not in sys.path:
    sys.path.insert(0, REPO)
os.environ.setdefault('RSOME_VERIF', '1')
warnings.filterwarnings('ignore')

import numpy as np  # noqa: E402


# ----------------------------------------------------------------------------- rationals
def fr(v):
    """exact rational string of a float / int / Fraction"""
    if isinstance(v, Fraction):
        f = v
    else:
        f = Fraction(float(v))
    return str(f.numerator) if f.denominator == 1 else f"{f.numerator}/{f.denominator}"


def optfr(v):
    return None if np.isinf(v) else fr(v)


def unfr(s):
    return None if s is None else Fraction(s)


def dense(m):
    import scipy.sparse as sp
    if sp.issparse(m):
        return np.asarray(m.todense())
    return np.asarray(m)


def prog_json(f):
    """rsome LinProg / SOCProg / GCProg -> the exact-rational description used on the wire"""
    A = dense(f.linear)
    d = {"nr": int(A.shape[0]), "nc": int(A.shape[1]),
         "a": [[fr(v) for v in row] for row in A],
         "b": [fr(v) for v in np.asarray(f.const).reshape(-1)],
         "eq": [int(s) for s in np.asarray(f.sense).reshape(-1)],
         "ub": [optfr(v) for v in f.ub], "lb": [optfr(v) for v in f.lb],
         "c": [fr(v) for v in np.asarray(f.obj).reshape(-1)],
         "vtype": [str(v) for v in f.vtype]}
    import scipy.sparse as sp
    L = sp.csr_matrix(f.linear) if not sp.isspmatrix_csr(f.linear) else f.linear
    d["sp"] = [sorted(set(int(c) for c in L.indices[L.indptr[i]:L.indptr[i + 1]])) for i in range(L.shape[0])]
    d["qmat"] = [[int(i) for i in q] for q in getattr(f, 'qmat', [])]
    d["xmat"] = [[int(i) for i in q] for q in getattr(f, 'xmat', [])]
    d["nlmi"] = len(getattr(f, 'lmi', []) or [])
    return d


PROG_KEYS = ('nr', 'nc', 'a', 'b', 'eq', 'ub', 'lb', 'c')


def prog_diff(code, model, keys=PROG_KEYS):
    return [k for k in keys if code.get(k) != model.get(k)]


# ----------------------------------------------------------------------------- quiet solver calls
@contextlib.contextmanager
def quiet():
    """redirect fd 1 (ECOS / Gurobi / rsome print from C or with print()) to /dev/null"""
    sys.stdout.flush()
    saved = os.dup(1)
    devnull = os.open(os.devnull, os.O_WRONLY)
    try:
        os.dup2(devnull, 1)
        with warnings.catch_warnings():
            warnings.simplefilter('ignore')
            yield
    finally:
        sys.stdout.flush()
        os.dup2(saved, 1)
        os.close(devnull)
        os.close(saved)


# ----------------------------------------------------------------------------- Lean driver
class LeanError(Exception):
    pass


def lean_run(cases, timeout=1800):
    """send a list of request dicts to the Lean driver; returns list of reply dicts"""
    if not cases:
        return []
    inp = "\n".join(json.dumps(c, separators=(',', ':')) for c in cases) + "\n"
    p = subprocess.run(['lake', 'env', 'lean', '--run', 'Driver.lean'], cwd=LEAN_DIR, input=inp,
                       capture_output=True, text=True, timeout=timeout)
    lines = [l for l in p.stdout.splitlines() if l.startswith('{') or l.startswith('[')]
    if len(lines) != len(cases):
        raise LeanError(f"driver returned {len(lines)} lines for {len(cases)} cases; rc={p.returncode}; "
                        f"stderr: {p.stderr[:2000]} stdout-tail: {p.stdout[-500:]}")
    return [json.loads(l) for l in lines]


def lean_build(targets, timeout=3600):
    """lake build the given module targets; returns (ok, log)"""
    p = subprocess.run(['lake', 'build'] + list(targets), cwd=LEAN_DIR, capture_output=True, text=True,
                       timeout=timeout)
    return p.returncode == 0, (p.stdout + p.stderr)


ALLOWED_AXIOMS = {'propext', 'Classical.choice', 'Quot.sound'}


def lean_axioms(module, theorems, timeout=1800):
    """#print axioms for each theorem; returns {thm: set(axioms)} ; raises LeanError if a theorem is missing"""
    src = f"import {module}\n" + "\n".join(f"#print axioms {t}" for t in theorems) + "\n"
    path = os.path.join(LEAN_DIR, f".audit_{module.replace('.', '_')}_{os.getpid()}.lean")
    with open(path, 'w') as fh:
        fh.write(src)
    try:
        p = subprocess.run(['lake', 'env', 'lean', path], cwd=LEAN_DIR, capture_output=True, text=True,
                           timeout=timeout)
    finally:
        os.unlink(path)
    out = p.stdout + p.stderr
    res = {}
    import re
    # "'X' depends on axioms: [a, b]" or "'X' does not depend on any axioms"
    for m in re.finditer(r"^'(\S+)' depends on axioms: \[([^\]]*)\]", out, re.S | re.M):
        res[m.group(1)] = set(a.strip() for a in m.group(2).replace('\n', ' ').split(',') if a.strip())
    for m in re.finditer(r"^'(\S+)' does not depend on any axioms", out, re.M):
        res[m.group(1)] = set()
    missing = [t for t in theorems if t not in res]
    if missing or p.returncode != 0:
        raise LeanError(f"axiom audit failed for {missing}: {out[:3000]}")
    return res


FORBIDDEN = ['sorry', 'admit', 'native_decide', 'bv_decide', 'implemented_by', 'unsafe ', 'maxHeartbeats 0']


def lean_grep_forbidden():
    """scan all Lean sources (comments stripped) for forbidden constructs; returns list of hits"""
    import re
    hits = []
    for root, _, files in os.walk(os.path.join(LEAN_DIR, 'RsomeV')):
        for fn in files:
            if not fn.endswith('.lean'):
                continue
            path = os.path.join(root, fn)
            txt = open(path).read()
            txt = re.sub(r'/-.*?-/', lambda m: '\n' * m.group(0).count('\n'), txt, flags=re.S)
            for ln, line in enumerate(txt.splitlines(), 1):
                code = line.split('--')[0]
                for f in FORBIDDEN:
                    if f in code:
                        hits.append(f"{os.path.relpath(path, LEAN_DIR)}:{ln}: {f.strip()}")
                if re.match(r'\s*axiom\s', code):
                    hits.append(f"{os.path.relpath(path, LEAN_DIR)}:{ln}: axiom")
    return hits


# ----------------------------------------------------------------------------- known findings
def load_known():
    path = os.path.join(VERIF, 'known_findings.json')
    if not os.path.exists(path):
        return {"findings": [], "fixed": []}
    return json.load(open(path))


# ----------------------------------------------------------------------------- run context
class Ctx:
    """collects what one check run observed"""

    def __init__(self, pid, tier, seed):
        self.pid, self.tier, self.seed = pid, tier, seed
        self.rng = np.random.default_rng(seed)
        self.t0 = time.time()
        self.counts = {}            # branch / tag histogram
        self.samples = []           # written-out cases
        self.programs = 0           # correspondence cases compared with the Lean model
        self.disagreements = []     # (component, detail, case) model != code
        self.hits = []              # (key, detail, case) property fails on the real code
        self.search_cases = 0
        self.nontrivial = set()
        self.evaluations = 0
        self.obligation_failures = []   # broken Lean obligations (build / audit)
        self.notes = []
        self.quick = (tier == 'quick')

    def n(self, quick, thorough):
        return quick if self.quick else thorough

    def count(self, tag, k=1):
        self.counts[tag] = self.counts.get(tag, 0) + k

    def sample(self, case, limit=4):
        if len(self.samples) < limit:
            self.samples.append(case)

    def nontriv(self, case):
        h = hashlib.sha1(json.dumps(case, sort_keys=True, default=str).encode()).hexdigest()
        self.nontrivial.add(h)

    def disagree(self, component, detail, case):
        self.disagreements.append({"component": component, "detail": detail, "case": case})

    def hit(self, key, detail, case):
        """a concrete input on which the *real code* violates the property. `key` classifies the
        failing input / call site (matched against known_findings.json)."""
        self.hits.append({"key": key, "detail": detail, "case": case})

    def corr(self, component, case, code_out, model_out, keys=None):
        """compare one correspondence case; returns True when equal"""
        self.programs += 1
        self.evaluations += 1
        if isinstance(model_out, dict) and 'error' in model_out and 'error' not in (code_out if isinstance(code_out, dict) else {}):
            self.disagree(component, {"model_error": model_out['error']}, case)
            return False
        if keys is None:
            same = (code_out == model_out)
            diff = None if same else {"code": code_out, "model": model_out}
        else:
            d = [k for k in keys if code_out.get(k) != model_out.get(k)]
            same = not d
            diff = None if same else {"keys": d, "code": {k: code_out.get(k) for k in d},
                                      "model": {k: model_out.get(k) for k in d}}
        if not same:
            self.disagree(component, diff, case)
        return same


def write_json(path, obj):
    os.makedirs(os.path.dirname(path), exist_ok=True)
    tmp = path + f".tmp{os.getpid()}"
    with open(tmp, 'w') as fh:
        json.dump(obj, fh, indent=1, default=str)
    os.replace(tmp, path)


def digest(obj):
    return hashlib.sha1(json.dumps(obj, sort_keys=True, default=str).encode()).hexdigest()[:12]


# ----------------------------------------------------------------------------- solver choice
class SkipCase(Exception):
    """the case cannot be solved safely in this sandbox (not a verdict)"""


def ecos_safe(formula):
    """ECOS crashes (SIGSEGV) on all-zero equality rows; such programs are not given to it"""
    import scipy.sparse as sp
    L = sp.csr_matrix(formula.linear)
    nnz_per_row = np.diff(L.indptr)
    absmax = np.array([np.abs(L.data[L.indptr[i]:L.indptr[i + 1]]).max() if nnz_per_row[i] else 0.0
                       for i in range(L.shape[0])])
    zero_eq = (absmax == 0) & (np.asarray(formula.sense) == 1)
    return not zero_eq.any()


def pick_solver(formula):
    """default HiGHS for LP/MILP, Gurobi (restricted licence) for SOCP, ECOS only where needed and safe"""
    from rsome import eco_solver
    has_q = bool(getattr(formula, 'qmat', None))
    has_x = bool(getattr(formula, 'xmat', None))
    if not has_q and not has_x:
        return None
    if has_q and not has_x and max(formula.linear.shape) < 1900:
        try:
            from rsome import grb_solver
            return grb_solver
        except Exception:
            pass
    if not ecos_safe(formula):
        raise SkipCase('all-zero equality row: ECOS would crash')
    return eco_solver


def solve_model(m, solver='auto'):
    """solve an ro/dro model quietly with a solver that is safe for its cone types"""
    with quiet():
        if solver == 'auto':
            solver = pick_solver(m.do_math())
        if solver is None:
            m.solve(display=False)
        else:
            m.solve(solver, display=False)
    sol_ = getattr(m, 'solution', None)
    if sol_ is None and hasattr(m, 'rc_model'):
        sol_ = m.rc_model.solution
    if sol_ is not None and 'close to' in str(getattr(sol_, 'status', '')).lower():
        # ECOS' reduced-accuracy termination (exit flag 10) is accepted by rsome as a solution, but its values are too
        # inaccurate for the 1e-5 comparisons of the searches
        raise SkipCase('solver terminated with reduced accuracy: ' + str(sol_.status))
    try:
        return m.get()
    except RuntimeError as e:
        # "no solution" because the solver gave up (numerical trouble, iteration limit, inaccurate termination) says
        # nothing about the model: such cases are skipped, never compared as if they were infeasible
        msg = str(e).lower()
        if any(k in msg for k in ('numerical', 'iteration', 'close to', 'inaccurate', 'suboptimal', 'status: 12', 'status: 13',
                                  'status: 1\n', 'status: 4\n')) or msg.rstrip().endswith(('scipy solution status: 1', 'scipy solution status: 4')):
            raise SkipCase('solver gave up: ' + str(e)[:120])
        raise


def run_difftest(ctx, script, n, component, args=None):
    """run one of harness/difftests/*.py (real rsome vs the Lean driver, exact comparison) as a correspondence"""
    import re
    seed = int(ctx.rng.integers(2 ** 31))
    path = os.path.join(VERIF, 'harness', 'difftests', script)
    env = dict(os.environ, RSOMEV_LEAN_DIR=LEAN_DIR, RSOME_REPO=REPO,
               PYTHONPATH=REPO + (os.pathsep + os.environ['PYTHONPATH'] if os.environ.get('PYTHONPATH') else ''))   # the child imports rsome from the same tree
    argv = [str(a) for a in args] if args is not None else [str(seed), str(n)]
    p = subprocess.run(['/venv/bin/python', path] + argv, capture_output=True, text=True, timeout=3600, env=env)
    m = re.search(r'cases (\d+) mismatches (\d+)', p.stdout)
    if not m:
        if 'lake' in p.stderr[-3000:] and 'error' in p.stderr[-3000:] and 'Traceback' not in p.stderr[-3000:]:
            raise LeanError(f'difftest {script} produced no summary: {p.stdout[-500:]} {p.stderr[-1500:]}')
        # the comparison itself broke down on what the code returned (shapes that do not fit, attributes that are gone ...): the
        # correspondence no longer checks; the failing-input search goes on
        ctx.count('difftest:' + script + ':crashed')
        ctx.disagree(component, {"difftest_crashed": (p.stderr + p.stdout)[-1500:], "seed": seed, "n": n}, {"difftest": script, "seed": seed, "n": n})
        return 0, 1
    cases, mism = int(m.group(1)), int(m.group(2))
    ctx.programs += cases; ctx.evaluations += cases
    for line in p.stdout.splitlines():
        if line.startswith(('coverage', 'histogram')):
            ctx.notes.append(f'{script}: {line[:400]}')
    ctx.count('difftest:' + script + ':cases', cases)
    if mism:
        ctx.disagree(component, {"mismatches": mism, "seed": seed, "n": n, "details": (p.stderr + p.stdout)[-3000:]},
                     {"difftest": script, "seed": seed, "n": n})
    return cases, mism
