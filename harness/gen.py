"""Structured random model generators driven by one PRNG state (so every case replays from
its recorded sub-seed).  All coefficients are small dyadic rationals so that every float the
formulation computes is exact."""
import numpy as np
import rsome as rso
from rsome import ro

VALS = np.array([-3., -2., -1., -0.5, 0., 0., 0.5, 1., 1.5, 2., 4.])
NZ = np.array([-3., -2., -1., -0.5, 0.5, 1., 1.5, 2., 4.])
POS = np.array([0.25, 0.5, 1., 1., 2., 4.])


def sub_rng(rng, seed_override=None):
    seed = int(rng.integers(2 ** 31)) if seed_override is None else int(seed_override)
    return np.random.default_rng(seed), seed


def bound_patterns(r, m, x, x0, tags):
    """give every entry of x one of the eight bound patterns, consistent with the point x0"""
    n = x.size
    for j in range(n):
        u = r.random()
        v0 = x0[j]
        if u < 0.12:
            m.st(x[j] >= 0); x0[j] = abs(v0); tags.add('lb0')
        elif u < 0.24:
            m.st(x[j] <= 0); x0[j] = -abs(v0); tags.add('ub0')
        elif u < 0.36:
            lo = float(r.choice([-2., 1.5, 3., -0.5])); m.st(x[j] >= lo); x0[j] = lo + abs(v0); tags.add('lbfin')
        elif u < 0.48:
            hi = float(r.choice([-2., 1.5, 3., 0.5])); m.st(x[j] <= hi); x0[j] = hi - abs(v0); tags.add('ubfin')
        elif u < 0.60:
            lo = float(r.choice([-2., 0., 1., -0.5])); w = float(r.choice([1., 2., 0.5]))
            if r.random() < 0.3 and lo != 0:
                lo, w = -w, w      # ub == 0 with finite lower bound
            m.st(x[j] >= lo, x[j] <= lo + w); x0[j] = lo + w / 2; tags.add('both')
        elif u < 0.72:
            v = float(r.choice([-1.5, 0., 2., 0.5])); m.st(x[j] >= v, x[j] <= v); x0[j] = v
            tags.add('fixed0' if v == 0 else 'fixed-nonzero')
        else:
            tags.add('free')
    return x0


def lin_rows(r, m, x, x0, tags, kmax=3, box=True):
    n = x.size
    for k in range(int(r.integers(1, kmax + 1))):
        a = r.choice(VALS, n)
        u = r.random()
        lhs = float(a @ x0)
        if u < 0.45:
            m.st(a @ x <= lhs + float(r.choice(POS))); tags.add('row<=')
        elif u < 0.8:
            m.st(a @ x >= lhs - float(r.choice(POS))); tags.add('row>=')
        else:
            m.st(a @ x == lhs); tags.add('row==')
    if box:
        m.st(1.0 * x <= 8.0 + np.ceil(np.abs(x0)), -1.0 * x <= 8.0 + np.ceil(np.abs(x0)))


def soc_atoms(r, m, x, x0, tags):
    n = x.size
    for k in range(int(r.integers(1, 3))):
        u = r.random()
        rows = int(r.integers(1, 4))
        A = r.choice(VALS, (rows, n)); c = r.choice(VALS, rows)
        y0 = A @ x0 + c
        mult = float(r.choice([1., 1., 4., 0.25]))
        if u < 0.35:
            val = float(np.linalg.norm(y0)); slack = float(np.ceil(val * mult) + r.choice(POS))
            m.st(mult * rso.norm(A @ x + c, 2) <= slack); tags.add('norm2')
            if mult != 1: tags.add('norm2-scaled')
        elif u < 0.55:
            val = float((y0 ** 2).sum()); m.st(mult * rso.sumsqr(A @ x + c) <= np.ceil(mult * val) + float(r.choice(POS)))
            tags.add('sumsqr')
        elif u < 0.7:
            val = y0 ** 2; m.st(rso.square(A @ x + c) <= np.ceil(val) + float(r.choice(POS))); tags.add('square')
        elif u < 0.85:
            B = r.choice(VALS, (n, n)); Q = B.T @ B
            val = float(x0 @ Q @ x0); m.st(rso.quad(x, Q) <= np.ceil(val) + 1.0); tags.add('quad')
        else:
            a = r.choice(VALS, n); b = r.choice(VALS, n)
            t1 = float(abs(a @ x0)) + 1.0; t2 = float(abs(b @ x0)) + 1.0
            # sum of squares <= (a x + s1) (b x + s2), both factors positive at x0
            s1 = t1 - float(a @ x0); s2 = t2 - float(b @ x0)
            need = float((y0 ** 2).sum())
            scale = float(2 ** np.ceil(np.log2(max(need / (t1 * t2), 1.0) + 1.0)))
            m.st(rso.rsocone(A @ x + c, scale * (a @ x + s1), b @ x + s2)); tags.add('rsocone')


def exp_atoms(r, m, x, x0, tags):
    n = x.size
    for k in range(int(r.integers(1, 3))):
        u = r.random()
        a = r.choice(VALS, n); c = float(r.choice(VALS))
        v = float(a @ x0 + c)
        if u < 0.3:
            m.st(rso.exp(a @ x + c) <= float(np.ceil(np.exp(v)) + 1.0)); tags.add('exp')
        elif u < 0.55:
            c2 = c + (1.0 - v if v < 1.0 else 0.0)
            c2 = float(np.ceil(c2 * 2) / 2)
            v2 = float(a @ x0 + c2)
            m.st(rso.log(a @ x + c2) >= float(np.floor(np.log(v2)) - 1.0)); tags.add('log')
        elif u < 0.7:
            m.st(rso.softplus(a @ x + c) <= float(np.ceil(np.log1p(np.exp(v))) + 1.0)); tags.add('softplus')
        elif u < 0.85:
            k2 = min(n, 2)
            sh = np.ceil(np.abs(x0[:k2])) + 1.0
            m.st(rso.entropy(x[:k2] + sh + x0[:k2] * 0) >= -40.0); tags.add('entropy')
        else:
            scale_c = float(np.ceil(abs(v)) + 1.0)
            m.st(rso.pexp(a @ x + c, scale_c) <= float(np.ceil(scale_c * np.exp(v / scale_c)) + 1.0)); tags.add('pexp')


def uncertainty_set(r, z, tags, conic=False):
    """a non-empty bounded set around a centre z0; returns (list of constraints, z0)"""
    nz = z.size
    z0 = r.choice([-1., 0., 0., 0.5, 1.], nz)
    cons = []
    u = r.random()
    if conic and u < 0.6:
        rad = float(r.choice([0.5, 1., 1., 2., 1.5])); mult = float(r.choice([1., 1., 1., 2., 0.5]))
        cons.append(mult * rso.norm(z - z0, 2) <= rad * mult if r.random() < 0.5 else rso.norm(z - z0, 2) * mult <= rad * mult)
        tags.add('set:norm2'); tags.add('set:norm2-nonunit' if (rad != 1 or mult != 1) else 'set:norm2-unit')
        if r.random() < 0.4:
            cons.append(z <= z0 + 1.0); tags.add('set:ub')
        if r.random() < 0.55:
            # a second ball of radius exactly 1 (both cone heads then meet in one row of the counterpart with coefficient 1)
            if nz >= 2 and r.random() < 0.75:
                # two plain unit balls on overlapping slices (no centre, no multiplier): cone columns with unit coefficients
                k = int(r.integers(1, nz))
                cons = [rso.norm(z[:k + 1]) <= 1, rso.norm(z[k - 1 if k > 1 else 0:]) <= 1] if nz > 2 else [rso.norm(z) <= 1, rso.norm(z[1:]) <= 1]
                z0 = np.zeros(nz); tags.add('set:two-unit-balls')
            else:
                off = np.zeros(nz); off[0] = 0.5
                cons.append(rso.norm(z - (z0 + off), 2) <= 1.0)
            tags.add('set:two-norm2')
    elif conic:
        rad = float(r.choice([1., 2.]))
        cons.append(rso.sumsqr(z - z0) <= rad); tags.add('set:sumsqr')
        cons.append(rso.norm(z - z0, 'inf') <= 2.0)
    else:
        v = r.random()
        if v < 0.35:
            lo = z0 - r.choice([0., 0.5, 1.], nz); hi = z0 + r.choice([0., 0.5, 1.], nz)
            cons += [z >= lo, z <= hi]; tags.add('set:box')
        elif v < 0.6:
            cons.append(rso.norm(z - z0, 1) <= float(r.choice([0.5, 1., 2.]))); tags.add('set:norm1')
        elif v < 0.8:
            cons.append(rso.norm(z - z0, 'inf') <= float(r.choice([0.5, 1., 2.]))); tags.add('set:norminf')
        else:
            cons += [z >= z0 - 1.0, z <= z0 + 1.0]
            a = r.choice(NZ, nz)
            cons.append(a @ z <= float(a @ z0) + float(r.choice([0., 0.5, 1.]))); tags.add('set:box+row')
            if r.random() < 0.4 and nz >= 2:
                b = r.choice(NZ, nz); cons.append(b @ z == float(b @ z0)); tags.add('set:eqrow')
    return cons, z0


def random_model(rng, kind, seed_override=None):
    """returns (ro.Model, desc).  Every model is feasible at a known point and bounded."""
    r, seed = sub_rng(rng, seed_override)
    tags = set()
    m = ro.Model()
    n = int(r.integers(1, 5))
    x = m.dvar(n)
    x0 = r.choice(VALS, n).astype(float)
    if kind in ('lp', 'soc', 'exp', 'soc_exp'):
        x0 = bound_patterns(r, m, x, x0, tags)
        lin_rows(r, m, x, x0, tags)
        if kind in ('soc', 'soc_exp'):
            soc_atoms(r, m, x, x0, tags)
        if kind in ('exp', 'soc_exp'):
            exp_atoms(r, m, x, x0, tags)
        cvec = r.choice(VALS, n)
        if r.random() < 0.7:
            m.min(cvec @ x); tags.add('min')
        else:
            m.max(cvec @ x); tags.add('max')
    elif kind in ('ro', 'ro_soc', 'ro_soc_exp'):
        nz = int(r.integers(1, 4))
        z = m.rvar(nz)
        cons, z0 = uncertainty_set(r, z, tags, conic=(kind != 'ro'))
        m.st(1.0 * x <= 6.0, -1.0 * x <= 6.0)
        if kind == 'ro_soc_exp':
            exp_atoms(r, m, x, np.zeros(n), tags)
        for k in range(int(r.integers(1, 3))):
            a = r.choice(VALS, n); B = r.choice(VALS, (n, nz)) * (r.random((n, nz)) < 0.6)
            # (a + B z) x <= rhs, strictly feasible at x = 0
            c = (a + B @ z) @ x <= float(r.choice(POS))
            if r.random() < 0.3:
                cons2, _ = uncertainty_set(r, z, tags, conic=(kind != 'ro'))
                c = c.forall(cons2); tags.add('per-constraint-set')
            m.st(c)
        cvec = r.choice(VALS, n); D = r.choice(VALS, (n, nz)) * (r.random((n, nz)) < 0.5)
        if r.random() < 0.6:
            m.minmax((cvec + D @ z) @ x, cons); tags.add('minmax')
        else:
            m.maxmin((cvec + D @ z) @ x, cons); tags.add('maxmin')
    else:
        raise ValueError(kind)
    return m, {"seed": seed, "kind": kind, "n": n, "tags": sorted(tags)}


def random_support(rng, seed_override=None):
    """a support-set model (the shared random-variable model of an ro.Model) with a random set;
    returns (ro.Model, sup_model, desc)"""
    r, seed = sub_rng(rng, seed_override)
    tags = set()
    m = ro.Model()
    if r.random() < 0.3:
        m.rvar(int(r.integers(1, 3)))      # an unrelated earlier random variable
        tags.add('earlier-rvar')
    z = m.rvar(int(r.integers(1, 4)))
    cons, z0 = uncertainty_set(r, z, tags, conic=(r.random() < 0.55))
    if r.random() < 0.3:
        c2, _ = uncertainty_set(r, z, tags, conic=False)
        cons = cons + c2; tags.add('set:intersection')
    sm = m.sup_model
    sm.reset()
    for c in cons:
        sm.st(c)
    return m, sm, {"seed": seed, "kind": "support", "tags": sorted(tags)}
