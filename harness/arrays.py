"""Random array-expression trees over rsome variables and their NumPy meaning (C05, also used by C12).

Every node carries the rsome object, the NumPy value of the same expression at a fixed integer assignment
of all variables, and its kind: 'dec' (affine in decisions), 'rand' (affine in random variables),
'bi' (decision x random bi-affine), 'const'."""
import numpy as np
import rsome as rso
from rsome import ro
from rsome.lp import Affine, RoAffine, Vars, VarSub, DecRule, DecRuleSub


class Env:
    def __init__(self, r, with_ldr=True):
        self.r = r
        self.m = ro.Model()
        self.vars = []      # (rsome var, numpy value, kind)
        for _ in range(int(r.integers(1, 3))):
            shp = rand_shape(r)
            v = self.m.dvar(shp)
            self.vars.append((v, r.integers(-3, 4, shp).astype(float), 'dec'))
        self.z = []
        for _ in range(int(r.integers(1, 3))):
            shp = rand_shape(r, maxrank=2)
            z = self.m.rvar(shp)
            self.z.append((z, r.integers(-2, 3, shp).astype(float), 'rand'))

        # a decision/random pair of equal non-trivial shape (for element-wise bi-affine products) and a decision rule
        shp2 = [(2, 3), (3, 2), (2, 3, 2), (1, 3), (3, 1), (2, 2)][int(r.integers(6))]
        self.xb = self.m.dvar(shp2); self.xb_val = r.integers(-3, 4, shp2).astype(float)
        self.vars.append((self.xb, self.xb_val, 'dec'))
        self.zb = self.m.rvar(shp2); self.zb_val = r.integers(-2, 3, shp2).astype(float)
        self.z.append((self.zb, self.zb_val, 'rand'))
        self.ldr = None
        if with_ldr and r.random() < 0.7:
            ys = rand_shape(r, maxrank=2)
            y = self.m.ldr(ys)
            mask = r.random((int(np.prod(ys)), self.m.sup_model.vars[-1].last)) < 0.5
            for i in range(mask.shape[0]):
                for z, zval, _ in self.z:
                    zi = [j for j in range(z.first, z.first + z.size) if mask[i, j]]
                    if zi:
                        pos = [j - z.first for j in zi]
                        zsel = z if z.shape == () else z[np.unravel_index(pos, z.shape)]
                        y.adapt(zsel, np.array([i]))
            ya = y.to_affine()
            self.ldr = y
            self.ldr_y0 = r.integers(-3, 4, ys).astype(float)
            self.ldr_mask = mask
            self.ldr_coef = r.integers(-2, 3, mask.shape).astype(float) * mask
            self.vars.append((y.fixed, self.ldr_y0, 'dec'))

    def ldr_value(self):
        zflat = np.zeros(self.m.sup_model.last)
        for z, val, _ in self.z:
            zflat[z.first:z.first + z.size] = val.reshape(-1)
        nz = self.ldr_coef.shape[1]
        return self.ldr_y0 + (self.ldr_coef @ zflat[:nz]).reshape(self.ldr_y0.shape)

    def assignment(self):
        """solution vector for the decision model and the random vector"""
        nx = self.m.rc_model.last
        xv = np.zeros(nx)
        for v, val, _ in self.vars:
            xv[v.first:v.first + v.size] = val.reshape(-1)
        if self.ldr is not None and self.ldr.var_coeff is not None:
            vc = self.ldr.var_coeff
            xv[vc.first:vc.first + vc.size] = self.ldr_coef[self.ldr_mask]
        nz = self.m.sup_model.last
        zv = np.zeros(nz)
        for z, val, _ in self.z:
            zv[z.first:z.first + z.size] = val.reshape(-1)
        return xv, zv


def rand_shape(r, maxrank=3):
    rank = int(r.choice([0, 1, 1, 2, 2, 3][:2 + 2 * maxrank - 1])) if maxrank >= 1 else 0
    rank = min(rank, maxrank)
    return tuple(int(v) for v in r.integers(1, 4, rank))


def evaluate(e, xv, zv):
    """value of an rsome expression at decision vector xv and random vector zv (independent of __call__)"""
    if isinstance(e, (Vars, VarSub, DecRule, DecRuleSub)):
        e = e.to_affine()
    if isinstance(e, RoAffine):
        ra = e.raffine
        L = ra.linear
        x = xv[:L.shape[1]] if L.shape[1] <= len(xv) else np.concatenate([xv, np.zeros(L.shape[1] - len(xv))])
        coef = (L @ x).reshape(-1) + np.asarray(ra.const, dtype=float).reshape(-1)
        nr = ra.const.shape[-1] if np.ndim(ra.const) else 1
        coef = coef.reshape(-1, nr)
        zz = zv[:nr] if nr <= len(zv) else np.concatenate([zv, np.zeros(nr - len(zv))])
        rpart = coef @ zz
        a = e.affine
        if isinstance(a, (np.ndarray, float, int)):
            apart = np.asarray(a, dtype=float)
        else:
            apart = evaluate(a, xv, zv)
        return rpart.reshape(e.shape) + np.asarray(apart).reshape(e.shape)
    if isinstance(e, Affine):
        L = e.linear
        src = zv if e.model.mtype == 'S' else xv
        x = src[:L.shape[1]] if L.shape[1] <= len(src) else np.concatenate([src, np.zeros(L.shape[1] - len(src))])
        return (L @ x).reshape(e.shape) + np.asarray(e.const, dtype=float).reshape(e.shape)
    return np.asarray(e, dtype=float)


def shape_of(e):
    if isinstance(e, (Vars, VarSub, DecRule, DecRuleSub)):
        e = e.to_affine()
    return tuple(e.shape) if hasattr(e, 'shape') else np.shape(e)


# ----------------------------------------------------------------------------- random index expressions
def rand_index(r, shape):
    """an index expression NumPy accepts for an array of this shape (mixed basic / advanced)"""
    idx = []
    adv_used = False
    for ax, n in enumerate(shape):
        u = r.random()
        if u < 0.25:
            idx.append(int(r.integers(-n, n)))
        elif u < 0.6:
            a = r.choice([None, 0, 1, -1, -n, n - 1]); b = r.choice([None, n, n - 1, -1, 1, 0]); c = r.choice([None, 1, 2, -1, -2])
            idx.append(slice(None if a is None else int(a), None if b is None else int(b), None if c is None else int(c)))
        elif u < 0.72 and not adv_used:
            idx.append([int(v) for v in r.integers(-n, n, int(r.integers(1, 4)))]); adv_used = True
        elif u < 0.8 and not adv_used:
            mask = r.random(n) < 0.6
            idx.append(mask); adv_used = True
        elif u < 0.86:
            idx.append(slice(None))
        else:
            break
    if r.random() < 0.15 and len(idx) < len(shape):
        pos = int(r.integers(0, len(idx) + 1)); idx.insert(pos, Ellipsis)
    if r.random() < 0.15:
        pos = int(r.integers(0, len(idx) + 1))
        if not (any(i is Ellipsis for i in idx) and any(isinstance(i, (list, np.ndarray)) for i in idx)):
            idx.insert(pos, None)
    return tuple(idx) if len(idx) != 1 else idx[0]


def index_repr(ix):
    def one(i):
        if isinstance(i, slice):
            return 'slice(%r,%r,%r)' % (i.start, i.stop, i.step)
        if i is Ellipsis:
            return '...'
        if isinstance(i, np.ndarray):
            return 'mask' + str([int(b) for b in i])
        return repr(i)
    return [one(i) for i in ix] if isinstance(ix, tuple) else [one(ix)]


# ----------------------------------------------------------------------------- random trees
class Node:
    created = None          # when a list: every node built since it was set (operands of later operations)

    def __init__(self, e, v, kind, desc):
        self.e, self.v, self.kind, self.desc = e, np.array(v, dtype=float), kind, desc      # own copy of the NumPy value
        if Node.created is not None:
            Node.created.append(self)


def leaf(env):
    r = env.r
    u = r.random()
    if u < 0.12:
        return Node(env.xb * env.zb if r.random() < 0.5 else env.zb * env.xb, env.xb_val * env.zb_val, 'bi', 'xb*zb%s' % (env.xb.shape,))
    if u < 0.2 and env.ldr is not None:
        return Node(env.ldr, env.ldr_value(), 'bi' if env.ldr_mask.any() else 'dec', 'ldr%s' % (env.ldr.shape,))
    if u < 0.55:
        v, val, k = env.vars[int(r.integers(len(env.vars)))]
        return Node(v, val, 'dec', 'x%s' % (v.shape,))
    if u < 0.8:
        z, val, k = env.z[int(r.integers(len(env.z)))]
        return Node(z, val, 'rand', 'z%s' % (z.shape,))
    shp = rand_shape(r)
    c = r.integers(-3, 4, shp).astype(float)
    return Node(c, c, 'const', 'c%s' % (shp,))


def const_like(r, shape):
    return r.integers(-3, 4, shape).astype(float)


def unary(env, n):
    """apply one random shape operation; returns Node or None when not applicable"""
    r = env.r
    shp = n.v.shape
    ops = ['neg', 'getitem', 'getitem', 'reshape', 'flatten', 'T', 'sum', 'sumaxis', 'scale', 'addc', 'rsubc',
           'mulc', 'rmulc', 'matmulc', 'rmatmulc', 'diag', 'tril', 'triu', 'trace']
    if n.kind in ('bi', 'rand') or n.desc.startswith('used:'):
        ops = ops + ['T', 'T', 'getitem', 'reshape', 'sumaxis', 'getitem', 'reshape']
    op = str(r.choice(ops))
    e, v = n.e, n.v
    if n.kind == 'const' and op not in ('neg',):
        return None
    if v.size == 0:
        return None
    if op == 'neg':
        return Node(-e, -v, n.kind, '-(%s)' % n.desc)
    if op == 'getitem' and len(shp) >= 1:
        ix = rand_index(r, shp)
        try:
            nv = v[ix]
        except Exception:
            return None
        if nv.size == 0:
            return None           # rsome does not support empty arrays (it raises); not part of the comparison
        try:
            ne = e[ix]
        except Exception as ex:
            raise OpError('getitem', n.desc, index_repr(ix), ex)
        return Node(ne, nv, n.kind, '(%s)[%s]' % (n.desc, ','.join(index_repr(ix))))
    if op == 'reshape' and v.size >= 1:
        size = v.size
        cands = [(size,), (1, size), (size, 1)] + [(a, size // a) for a in range(2, size) if size % a == 0]
        ns = cands[int(r.integers(len(cands)))]
        return Node(e.reshape(ns), v.reshape(ns), n.kind, '(%s).reshape%s' % (n.desc, ns))
    if op == 'flatten' and hasattr(e, 'flatten') and not isinstance(e, RoAffine):
        return Node(e.flatten(), v.flatten(), n.kind, '(%s).flatten()' % n.desc)
    if op == 'T':
        return Node(e.T, v.T, n.kind, '(%s).T' % n.desc)
    if op == 'sum':
        return Node(e.sum(), v.sum(), n.kind, '(%s).sum()' % n.desc)
    if op == 'sumaxis' and len(shp) >= 1:
        ax = int(r.integers(-len(shp), len(shp)))
        return Node(e.sum(axis=ax), v.sum(axis=ax), n.kind, '(%s).sum(axis=%d)' % (n.desc, ax))
    if op == 'scale':
        k = float(r.choice([-2., 0.5, 3., 0.]))
        return Node(k * e if r.random() < 0.5 else e * k, k * v, n.kind, '%g*(%s)' % (k, n.desc))
    if op in ('addc', 'rsubc', 'mulc', 'rmulc'):
        # a constant that broadcasts with shp in either direction
        tgt = list(shp)
        mode = r.random()
        if mode < 0.3:
            cs = tuple(tgt)
        elif mode < 0.55:
            cs = tuple(tgt[int(r.integers(0, len(tgt) + 1)):])
        elif mode < 0.8:
            cs = tuple(1 if r.random() < 0.5 else d for d in tgt)
        else:
            cs = tuple([int(r.integers(1, 3))] + tgt)        # constant of higher rank: broadcast the expression
        c = const_like(r, cs)
        if r.random() < 0.25:
            # constants of an integer dtype NumPy accepts (unsigned ones included): the values are what counts
            dt = str(r.choice(['uint8', 'int8', 'int64', 'uint32']))
            c = (np.abs(c) if dt.startswith('u') else c).astype(dt)
            cf = c.astype(float)
        else:
            dt, cf = None, c
        try:
            if op == 'addc':
                u = r.random()
                if u < 0.35:
                    return Node(e + c, v + cf, n.kind, '(%s)+c%s%s' % (n.desc, cs, dt or ''))
                if u < 0.7:
                    return Node(c + e, v + cf, n.kind, 'c%s%s+(%s)' % (cs, dt or '', n.desc))
                return Node(e - c, v - cf, n.kind, '(%s)-c%s%s' % (n.desc, cs, dt or ''))
            if op == 'rsubc':
                return Node(c - e, cf - v, n.kind, 'c%s%s-(%s)' % (cs, dt or '', n.desc))
            c = cf
            if len(cs) == 2 and cs == tuple(shp) and r.random() < 0.35:
                # the constant as a scipy.sparse matrix: '*' must still be the element-wise product (or raise)
                import scipy.sparse as _sp
                S = _sp.csr_matrix(c) if r.random() < 0.5 else _sp.coo_matrix(c)
                try:
                    ne = (e * S) if op == 'mulc' else (S * e)
                except Exception:
                    return None                                   # unsupported combinations may raise
                return Node(ne, v * c, n.kind, ('(%s)*sparse%s' if op == 'mulc' else 'sparse%s*(%s)').replace('%s', '{}').format(*((n.desc, cs) if op == 'mulc' else (cs, n.desc))))
            if op == 'mulc':
                return Node(e * c, v * c, n.kind, '(%s)*c%s' % (n.desc, cs))
            return Node(c * e, c * v, n.kind, 'c%s*(%s)' % (cs, n.desc))
        except Exception as ex:
            raise OpError(op, n.desc, cs, ex)
    if op in ('matmulc', 'rmatmulc') and len(shp) >= 1:
        inner = shp[-1] if op == 'matmulc' else (shp[-2] if len(shp) >= 2 else shp[0])
        mode = r.random()
        other = int(r.integers(1, 4))
        batch = ()
        if mode < 0.3:
            batch = tuple(int(v_) for v_ in r.integers(1, 3, int(r.integers(1, 3))))
        if op == 'matmulc':
            cs = (inner,) if mode > 0.85 else batch + (inner, other)
        else:
            cs = (inner,) if mode > 0.85 else batch + (other, inner)
        c = const_like(r, cs)
        try:
            nv = (v @ c) if op == 'matmulc' else (c @ v)
        except Exception:
            return None
        if len(cs) == 2 and r.random() < 0.3:
            import scipy.sparse as _sp
            S = _sp.csr_matrix(c)
            try:
                ne = (e @ S) if op == 'matmulc' else (S @ e)
            except Exception:
                return None
            return Node(ne, nv, n.kind, ('(%s)@sparse%s' if op == 'matmulc' else 'sparse%s@(%s)').replace('%s', '{}').format(*((n.desc, cs) if op == 'matmulc' else (cs, n.desc))))
        try:
            ne = (e @ c) if op == 'matmulc' else (c @ e)
        except Exception as ex:
            raise OpError(op, n.desc, cs, ex)
        return Node(ne, nv, n.kind, ('(%s)@c%s' if op == 'matmulc' else 'c%s@(%s)').replace('%s', '{}').format(*((n.desc, cs) if op == 'matmulc' else (cs, n.desc))))
    if op == 'diag' and len(shp) == 2 and n.kind == 'dec':
        k = int(r.integers(-2, 3))
        if r.random() < 0.3:
            # fill=True (rsome's own option): same shape, everything off the k-th diagonal is zero
            mask = np.zeros(shp, bool)
            for i in range(shp[0]):
                if 0 <= i + k < shp[1]:
                    mask[i, i + k] = True
            if not mask.any():
                return None
            return Node(rso.diag(e, k, fill=True), np.where(mask, v, 0.0), n.kind, 'diag(%s,%d,fill)' % (n.desc, k))
        if np.diag(v, k).size == 0:
            return None
        return Node(rso.diag(e, k), np.diag(v, k), n.kind, 'diag(%s,%d)' % (n.desc, k))
    if op in ('tril', 'triu') and len(shp) == 2 and n.kind == 'dec':
        k = int(r.integers(-1, 2))
        f = rso.tril if op == 'tril' else rso.triu
        g = np.tril if op == 'tril' else np.triu
        return Node(f(e, k), g(v, k), n.kind, '%s(%s,%d)' % (op, n.desc, k))
    if op == 'trace' and len(shp) == 2 and n.kind == 'dec':
        return Node(rso.trace(e), np.trace(v), n.kind, 'trace(%s)' % n.desc)
    return None


class OpError(Exception):
    def __init__(self, op, desc, extra, ex):
        super().__init__('%s on %s with %s raised %s: %s' % (op, desc, extra, type(ex).__name__, ex))
        self.op, self.ex = op, ex


def binary(env, a, b):
    """combine two nodes with + - * @ or concat; returns Node or None when NumPy itself rejects / illegal kinds"""
    r = env.r
    op = str(r.choice(['add', 'sub', 'mul', 'matmul', 'concat']))
    kinds = {a.kind, b.kind}
    try:
        if op in ('add', 'sub'):
            nv = a.v + b.v if op == 'add' else a.v - b.v
            if a.kind == 'const' and b.kind == 'const':
                return None
            kind = 'bi' if ('bi' in kinds or kinds >= {'dec', 'rand'}) else ('dec' if 'dec' in kinds else 'rand')
            ne = a.e + b.e if op == 'add' else a.e - b.e
            return Node(ne, nv, kind, '(%s)%s(%s)' % (a.desc, '+' if op == 'add' else '-', b.desc))
        if op in ('mul', 'matmul'):
            # legal products: const*any, dec*rand (-> bi); everything else must raise (C10), not tested here
            if 'const' in kinds and kinds != {'const'}:
                kind = (kinds - {'const'}).pop()
            elif kinds == {'dec', 'rand'}:
                kind = 'bi'
            else:
                return None
            nv = a.v * b.v if op == 'mul' else a.v @ b.v
            ne = a.e * b.e if op == 'mul' else a.e @ b.e
            return Node(ne, nv, kind, '(%s)%s(%s)' % (a.desc, '*' if op == 'mul' else '@', b.desc))
        if op == 'concat':
            if a.kind != 'dec' or b.kind != 'dec' or a.v.ndim != b.v.ndim or a.v.ndim == 0:
                return None
            ax = int(r.integers(0, a.v.ndim))
            nv = np.concatenate((a.v, b.v), axis=ax)
            ne = rso.concat((a.e, b.e), axis=ax)
            return Node(ne, nv, 'dec', 'concat((%s),(%s),%d)' % (a.desc, b.desc, ax))
    except ValueError as ex:
        # NumPy rejects the shapes: nothing to compare
        if 'nv' not in locals():
            return None
        raise OpError(op, a.desc + ' , ' + b.desc, '', ex)
    except Exception as ex:
        if 'nv' not in locals():
            return None
        raise OpError(op, a.desc + ' , ' + b.desc, '', ex)
    return None


def random_tree(env, depth):
    r = env.r
    if depth == 0 or r.random() < 0.15:
        return leaf(env)
    if r.random() < 0.6:
        n = random_tree(env, depth - 1)
        if r.random() < 0.35 and n.kind != 'const' and n.v.ndim >= 1 and n.v.size > 0:
            # use the same object first in an operation whose result is discarded (fills lazily built caches)
            try:
                pr = str(r.choice(['getitem', 'sum', 'T', 'reshape']))
                obj = n.e
                if pr == 'getitem':
                    obj[(0,) * n.v.ndim]
                elif pr == 'sum':
                    obj.sum(axis=0)
                elif pr == 'T':
                    obj.T
                else:
                    obj.reshape((n.v.size,))
                n.desc = 'used:' + pr + '{' + n.desc + '}'
            except Exception:
                pass
        for _ in range(4):
            try:
                m = unary(env, n)
            except OpError:
                raise
            except Exception as ex:
                raise OpError('unary', n.desc, '', ex)
            if m is not None:
                return m
        return n
    a = random_tree(env, depth - 1); b = random_tree(env, depth - 1)
    for _ in range(3):
        m = binary(env, a, b)
        if m is not None:
            return m
    return a
