"""Differential test (C16): Lean model `RsomeV.Export.render` against the real
`LinProg.lp_export()` / `SOCProg.lp_export()` of rsome.

usage (from the lake project directory):  /venv/bin/python test_export.py <seed> <N>
prints `cases <n> mismatches <k>`.

Formulas come from
  * random `ro.Model`s (LP / MILP / SOCP; `m.do_math()` and `m.do_math(primal=False)`), with
    binaries / integers, negative / zero / tiny (1e-07) / huge coefficients, rows without any stored
    coefficient, `0*x[0] + x[1] <= 1`-style zeros, infinite bounds, norm-2 constraints (qmat);
  * directly constructed `LinProg` / `SOCProg` / `GCProg` objects whose CSR matrix keeps *explicit stored
    zeros* (rsome's own pipeline eliminates them), unsorted column indices, zero / negative-zero /
    inf objective entries, one-element cones.
The program handed to Lean carries only (sign, zero-flag, `str(abs(coeff))`) per coefficient and
the `'{}'.format(float)` strings of const / lb / ub: the comparison is about the layout of the text.
A case also counts as a mismatch when Lean's own parser does not read the text back
(`parse_ok`: `parseText text = some (toParsed prog)`) or when the program is not well-formed in the
sense of `ExProg.WF` (`wf`), the hypothesis of the round-trip theorems in RsomeV/Props/C16.lean.
"""
import sys
import os
import json
import random
import subprocess
import warnings

sys.path.insert(0, os.environ.get('RSOME_REPO', '/repo'))
import numpy as np                      # noqa: E402
import scipy.sparse as sp               # noqa: E402
import rsome as rso                     # noqa: E402
from rsome import ro                    # noqa: E402
from rsome.lp import LinProg            # noqa: E402
from rsome.socp import SOCProg          # noqa: E402
from rsome.gcp import GCProg            # noqa: E402

warnings.filterwarnings('ignore')
HERE = os.environ.get('RSOMEV_LEAN_DIR', os.path.dirname(os.path.abspath(__file__)))

POOL = [-3.0, -2.5, -1.0, -1e-07, -0.5, 0.5, 1.0, 2.0, 1e-07, 1e+20, -1e+20, 123456789.125,
        0.1, -0.30000000000000004, 7.0, 1e-300, 65536.0, 3.0000000000000004e-05]


def num(rng, zero=0.25):
    if rng.random() < zero:
        return 0.0
    return rng.choice(POOL)


def coef(c):
    return [bool(c < 0), not bool(c), '{}'.format(abs(c))]


def extract(f):
    """the ExProg view of a formula: exactly the quantities lp_export() reads"""
    rows = []
    for i in range(f.linear.shape[0]):
        row = f.linear[i]
        rows.append([coef(c) + [int(j)] for c, j in zip(row.data, row.indices)])
    return {
        'obj': [coef(c) for c in f.obj],
        'rows': rows,
        'sense': [0 if s == 0 else 1 for s in f.sense],
        'const': ['{}'.format(c) for c in f.const],
        # binaries are written with their bounds intersected with [0, 1] (the translation of the formula object into the
        # model's token lists does the same; the model renders what it is given)
        'lb': ['{}'.format(c) for c in np.where(np.asarray(f.vtype) == 'B', np.maximum(f.lb, 0.0), f.lb)],
        'ub': ['{}'.format(c) for c in np.where(np.asarray(f.vtype) == 'B', np.minimum(f.ub, 1.0), f.ub)],
        'vtype': ''.join(str(c) for c in f.vtype),
        'qmat': [[int(j) for j in qc] for qc in getattr(f, 'qmat', [])],
    }


def random_model(rng):
    """a random ro.Model; returns (model, kind)"""
    m = ro.Model()
    n = rng.randint(1, 5)
    x = m.dvar(n)
    nb = rng.choice([0, 0, 0, 0, 1, 2, 3])
    ni = rng.choice([0, 0, 0, 0, 1, 2])
    y = m.dvar(nb, 'B') if nb else None
    z = m.dvar(ni, 'I') if ni else None
    kind = 'lp' if nb + ni == 0 else 'milp'

    def lin():
        e = sum(num(rng) * x[j] for j in range(n))
        if y is not None and rng.random() < 0.6:
            e = e + sum(num(rng) * y[j] for j in range(nb))
        if z is not None and rng.random() < 0.6:
            e = e + sum(num(rng) * z[j] for j in range(ni))
        return e + num(rng, 0.5)

    obj = lin()
    if rng.random() < 0.5:
        m.min(obj)
    else:
        m.max(obj)
    for _ in range(rng.randint(0, 5)):
        r = rng.random()
        e = lin()
        if r < 0.35:
            m.st(e <= num(rng))
        elif r < 0.55:
            m.st(e >= num(rng))
        elif r < 0.75:
            m.st(e == num(rng))
        elif r < 0.85:
            # a row with no stored coefficient, or the task's `0*x[0] + x[1] <= 1` shape
            if n >= 2 and rng.random() < 0.5:
                m.st(0 * x[0] + x[1] <= 1)
            else:
                m.st(0 * x[rng.randrange(n)] <= num(rng))
        else:
            m.st(x[rng.randrange(n)] - x[rng.randrange(n)] <= num(rng))
    # bounds (finite or absent => infinite)
    for j in range(n):
        r = rng.random()
        if r < 0.3:
            m.st(x[j] >= num(rng))
        elif r < 0.5:
            m.st(x[j] <= num(rng))
        elif r < 0.6:
            m.st(x[j] >= -1, x[j] <= num(rng, 0) + 2)
    if z is not None and rng.random() < 0.5:
        m.st(z >= -3, z <= 8)
    # norm-2 / quadratic constraints
    for _ in range(rng.choice([0, 0, 1, 2])):
        kind = 'socp' if kind in ('lp', 'socp') else 'misocp'
        k = rng.randint(1, 3)
        A = np.array([[num(rng, 0.4) for _ in range(n)] for _ in range(k)])
        b = np.array([num(rng, 0.5) for _ in range(k)])
        r = rng.random()
        if r < 0.5:
            m.st(rso.norm(A @ x + b) <= lin())
        elif r < 0.7:
            m.st(rso.sumsqr(A @ x + b) <= lin())
        elif r < 0.85:
            m.st(rso.square(x[rng.randrange(n)]) <= lin())
        else:
            m.st(rso.norm(x) <= num(rng, 0) if n > 1 else rso.norm(A @ x + b) <= 1)
    return m, kind


def random_direct(rng):
    """a formula object built by hand: explicit stored zeros, unsorted indices, arbitrary objective"""
    nv = rng.randint(1, 12)
    nr = rng.randint(0, 6)
    data, indices, indptr = [], [], [0]
    for _ in range(nr):
        k = rng.choice([0, 0, 1, 2, 3, min(nv, 5)])
        cols = rng.sample(range(nv), min(k, nv))
        if rng.random() < 0.5:
            cols.sort()
        for j in cols:
            data.append(rng.choice([0.0, -0.0, num(rng, 0)]) if rng.random() < 0.4 else num(rng, 0))
            indices.append(j)
        indptr.append(len(data))
    linear = sp.csr_matrix((np.array(data, dtype=float), np.array(indices, dtype=int),
                            np.array(indptr, dtype=int)), shape=(nr, nv))
    const = np.array([rng.choice([0.0, -0.0, np.inf, num(rng)]) for _ in range(nr)], dtype=float)
    sense = np.array([rng.choice([0, 1]) for _ in range(nr)])
    if rng.random() < 0.3:
        sense = sense.astype(float)
    vtype = np.array([rng.choice('CCCBI') for _ in range(nv)])
    lb = np.array([rng.choice([-np.inf, 0.0, -0.0, num(rng)]) for _ in range(nv)], dtype=float)
    ub = np.array([rng.choice([np.inf, 0.0, 1.0, num(rng)]) for _ in range(nv)], dtype=float)
    obj = np.array([rng.choice([0.0, -0.0, np.inf, -np.inf, num(rng), num(rng, 0)]) for _ in range(nv)],
                   dtype=float)
    r = rng.random()
    if r < 0.4:
        return LinProg(linear, const, sense, vtype, ub, lb, obj), 'direct-lp'
    qmat = []
    for _ in range(rng.randint(0, 3)):
        k = rng.choice([1, 2, 2, 3, 4])
        qmat.append([rng.randrange(nv) for _ in range(k)])
    if r < 0.85:
        return SOCProg(linear, const, sense, vtype, ub, lb, qmat, obj), 'direct-socp'
    return GCProg(linear, const, sense, vtype, ub, lb, qmat, [], [], obj), 'direct-gcp'


def gen_cases(seed, N):
    rng = random.Random(seed)
    cases = []
    attempts = 0
    while len(cases) < N and attempts < 20 * N:
        attempts += 1
        try:
            if rng.random() < 0.45:
                f, kind = random_direct(rng)
                cases.append((kind, f))
            else:
                m, kind = random_model(rng)
                cases.append((kind + '-primal', m.do_math()))
                if len(cases) < N:
                    cases.append((kind + '-dual', m.do_math(primal=False)))
        except Exception as e:        # a generator hiccup (e.g. a rejected expression) is not a case
            sys.stderr.write(f'skip: {type(e).__name__}: {e}\n')
    return cases


def main():
    seed = int(sys.argv[1]) if len(sys.argv) > 1 else 0
    N = int(sys.argv[2]) if len(sys.argv) > 2 else 200
    cases = gen_cases(seed, N)
    expected = [f.lp_export() for _, f in cases]
    progs = [extract(f) for _, f in cases]
    inp = ''.join(json.dumps({'op': 'lp_render', 'prog': p}) + '\n' for p in progs)
    res = subprocess.run(['lake', 'env', 'lean', '--run', 'Driver.lean'], input=inp, cwd=HERE,
                         capture_output=True, text=True)
    lines = [ln for ln in res.stdout.split('\n') if ln.strip()]
    if res.returncode != 0 or len(lines) != len(cases):
        sys.stderr.write(res.stderr[-2000:] + '\n' + res.stdout[-2000:] + '\n')
        print(f'cases {len(cases)} mismatches {len(cases)}')
        return 1
    mism = 0
    stats = {}
    feat = {'stored_zero': 0, 'empty_row': 0, 'qmat': 0, 'general': 0, 'binary': 0, 'zero_obj': 0,
            'neg_first': 0, 'tiny': 0, 'huge': 0, 'inf_bound': 0, 'parse_not_ok': 0, 'not_wf': 0}
    for (kind, f), exp, p, ln in zip(cases, expected, progs, lines):
        stats[kind] = stats.get(kind, 0) + 1
        out = json.loads(ln)
        feat['stored_zero'] += any(e[1] for r in p['rows'] for e in r)
        feat['empty_row'] += any(len(r) == 0 for r in p['rows'])
        feat['qmat'] += len(p['qmat']) > 0
        feat['general'] += 'I' in p['vtype']
        feat['binary'] += 'B' in p['vtype']
        feat['zero_obj'] += any(c[1] for c in p['obj'])
        feat['neg_first'] += any(r and r[0][0] for r in p['rows'])
        feat['tiny'] += '1e-07' in exp
        feat['huge'] += '1e+20' in exp
        feat['inf_bound'] += 'inf' in exp
        ok = ('text' in out) and out['text'] == exp
        if 'text' in out and not out.get('parse_ok', False):
            feat['parse_not_ok'] += 1
            ok = False
        if 'text' in out and not out.get('wf', False):
            # every formula object met here must satisfy the hypothesis `ExProg.WF` of the theorems
            feat['not_wf'] += 1
            ok = False
        if not ok:
            mism += 1
            if mism <= 3:
                sys.stderr.write(f'MISMATCH ({kind})\n--- python ---\n{exp}\n--- lean ---\n'
                                 f'{out.get("text", out)}\n')
    sys.stderr.write('kinds ' + json.dumps(stats, sort_keys=True) + '\n')
    sys.stderr.write('features ' + json.dumps(feat, sort_keys=True) + '\n')
    print(f'cases {len(cases)} mismatches {mism}')
    return 0 if mism == 0 else 1


if __name__ == '__main__':
    sys.exit(main())
