"""Differential test: Lean model of the A/M/I/E/S/Q atom encodings (+ rsocone, bound folding,
vtype vector) against the real `do_math()` of rsome.

usage (from the lake project directory):  /venv/bin/python test_atoms_soc.py <seed> <N>
prints `cases <n> mismatches <k>`.
"""
import sys
import os
import json
import random
import subprocess
import warnings
from fractions import Fraction

sys.path.insert(0, os.environ.get('RSOME_REPO', '/repo'))
import numpy as np                      # noqa: E402
import rsome as rso                     # noqa: E402
from rsome import ro                    # noqa: E402
from rsome.lp import Affine, Bounds     # noqa: E402

warnings.filterwarnings('ignore')
HERE = os.environ.get('RSOMEV_LEAN_DIR', os.path.join(os.path.dirname(os.path.dirname(os.path.dirname(os.path.abspath(__file__)))), 'lean'))


def fr(v):
    f = Fraction(float(v))
    return str(f.numerator) if f.denominator == 1 else f'{f.numerator}/{f.denominator}'


def frv(a):
    return [fr(v) for v in np.asarray(a, dtype=float).reshape(-1)]


def frm(a):
    return [[fr(v) for v in row] for row in np.asarray(a, dtype=float)]


def optv(a):
    return [None if np.isinf(v) else fr(v) for v in np.asarray(a, dtype=float).reshape(-1)]


def dy(rng, zero=0.3):
    """small dyadic rational, often zero"""
    if rng.random() < zero:
        return 0.0
    return rng.choice([-3, -2, -1.5, -1, -0.75, -0.5, -0.25, 0.25, 0.5, 0.75, 1, 1.5, 2, 3])


def pad(mat, ncols):
    mat = np.asarray(mat, dtype=float)
    out = np.zeros((mat.shape[0], ncols))
    out[:, :mat.shape[1]] = mat
    return out


def aff_data(expr, nrows, ncols):
    """(linear, const) of an Affine / ndarray / number, `nrows` rows"""
    if isinstance(expr, Affine):
        lin = pad(expr.linear.todense(), ncols)
        const = np.asarray(expr.const, dtype=float).reshape(-1)
    else:
        const = np.asarray(expr, dtype=float).reshape(-1)
        lin = np.zeros((const.size, ncols))
    assert lin.shape[0] == nrows and const.size == nrows, (lin.shape, const.shape, nrows)
    return lin, const


def prog_json(f):
    """the standard form returned by the real code, in the driver's JSON conventions"""
    lin = np.asarray(f.linear.todense(), dtype=float)
    return {
        'nr': int(lin.shape[0]), 'nc': int(lin.shape[1]),
        'a': frm(lin), 'b': frv(f.const),
        'eq': [int(s) for s in np.asarray(f.sense).reshape(-1)],
        'ub': optv(f.ub), 'lb': optv(f.lb), 'c': frv(f.obj),
        'qmat': [[int(i) for i in q] for q in getattr(f, 'qmat', [])],
        'xmat': [[int(i) for i in q] for q in getattr(f, 'xmat', [])],
        'vtype': ''.join(str(t) for t in f.vtype),
    }


KEYS = ['nr', 'nc', 'a', 'b', 'eq', 'ub', 'lb', 'c', 'qmat', 'xmat', 'vtype']


def rc_do_math(m):
    """`ro.Model.do_math` without an objective: the same steps with `obj = None`"""
    rc = m.rc_model
    rc.reset()
    for c in m.all_constr:
        rc.st(c)
    return rc.do_math()


def decl_vars(rng, m, n):
    """declare user variables with `n` columns in total; returns (vars, uservars)"""
    sizes = []
    left = n
    while left > 0:
        s = rng.randint(1, left)
        sizes.append(s)
        left -= s
    vs, uv = [], [['C', 1]]
    for s in sizes:
        kind = rng.random()
        if kind < 0.6:
            vt = 'C'
        elif kind < 0.8:
            vt = rng.choice('BI')
        else:
            vt = ''.join(rng.choice('CBI') for _ in range(s))
        vs.append(m.dvar(s, vt))
        uv.append([vt, s])
    return vs, uv


def affine(vs, mat, const):
    """mat @ (all user variables) + const as an rsome Affine"""
    mat = np.asarray(mat, dtype=float)
    expr = None
    col = 0
    for v in vs:
        term = mat[:, col:col + v.size] @ v
        expr = term if expr is None else expr + term
        col += v.size
    return expr + np.asarray(const, dtype=float)


def user_bounds(rng, m, vs):
    """random `Bounds` objects passed to `st` (they are folded before the aux bounds)"""
    out = []
    for _ in range(rng.choice([0, 0, 1, 2, 3])):
        v = rng.choice(vs)
        val = dy(rng, 0.2)
        b = (v <= val) if rng.random() < 0.5 else (v >= val)
        assert isinstance(b, Bounds)
        m.st(b)
        out.append([b.btype, [int(i) for i in b.indices], frv(b.values)])
    return out


def gen_atom(rng):
    xt = rng.choice('AMIESQ')
    n = rng.randint(1, 4)
    r = rng.randint(1, 4)
    m = ro.Model()
    vs, uv = decl_vars(rng, m, n)
    amat = [[dy(rng) for _ in range(n)] for _ in range(r)]
    bvec = [dy(rng) for _ in range(r)]
    e = affine(vs, amat, bvec)
    elementwise = xt in 'AS'
    rout = r if elementwise else 1
    if xt in 'SQ':
        k = rng.choice([1, 4, 0.25, 9, 16, 0.0625, 2.25])   # (a zero multiplier makes the code return the linear constraint on the affine part: C10)
        stored = abs(k) ** 0.5
    else:
        k = rng.choice([1, 2, 0.5, 3, 0.25, 1.5, 4])
        stored = abs(k)
    form = rng.choice(['aff', 'aff', 'const', 'bcast'] if elementwise else ['aff', 'aff', 'const'])
    if form == 'aff':
        gmat = [[dy(rng) for _ in range(n)] for _ in range(rout)]
        gvec = [dy(rng) for _ in range(rout)]
        out = affine(vs, gmat, gvec)
        if not elementwise:
            out = out[0] if rng.random() < 0.5 else out.sum()
    elif form == 'bcast':       # scalar affine broadcast over the element-wise atom
        g = [dy(rng) for _ in range(n)]
        g0 = dy(rng)
        out = affine(vs, [g], [g0])[0]
        gmat, gvec = [g] * rout, [g0] * rout
    else:                       # numeric right-hand side only
        gmat = [[0.0] * n for _ in range(rout)]
        gvec = [dy(rng) for _ in range(rout)]
        out = np.array(gvec) if elementwise else gvec[0]
        if elementwise and rng.random() < 0.5:
            gvec = [gvec[0]] * rout
            out = gvec[0]
    atom = {'A': lambda: abs(e), 'M': lambda: rso.norm(e, 1), 'I': lambda: rso.norm(e, np.inf),
            'E': lambda: rso.norm(e, 2), 'S': lambda: rso.square(e), 'Q': lambda: rso.sumsqr(e)}[xt]()
    style = rng.randint(0, 3)
    if style == 0:
        c = (k * atom + out <= 0)
    elif style == 1:
        c = (atom * k <= -out)
    elif style == 2:
        c = (-out >= k * atom)
    else:
        c = (out + k * atom <= 0)
    ub_json = user_bounds(rng, m, vs)
    m.st(c)
    ncols = n + 1
    # read the constraint data before do_math (do_math widens the stored matrices in place)
    ain, bin_ = aff_data(c.affine_in, r, ncols)
    aout, bout = aff_data(c.affine_out, rout, ncols)
    f = rc_do_math(m)
    # the CvxConstr must carry the data the user wrote (guards the test against vacuity)
    ok_in = (np.array_equal(ain, pad(np.hstack([np.zeros((r, 1)), np.array(amat)]), ncols)) and
             np.array_equal(bin_, np.array(bvec, dtype=float)) and
             np.array_equal(aout, np.hstack([np.zeros((rout, 1)), np.array(gmat, dtype=float)])) and
             np.array_equal(bout, np.array(gvec, dtype=float)) and
             float(c.multiplier) == stored and c.xtype == xt)
    req = {'op': 'atom_encode', 'xtype': c.xtype, 'ncols': ncols, 'mult': fr(c.multiplier),
           'ain': frm(ain), 'bin': frv(bin_), 'aout': frm(aout), 'bout': frv(bout),
           'params': None, 'uservars': uv, 'bounds': ub_json}
    return req, prog_json(f), ok_in, f'atom {xt} n={n} r={r} k={k} form={form}'


def gen_rsocone(rng):
    n = rng.randint(2, 4)
    r = rng.randint(1, 3)
    m = ro.Model()
    vs, uv = decl_vars(rng, m, n)
    ax = [[dy(rng) for _ in range(n)] for _ in range(r)]
    bx = [dy(rng) for _ in range(r)]
    ay = [dy(rng) for _ in range(n)]
    az = [dy(rng) for _ in range(n)]
    by, bz = dy(rng), dy(rng)
    x = affine(vs, ax, bx)
    y = affine(vs, [ay], [by])[0]
    z = affine(vs, [az], [bz])[0]
    c = rso.rsocone(x, y, z)
    ub_json = user_bounds(rng, m, vs)
    m.st(c)
    ncols = n + 1
    ain, bin_ = aff_data(c.affine_in, r + 1, ncols)
    aout, bout = aff_data(c.affine_out, 1, ncols)
    f = rc_do_math(m)
    want = prog_json(f)
    want.update({'mult': fr(c.multiplier), 'ain': frm(ain), 'bin': frv(bin_),
                 'aout': frm(aout), 'bout': frv(bout)})
    z0 = [0.0]
    req = {'op': 'rsocone_encode', 'ncols': ncols, 'ax': frm([z0 + row for row in ax]), 'bx': frv(bx),
           'ay': frv(z0 + ay), 'by': fr(by), 'az': frv(z0 + az), 'bz': fr(bz),
           'uservars': uv, 'bounds': ub_json}
    return req, want, c.xtype == 'E', f'rsocone n={n} r={r}'


def gen_bounds(rng):
    """bound folding + vtype vector on a model with bounds only (through the API and through
    hand-made `Bounds` objects with repeated indices)"""
    m = ro.Model()
    n = rng.randint(1, 5)
    vs, uv = decl_vars(rng, m, n)
    rc = m.rc_model
    bl = []
    for _ in range(rng.randint(0, 6)):
        v = rng.choice(vs)
        kind = rng.randint(0, 4)
        if kind == 0:
            b = (v <= dy(rng, 0.2)) if rng.random() < 0.5 else (v >= dy(rng, 0.2))
        elif kind == 1:
            vec = np.array([dy(rng, 0.2) for _ in range(v.size)])
            b = (v <= vec) if rng.random() < 0.5 else (v >= vec)
        elif kind == 2:
            idx = [rng.randrange(v.size) for _ in range(rng.randint(1, 3))]
            b = (v[idx] <= dy(rng, 0.2)) if rng.random() < 0.5 else (v[idx] >= dy(rng, 0.2))
        elif kind == 3:
            lo = rng.randrange(v.size)
            b = (v[lo:] <= dy(rng, 0.2)) if rng.random() < 0.5 else (v[lo:] >= dy(rng, 0.2))
        else:                   # hand-made object: repeated indices with different values
            cnt = rng.randint(1, 4)
            idx = np.array([rng.randrange(n + 1) for _ in range(cnt)], dtype=np.int32)
            vals = np.array([dy(rng, 0.2) for _ in range(cnt)])
            b = Bounds(rc, idx, vals, rng.choice('UL'))
        assert isinstance(b, Bounds), type(b)
        m.st(b)
        bl.append([b.btype, [int(i) for i in np.asarray(b.indices).reshape(-1)], frv(b.values)])
    f = rc_do_math(m)
    want = {'ub': optv(f.ub), 'lb': optv(f.lb)}
    req = {'op': 'fold_bounds', 'n': n + 1, 'bounds': bl}
    req2 = {'op': 'vtype_vector', 'vars': uv}
    want2 = {'vtype': ''.join(str(t) for t in f.vtype)}
    return [(req, want, True, f'fold_bounds n={n}'), (req2, want2, True, f'vtype_vector {uv}')]


def main():
    seed = int(sys.argv[1]) if len(sys.argv) > 1 else 0
    total = int(sys.argv[2]) if len(sys.argv) > 2 else 200
    rng = random.Random(seed)
    cases = []
    while len(cases) < total:
        u = rng.random()
        if u < 0.7:
            cases.append(gen_atom(rng))
        elif u < 0.85:
            cases.append(gen_rsocone(rng))
        else:
            cases.extend(gen_bounds(rng))
    cases = cases[:total]
    inp = '\n'.join(json.dumps(c[0]) for c in cases) + '\n'
    res = subprocess.run(['lake', 'env', 'lean', '--run', 'Driver.lean'], input=inp, cwd=HERE,
                         capture_output=True, text=True)
    lines = [ln for ln in res.stdout.splitlines() if ln.strip()]
    if len(lines) != len(cases):
        print('driver failure:', res.stderr[-2000:], file=sys.stderr)
        print(f'cases {len(cases)} mismatches {len(cases)}')
        sys.exit(1)
    mism = 0
    hist = {}
    for (req, want, ok_in, label), ln in zip(cases, lines):
        got = json.loads(ln)
        bad = []
        if 'error' in got:
            bad.append('error: ' + got['error'])
        else:
            for key in want:
                if got.get(key) != want[key]:
                    bad.append(key)
        if not ok_in:
            bad.append('constraint-data')
        tag = label.split()[0] + (' ' + label.split()[1] if label.startswith('atom') else '')
        hist[tag] = hist.get(tag, 0) + 1
        if bad:
            mism += 1
            if mism <= 10:
                print('MISMATCH', label, bad, file=sys.stderr)
                for key in bad:
                    if key in want:
                        print('   want', key, want[key], file=sys.stderr)
                        print('   got ', key, got.get(key), file=sys.stderr)
    print('coverage', ' '.join(f'{k}:{v}' for k, v in sorted(hist.items())))
    print(f'cases {len(cases)} mismatches {mism}')
    sys.exit(0 if mism == 0 else 1)


if __name__ == '__main__':
    main()
