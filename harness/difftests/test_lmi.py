"""Differential test: Lean model `LmiProg.lmiDual` (RsomeV/M/Lmi.lean, driver op `lmi_dual`)
against the real `rsome.gcp.Model.do_math(primal=False)` on random small programs with LMI blocks,
ENTRY BY ENTRY (rows, bounds, cost, cone index lists and the `lmi` list).

usage:  RSOMEV_LEAN_DIR=<lean project> PYTHONPATH=<rsome checkout> /venv/bin/python test_lmi.py <seed> <N>
prints  `cases <n> mismatches <k>`  (exit status 0 iff k == 0).

Formulation level only (no SDP solver is needed or used).  All data are small dyadic rationals, so the
floating-point formulation is exact and compared as rationals.
"""
import sys
import os
import json
import random
import subprocess
import warnings
from collections import Counter
from fractions import Fraction

import numpy as np
import scipy.sparse as sp

import rsome                                     # noqa: E402  (PYTHONPATH selects the checkout)
from rsome import gcp                            # noqa: E402
import rsome as rso                              # noqa: E402

warnings.filterwarnings('ignore')
HERE = os.environ.get('RSOMEV_LEAN_DIR', os.path.dirname(os.path.abspath(__file__)))


# ----------------------------------------------------------------------------- exact export
def fr(v):
    f = Fraction(float(v))
    return str(f.numerator) if f.denominator == 1 else f'{f.numerator}/{f.denominator}'


def optfr(v):
    return None if np.isinf(v) else fr(v)


def dense(m):
    return np.asarray(m.todense()) if sp.issparse(m) else np.asarray(m)


def lmi_json(lmi):
    out = []
    for blk in lmi:
        L = dense(blk['linear'])
        d = int(blk['dim'])
        c = np.asarray(blk['const'], dtype=float)
        out.append({'dim': d, 'w': int(L.shape[1]),
                    'linear': [[fr(v) for v in row] for row in L],
                    'const': [fr(v) for v in c.reshape(-1)],
                    '_rows': int(L.shape[0]), '_cshape': list(c.shape)})
    return out


def prog_json(f):
    A = dense(f.linear)
    d = {'nr': int(A.shape[0]), 'nc': int(A.shape[1]),
         'a': [[fr(v) for v in row] for row in A],
         'b': [fr(v) for v in np.asarray(f.const).reshape(-1)],
         'eq': [int(s) for s in np.asarray(f.sense).reshape(-1)],
         'ub': [optfr(v) for v in f.ub], 'lb': [optfr(v) for v in f.lb],
         'c': [fr(v) for v in np.asarray(f.obj).reshape(-1)]}
    L = sp.csr_matrix(f.linear) if not sp.isspmatrix_csr(f.linear) else f.linear
    d['sp'] = [sorted(set(int(c) for c in L.indices[L.indptr[i]:L.indptr[i + 1]]))
               for i in range(L.shape[0])]
    d['qmat'] = [[int(i) for i in q] for q in f.qmat]
    d['xmat'] = [[int(i) for i in q] for q in f.xmat]
    d['lmi'] = lmi_json(f.lmi)
    return d


# ----------------------------------------------------------------------------- random programs
DY = [-3, -2, -1.5, -1, -0.75, -0.5, -0.25, 0.25, 0.5, 0.75, 1, 1.5, 2, 3]


def dy(rng, zero=0.3):
    return 0.0 if rng.random() < zero else float(rng.choice(DY))


def dyarr(rng, shape, zero=0.3):
    size = int(np.prod(shape))
    return np.array([dy(rng, zero) for _ in range(size)], dtype=float).reshape(shape)


def rand_mat(rng, d, zero, sym):
    M = dyarr(rng, (d, d), zero)
    if sym:
        M = np.triu(M) + np.triu(M, 1).T
    return M


def build_robust(rng):
    """a robust model (`ro.Model`): uncertain rows over a norm-ball and/or LMI uncertainty set, plus a
    deterministic LMI in the decisions.  The counterpart model holds `ConeConstr` on multiplier columns
    (general SOC layout in its dual) and the LMIs `le_to_rc` builds from the support's dual LMI."""
    from rsome import ro
    tags = ['mode.robust']
    m = ro.Model()
    nx = rng.randint(2, 3)
    x = m.dvar(nx)
    nz = rng.randint(2, 3)
    z = m.rvar(nz)
    zset = []
    r = rng.random()
    if r < 0.7:
        zset.append(rso.norm(z) <= rng.choice([1, 2, 0.5]))
        tags.append('set.norm')
    if r > 0.4:
        d = 2
        expr = None
        for k in range(nz):
            term = z[k] * rand_mat(rng, d, 0.3, True)
            expr = term if expr is None else expr + term
        C = rand_mat(rng, d, 0.3, True) + 2 * np.eye(d)
        zset.append(expr + C >> 0)
        zset.append(z <= 2)
        zset.append(z >= -2)
        tags.append('set.lmi')
    for _ in range(rng.randint(1, 2)):
        a = dyarr(rng, (nx,), 0.3)
        B = dyarr(rng, (nz, nx), 0.4)
        m.st(((a + z @ B) @ x <= dy(rng) + z @ dyarr(rng, (nz,), 0.5)).forall(zset))
    if rng.random() < 0.8:
        d = 2
        expr = None
        for k in range(nx):
            term = x[k] * rand_mat(rng, d, 0.4, True)
            expr = term if expr is None else expr + term
        m.st(expr + rand_mat(rng, d, 0.4, True) >> 0)
        tags.append('lmi.affine')
    for k in range(nx):
        if rng.random() < 0.3:
            m.st(x[k] >= dy(rng))
    c = dyarr(rng, (nx,), 0.2)
    m.min(c @ x)
    return m, None, tags


def rc_lmi_cases(m):
    """the LMI constraints `RoConstr.le_to_rc()` appends, against the Lean model `RoRows.rcLmi`:
    returns a list of (request, expected lmi list)"""
    from rsome.lp import RoConstr, LMIConstr
    out = []
    for constr in m.all_constr:
        if not isinstance(constr, RoConstr) or not constr.support or not constr.support.lmi:
            continue
        S = prog_json(constr.support)
        nd = int(constr.dec_model.last)
        mm = int(constr.raffine.shape[0])
        got = [{'linear': c.linear, 'const': c.const, 'dim': c.dim}
               for c in constr.le_to_rc() if isinstance(c, LMIConstr)]
        out.append(({'op': 'rc_lmi', 'nd': nd, 'm': mm, 'support': S}, lmi_json(got)))
    return out


def build(rng):
    """one random model; returns (model, obj_flag, tags)"""
    tags = []
    if rng.random() < 0.2:
        return build_robust(rng)
    support = rng.random() < 0.4
    if support:
        m = gcp.Model(nobj=True, mtype='S')      # what `ro.Model().sup_model` is
        objflag = False
        tags.append('mode.support')
    else:
        m = gcp.Model()
        objflag = True
        tags.append('mode.model')
    nx = rng.randint(2, 4)
    x = m.dvar(nx)
    late_var = rng.random() < 0.3                # LMI built before another variable is declared
    if not late_var:
        y = m.dvar(rng.randint(1, 2))
    nblk = rng.choice([1, 1, 2])
    for _ in range(nblk):
        d = rng.choice([2, 2, 3])
        kind = rng.random()
        sym = rng.random() < 0.8
        symc = rng.random() < 0.85
        if kind < 0.2:
            # a matrix variable constrained PSD, linked to x by rows
            X = m.dvar((d, d))
            C = rand_mat(rng, d, 0.6, symc)
            if rng.random() < 0.5:
                m.st(X >> C)
            else:
                m.st(-X << -C)
            i, j = rng.randrange(d), rng.randrange(d)
            m.st(X[i, j] + x[rng.randrange(nx)] * dy(rng, 0.0) <= dy(rng))
            tags.append('lmi.matvar')
        else:
            expr = None
            for k in range(nx):
                if rng.random() < 0.75:
                    term = x[k] * rand_mat(rng, d, 0.4, sym)
                    expr = term if expr is None else expr + term
            if expr is None:
                expr = x[0] * np.eye(d)
            C = rand_mat(rng, d, 0.4, symc)
            r = rng.random()
            if r < 0.4:
                m.st(expr + C >> 0)
            elif r < 0.6:
                m.st(expr >> C)
            elif r < 0.8:
                m.st(expr << C)
            else:
                B = rand_mat(rng, d, 0.5, True)
                m.st(expr + x[rng.randrange(nx)] * B >> x[rng.randrange(nx)] * C)
            tags.append('lmi.affine')
        if not sym:
            tags.append('lmi.nonsym_coef')
        if not symc:
            tags.append('lmi.nonsym_const')
    if late_var:
        y = m.dvar(rng.randint(1, 2))
        tags.append('var.late')
    ny = y.size
    allv = [x[k] for k in range(nx)] + [y[k] for k in range(ny)]
    # linear rows
    for _ in range(rng.randint(0, 3)):
        e = None
        for v in allv:
            if rng.random() < 0.6:
                t = v * dy(rng, 0.0)
                e = t if e is None else e + t
        if e is None:
            e = allv[0] * 1.0
        b = dy(rng)
        s = rng.choice(['le', 'ge', 'eq'])
        m.st(e <= b if s == 'le' else (e >= b if s == 'ge' else e == b))
    # bounds
    for v in allv:
        r = rng.random()
        if r < 0.15:
            m.st(v >= 0)
        elif r < 0.40:
            m.st(v <= 0)
            tags.append('bound.ub0')
        elif r < 0.48:
            m.st(v >= dy(rng, 0.0))
        elif r < 0.56:
            m.st(v <= dy(rng, 0.0))
        elif r < 0.6:
            lo = dy(rng, 0.0)
            m.st(v >= lo)
            m.st(v <= lo + rng.choice([0, 1, 2]))
    # second-order cone(s)
    r = rng.random()
    if r < 0.25:
        k = rng.randint(1, min(3, nx))
        m.st(rso.norm(x[:k]) <= y[0])            # compact layout candidates
        tags.append('soc.plain')
    elif r < 0.45:
        k = rng.randint(1, 2)
        A = dyarr(rng, (k, nx), 0.3)
        m.st(rso.norm(A @ x + dyarr(rng, (k,))) <= y[0] * dy(rng, 0.0) + dy(rng))
        tags.append('soc.affine')
    elif r < 0.5:
        m.st(rso.sumsqr(x[:2]) <= y[0])
        tags.append('soc.sumsqr')
    # exponential cone
    if rng.random() < 0.2:
        if rng.random() < 0.5:
            m.st(rso.exp(x[0] * dy(rng, 0.0)) <= y[0])
        else:
            m.st(rso.log(y[0]) >= x[1])
        tags.append('exp.cone')
    if not support:
        c = None
        for v in allv:
            if rng.random() < 0.7:
                t = v * dy(rng, 0.0)
                c = t if c is None else c + t
        if c is None:
            c = allv[0] * 1.0
        if rng.random() < 0.5:
            m.min(c)
        else:
            m.max(c)
    return m, objflag, tags


# ----------------------------------------------------------------------------- hypotheses of the theorem
def hypotheses(P):
    """which side conditions of `lmi_dual_weak` the exported primal satisfies (`width`, `hlq`), and
    whether some LMI block has a coefficient on a column with upper bound 0 (`touches_ub0`: the case
    repaired by commit 19ae405, formerly excluded by the hypothesis `hneg`)"""
    nc = P['nc']
    isneg = [u is not None and Fraction(u) == 0 for u in P['ub']]
    eye = set(j for q in P['qmat'] for j in q)
    res = {'width': True, 'touches_ub0': False, 'hlq': True}
    for blk in P['lmi']:
        if blk['w'] > nc:
            res['width'] = False
        for row in blk['linear']:
            for j, v in enumerate(row):
                if Fraction(v) != 0:
                    if j < nc and isneg[j]:
                        res['touches_ub0'] = True
                    if j in eye:
                        res['hlq'] = False
    return res


def demo():
    """reproducers of what looks wrong in the real code (formulation level, exact arithmetic)"""
    F = Fraction
    # --- 1. LMI on a column with upper bound 0 (defect repaired by commit 19ae405) --------------------
    m = gcp.Model()
    x = m.dvar(1)
    m.min(-x[0])
    m.st(x <= 0)
    m.st((-x[0]) * np.eye(2) - np.eye(2) >> 0)     # (-x-1) I >= 0  <=>  x <= -1 ; optimum 1 at x = -1
    P = prog_json(m.do_math(primal=True))
    D = prog_json(m.do_math(primal=False))
    xp = [F(1), F(-1)]                              # (epigraph t, x)
    M = [sum(F(a) * v for a, v in zip(row, xp)) - F(c) for row, c in zip(P['lmi'][0]['linear'], P['lmi'][0]['const'])]
    prim_ok = all((sum(F(a) * v for a, v in zip(row, xp)) == F(b)) if e else
                  (sum(F(a) * v for a, v in zip(row, xp)) <= F(b))
                  for row, b, e in zip(P['a'], P['b'], P['eq']))
    prim_ok = prim_ok and all(u is None or v <= F(u) for u, v in zip(P['ub'], xp)) and M == [0, 0, 0, 0]
    pval = sum(F(c) * v for c, v in zip(P['c'], xp))
    w = [F(0), F(-1), F(5), F(0), F(0), F(5)]       # multipliers (sym row, epigraph row), Y = 5 I
    #   before the repair this point was dual-feasible with value 10 > 1; now the row of x reads
    #   y1 + Y00 + Y11 <= 0, i.e. trace(Y) <= 1, and the point must be infeasible
    dual_ok = all((sum(F(a) * v for a, v in zip(row, w)) == F(b)) if e else
                  (sum(F(a) * v for a, v in zip(row, w)) <= F(b))
                  for row, b, e in zip(D['a'], D['b'], D['eq']))
    dual_ok = dual_ok and all(u is None or v <= F(u) for u, v in zip(D['ub'], w))
    dual_ok = dual_ok and all(l is None or v >= F(l) for l, v in zip(D['lb'], w))
    Y = [sum(F(a) * v for a, v in zip(row, w)) - F(c) for row, c in zip(D['lmi'][0]['linear'], D['lmi'][0]['const'])]
    dval = -sum(F(c) * v for c, v in zip(D['c'], w))
    print('demo1 (LMI on a column with ub = 0): dual rows', D['a'], 'rhs', D['b'], 'cost', D['c'])
    print('  primal point (t,x)=(1,-1) feasible:', prim_ok, 'value', pval,
          '| dual point y=(0,-1), Y=', Y, 'feasible:', dual_ok, 'value', dval,
          '| WEAK DUALITY VIOLATED' if prim_ok and dual_ok and dval > pval else '| ok (repaired)')
    w2 = [F(0), F(-1), F(1, 2), F(0), F(0), F(1, 2)]
    ok2 = all((sum(F(a) * v for a, v in zip(row, w2)) == F(b)) if e else
              (sum(F(a) * v for a, v in zip(row, w2)) <= F(b))
              for row, b, e in zip(D['a'], D['b'], D['eq']))
    print('  dual point y=(0,-1), Y=I/2 feasible:', ok2, 'value', -sum(F(c) * v for c, v in zip(D['c'], w2)),
          '(= primal optimum)')
    # --- 2. non-symmetric constant: the symmetry row has the wrong sign ------------------------------
    m = gcp.Model()
    X = m.dvar((2, 2))
    m.min(X[0, 0] + X[1, 1])
    C = np.array([[0., 1.], [0., 0.]])
    m.st(X >> C)                                    # matrix X - C: symmetric iff X01 - X10 = +1
    P = prog_json(m.do_math(primal=True))
    row = [(r, b) for r, b, e in zip(P['a'], P['b'], P['eq']) if e][0]
    print('demo2 (X >> C, C=[[0,1],[0,0]]): symmetry row', row[0], '==', row[1],
          '| the matrix handed to the solvers is linear*x - const with const', P['lmi'][0]['const'],
          '-> its (0,1) and (1,0) entries are X01-1 and X10: symmetric iff X01 - X10 = 1,',
          'the row says X01 - X10 =', row[1])
    # --- 3. 1x1 LMI raises ---------------------------------------------------------------------------
    m = gcp.Model()
    z = m.dvar((1, 1))
    m.min(z[0, 0])
    m.st(z >> 0)
    try:
        m.do_math(primal=True)
        print('demo3 (1x1 LMI): formulated')
    except Exception as exc:
        print('demo3 (1x1 LMI): do_math raises', type(exc).__name__, str(exc)[:70])
    return 0


def main():
    if len(sys.argv) > 1 and sys.argv[1] == '--demo':
        return demo()
    seed = int(sys.argv[1]) if len(sys.argv) > 1 else 0
    N = int(sys.argv[2]) if len(sys.argv) > 2 else 100
    rng = random.Random(seed)
    requests, expect = [], []
    rc_requests, rc_expect = [], []
    hist = Counter()
    skipped = Counter()
    hyp = Counter()
    mutated = 0
    while len(requests) < N:
        m, objflag, tags = build(rng)
        try:
            if objflag is None:                    # ro.Model
                rcl = rc_lmi_cases(m)
                p = m.do_math(primal=True)
                P = prog_json(p)
                d = m.do_math(primal=False)
            else:
                p = m.do_math(primal=True, obj=objflag)
                P = prog_json(p)                   # export BEFORE the dual branch (it resizes p.lmi in place)
                d = m.do_math(primal=False, obj=objflag)
            D = prog_json(d)
        except Exception as exc:                   # formulation failures are reported, not hidden
            skipped[type(exc).__name__ + ': ' + str(exc)[:60]] += 1
            if sum(skipped.values()) > 20 * N + 100:
                break
            continue
        if prog_json(p)['lmi'] != P['lmi']:
            mutated += 1
        requests.append({'op': 'lmi_dual', 'prog': P})
        expect.append((P, D, tags))
        if objflag is None:
            for rq, ex in rcl:
                rc_requests.append(rq)
                rc_expect.append(ex)
        for t in set(tags):
            hist[t] += 1
        for k, v in hypotheses(P).items():
            if v:
                hyp[k] += 1
    nmain = len(requests)
    requests = requests + rc_requests
    inp = '\n'.join(json.dumps(r, separators=(',', ':')) for r in requests) + '\n'
    out = subprocess.run(['lake', 'env', 'lean', '--run', 'Driver.lean'], cwd=HERE, input=inp,
                         capture_output=True, text=True)
    lines = [ln for ln in out.stdout.splitlines() if ln.startswith('{')]
    if len(lines) != len(requests):
        print('driver failure', out.stderr[-2000:], lines[-1:] if lines else '')
        print(f'cases {len(expect)} mismatches {len(expect)}')
        return 1
    bad = 0
    KEYS = ('nr', 'nc', 'a', 'b', 'eq', 'ub', 'lb', 'c', 'qmat', 'xmat')
    for i, (P, D, tags) in enumerate(expect):
        rep = json.loads(lines[i])
        errs = []
        if 'error' in rep:
            errs.append('lean error: ' + rep['error'])
        else:
            for b in rep.get('branches', []):
                hist['lean:' + b] += 1
            if {'lmi.neg_row', 'lmi.keep_idx'} <= set(rep.get('branches', [])):
                hist['lean:lmi.neg_row+keep_idx'] += 1
            for key in KEYS:
                if rep.get(key) != D[key]:
                    errs.append(f'{key}: lean {rep.get(key)} real {D[key]}')
            lm, rl = rep.get('lmi'), D['lmi']
            if len(lm) != len(rl):
                errs.append(f'lmi count: lean {len(lm)} real {len(rl)}')
            else:
                for k, (a, b) in enumerate(zip(lm, rl)):
                    if b['_rows'] != b['dim'] ** 2 or b['_cshape'] != [b['dim'], b['dim']]:
                        errs.append(f'lmi[{k}] real shapes {b["_rows"]} {b["_cshape"]}')
                    for key in ('dim', 'w', 'linear', 'const'):
                        if a[key] != b[key]:
                            errs.append(f'lmi[{k}].{key}: lean {a[key]} real {b[key]}')
        if errs:
            bad += 1
            if bad <= 5:
                print('MISMATCH case', i, tags, errs[:4])
    # the LMI constraints of le_to_rc (op rc_lmi)
    rc_bad = 0
    for k, ex in enumerate(rc_expect):
        rep = json.loads(lines[nmain + k])
        errs = []
        if 'error' in rep:
            errs.append('lean error: ' + rep['error'])
        elif len(rep['lmi']) != len(ex):
            errs.append(f'rc lmi count: lean {len(rep["lmi"])} real {len(ex)}')
        else:
            for q, (a, b) in enumerate(zip(rep['lmi'], ex)):
                for key in ('dim', 'w', 'linear', 'const'):
                    if a[key] != b[key]:
                        errs.append(f'rc lmi[{q}].{key}: lean {a[key]} real {b[key]}')
        if errs:
            rc_bad += 1
            if rc_bad <= 3:
                print('MISMATCH rc_lmi', k, errs[:3])
    bad += rc_bad
    print('le_to_rc LMI blocks compared in', len(rc_expect), 'counterparts, mismatches', rc_bad)
    print('coverage', dict(sorted(hist.items())))
    print('theorem side conditions (width, hlq) hold in', {k: hyp[k] for k in ('width', 'hlq')}, 'of', len(expect))
    print('LMI blocks touching a column with ub = 0 in', hyp['touches_ub0'], 'of', len(expect), 'cases')
    print('primal lmi list changed by do_math(primal=False) in', mutated, 'cases')
    if skipped:
        print('skipped (formulation raised)', dict(skipped))
    print(f'cases {len(expect)} mismatches {bad}')
    return 0 if bad == 0 else 1


if __name__ == '__main__':
    sys.exit(main())
