"""Differential test: Lean model `Dro.droToRoc` vs the rows the real `dro.Model.dro_to_roc` emits.

usage (from the lake project directory):
    PYTHONPATH=<rsome checkout> /venv/bin/python test_dro_rows.py <seed> <N>

Random dro models are built through the public `rsome.dro` API (1-4 scenarios; one vector of random
variables or 1-2 scalar ones; per-scenario supports with boxes / norms; probability sets; 0-2 expectation
sets on random events; static / event-wise adaptive / affinely adaptive decisions with random masks;
expectation constraints `E(piece) <= c`, `E(piece) >= c`, `E(piece) == c` (split by the code into two `<=`
halves, each compared), `E(maxof(p1, p2[, p3])) <= c`, vector-valued `E(...) <= c`, and the objective
`minsup(E(...), fset)`).  The REAL `m.dro_to_roc(constr)` is called and

(a) the leading first-stage fragment of the returned list (`LinConstr/Bounds/ConeConstr/ExpConstr` items,
    the output of `le_to_rc(mix_support(primal=False))`) is compared ENTRY BY ENTRY with
    `leToRc (droToRoc …).first (mixSupport pro exps).coneDual` computed by the Lean op `dro_to_roc`;
(b) every second-stage item (`RoConstr` with `.forall(sup_constr[s])`, or `LinConstr`) is compared ENTRY BY
    ENTRY with the Lean rows `(droToRoc …).second` (order: scenario-major, pieces inner), and its `.support`
    with the conic dual of scenario s's support program obtained independently from `sup_model`.

The inputs of the Lean op are obtained from the code's own data: `rule_var()` (decision rules), the
constraint's / pieces' `linear / const / raffine / affine`, `ambset.exp_constr_indices`, and the
`mix_support` inputs (`pro_model.do_math(obj=False)`, `exp_model.do_math(obj=False)` per event); the rule
substitution is recomputed here with dense numpy (all data dyadic, so float arithmetic is exact).
Also re-checked on every case: the hypotheses `hlin` (a `LinConstr` item has no random part in its piece),
`hlay` (`rows_removed = false` for the mixed support) and the well-formedness of the `mix_support` inputs
(`wf_inputs`) of the Lean theorems `C03Rows.dro_rows_sound` / `second_stage_gives_H2`.
Not generated: event index lists with repeated scenarios; random variables declared after the sets.
"""
import contextlib
import json
import os
import subprocess
import sys
import warnings
from fractions import Fraction

warnings.filterwarnings('ignore')
import numpy as np                       # noqa: E402
import scipy.sparse as sp                # noqa: E402
import rsome as rso                      # noqa: E402
from rsome import dro, E                 # noqa: E402
from rsome.lp import (RoConstr, LinConstr, Bounds, ConeConstr, ExpConstr, RoAffine,   # noqa: E402
                      DecLinConstr, DecRoConstr, ExpPWConstr)

HERE = os.environ.get('RSOMEV_LEAN_DIR', os.path.dirname(os.path.abspath(__file__)))


# ----------------------------------------------------------------------------- exact export
def fr(v):
    f = v if isinstance(v, Fraction) else Fraction(float(v))
    return str(f.numerator) if f.denominator == 1 else f'{f.numerator}/{f.denominator}'


def optfr(v):
    return None if np.isinf(v) else fr(v)


def unfr(s):
    return None if s is None else Fraction(s)


def dense(m):
    if sp.issparse(m):
        return np.asarray(m.todense())
    return np.asarray(m)


def pad(A, w):
    A = np.asarray(A, dtype=float)
    A = A.reshape(1, -1) if A.ndim == 1 else A
    if A.shape[1] > w:
        assert not np.any(A[:, w:]), 'non-zero entry beyond the expected width'
        return A[:, :w]
    return np.hstack([A, np.zeros((A.shape[0], w - A.shape[1]))])


def prog_json(f):
    """GCProg -> the JSON format of readConeProg (exact fractions)"""
    lin = sp.csr_matrix(f.linear)
    nr, nc = lin.shape
    A = np.asarray(lin.todense())
    return {
        'nr': int(nr), 'nc': int(nc),
        'a': [[fr(A[i, j]) for j in range(nc)] for i in range(nr)],
        'b': [fr(v) for v in np.asarray(f.const).reshape(-1)],
        'eq': [int(v) for v in np.asarray(f.sense).reshape(-1)],
        'ub': [optfr(v) for v in f.ub],
        'lb': [optfr(v) for v in f.lb],
        'c': [fr(v) for v in np.asarray(f.obj).reshape(-1)],
        'qmat': [[int(j) for j in q] for q in f.qmat],
        'xmat': [[int(j) for j in e] for e in f.xmat],
        'sp': [sorted(set(int(j) for j in lin.indices[lin.indptr[i]:lin.indptr[i + 1]])) for i in range(nr)],
    }


def fragment_from_code(out, nc):
    """the list returned by le_to_rc as one dense program fragment (as ref_c01_harness.fragment_from_code)"""
    rows = []; b = []; eq = []; sizes = []
    ub = [None] * nc; lb = [None] * nc
    qmat = []; xmat = []
    for c in out:
        if isinstance(c, LinConstr):
            A = pad(dense(c.linear), nc)
            rows.append(A); b += [fr(v) for v in np.asarray(c.const).reshape(-1)]
            eq += [int(s) for s in np.asarray(c.sense).reshape(-1)]
            sizes.append(A.shape[0])
        elif isinstance(c, Bounds):
            for i, v in zip(np.asarray(c.indices).reshape(-1), np.asarray(c.values).reshape(-1)):
                if c.btype == 'U':
                    ub[int(i)] = fr(v) if ub[int(i)] is None else fr(min(float(unfr(ub[int(i)])), v))
                else:
                    lb[int(i)] = fr(v) if lb[int(i)] is None else fr(max(float(unfr(lb[int(i)])), v))
        elif isinstance(c, ConeConstr):
            qmat.append([int(c.right_var.first + c.right_index)] + [int(c.left_var.first + i) for i in c.left_index])
        elif isinstance(c, ExpConstr):
            cols = []
            for e in (c.expr1, c.expr2, c.expr3):
                a = e.to_affine()
                L = dense(a.linear)
                nzc = np.nonzero(L.reshape(-1))[0]
                assert len(nzc) == 1 and L.reshape(-1)[nzc[0]] == 1 and not np.any(a.const)
                cols.append(int(nzc[0]))
            xmat.append(cols)
        else:
            raise TypeError(type(c).__name__)
    A = np.vstack(rows) if rows else np.zeros((0, nc))
    return {"nr": int(A.shape[0]), "nc": int(nc), "a": [[fr(v) for v in r] for r in A], "b": b, "eq": eq,
            "ub": ub, "lb": lb, "qmat": qmat, "xmat": xmat,
            "n1": sizes[0] if sizes else 0, "n2": sizes[1] if len(sizes) > 1 else 0,
            "third": sizes[2] if len(sizes) > 2 else 0, "nblocks": len(sizes)}


def rows_json(con, nd):
    """an RoConstr as exact rationals (as ref_c01_harness.rows_json)"""
    raff = con.raffine
    m_, nz = raff.shape
    Rl = pad(dense(raff.linear), nd).reshape(m_, nz, nd)
    Rc = np.asarray(raff.const).reshape(m_, nz)
    al = pad(dense(con.affine.linear), nd).reshape(m_, nd)
    ac = np.asarray(con.affine.const).reshape(m_)
    return {"nd": int(nd), "m": int(m_), "nz": int(nz),
            "Rl": [[[fr(v) for v in r] for r in blk] for blk in Rl], "Rc": [[fr(v) for v in r] for r in Rc],
            "al": [[fr(v) for v in r] for r in al], "ac": [fr(v) for v in ac]}


def lin_rows_json(con, nd, nz):
    """a second-stage LinConstr `linear x <= const` as a block of one row without random part"""
    A = pad(dense(con.linear), nd)
    assert A.shape[0] == 1
    return {"nd": int(nd), "m": 1, "nz": int(nz),
            "Rl": [[[fr(0) for _ in range(nd)] for _ in range(nz)]], "Rc": [[fr(0) for _ in range(nz)]],
            "al": [[fr(v) for v in A[0]]], "ac": [fr(-np.asarray(con.const).reshape(-1)[0])]}


@contextlib.contextmanager
def quiet():
    sys.stdout.flush()
    saved = os.dup(1)
    devnull = os.open(os.devnull, os.O_WRONLY)
    try:
        os.dup2(devnull, 1)
        yield
    finally:
        sys.stdout.flush()
        os.dup2(saved, 1)
        os.close(devnull)
        os.close(saved)


# ----------------------------------------------------------------------------- random models
def dy(rng, lo=-4, hi=4, den=4):
    return int(rng.integers(lo * den, hi * den + 1)) / den


def nzdy(rng, lo=-2, hi=2, den=2):
    while True:
        v = dy(rng, lo, hi, den)
        if v != 0:
            return v


def rand_probs(rng, S):
    cuts = sorted(int(rng.integers(0, 17)) for _ in range(S - 1))
    pts = [0] + cuts + [16]
    return np.array([(pts[i + 1] - pts[i]) / 16 for i in range(S)])


def build_model(rng, tags):
    """a random dro model; returns (model, list of ('constr', c) / ('obj', None) targets)"""
    S = int(rng.integers(1, 5))
    m = dro.Model(S)
    # random variables: a vector, or one / two scalars
    how = int(rng.integers(0, 3))
    if how == 0:
        nz = int(rng.integers(1, 4))
        zv = m.rvar(nz)
        zs = [zv[j] for j in range(nz)]
        tags.append('rv:vector%d' % nz)
    else:
        nz = how
        zl = [m.rvar() for _ in range(nz)]
        zs = zl
        zv = None
        tags.append('rv:scalars%d' % nz)
    fset = m.ambiguity()
    p = m.p

    # supports, per scenario (every scenario needs one: forall(sup_constr[s]))
    def one_support():
        cons = []
        kind = ['box', 'box+norm2', 'box+norm1', 'box+lin', 'norminf'][int(rng.integers(0, 5))]
        for z in zs:
            lo = dy(rng, -4, 0)
            hi = lo + int(rng.integers(0, 13)) / 4
            if kind != 'norminf':
                cons += [z >= lo, z <= hi]
        if kind == 'box+norm2':
            if zv is not None:
                cons.append(rso.norm(zv, 2) <= dy(rng, 1, 4))
            else:
                cons.append(abs(sum(nzdy(rng) * z for z in zs)) <= dy(rng, 1, 4))
        elif kind == 'box+norm1':
            if zv is not None:
                cons.append(rso.norm(zv, 1) <= dy(rng, 1, 4))
            else:
                cons.append(abs(zs[0]) <= dy(rng, 1, 4))
        elif kind == 'box+lin':
            cons.append(sum(nzdy(rng) * z for z in zs) <= dy(rng, 0, 4))
        elif kind == 'norminf':
            if zv is not None:
                cons.append(rso.norm(zv, 'inf') <= dy(rng, 1, 4))
            else:
                cons += [abs(z) <= dy(rng, 1, 4) for z in zs]
        tags.append('sup:' + kind)
        return cons
    if rng.random() < 0.3:
        fset.suppset(*one_support())
    else:
        for s in range(S):
            fset[s].suppset(*one_support())

    # probability set
    kinds = ['none', 'fixed', 'box', 'norm1', 'norm2', 'norminf', 'kl']
    kind = kinds[int(rng.integers(0, len(kinds)))]
    p0 = rand_probs(rng, S)
    r = int(rng.integers(1, 5)) / 8
    if kind == 'fixed':
        fset.probset(p == p0)
    elif kind == 'box':
        fset.probset(p >= np.maximum(p0 - r, 0), p <= p0 + r)
    elif kind == 'norm1':
        fset.probset(rso.norm(p - p0, 1) <= r)
    elif kind == 'norm2':
        fset.probset(rso.norm(p - p0, 2) <= r)
    elif kind == 'norminf':
        fset.probset(rso.norm(p - p0, 'inf') <= r)
    elif kind == 'kl':
        phat = np.array([1 / S] * S) if S in (1, 2, 4) else np.array([0.25, 0.25, 0.5])
        fset.probset(p.kldiv(phat, r))
    tags.append('prob:' + kind)

    # expectation sets on random events
    def Ez(j):
        return E(zs[j])
    nE = int(rng.integers(0, 3))
    tags.append('events=%d' % nE)
    for ie in range(nE):
        pieces = []
        for _ in range(int(rng.integers(1, 3))):
            c = ['lo', 'hi', 'eq', 'lin', 'norm2', 'exp'][int(rng.integers(0, 6))]
            j = int(rng.integers(0, nz))
            if c == 'lo':       # (`E(z[j]) >= real` on an element of a vector is refused by the API: use the vector form)
                pieces.append(Ez(j) >= dy(rng) if zv is None else E(zv) >= np.array([dy(rng) for _ in range(nz)]))
            elif c == 'hi':
                pieces.append(Ez(j) <= dy(rng) if zv is None else E(zv) <= np.array([dy(rng) for _ in range(nz)]))
            elif c == 'eq':
                pieces.append(Ez(j) == dy(rng))
            elif c == 'lin':
                pieces.append(sum(dy(rng, -2, 2, 2) * Ez(t) for t in range(nz)) <= dy(rng))
            elif c == 'norm2':
                if zv is not None:
                    pieces.append(rso.norm(E(zv) - np.array([dy(rng, -2, 2, 2) for _ in range(nz)]), 2) <= dy(rng, 0, 4))
                else:
                    pieces.append(abs(Ez(j) - dy(rng, -2, 2, 2)) <= dy(rng, 0, 4))
            elif c == 'exp':
                pieces.append(rso.exp(nzdy(rng) * Ez(j) + dy(rng, -2, 2)) <= dy(rng, 1, 4))
            tags.append('exp-piece:' + c)
        how = int(rng.integers(0, 3))
        if how == 0 or S == 1:
            fset.exptset(*pieces)
            tags.append('event:all')
        elif how == 1:
            fset.iloc[int(rng.integers(0, S))].exptset(*pieces)
            tags.append('event:single')
        else:
            size = int(rng.integers(1, S + 1))
            sub = sorted(int(s) for s in rng.choice(S, size=size, replace=False))
            if rng.random() < 0.3:
                sub = sub[::-1]
            fset.iloc[sub].exptset(*pieces)
            tags.append('event:subset')

    # decisions: static x, event-wise y, affinely adaptive w (random masks), event-wise + affine u
    x = m.dvar(int(rng.integers(1, 3)))
    dec = [('x', x, True)]            # (name, var, may be multiplied by a random variable)
    if rng.random() < 0.6:
        y = m.dvar(int(rng.integers(1, 3)))
        if S > 1:
            parts = int(rng.integers(1, S + 1))
            order = [int(s) for s in rng.permutation(S)]
            cut = sorted(int(c) for c in rng.choice(np.arange(1, S), size=min(parts, S) - 1, replace=False)) if S > 1 else []
            groups = [order[a:b] for a, b in zip([0] + cut, cut + [S])]
            for g in groups[1:]:
                y.adapt(g if len(g) > 1 or rng.random() < 0.5 else g[0])
            tags.append('dec:eventwise(%d)' % len(groups))
        dec.append(('y', y, True))
    affine = False
    if rng.random() < 0.5:
        w = m.dvar(int(rng.integers(1, 3)))
        mask_any = False
        for a in range(w.size):
            for j in range(nz):
                if rng.random() < 0.5:
                    w[a].adapt(zs[j]); mask_any = True
        if not mask_any:
            w[0].adapt(zs[0])
        if S > 1 and rng.random() < 0.5:
            w.adapt(int(rng.integers(0, S)))
            tags.append('dec:affine+eventwise')
        else:
            tags.append('dec:affine')
        dec.append(('w', w, False))
        affine = True
    if not affine and len(dec) == 1:
        tags.append('dec:static-only')

    def rand_piece(force_random=None):
        """a random bi-affine scalar expression; returns (expr, has_random_part)"""
        expr = dy(rng)
        has_r = False
        has_d = False
        want_r = (rng.random() < 0.75) if force_random is None else force_random
        for (nm, v, mult) in dec:
            for a in range(v.size):
                if rng.random() < 0.6:
                    expr = expr + nzdy(rng) * v[a]
                    has_d = True
                if want_r and mult and rng.random() < 0.4:
                    j = int(rng.integers(0, nz))
                    expr = expr + nzdy(rng) * (v[a] * zs[j])
                    has_r = True
                    has_d = True
        if not has_d:
            expr = expr + nzdy(rng) * x[0]
        if want_r and (rng.random() < 0.6 or not has_r):
            j = int(rng.integers(0, nz))
            expr = expr + nzdy(rng) * zs[j]
            has_r = True
        return expr, has_r

    targets = []
    # objective
    okind = ['E1', 'Emax', 'plain'][int(rng.integers(0, 3))]
    if okind == 'E1':
        e, _ = rand_piece(True)
        m.minsup(E(e), fset)
        targets.append(('obj', None, 'obj:E(piece)'))
    elif okind == 'Emax':
        k = int(rng.integers(2, 4))
        ps = [rand_piece()[0] for _ in range(k)]
        m.minsup(E(rso.maxof(*ps)), fset)
        targets.append(('obj', None, 'obj:E(maxof%d)' % k))
    else:
        m.minsup(x.sum(), fset)

    # expectation constraints
    for _ in range(int(rng.integers(1, 4))):
        ckind = ['E1<=', 'E1>=', 'Emax', 'Edet', 'Evec', 'E1=='][int(rng.integers(0, 6))]
        if ckind == 'E1<=':
            e, _ = rand_piece(True)
            c = E(e) <= dy(rng)
        elif ckind == 'E1>=':
            e, _ = rand_piece(True)
            c = E(e) >= dy(rng)
        elif ckind == 'E1==':
            e, _ = rand_piece(rng.random() < 0.7)
            c = E(e) == dy(rng)
        elif ckind == 'Emax':
            k = int(rng.integers(2, 4))
            ps = [rand_piece()[0] for _ in range(k)]
            c = E(rso.maxof(*ps)) <= dy(rng)
            ckind = 'Emax%d' % k
        elif ckind == 'Edet':
            e, _ = rand_piece(False)
            c = E(e) <= dy(rng)
        else:
            if zv is None or x.size < 1:
                e, _ = rand_piece(True)
                c = E(e) <= dy(rng)
                ckind = 'E1<='
            else:
                k = 2
                A = np.array([[dy(rng, -2, 2, 2) for _ in range(nz)] for _ in range(k)])
                B = np.array([[dy(rng, -2, 2, 2) for _ in range(x.size)] for _ in range(k)])
                c = E(A @ zv + B @ x + nzdy(rng) * x[0] * zv[:1]) <= np.array([dy(rng) for _ in range(k)])
        m.st(c)
        targets.append(('constr', len(m.all_constr) - 1, 'con:' + ckind))
    # an ordinary robust constraint so that the model is not purely in expectation
    if rng.random() < 0.5:
        m.st(x[0] + zs[0] <= 10)
    return m, fset, S, nz, targets


# ----------------------------------------------------------------------------- one model -> requests
def piece_data(constr, num_var, nz):
    """(linear, const, raffine-linear, raffine-const, has_raffine) of every piece, as dro_to_roc reads them"""
    out = []
    pieces = constr.pieces if isinstance(constr, ExpPWConstr) else [constr]
    for pc in pieces:
        if isinstance(pc, DecLinConstr):
            L = pad(dense(pc.linear), num_var)
            c0 = -np.asarray(pc.const, dtype=float).reshape(-1)
            out.append((L, c0, None, None, False))
        else:
            L = pad(dense(pc.affine.linear), num_var)
            c0 = np.asarray(pc.affine.const, dtype=float).reshape(-1)
            assert pc.raffine.shape[1] == nz, 'raffine has %d columns, num_rand = %d' % (pc.raffine.shape[1], nz)
            RL = pad(dense(pc.raffine.linear), num_var)
            RC = np.asarray(pc.raffine.const, dtype=float).reshape(-1, nz)
            out.append((L, c0, RL, RC, True))
    return out


def requests_of_model(rng, tags, stats):
    m, fset, S, nz, targets = build_model(rng, tags)
    with quiet():
        m.do_math()                       # rule_var() exists; ro_model is populated as in a real solve
    reqs = []
    rc_model = m.ro_model.rc_model
    num_var = m.vt_model.vars[-1].last
    assert m.sup_model.vars[-1].last == nz
    for (kind, ci, tag) in targets:
        if kind == 'obj':
            constr = (m.dec_vars[0] >= m.obj * m.sign)        # as do_math builds it
        else:
            constr = m.all_constr[ci]
        assert isinstance(constr, ExpPWConstr) or constr.ctype == 'E', (type(constr).__name__, tag)
        ambset = constr.ambset if constr.ambset else m.obj_ambiguity
        assert ambset is fset
        drules = m.rule_var()
        n0 = rc_model.last
        pdata0 = piece_data(constr, num_var, nz)               # before the call
        nrows = pdata0[0][0].shape[0]
        # an equality `E(...) == c` is split by the code into `<=` of the expression and of its negation
        is_equal = False
        if not isinstance(constr, ExpPWConstr):
            sense = constr.sense
            is_equal = bool(np.all(np.asarray(sense) == 1))
        halves = [pdata0]
        if is_equal:
            halves.append([(-L, -c0, None if RL is None else -RL, None if RC is None else -RC, has)
                           for (L, c0, RL, RC, has) in pdata0])
        with quiet():
            out = m.dro_to_roc(constr)                        # THE REAL CALL
        nd_after = rc_model.last
        nE = len(ambset.exp_constr)
        npieces = len(pdata0)
        assert len(out) % (nrows * len(halves)) == 0
        chunk = len(out) // (nrows * len(halves))
        F = chunk - S * npieces
        assert F >= 2
        # inputs of mix_support, exactly as the code obtains them
        model = ambset.model
        model.pro_model.reset()
        model.pro_model.st(ambset.pro_constr)
        pro = prog_json(model.pro_model.do_math(obj=False))
        exps = []
        for econstr, indices in zip(ambset.exp_constr, ambset.exp_constr_indices):
            model.exp_model.reset()
            model.exp_model.st(econstr)
            exps.append({'prog': prog_json(model.exp_model.do_math(obj=False)), 'indices': [int(s) for s in indices]})
        mixed = ambset.mix_support(primal=False)
        size_support = mixed.linear.shape[1]
        mixed_nr = mixed.linear.shape[0]
        # supports of the scenarios, independently of the returned items
        sups = []
        for s in range(S):
            m.sup_model.reset()
            for item in ambset.sup_constr[s]:
                m.sup_model.st(item)
            sups.append(prog_json(m.sup_model.do_math(primal=False, obj=False)))
        # decision rules as dense matrices over the columns that exist before alpha
        rule_ro = isinstance(drules[0], RoAffine)
        D = []; d0 = []; DR = []; DRc = []
        for s in range(S):
            dr = drules[s]
            assert isinstance(dr, RoAffine) == rule_ro
            aff = dr.affine if rule_ro else dr
            D.append(pad(dense(aff.linear), n0)); d0.append(np.asarray(aff.const, dtype=float).reshape(-1))
            assert D[-1].shape[0] == num_var
            if rule_ro:
                assert dr.raffine.shape == (num_var, nz)
                DR.append(pad(dense(dr.raffine.linear), n0)); DRc.append(np.asarray(dr.raffine.const, dtype=float).reshape(num_var, nz))
            else:
                DR.append(np.zeros((num_var * nz, n0))); DRc.append(np.zeros((num_var, nz)))
        per_row = S + nz * nE + size_support
        for hi_ in range(nrows * len(halves)):
            half, i = divmod(hi_, nrows)
            pdata = halves[half]
            acol0 = n0 + hi_ * per_row
            pieces = []
            for s in range(S):
                row = []
                for (L, c0, RL, RC, has) in pdata:
                    al = L[i] @ D[s]
                    ac = L[i] @ d0[s] + c0[i]
                    Rl = np.zeros((nz, n0)); Rc = np.zeros(nz)
                    for j in range(nz):
                        Rl[j] = sum(L[i, v] * DR[s][v * nz + j] for v in range(num_var))
                        Rc[j] = sum(L[i, v] * DRc[s][v, j] for v in range(num_var))
                        if has:
                            Rl[j] += RL[i * nz + j] @ D[s]
                            Rc[j] += RL[i * nz + j] @ d0[s] + RC[i, j]
                    row.append({'Rl': [[fr(v) for v in r] for r in Rl], 'Rc': [fr(v) for v in Rc],
                                'al': [fr(v) for v in al], 'ac': fr(ac)})
                pieces.append(row)
            req = {'op': 'dro_to_roc', 'pro': pro, 'exps': exps, 'S': S, 'nrand': nz, 'acol0': int(acol0),
                   'np': npieces, 'rand': [int(pd[4]) for pd in pdata], 'rule_ro': int(rule_ro),
                   'nd2': int(nd_after), 'pieces': pieces}
            items = out[hi_ * chunk:(hi_ + 1) * chunk]
            nc1 = acol0 + S + nz * nE + size_support
            frag = fragment_from_code(items[:F], nc1)
            second = []
            for t, o in enumerate(items[F:]):
                s, l = divmod(t, npieces)
                if isinstance(o, RoConstr):
                    assert np.all(np.asarray(o.sense) == 0)
                    second.append({'s': s, 'l': l, 'lin': 0, 'rows': rows_json(o, nd_after),
                                   'support_ok': prog_json(o.support) == sups[s]})
                elif isinstance(o, LinConstr):
                    assert np.all(np.asarray(o.sense) == 0)
                    second.append({'s': s, 'l': l, 'lin': 1, 'rows': lin_rows_json(o, nd_after, nz), 'support_ok': True})
                else:
                    raise TypeError(type(o).__name__)
            reqs.append((req, {'req_pieces': pieces, 'frag': frag, 'second': second, 'mixed_nr': mixed_nr, 'tag': tag, 'row': i,
                               'nrows': nrows, 'half': half, 'is_equal': is_equal, 'rule_ro': rule_ro, 'nE': nE, 'S': S,
                               'events_of': [[k for k in range(nE) if s in ambset.exp_constr_indices[k]] for s in range(S)]}))
    return reqs


FRAGKEYS = ('nr', 'nc', 'a', 'b', 'eq', 'ub', 'lb', 'qmat', 'xmat', 'n1', 'n2', 'n3', 'n4')


def compare(lean, meta):
    bad = []
    if 'error' in lean:
        return ['error: ' + lean['error']]
    frag = dict(meta['frag'])
    third = frag.pop('third'); nblocks = frag.pop('nblocks')
    if nblocks > 3:
        bad.append('first:blocks')
    nz1 = lean['first']['nz']
    frag['n3'] = third if nz1 < meta['mixed_nr'] else 0
    frag['n4'] = third if nz1 > meta['mixed_nr'] else 0
    for k in FRAGKEYS:
        if frag.get(k) != lean['first_rc'].get(k):
            bad.append('first:' + k)
    if not lean.get('wf_inputs', False):
        bad.append('wf_inputs')
    if len(lean['second']) != len(meta['second']):
        bad.append('second:length')
        return bad
    for a, b in zip(lean['second'], meta['second']):
        for k in ('s', 'l', 'lin'):
            if a[k] != b[k]:
                bad.append('second[%d,%d]:%s' % (b['s'], b['l'], k))
        for k in ('nd', 'm', 'nz', 'Rl', 'Rc', 'al', 'ac'):
            if a['rows'][k] != b['rows'][k]:
                bad.append('second[%d,%d]:%s' % (b['s'], b['l'], k))
        if not b['support_ok']:
            bad.append('second[%d,%d]:support' % (b['s'], b['l']))
        if b['lin']:          # hypothesis `hlin` of the Lean theorems: a LinConstr item has no random part in its piece
            pc = meta['req_pieces'][b['s']][b['l']]
            if any(v != '0' for r in pc['Rl'] for v in r) or any(v != '0' for v in pc['Rc']):
                bad.append('second[%d,%d]:hlin' % (b['s'], b['l']))
    if lean.get('rows_removed'):       # hypothesis `hlay` of the Lean theorems
        bad.append('hlay')
    return bad


def main():
    seed = int(sys.argv[1]) if len(sys.argv) > 1 else 0
    n = int(sys.argv[2]) if len(sys.argv) > 2 else 50
    rng = np.random.default_rng(seed)
    cases = []
    hist = {}
    build_errors = {}
    nmodels = 0
    while len(cases) < n:
        tags = []
        try:
            rq = requests_of_model(rng, tags, hist)
        except (AssertionError, TypeError):
            raise
        except Exception as e:                       # the API refuses the random combination
            key = type(e).__name__ + ':' + str(e)[:60]
            build_errors[key] = build_errors.get(key, 0) + 1
            if sum(build_errors.values()) > 20 * n + 100:
                raise
            continue
        nmodels += 1
        for t in tags:
            t = t.split('(')[0] if t.startswith('dec:eventwise') else t
            hist['model:' + t] = hist.get('model:' + t, 0) + 1
        cases.extend(rq)
    cases = cases[:max(n, 1)]
    inp = '\n'.join(json.dumps(c[0], separators=(',', ':')) for c in cases) + '\n'
    out = subprocess.run(['lake', 'env', 'lean', '--run', 'Driver.lean'], input=inp, cwd=HERE,
                         capture_output=True, text=True)
    lines = [ln for ln in out.stdout.splitlines() if ln.startswith('{')]
    if len(lines) != len(cases):
        print('driver failure', out.stderr[:2000], out.stdout[:2000])
        print(f'cases {len(cases)} mismatches {len(cases)}')
        sys.exit(1)
    mism = 0

    def cnt(k, v=1):
        hist[k] = hist.get(k, 0) + v
    for (req, meta), ln in zip(cases, lines):
        lean = json.loads(ln)
        bad = compare(lean, meta)
        if bad:
            mism += 1
            print('MISMATCH', bad[:8], meta['tag'], 'row', meta['row'])
        cnt(meta['tag'])
        cnt('pieces=%d' % req['np'])
        cnt('rule:RoAffine' if meta['rule_ro'] else 'rule:Affine')
        cnt('events=%d' % meta['nE'])
        cnt('rows-of-constraint=%d' % meta['nrows'])
        if meta['is_equal']:
            cnt('equality-split:half%d' % meta['half'])
        cnt('piece:DecLinConstr', sum(1 for r in req['rand'] if not r))
        cnt('piece:DecRoConstr', sum(1 for r in req['rand'] if r))
        cnt('second:RoConstr', sum(1 for b in meta['second'] if not b['lin']))
        cnt('second:LinConstr', sum(1 for b in meta['second'] if b['lin']))
        cnt('scenario-in-0-events', sum(1 for e in meta['events_of'] if len(e) == 0))
        cnt('scenario-in-1-event', sum(1 for e in meta['events_of'] if len(e) == 1))
        cnt('scenario-in-2-events', sum(1 for e in meta['events_of'] if len(e) == 2))
        f = meta['frag']
        cnt('first:third-block' if f['third'] else 'first:two-blocks')
        cnt('first:soc' if f['qmat'] else 'first:no-soc')
        cnt('first:expcone' if f['xmat'] else 'first:no-expcone')
        if not lean.get('error') and lean.get('rows_removed'):
            cnt('first:rows_removed')
        if any(v != '0' for b in meta['second'] for blk in b['rows']['Rl'] for r in blk for v in r):
            cnt('second:random-coefficient-depends-on-decision')
    print('models', nmodels, 'api-refusals', json.dumps(build_errors, sort_keys=True))
    print('histogram', json.dumps(hist, sort_keys=True))
    print(f'cases {len(cases)} mismatches {mism}')
    sys.exit(0 if mism == 0 else 1)


if __name__ == '__main__':
    main()
