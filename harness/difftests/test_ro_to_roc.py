"""Differential test: Lean model `RoToRoc.roToRoc` vs the list the real `dro.Model.ro_to_roc` returns.

usage (from the lake project directory):
    PYTHONPATH=<rsome checkout> /venv/bin/python test_ro_to_roc.py <seed> <N>

Random dro models are built through the public `rsome.dro` API: 1-4 scenarios; one vector of random variables
or 1-2 scalar ones; a default ambiguity set (objective `minsup`/`maxinf`) or none (`min`/`max`), optionally a
second ambiguity set used with `.forall(...)`; per-scenario supports with boxes / norms; static / event-wise /
affinely adaptive decisions with random masks (also declared AFTER the constraints were written, which makes
random x adaptive products the code must reject); robust constraints `<=`, `>=`, `==` with random coefficients
on not affinely adaptive decisions and deterministic coefficients on adaptive ones; linear constraints among
all decisions (`<=`, `>=`, `==`); scalar and vector-valued; own `.forall(ambiguity set)` /
`.forall([support constraints])` / default set / no set at all; the objective row `dec_vars[0] >= obj*sign`.

For every target constraint the REAL `m.ro_to_roc(constr)` is called (after `m.do_math()`, or after its first
steps when `do_math` itself raises, so that `rule_var()` exists) and
(a) the exception it raises, or
(b) every returned `RoConstr` / `LinConstr` (position, type, sense, `raffine`, `affine` resp. `linear`, `const`)
    is compared ENTRY BY ENTRY with the Lean op `ro_to_roc`; the `.support` of an `RoConstr` is compared with the
    conic dual of the support program of the set the model's tag names (own set / default set, scenario s, or the
    explicit list), formulated independently through `sup_model`;
(c) the rule tables of the Lean model (`Rule.ofDecs`, from the decisions' sizes / events / masks) are compared
    with the matrices of the real `rule_var()`;
(d) the hypotheses `hcols`, `hrst`, `hnv`, `hnz` of `C03Scen.ro_to_roc_sound` are re-checked.
"""
import contextlib
import json
import os
import subprocess
import sys
import warnings
from collections.abc import Iterable
from fractions import Fraction

warnings.filterwarnings('ignore')
import numpy as np                       # noqa: E402
import scipy.sparse as sp                # noqa: E402
import rsome as rso                      # noqa: E402
from rsome import dro                    # noqa: E402
from rsome.lp import (RoConstr, LinConstr, RoAffine, Affine, DecLinConstr, DecRoConstr)   # noqa: E402
from rsome.dro import Ambiguity          # noqa: E402

HERE = os.environ.get('RSOMEV_LEAN_DIR', os.path.dirname(os.path.abspath(__file__)))


# ----------------------------------------------------------------------------- exact export
def fr(v):
    f = v if isinstance(v, Fraction) else Fraction(float(v))
    return str(f.numerator) if f.denominator == 1 else f'{f.numerator}/{f.denominator}'


def optfr(v):
    return None if np.isinf(v) else fr(v)


def dense(m):
    if sp.issparse(m):
        return np.asarray(m.todense())
    return np.asarray(m)


def pad(A, w):
    A = np.asarray(A, dtype=float)
    A = A.reshape(1, -1) if A.ndim == 1 else A
    if A.shape[1] > w:
        assert not np.any(A[:, w:]), 'non-zero entry beyond the expected width'
        return A[:, :w]
    return np.hstack([A, np.zeros((A.shape[0], w - A.shape[1]))])


def prog_json(f):
    lin = sp.csr_matrix(f.linear)
    nr, nc = lin.shape
    A = np.asarray(lin.todense())
    return {
        'nr': int(nr), 'nc': int(nc),
        'a': [[fr(A[i, j]) for j in range(nc)] for i in range(nr)],
        'b': [fr(v) for v in np.asarray(f.const).reshape(-1)],
        'eq': [int(v) for v in np.asarray(f.sense).reshape(-1)],
        'ub': [optfr(v) for v in f.ub],
        'lb': [optfr(v) for v in f.lb],
        'c': [fr(v) for v in np.asarray(f.obj).reshape(-1)],
        'qmat': [[int(j) for j in q] for q in f.qmat],
        'xmat': [[int(j) for j in e] for e in f.xmat],
    }


def rows_of(Rl, Rc, al, ac):
    m_, nz, nd = Rl.shape
    return {"nd": int(nd), "m": int(m_), "nz": int(nz),
            "Rl": [[[fr(v) for v in r] for r in blk] for blk in Rl], "Rc": [[fr(v) for v in r] for r in Rc],
            "al": [[fr(v) for v in r] for r in al], "ac": [fr(v) for v in ac]}


def rows_json(con, nd):
    """an RoConstr as exact rationals"""
    raff = con.raffine
    m_, nz = raff.shape
    assert raff.linear.nnz == np.count_nonzero(dense(raff.linear)), 'explicit zeros stored in raffine.linear'
    Rl = pad(dense(raff.linear), nd).reshape(m_, nz, nd)
    Rc = np.asarray(raff.const, dtype=float).reshape(m_, nz)
    al = pad(dense(con.affine.linear), nd).reshape(m_, nd)
    ac = np.asarray(con.affine.const, dtype=float).reshape(m_)
    return rows_of(Rl, Rc, al, ac)


def lin_rows_json(con, nd, nz):
    """a LinConstr `linear x <= / == const` as a block of rows without random part"""
    A = pad(dense(con.linear), nd)
    m_ = A.shape[0]
    return rows_of(np.zeros((m_, nz, nd)), np.zeros((m_, nz)), A, -np.asarray(con.const, dtype=float).reshape(-1))


@contextlib.contextmanager
def quiet():
    sys.stdout.flush()
    saved = os.dup(1)
    devnull = os.open(os.devnull, os.O_WRONLY)
    try:
        os.dup2(devnull, 1)
        yield
    finally:
        sys.stdout.flush()
        os.dup2(saved, 1)
        os.close(devnull)
        os.close(saved)


# ----------------------------------------------------------------------------- random models
def dy(rng, lo=-4, hi=4, den=4):
    return int(rng.integers(lo * den, hi * den + 1)) / den


def nzdy(rng, lo=-2, hi=2, den=2):
    while True:
        v = dy(rng, lo, hi, den)
        if v != 0:
            return v


def build_model(rng, tags):
    """a random dro model; returns (model, S, nz, targets) with targets = [('constr', index, tag) | ('obj', None, tag)]"""
    S = int(rng.integers(1, 5))
    m = dro.Model(S)
    how = int(rng.integers(0, 3))
    if how == 0:
        nz = int(rng.integers(1, 4))
        zv = m.rvar(nz)
        zs = [zv[j] for j in range(nz)]
        tags.append('rv:vector%d' % nz)
    else:
        nz = how
        zs = [m.rvar() for _ in range(nz)]
        zv = None
        tags.append('rv:scalars%d' % nz)

    def one_support():
        cons = []
        kind = ['box', 'box+norm2', 'box+norm1', 'box+lin', 'norminf'][int(rng.integers(0, 5))]
        for z in zs:
            lo = dy(rng, -4, 0)
            hi = lo + int(rng.integers(0, 13)) / 4
            if kind != 'norminf':
                cons += [z >= lo, z <= hi]
        if kind == 'box+norm2':
            if zv is not None:
                cons.append(rso.norm(zv, 2) <= dy(rng, 1, 4))
            else:
                cons.append(abs(sum(nzdy(rng) * z for z in zs)) <= dy(rng, 1, 4))
        elif kind == 'box+norm1':
            if zv is not None:
                cons.append(rso.norm(zv, 1) <= dy(rng, 1, 4))
            else:
                cons.append(abs(zs[0]) <= dy(rng, 1, 4))
        elif kind == 'box+lin':
            cons.append(sum(nzdy(rng) * z for z in zs) <= dy(rng, 0, 4))
        elif kind == 'norminf':
            if zv is not None:
                cons.append(rso.norm(zv, 'inf') <= dy(rng, 1, 4))
            else:
                cons += [abs(z) <= dy(rng, 1, 4) for z in zs]
        tags.append('sup:' + kind)
        return cons

    def new_set():
        f = m.ambiguity()
        if rng.random() < 0.3:
            f.suppset(*one_support())
        else:
            for s in range(S):
                f[s].suppset(*one_support())
        return f
    fset = new_set()
    gset = new_set() if rng.random() < 0.6 else None

    # decisions: static x, event-wise y, affinely adaptive w (random masks, maybe event-wise too)
    x = m.dvar(int(rng.integers(1, 3)))
    dec = [('x', x, True)]            # (name, var, may be multiplied by a random variable)
    if rng.random() < 0.6:
        y = m.dvar(int(rng.integers(1, 3)))
        if S > 1:
            parts = int(rng.integers(1, S + 1))
            order = [int(s) for s in rng.permutation(S)]
            cut = sorted(int(c) for c in rng.choice(np.arange(1, S), size=min(parts, S) - 1, replace=False))
            groups = [order[a:b] for a, b in zip([0] + cut, cut + [S])]
            for g in groups[1:]:
                y.adapt(g if len(g) > 1 or rng.random() < 0.5 else g[0])
            tags.append('dec:eventwise(%d)' % len(groups))
        dec.append(('y', y, True))
    affine = False
    if rng.random() < 0.55:
        w = m.dvar(int(rng.integers(1, 3)))
        mask_any = False
        for a in range(w.size):
            for j in range(nz):
                if rng.random() < 0.5:
                    w[a].adapt(zs[j]); mask_any = True
        if not mask_any:
            w[0].adapt(zs[0])
        if S > 1 and rng.random() < 0.5:
            w.adapt(int(rng.integers(0, S)))
            tags.append('dec:affine+eventwise')
        else:
            tags.append('dec:affine')
        dec.append(('w', w, False))
        affine = True
    if not affine and len(dec) == 1:
        tags.append('dec:static-only')

    def rand_expr(want_r, k=None):
        """a random (bi-)affine expression, scalar (k None) or a k-vector; returns (expr, has_random_part)"""
        has_r = False
        has_d = False
        if k is None:
            expr = dy(rng)
            for (nm, v, mult) in dec:
                for a in range(v.size):
                    if rng.random() < 0.6:
                        expr = expr + nzdy(rng) * v[a]
                        has_d = True
                    if want_r and mult and rng.random() < 0.4:
                        j = int(rng.integers(0, nz))
                        expr = expr + nzdy(rng) * (v[a] * zs[j])
                        has_r = True
                        has_d = True
            if not has_d:
                expr = expr + nzdy(rng) * x[0]
            if want_r and (rng.random() < 0.5 or not has_r):
                j = int(rng.integers(0, nz))
                expr = expr + nzdy(rng) * zs[j]
                has_r = True
            if want_r and rng.random() < 0.1:          # a random part that cancels
                j = int(rng.integers(0, nz))
                t = nzdy(rng)
                expr = (expr + t * (x[0] * zs[j])) - t * (x[0] * zs[j])
        else:
            expr = np.array([dy(rng) for _ in range(k)])
            for (nm, v, mult) in dec:
                if rng.random() < 0.7 or nm == 'x':
                    B = np.array([[dy(rng, -2, 2, 2) for _ in range(v.size)] for _ in range(k)])
                    expr = B @ v + expr
                if want_r and mult and rng.random() < 0.5:
                    j = int(rng.integers(0, nz))
                    a = int(rng.integers(0, v.size))
                    cvec = np.array([dy(rng, -2, 2, 2) for _ in range(k)])
                    expr = expr + cvec * (v[a] * zs[j])
                    has_r = True
            if want_r and (rng.random() < 0.5 or not has_r):
                if zv is not None:
                    A = np.array([[dy(rng, -2, 2, 2) for _ in range(nz)] for _ in range(k)])
                    expr = expr + A @ zv
                else:
                    cvec = np.array([nzdy(rng) for _ in range(k)])
                    expr = expr + cvec * zs[int(rng.integers(0, nz))]
                has_r = True
        return expr, has_r

    targets = []
    okind = ['minsup-det', 'minsup-rob', 'maxinf-rob', 'min-det', 'min-rob', 'max-det'][int(rng.integers(0, 6))]
    if okind == 'minsup-det':
        m.minsup(x.sum(), fset)
    elif okind == 'minsup-rob':
        m.minsup(rand_expr(True)[0], fset)
    elif okind == 'maxinf-rob':
        m.maxinf(rand_expr(True)[0], fset)
    elif okind == 'min-det':
        m.min(rand_expr(False)[0])
    elif okind == 'min-rob':
        m.min(rand_expr(True)[0])
    else:
        m.max(x.sum())
    targets.append(('obj', None, 'obj:' + okind))
    has_default = okind in ('minsup-det', 'minsup-rob', 'maxinf-rob')

    for _ in range(int(rng.integers(1, 5))):
        robust = rng.random() < 0.6
        k = None if rng.random() < 0.65 else int(rng.integers(2, 4))
        e, _ = rand_expr(robust, k)
        cancel = False
        if not robust and rng.random() < 0.15:       # a DecRoConstr whose random part cancels entirely
            j = int(rng.integers(0, nz))
            t = nzdy(rng)
            e = (e + t * (x[0] * zs[j])) - t * (x[0] * zs[j])
            cancel = True
        rhs = dy(rng) if k is None else np.array([dy(rng) for _ in range(k)])
        sense = ['<=', '>=', '=='][int(rng.integers(0, 3))]
        c = (e <= rhs) if sense == '<=' else (e >= rhs) if sense == '>=' else (e == rhs)
        # the set
        opts = ['none', 'list'] + (['own-g'] if gset is not None else []) + (['own-f'] if True else [])
        if not has_default and robust and rng.random() < 0.8:
            opts = [o for o in opts if o != 'none']
        fa = opts[int(rng.integers(0, len(opts)))]
        if fa == 'list':
            c = c.forall(one_support())
        elif fa == 'own-g':
            c = c.forall(gset)
        elif fa == 'own-f':
            c = c.forall(fset)
        m.st(c)
        targets.append(('constr', len(m.all_constr) - 1,
                        'con:%s%s%s' % ('rob' if robust else 'rob-cancelled' if cancel else 'lin', sense,
                                        '' if k is None else '[vec]')))
    # affine adaptation declared after the constraints were written
    if rng.random() < 0.2:
        nm, v, _ = dec[int(rng.integers(0, len(dec)))]
        try:
            v[int(rng.integers(0, v.size))].adapt(zs[int(rng.integers(0, nz))])
            tags.append('late-affadapt')
        except RuntimeError:
            pass
    return m, S, nz, targets


# ----------------------------------------------------------------------------- one model -> requests
def flat(items):
    out = []
    for it in items:
        if isinstance(it, Iterable):
            out.extend(flat(it))
        else:
            out.append(it)
    return out


def support_prog(m, constraints):
    m.sup_model.reset()
    for item in flat([constraints]):
        m.sup_model.st(item)
    return prog_json(m.sup_model.do_math(primal=False, obj=False))


def constr_data(c, num_var, nz):
    if isinstance(c, DecRoConstr):
        m_, nzc = c.raffine.shape
        assert nzc == nz, 'raffine has %d columns, num_rand = %d' % (nzc, nz)
        raf = sp.csr_matrix(c.raffine.linear)[:, :num_var]
        RL = pad(dense(raf), num_var).reshape(m_, nz, num_var)
        RC = np.asarray(c.raffine.const, dtype=float).reshape(m_, nz)
        al = pad(dense(sp.csr_matrix(c.affine.linear)[:, :num_var]), num_var)
        ac = np.asarray(c.affine.const, dtype=float).reshape(-1)
        rst = sorted(int(d) for d in np.unique(raf.indices))
        eq = bool(c.sense == 1)
        assert not isinstance(c.sense, Iterable)
        return {'kind': 'ro', 'eq': int(eq), 'rows': rows_of(RL, RC, al, ac), 'rst': rst}
    assert isinstance(c, DecLinConstr)
    al = pad(dense(c.linear), num_var)
    m_ = al.shape[0]
    ac = -np.asarray(c.const, dtype=float).reshape(-1)
    sense = np.asarray(c.sense).reshape(-1)
    assert np.all(sense == sense[0])
    return {'kind': 'lin', 'eq': int(sense[0] == 1),
            'rows': rows_of(np.zeros((m_, nz, num_var)), np.zeros((m_, nz)), al, ac), 'rst': []}


def requests_of_model(rng, tags):
    m, S, nz, targets = build_model(rng, tags)
    do_math_raised = None
    with quiet():
        try:
            m.do_math()                   # rule_var() exists afterwards (also when a later step raises)
        except SyntaxError as e:
            do_math_raised = str(e)
    assert m.var_ev_list is not None
    rc_model = m.ro_model.rc_model
    num_var = m.vt_model.vars[-1].last
    assert m.sup_model.vars[-1].last == nz
    drules = m.rule_var()
    rule_ro = isinstance(drules[0], RoAffine)
    c0 = int(rc_model.vars[1].first)
    n0 = int(rc_model.vars[2].last) if rule_ro else int(rc_model.vars[1].last)
    decs = []
    for dv in m.dec_vars:
        mask = dv.rand_adapt if dv.rand_adapt is not None else np.zeros((dv.size, nz))
        assert mask.shape == (dv.size, nz)
        decs.append({'size': int(dv.size), 'events': [[int(s) for s in e] for e in dv.event_adapt],
                     'mask': [[int(v) for v in r] for r in np.asarray(mask)]})
    assert sum(d['size'] for d in decs) == num_var
    # the real rules as tables
    real_rule = {'cc': [], 'mask': None, 'lcol': []}
    for s in range(S):
        dr = drules[s]
        assert isinstance(dr, RoAffine) == rule_ro
        aff = dr.affine if rule_ro else dr
        assert isinstance(aff, Affine)
        D = dense(aff.linear)
        assert D.shape[0] == num_var and not np.any(aff.const)
        assert np.all((D == 0) | (D == 1)) and np.all(D.sum(axis=1) == 1)
        real_rule['cc'].append([int(np.nonzero(D[d])[0][0]) for d in range(num_var)])
        if rule_ro:
            assert dr.raffine.shape == (num_var, nz) and not np.any(dr.raffine.const)
            DR = dense(dr.raffine.linear)
            assert DR.shape[0] == num_var * nz and np.all((DR == 0) | (DR == 1)) and np.all(DR.sum(axis=1) <= 1)
            mk = [[int(DR[d * nz + j].sum()) for j in range(nz)] for d in range(num_var)]
            lc = [[int(np.nonzero(DR[d * nz + j])[0][0]) if mk[d][j] else None for j in range(nz)]
                  for d in range(num_var)]
        else:
            mk = [[0] * nz for _ in range(num_var)]
            lc = [[None] * nz for _ in range(num_var)]
        assert real_rule['mask'] in (None, mk)
        real_rule['mask'] = mk
        real_rule['lcol'].append(lc)
    reqs = []
    for (kind, ci, tag) in targets:
        if kind == 'obj':
            constr = (m.dec_vars[0] >= m.obj * m.sign)        # as do_math builds it
        else:
            constr = m.all_constr[ci]
        if not isinstance(constr, (DecRoConstr, DecLinConstr)) or constr.ctype != 'R':
            raise TypeError('unexpected target ' + type(constr).__name__)
        cd = constr_data(constr, num_var, nz)
        ambset = constr.ambset
        if ambset is None:
            amb = 'default' if m.obj_ambiguity is not None else 'none'
        elif isinstance(ambset, Ambiguity):
            amb = 'own'
        else:
            assert isinstance(ambset, Iterable)
            amb = 'list'
        raised = None
        out = None
        with quiet():
            try:
                out = m.ro_to_roc(constr)                     # THE REAL CALL
            except SyntaxError as e:
                raised = 'SyntaxError: ' + str(e)
        items = []
        if out is not None:
            for t, o in enumerate(out):
                s = t % S
                if isinstance(o, RoConstr):
                    sense = np.asarray(o.sense).reshape(-1)
                    assert np.all(sense == sense[0])
                    # the support the model's tag names, formulated independently
                    if amb == 'own':
                        want = support_prog(m, ambset.sup_constr[s])
                    elif amb == 'list':
                        want = support_prog(m, ambset)
                    elif amb == 'default':
                        want = support_prog(m, m.obj_ambiguity.sup_constr[s])
                    else:
                        want = None
                    items.append({'h': t // S, 's': s, 'kind': 'ro', 'tag': amb, 'tag_s': None if amb == 'list' else s,
                                  'eq': int(sense[0] == 1), 'rows': rows_json(o, n0),
                                  'support_ok': o.support is not None and prog_json(o.support) == want})
                elif isinstance(o, LinConstr):
                    sense = np.asarray(o.sense).reshape(-1)
                    assert np.all(sense == sense[0])
                    items.append({'h': t // S, 's': s, 'kind': 'lin', 'tag': None, 'tag_s': None,
                                  'eq': int(sense[0] == 1), 'rows': lin_rows_json(o, n0, nz), 'support_ok': True})
                else:
                    raise TypeError(type(o).__name__)
        req = {'op': 'ro_to_roc', 'S': S, 'nrand': nz, 'nd': n0, 'constr': cd, 'amb': amb, 'c0': c0, 'decs': decs}
        reqs.append((req, {'tag': tag, 'raised': raised, 'items': items, 'rule': real_rule, 'rule_ro': rule_ro, 'n0': n0,
                           'num_var': num_var, 'S': S, 'nz': nz, 'do_math_raised': do_math_raised,
                           'nitems': None if out is None else len(out)}))
    return reqs


def compare(lean, meta, req):
    bad = []
    if 'error' in lean:
        return ['error: ' + lean['error']]
    # (c) the rules
    lr = lean['rule']
    rr = meta['rule']
    S, nz, nv = meta['S'], meta['nz'], meta['num_var']
    if lr['nv'] != nv:
        bad.append('rule:nv')
    if lr['cc'] != rr['cc']:
        bad.append('rule:cc')
    if lr['mask'] != rr['mask']:
        bad.append('rule:mask')
    for s in range(S):
        for d in range(nv):
            for j in range(nz):
                if rr['mask'][d][j] and lr['lcol'][s][d][j] != rr['lcol'][s][d][j]:
                    bad.append('rule:lcol[%d,%d,%d]' % (s, d, j))
    if bool(lean['is_ro']) != meta['rule_ro']:
        bad.append('rule:is_ro')
    if lean['n0'] != meta['n0']:
        bad.append('rule:n0')
    # (d) hypotheses of ro_to_roc_sound
    nd = req['nd']
    for s in range(S):
        for d in range(nv):
            if not lr['cc'][s][d] < nd:
                bad.append('hcols:cc')
            for j in range(nz):
                if lr['mask'][d][j] and not lr['lcol'][s][d][j] < nd:
                    bad.append('hcols:lcol')
    rows = req['constr']['rows']
    if rows['nd'] != nv:
        bad.append('hnv')
    if rows['nz'] != nz:
        bad.append('hnz')
    for n in range(rows['m']):
        for j in range(nz):
            for d in range(nv):
                if rows['Rl'][n][j][d] != '0' and d not in req['constr']['rst']:
                    bad.append('hrst')
    # (a) exceptions
    if meta['raised'] is not None or 'raises' in lean:
        if lean.get('raises') != meta['raised']:
            bad.append('raises: lean %r code %r' % (lean.get('raises'), meta['raised']))
        return bad
    # (b) items
    if len(lean['items']) != len(meta['items']):
        bad.append('items:length')
        return bad
    if len(meta['items']) != S * (2 if lean['split'] else 1):
        bad.append('items:count-vs-split')
    for t, (a, b) in enumerate(zip(lean['items'], meta['items'])):
        for k in ('h', 's', 'kind', 'tag', 'tag_s', 'eq'):
            if a[k] != b[k]:
                bad.append('item[%d]:%s' % (t, k))
        for k in ('nd', 'm', 'nz', 'Rl', 'Rc', 'al', 'ac'):
            if a['rows'][k] != b['rows'][k]:
                bad.append('item[%d]:%s' % (t, k))
        if not b['support_ok']:
            bad.append('item[%d]:support' % t)
    return bad


def main():
    seed = int(sys.argv[1]) if len(sys.argv) > 1 else 0
    n = int(sys.argv[2]) if len(sys.argv) > 2 else 50
    rng = np.random.default_rng(seed)
    cases = []
    hist = {}
    build_errors = {}
    nmodels = 0
    while len(cases) < n:
        tags = []
        try:
            rq = requests_of_model(rng, tags)
        except AssertionError:
            raise
        except Exception as e:                       # the API refuses the random combination
            key = type(e).__name__ + ':' + str(e)[:60]
            build_errors[key] = build_errors.get(key, 0) + 1
            if sum(build_errors.values()) > 20 * n + 100:
                raise
            continue
        nmodels += 1
        for t in tags:
            t = t.split('(')[0] if t.startswith('dec:eventwise') else t
            hist['model:' + t] = hist.get('model:' + t, 0) + 1
        cases.extend(rq)
    cases = cases[:max(n, 1)]
    inp = '\n'.join(json.dumps(c[0], separators=(',', ':')) for c in cases) + '\n'
    out = subprocess.run(['lake', 'env', 'lean', '--run', 'Driver.lean'], input=inp, cwd=HERE,
                         capture_output=True, text=True)
    lines = [ln for ln in out.stdout.splitlines() if ln.startswith('{')]
    if len(lines) != len(cases):
        print('driver failure', out.stderr[:2000], out.stdout[:2000])
        print(f'cases {len(cases)} mismatches {len(cases)}')
        sys.exit(1)
    mism = 0

    def cnt(k, v=1):
        if v:
            hist[k] = hist.get(k, 0) + v
    for (req, meta), ln in zip(cases, lines):
        lean = json.loads(ln)
        bad = compare(lean, meta, req)
        if bad:
            mism += 1
            print('MISMATCH', bad[:8], meta['tag'])
        cd = req['constr']
        cnt(meta['tag'])
        cnt('constr:DecRoConstr' if cd['kind'] == 'ro' else 'constr:DecLinConstr')
        cnt('sense:==' if cd['eq'] else 'sense:<=')
        cnt('rows=%d' % cd['rows']['m'])
        cnt('amb:' + req['amb'])
        cnt('rule:RoAffine' if meta['rule_ro'] else 'rule:Affine')
        cnt('scenarios=%d' % meta['S'])
        if meta['do_math_raised']:
            cnt('model:do_math-raised')
        if meta['raised']:
            cnt('raises:' + meta['raised'])
            continue
        cnt('equality-split' if lean.get('split') else 'no-split')
        if cd['eq'] and not lean.get('split'):
            cnt('equality-kept(LinConstr sense 1)')
        for b in meta['items']:
            if b['kind'] == 'ro':
                cnt('item:RoConstr')
                cnt('item:tag=' + b['tag'])
                if any(v != '0' for blk in b['rows']['Rl'] for r in blk for v in r):
                    cnt('item:random-coefficient-depends-on-decision')
            else:
                via = ('affine-rule' if not meta['rule_ro'] else 'roaffine-empty') if cd['kind'] == 'lin' else 'roconstr-without-random-part'
                cnt('item:LinConstr via ' + via)
                if b['eq']:
                    cnt('item:LinConstr sense 1')
            cnt('item:half%d' % b['h'])
    print('models', nmodels, 'api-refusals', json.dumps(build_errors, sort_keys=True))
    print('histogram', json.dumps(hist, sort_keys=True))
    print(f'cases {len(cases)} mismatches {mism}')
    sys.exit(0 if mism == 0 else 1)


if __name__ == '__main__':
    main()
