"""Correspondence test: the real `dro.Model.do_math()` vs the Lean model `DroModel.droModel` (op "dro_model").

usage (from the lake project directory):
    RSOMEV_LEAN_DIR=<lake project> PYTHONPATH=<rsome checkout> /venv/bin/python test_dro_model.py <seed> <N>

Random small dro models are built through the public `rsome.dro` API (generators of test_dro_rows.py /
test_ro_to_roc.py): 1-3 scenarios; one vector of random variables or 1-2 scalar ones; one or two ambiguity sets
with per-scenario supports (boxes, 1-/2-/inf-norms, linear pieces), probability sets (fixed, box, norms, KL) and
0-2 expectation sets on random events (bounds, equalities, linear, norm, exponential pieces); static / event-wise /
affinely adaptive decisions (random masks, event-wise + affine, binary / integer static ones); the objective
`min/max` (deterministic or robust), `minsup/maxinf` of a deterministic / robust expression, `minsup(E(piece))`,
`minsup(E(maxof(...)))`, `maxinf(E(piece))`; 0-3 constraints of `ctype 'R'` (robust `<= >= ==`, linear `<= >= ==`,
bounds `x >= 0`, scalar and vector-valued, own `.forall(ambiguity set)` / `.forall([support constraints])` /
default set / no set at all); 0-2 expectation constraints (`E(piece) <= >= ==`, `E(maxof(...)) <=`, vector-valued,
with the default set or an own `.forall(set)`); optionally an affine adaptation declared AFTER the constraints were
written (random x adaptive products: `ro_to_roc` must raise).

For every model the request is exported from the model's OWN objects (`m.dec_vars`: sizes / events / masks / vtypes;
`m.all_constr`: every constraint's `linear / const / raffine / affine / sense / ambset` and, per row of an expectation
piece, the stored pattern of its random coefficients; `m.obj`, `m.sign`,
`m.obj_ambiguity`; every `Ambiguity`'s `sup_constr / pro_constr / exp_constr / exp_constr_indices`, formulated
through `sup_model / pro_model / exp_model` in PRIMAL form) BEFORE `do_math()` is called, in two variants:
  (A) the objective as the constraint `dec_vars[0] >= obj * sign` the code builds,
  (B) (objective one (bi-)affine expression) the objective as expression + sign: the Lean model builds the row,
and the reply is compared ENTRY BY ENTRY with `m.do_math()`: nr nc a b eq ub lb c vtype qmat xmat.  Where
`do_math()` raises (`Incorrect affine expressions.`, `The Ambiguity set is undefined.`, `The ambiguity set is
undefined.`) the Lean op must answer the same exception.

Also re-checked on every compiled case (reported by the Lean op, violations count as mismatches): the hypotheses
`RuleWF` (rule columns exist after `rule_var()`) and the index / layout part of `AmbWF` (`wf_inputs`, `rows_removed =
false`, shapes) of `C03Model.dro_model_sound`, and `PiecesOK` (no random coefficient on an affinely adaptive decision
in an expectation constraint), which the theorem derives from the absence of an exception: since the repair of
`dro_to_roc` (it raises `Incorrect affine expressions.` like `ro_to_roc`) it must hold on every compiled case.

Not generated (outside the model's scope): random variables declared after a constraint / a set; convex atoms of
decisions (`DecCvxConstr` etc.), `PWConstr` (`maxof(...) <= c` without `E`), event index lists with repeats.

Prints the histogram and `cases <n> mismatches <k>`."""
import contextlib
import json
import os
import subprocess
import sys
import warnings
from collections.abc import Iterable
from fractions import Fraction

warnings.filterwarnings('ignore')
import numpy as np                       # noqa: E402
import scipy.sparse as sp                # noqa: E402
import rsome as rso                      # noqa: E402
from rsome import dro, E                 # noqa: E402
from rsome.lp import (DecLinConstr, DecRoConstr, ExpPWConstr, DecAffine, DecRoAffine, DecVar, DecVarSub)   # noqa: E402
from rsome.dro import Ambiguity          # noqa: E402

HERE = os.environ.get('RSOMEV_LEAN_DIR', os.path.dirname(os.path.abspath(__file__)))


# ----------------------------------------------------------------------------- exact export
def fr(v):
    f = v if isinstance(v, Fraction) else Fraction(float(v))
    return str(f.numerator) if f.denominator == 1 else f'{f.numerator}/{f.denominator}'


def optfr(v):
    return None if np.isinf(v) else fr(v)


def dense(m):
    if sp.issparse(m):
        return np.asarray(m.todense())
    return np.asarray(m)


def pad(A, w):
    A = np.asarray(A, dtype=float)
    A = A.reshape(1, -1) if A.ndim == 1 else A
    if A.shape[1] > w:
        assert not np.any(A[:, w:]), 'non-zero entry beyond the expected width'
        return A[:, :w]
    return np.hstack([A, np.zeros((A.shape[0], w - A.shape[1]))])


def prog_json(f, with_vtype=False):
    lin = sp.csr_matrix(f.linear)
    nr, nc = lin.shape
    A = np.asarray(lin.todense())
    d = {
        'nr': int(nr), 'nc': int(nc),
        'a': [[fr(A[i, j]) for j in range(nc)] for i in range(nr)],
        'b': [fr(v) for v in np.asarray(f.const).reshape(-1)],
        'eq': [int(v) for v in np.asarray(f.sense).reshape(-1)],
        'ub': [optfr(v) for v in f.ub],
        'lb': [optfr(v) for v in f.lb],
        'c': [fr(v) for v in np.asarray(f.obj).reshape(-1)],
        'qmat': [[int(j) for j in q] for q in f.qmat],
        'xmat': [[int(j) for j in e] for e in f.xmat],
        'sp': [sorted(set(int(j) for j in lin.indices[lin.indptr[i]:lin.indptr[i + 1]])) for i in range(nr)],
    }
    if with_vtype:
        d['vtype'] = [str(v) for v in f.vtype]
        d['nlmi'] = len(getattr(f, 'lmi', []) or [])
    return d


def rows_of(Rl, Rc, al, ac):
    m_, nz, nd = Rl.shape
    return {"nd": int(nd), "m": int(m_), "nz": int(nz),
            "Rl": [[[fr(v) for v in r] for r in blk] for blk in Rl], "Rc": [[fr(v) for v in r] for r in Rc],
            "al": [[fr(v) for v in r] for r in al], "ac": [fr(v) for v in ac]}


@contextlib.contextmanager
def quiet():
    sys.stdout.flush()
    saved = os.dup(1)
    devnull = os.open(os.devnull, os.O_WRONLY)
    try:
        os.dup2(devnull, 1)
        yield
    finally:
        sys.stdout.flush()
        os.dup2(saved, 1)
        os.close(devnull)
        os.close(saved)


def flat(items):
    out = []
    for it in items:
        if isinstance(it, Iterable):
            out.extend(flat(it))
        else:
            out.append(it)
    return out


# ----------------------------------------------------------------------------- random models
def dy(rng, lo=-4, hi=4, den=4):
    return int(rng.integers(lo * den, hi * den + 1)) / den


def nzdy(rng, lo=-2, hi=2, den=2):
    while True:
        v = dy(rng, lo, hi, den)
        if v != 0:
            return v


def rand_probs(rng, S):
    cuts = sorted(int(rng.integers(0, 17)) for _ in range(S - 1))
    pts = [0] + cuts + [16]
    return np.array([(pts[i + 1] - pts[i]) / 16 for i in range(S)])


def build_model(rng, tags):
    S = int(rng.integers(1, 4))
    m = dro.Model(S)
    tags.append('scen=%d' % S)
    how = int(rng.integers(0, 3))
    if how == 0:
        nz = int(rng.integers(1, 4))
        zv = m.rvar(nz)
        zs = [zv[j] for j in range(nz)]
        tags.append('rv:vector')
    else:
        nz = how
        zs = [m.rvar() for _ in range(nz)]
        zv = None
        tags.append('rv:scalars')
    p = m.p

    def one_support():
        cons = []
        kind = ['box', 'box+norm2', 'box+norm1', 'box+lin', 'norminf'][int(rng.integers(0, 5))]
        for z in zs:
            lo = dy(rng, -4, 0)
            hi = lo + int(rng.integers(0, 13)) / 4
            if kind != 'norminf':
                cons += [z >= lo, z <= hi]
        if kind == 'box+norm2':
            if zv is not None:
                cons.append(rso.norm(zv, 2) <= dy(rng, 1, 4))
            else:
                cons.append(abs(sum(nzdy(rng) * z for z in zs)) <= dy(rng, 1, 4))
        elif kind == 'box+norm1':
            if zv is not None:
                cons.append(rso.norm(zv, 1) <= dy(rng, 1, 4))
            else:
                cons.append(abs(zs[0]) <= dy(rng, 1, 4))
        elif kind == 'box+lin':
            cons.append(sum(nzdy(rng) * z for z in zs) <= dy(rng, 0, 4))
        elif kind == 'norminf':
            if zv is not None:
                cons.append(rso.norm(zv, 'inf') <= dy(rng, 1, 4))
            else:
                cons += [abs(z) <= dy(rng, 1, 4) for z in zs]
        tags.append('sup:' + kind)
        return cons

    def Ez(j):
        return E(zs[j])

    def new_set(rich):
        f = m.ambiguity()
        if rng.random() < 0.3:
            f.suppset(*one_support())
        else:
            for s in range(S):
                f[s].suppset(*one_support())
        if not rich:
            return f
        kinds = ['none', 'fixed', 'box', 'norm1', 'norm2', 'norminf', 'kl']
        kind = kinds[int(rng.integers(0, len(kinds)))]
        p0 = rand_probs(rng, S)
        r = int(rng.integers(1, 5)) / 8
        if kind == 'fixed':
            f.probset(p == p0)
        elif kind == 'box':
            f.probset(p >= np.maximum(p0 - r, 0), p <= p0 + r)
        elif kind == 'norm1':
            f.probset(rso.norm(p - p0, 1) <= r)
        elif kind == 'norm2':
            f.probset(rso.norm(p - p0, 2) <= r)
        elif kind == 'norminf':
            f.probset(rso.norm(p - p0, 'inf') <= r)
        elif kind == 'kl':
            phat = np.array([1 / S] * S) if S in (1, 2, 4) else np.array([0.25, 0.25, 0.5])
            f.probset(p.kldiv(phat, r))
        tags.append('prob:' + kind)
        nE = int(rng.integers(0, 3))
        tags.append('events=%d' % nE)
        for ie in range(nE):
            pieces = []
            for _ in range(int(rng.integers(1, 3))):
                c = ['lo', 'hi', 'eq', 'lin', 'norm2', 'exp'][int(rng.integers(0, 6))]
                j = int(rng.integers(0, nz))
                if c == 'lo':
                    pieces.append(Ez(j) >= dy(rng) if zv is None else E(zv) >= np.array([dy(rng) for _ in range(nz)]))
                elif c == 'hi':
                    pieces.append(Ez(j) <= dy(rng) if zv is None else E(zv) <= np.array([dy(rng) for _ in range(nz)]))
                elif c == 'eq':
                    pieces.append(Ez(j) == dy(rng))
                elif c == 'lin':
                    pieces.append(sum(dy(rng, -2, 2, 2) * Ez(t) for t in range(nz)) <= dy(rng))
                elif c == 'norm2':
                    if zv is not None:
                        pieces.append(rso.norm(E(zv) - np.array([dy(rng, -2, 2, 2) for _ in range(nz)]), 2) <= dy(rng, 0, 4))
                    else:
                        pieces.append(abs(Ez(j) - dy(rng, -2, 2, 2)) <= dy(rng, 0, 4))
                elif c == 'exp':
                    pieces.append(rso.exp(nzdy(rng) * Ez(j) + dy(rng, -2, 2)) <= dy(rng, 1, 4))
                tags.append('exp-piece:' + c)
            how_ = int(rng.integers(0, 3))
            if how_ == 0 or S == 1:
                f.exptset(*pieces)
                tags.append('event:all')
            elif how_ == 1:
                f.iloc[int(rng.integers(0, S))].exptset(*pieces)
                tags.append('event:single')
            else:
                size = int(rng.integers(1, S + 1))
                sub = sorted(int(s) for s in rng.choice(S, size=size, replace=False))
                if rng.random() < 0.3:
                    sub = sub[::-1]
                f.iloc[sub].exptset(*pieces)
                tags.append('event:subset')
        return f
    fset = new_set(True)
    gset = new_set(rng.random() < 0.5) if rng.random() < 0.5 else None
    if gset is not None:
        tags.append('second-ambiguity-set')

    # decisions
    vt = 'C'
    u = rng.random()
    if u < 0.08:
        vt = 'B'
    elif u < 0.16:
        vt = 'I'
    nx = int(rng.integers(1, 3))
    if u >= 0.16 and u < 0.22 and nx > 1:
        vt = ''.join(rng.choice(list('CBI'), size=nx))
    x = m.dvar(nx, vtype=vt)
    if vt != 'C':
        tags.append('vtype:' + ('mixed' if len(vt) > 1 else vt))
    dec = [('x', x, True)]            # (name, var, may be multiplied by a random variable)
    if rng.random() < 0.6:
        y = m.dvar(int(rng.integers(1, 3)))
        if S > 1:
            parts = int(rng.integers(1, S + 1))
            order = [int(s) for s in rng.permutation(S)]
            cut = sorted(int(c) for c in rng.choice(np.arange(1, S), size=min(parts, S) - 1, replace=False))
            groups = [order[a:b] for a, b in zip([0] + cut, cut + [S])]
            for g in groups[1:]:
                y.adapt(g if len(g) > 1 or rng.random() < 0.5 else g[0])
            tags.append('dec:eventwise')
        dec.append(('y', y, True))
    affine = False
    if rng.random() < 0.55:
        w = m.dvar(int(rng.integers(1, 3)))
        mask_any = False
        for a in range(w.size):
            for j in range(nz):
                if rng.random() < 0.5:
                    w[a].adapt(zs[j]); mask_any = True
        if not mask_any:
            w[0].adapt(zs[0])
        if S > 1 and rng.random() < 0.5:
            w.adapt(int(rng.integers(0, S)))
            tags.append('dec:affine+eventwise')
        else:
            tags.append('dec:affine')
        dec.append(('w', w, False))
        affine = True
    if not affine and len(dec) == 1:
        tags.append('dec:static-only')

    def rand_expr(want_r, k=None):
        has_r = False
        has_d = False
        if k is None:
            expr = dy(rng)
            for (nm, v, mult) in dec:
                for a in range(v.size):
                    if rng.random() < 0.6:
                        expr = expr + nzdy(rng) * v[a]
                        has_d = True
                    if want_r and mult and rng.random() < 0.4:
                        j = int(rng.integers(0, nz))
                        expr = expr + nzdy(rng) * (v[a] * zs[j])
                        has_r = True
                        has_d = True
            if not has_d:
                expr = expr + nzdy(rng) * x[0]
            if want_r and (rng.random() < 0.5 or not has_r):
                j = int(rng.integers(0, nz))
                expr = expr + nzdy(rng) * zs[j]
                has_r = True
        else:
            expr = np.array([dy(rng) for _ in range(k)])
            for (nm, v, mult) in dec:
                if rng.random() < 0.7 or nm == 'x':
                    B = np.array([[dy(rng, -2, 2, 2) for _ in range(v.size)] for _ in range(k)])
                    expr = B @ v + expr
                if want_r and mult and rng.random() < 0.5:
                    j = int(rng.integers(0, nz))
                    a = int(rng.integers(0, v.size))
                    cvec = np.array([dy(rng, -2, 2, 2) for _ in range(k)])
                    expr = expr + cvec * (v[a] * zs[j])
                    has_r = True
            if want_r and (rng.random() < 0.5 or not has_r):
                if zv is not None:
                    A = np.array([[dy(rng, -2, 2, 2) for _ in range(nz)] for _ in range(k)])
                    expr = expr + A @ zv
                else:
                    cvec = np.array([nzdy(rng) for _ in range(k)])
                    expr = expr + cvec * zs[int(rng.integers(0, nz))]
                has_r = True
        return expr, has_r

    # objective
    okind = ['minsup-E1', 'minsup-E1', 'minsup-Emax', 'maxinf-E1', 'minsup-det', 'minsup-rob', 'maxinf-rob', 'min-det',
             'min-rob', 'max-det', 'minsup-Emax', 'minsup-det', 'max-det', 'min-det'][int(rng.integers(0, 14))]
    if okind == 'minsup-E1':
        m.minsup(E(rand_expr(rng.random() < 0.8)[0]), fset)
    elif okind == 'maxinf-E1':
        m.maxinf(E(rand_expr(rng.random() < 0.8)[0]), fset)
    elif okind == 'minsup-Emax':
        k = int(rng.integers(2, 4))
        m.minsup(E(rso.maxof(*[rand_expr(rng.random() < 0.75)[0] for _ in range(k)])), fset)
    elif okind == 'minsup-det':
        m.minsup(x.sum(), fset)
    elif okind == 'minsup-rob':
        m.minsup(rand_expr(True)[0], fset)
    elif okind == 'maxinf-rob':
        m.maxinf(rand_expr(True)[0], fset)
    elif okind == 'min-det':
        m.min(rand_expr(False)[0])
    elif okind == 'min-rob':
        m.min(rand_expr(True)[0])
    else:
        m.max(x.sum())
    tags.append('obj:' + okind)
    has_default = okind.startswith(('minsup', 'maxinf'))

    # constraints, in random order of kinds
    plan = ['R'] * int(rng.integers(0, 4)) + ['E'] * int(rng.integers(0, 3)) + (['B'] if rng.random() < 0.4 else [])
    plan = [plan[i] for i in rng.permutation(len(plan))] if plan else []
    for kind in plan:
        if kind == 'B':
            m.st(x >= 0) if rng.random() < 0.5 else m.st(x <= 8, x[0] >= -8)
            tags.append('con:bounds')
        elif kind == 'R':
            robust = rng.random() < 0.65
            k = None if rng.random() < 0.7 else int(rng.integers(2, 4))
            e, _ = rand_expr(robust, k)
            rhs = dy(rng) if k is None else np.array([dy(rng) for _ in range(k)])
            sense = ['<=', '>=', '=='][int(rng.integers(0, 3))]
            c = (e <= rhs) if sense == '<=' else (e >= rhs) if sense == '>=' else (e == rhs)
            opts = ['none', 'list', 'own-f'] + (['own-g'] if gset is not None else [])
            if not has_default and robust and rng.random() < 0.93:
                opts = [o for o in opts if o != 'none']
            fa = opts[int(rng.integers(0, len(opts)))]
            if fa == 'list':
                c = c.forall(one_support())
            elif fa == 'own-g':
                c = c.forall(gset)
            elif fa == 'own-f':
                c = c.forall(fset)
            m.st(c)
            tags.append('con:R:%s%s%s:%s' % ('rob' if robust else 'lin', sense, '' if k is None else '[vec]', fa))
        else:
            ckind = ['E1<=', 'E1>=', 'Emax', 'Edet', 'Evec', 'E1=='][int(rng.integers(0, 6))]
            if ckind == 'E1<=':
                c = E(rand_expr(True)[0]) <= dy(rng)
            elif ckind == 'E1>=':
                c = E(rand_expr(True)[0]) >= dy(rng)
            elif ckind == 'E1==':
                c = E(rand_expr(rng.random() < 0.7)[0]) == dy(rng)
            elif ckind == 'Emax':
                k = int(rng.integers(2, 4))
                c = E(rso.maxof(*[rand_expr(rng.random() < 0.75)[0] for _ in range(k)])) <= dy(rng)
            elif ckind == 'Edet':
                c = E(rand_expr(False)[0]) <= dy(rng)
            else:
                c = E(rand_expr(True, 2)[0]) <= np.array([dy(rng) for _ in range(2)])
            fa = 'default'
            if gset is not None and rng.random() < 0.4:
                c = c.forall(gset); fa = 'own-g'
            elif rng.random() < 0.2 or (not has_default and rng.random() < 0.8):
                c = c.forall(fset); fa = 'own-f'
            m.st(c)
            tags.append('con:E:%s:%s' % (ckind, fa))
    if rng.random() < 0.12:
        nm, v, _ = dec[int(rng.integers(0, len(dec)))]
        try:
            v[int(rng.integers(0, v.size))].adapt(zs[int(rng.integers(0, nz))])
            tags.append('late-affadapt')
        except (RuntimeError, ValueError):
            pass
    return m, S, nz, [fset] + ([gset] if gset is not None else [])


# ----------------------------------------------------------------------------- export
def support_prog(m, constraints):
    m.sup_model.reset()
    for item in flat([constraints]):
        m.sup_model.st(item)
    return prog_json(m.sup_model.do_math(primal=True, obj=False))


def amb_json(m, a, S):
    sups = []
    for s in range(S):
        if a.sup_constr[s] is None:
            raise NotImplementedError('scenario without support')
        sups.append(support_prog(m, a.sup_constr[s]))
    m.pro_model.reset()
    m.pro_model.st(a.pro_constr)
    pro = prog_json(m.pro_model.do_math(obj=False))
    exps = []
    for econstr, indices in zip(a.exp_constr, a.exp_constr_indices):
        m.exp_model.reset()
        m.exp_model.st(econstr)
        exps.append({'prog': prog_json(m.exp_model.do_math(obj=False)), 'indices': [int(s) for s in indices]})
    return {'sup': sups, 'pro': pro, 'exps': exps}


class Ambs:
    def __init__(self, m, S, known):
        self.m, self.S = m, S
        self.objs = []
        self.js = []
        for a in known:
            self.ref(a)

    def ref(self, a):
        for i, o in enumerate(self.objs):
            if o is a:
                return i
        self.objs.append(a)
        self.js.append(amb_json(self.m, a, self.S))
        return len(self.objs) - 1


def piece_json(pc, num_var, nz):
    """kind and rows of a DecLinConstr / DecRoConstr (`... <= 0` / `== 0`) over the vt_model's columns"""
    if isinstance(pc, DecRoConstr):
        m_, nzc = pc.raffine.shape
        if nzc != nz:
            raise NotImplementedError('random variable declared after the constraint')
        raf = sp.csr_matrix(pc.raffine.linear)[:, :num_var]
        RL = pad(dense(raf), num_var).reshape(m_, nz, num_var)
        RC = np.asarray(pc.raffine.const, dtype=float).reshape(m_, nz)
        al = pad(dense(sp.csr_matrix(pc.affine.linear)[:, :num_var]), num_var)
        ac = np.asarray(pc.affine.const, dtype=float).reshape(-1)
        rst = sorted(int(d) for d in np.unique(raf.indices))
        full = sp.csr_matrix(pc.raffine.linear)
        pat = [sorted(int(d) for d in np.unique(full[i * nz:(i + 1) * nz].indices) if d < num_var) for i in range(m_)]
        # hypotheses `hrst` / `PiecesWF` of the theorems: the patterns cover the non-zero random coefficients
        assert all(d in rst for d in np.nonzero(np.abs(RL).sum(axis=(0, 1)))[0])
        assert all(d in pat[i] for i in range(m_) for d in np.nonzero(np.abs(RL[i]).sum(axis=0))[0])
        return {'kind': 'ro', 'rows': rows_of(RL, RC, al, ac), 'rst': rst, 'pat': pat}
    assert isinstance(pc, DecLinConstr), type(pc).__name__
    al = pad(dense(pc.linear), num_var)
    m_ = al.shape[0]
    ac = -np.asarray(pc.const, dtype=float).reshape(-1)
    return {'kind': 'lin', 'rows': rows_of(np.zeros((m_, nz, num_var)), np.zeros((m_, nz)), al, ac), 'rst': [],
            'pat': [[] for _ in range(m_)]}


def sense_of(c):
    s = np.asarray(c.sense).reshape(-1)
    assert np.all(s == s[0])
    return int(s[0] == 1)


def con_json(m, c, ambs, num_var, nz):
    if isinstance(c, ExpPWConstr):
        a = c.ambset
        return {'k': 'E', 'eq': 0, 'amb': None if not a else ambs.ref(a),
                'pieces': [piece_json(pc, num_var, nz) for pc in c.pieces]}
    if not isinstance(c, (DecLinConstr, DecRoConstr)):
        raise NotImplementedError(type(c).__name__)
    pj = piece_json(c, num_var, nz)
    if c.ctype == 'E':
        a = c.ambset
        return {'k': 'E', 'eq': sense_of(c), 'amb': None if not a else ambs.ref(a), 'pieces': [pj]}
    assert c.ctype == 'R'
    a = c.ambset
    if a is None:
        sel = {'k': 'dflt'}
    elif isinstance(a, Ambiguity):
        sel = {'k': 'amb', 'a': ambs.ref(a)}
    else:
        assert isinstance(a, Iterable)
        sel = {'k': 'list', 'prog': support_prog(m, a)}
    return {'k': 'R', 'kind': pj['kind'], 'eq': sense_of(c), 'rows': pj['rows'], 'rst': pj['rst'], 'sel': sel}


def obj_expr_json(m, num_var, nz):
    """the objective as expression + sign (variant B); None when it is not one (bi-)affine expression"""
    o = m.obj
    if isinstance(o, (DecVar, DecVarSub)):
        o = o.to_affine()
    if isinstance(o, DecRoAffine):
        if o.raffine.shape[1] != nz or o.affine.size != 1:
            return None
        raf = sp.csr_matrix(o.raffine.linear)[:, :num_var]
        RL = pad(dense(raf), num_var).reshape(1, nz, num_var)
        RC = np.asarray(o.raffine.const, dtype=float).reshape(1, nz)
        al = pad(dense(sp.csr_matrix(o.affine.linear)[:, :num_var]), num_var)
        ac = np.asarray(o.affine.const, dtype=float).reshape(-1)
        return {'k': 'expr', 'sign': fr(m.sign), 'ctype': o.ctype, 'kind': 'ro', 'rows': rows_of(RL, RC, al, ac),
                'rst': sorted(int(d) for d in np.unique(raf.indices))}
    if isinstance(o, DecAffine):
        if o.size != 1:
            return None
        al = pad(dense(o.linear), num_var)
        ac = np.asarray(o.const, dtype=float).reshape(-1)
        return {'k': 'expr', 'sign': fr(m.sign), 'ctype': o.ctype, 'kind': 'lin',
                'rows': rows_of(np.zeros((1, nz, num_var)), np.zeros((1, nz)), al, ac), 'rst': []}
    return None


def export(m, S, nz, known):
    num_var = m.vt_model.vars[-1].last
    assert m.sup_model.vars[-1].last == nz
    decs = []
    for dv in m.dec_vars:
        mask = dv.rand_adapt if dv.rand_adapt is not None else np.zeros((dv.size, nz))
        if mask.shape != (dv.size, nz):
            raise NotImplementedError('random variable declared after adapt()')
        decs.append({'size': int(dv.size), 'events': [[int(s) for s in e] for e in dv.event_adapt],
                     'mask': [[int(v) for v in r] for r in np.asarray(mask)], 'vtype': str(dv.vtype)})
    assert sum(d['size'] for d in decs) == num_var
    ambs = Ambs(m, S, known)
    cons = [con_json(m, c, ambs, num_var, nz) for c in m.all_constr]
    objc = (m.dec_vars[0] >= m.obj * m.sign)                 # as do_math builds it
    objA = {'k': 'con', 'con': con_json(m, objc, ambs, num_var, nz)}
    objB = obj_expr_json(m, num_var, nz)
    dflt = None if m.obj_ambiguity is None else ambs.ref(m.obj_ambiguity)
    base = {'op': 'dro_model', 'S': S, 'nrand': nz, 'decs': decs, 'ambs': ambs.js, 'default': dflt, 'cons': cons}
    reqs = [('A', dict(base, obj=objA))]
    if objB is not None:
        reqs.append(('B', dict(base, obj=objB)))
    return reqs


KEYS = ('nr', 'nc', 'a', 'b', 'eq', 'ub', 'lb', 'c', 'vtype', 'qmat', 'xmat')


def main():
    seed = int(sys.argv[1]) if len(sys.argv) > 1 else 0
    n = int(sys.argv[2]) if len(sys.argv) > 2 else 30
    rng = np.random.default_rng(seed)
    hist = {}

    def cnt(k, v=1):
        if v:
            hist[k] = hist.get(k, 0) + v
    reqs = []; meta = []
    refusals = {}
    nmodels = 0
    while nmodels < n:
        sub = int(rng.integers(2 ** 31))
        r = np.random.default_rng(sub)
        tags = []
        try:
            with quiet():
                m, S, nz, known = build_model(r, tags)
            rq = export(m, S, nz, known)
        except AssertionError:
            raise
        except Exception as e:                       # the API refuses the random combination
            key = type(e).__name__ + ':' + str(e)[:60]
            refusals[key] = refusals.get(key, 0) + 1
            if sum(refusals.values()) > 20 * n + 100:
                raise
            continue
        # the real thing, after the export
        try:
            with quiet():
                f = m.do_math()
            code = prog_json(f, with_vtype=True)
            code['nd'] = None
            if code['nlmi']:
                cnt('skip:lmi'); continue
        except SyntaxError as e:
            code = {'raises': 'SyntaxError: ' + str(e)}
        except ValueError as e:
            code = {'raises': 'ValueError: ' + str(e)}
        nmodels += 1
        for t in set(tags):
            cnt('model:' + t)
        cnt('model:constraints=%d' % len(m.all_constr))
        for variant, q in rq:
            reqs.append(q)
            meta.append({'seed': sub, 'variant': variant, 'code': code, 'tags': tags})
    if os.environ.get('DRO_MODEL_SELFTEST'):
        # self-test of the comparison: reverse the constraint order of every request
        for q in reqs:
            q['cons'] = q['cons'][::-1]
    inp = '\n'.join(json.dumps(q, separators=(',', ':')) for q in reqs) + '\n'
    out = subprocess.run(['lake', 'env', 'lean', '--run', 'Driver.lean'], input=inp, cwd=HERE,
                         capture_output=True, text=True)
    lines = [ln for ln in out.stdout.splitlines() if ln.startswith('{')]
    if len(lines) != len(reqs):
        print('driver failure', out.stderr[:2000], out.stdout[:2000])
        print(f'cases {len(reqs)} mismatches {len(reqs)}')
        sys.exit(1)
    cases = 0; mism = 0
    for q, mt, ln in zip(reqs, meta, lines):
        lean = json.loads(ln)
        code = mt['code']
        cases += 1
        cnt('variant:' + mt['variant'])
        if 'error' in lean:
            ok = False
            diff = {'lean-error': lean['error']}
        elif 'raises' in code or 'raises' in lean:
            ok = code.get('raises') == lean.get('raises')
            diff = None if ok else {'code': code.get('raises'), 'model': lean.get('raises')}
            cnt('outcome:raises:' + str(code.get('raises'))[:50])
        else:
            d = [k for k in KEYS if code.get(k) != lean.get(k)]
            ok = not d
            diff = None if ok else {k: {'code': code.get(k), 'model': lean.get(k)} for k in d[:2]}
            if not ok:
                diff['keys'] = d
            cnt('outcome:program')
            # hypotheses of `C03Model.dro_model_sound`, re-checked on the in-range entries
            if not lean.get('rule_wf', False):
                ok = False; diff = {'hypothesis': 'RuleWF'}
            if not all(lean.get('amb_wf', [False])):
                ok = False; diff = {'hypothesis': 'AmbWF'}
            for v in lean.get('pieces_ok', []):
                # follows from the absence of an exception (`C03Model.droItems_piecesOK`)
                cnt('derived:PiecesOK:' + ('holds' if v else 'fails'))
                if not v:
                    ok = False; diff = {'derived': 'PiecesOK'}
            for b in lean.get('branches', []):
                cnt('lean:' + b)
            cnt('program:exp-cones', 1 if lean.get('xmat') else 0)
            cnt('program:soc-cones', 1 if lean.get('qmat') else 0)
            cnt('program:columns<=40' if lean['nc'] <= 40 else 'program:columns<=100' if lean['nc'] <= 100 else 'program:columns>100')
            nE = sum(1 for c in q['cons'] if c['k'] == 'E')
            nR = sum(1 for c in q['cons'] if c['k'] == 'R')
            cnt('program:E-constraints=%d' % nE)
            cnt('program:R-constraints=%d' % nR)
        if not ok:
            mism += 1
            if mism <= 5:
                sys.stderr.write('MISMATCH seed=%d variant=%s tags=%s\n  %s\n' % (mt['seed'], mt['variant'], mt['tags'],
                                                                               json.dumps(diff)[:1500]))
    print('models', nmodels, 'api-refusals', json.dumps(refusals, sort_keys=True))
    print('histogram', json.dumps(dict(sorted(hist.items()))))
    print(f'cases {cases} mismatches {mism}')
    sys.exit(0 if mism == 0 else 1)


if __name__ == '__main__':
    main()
