#!/venv/bin/python
"""Differential test: Lean model `detModel` (RsomeV/M/DetModel.lean, op "det_model") of the WHOLE
deterministic formulation `Model.do_math(primal=True)` (gcp -> socp -> lp layers) against the real code,
for random models with several atoms of mixed kinds, rows, bounds, integrality and an (atom) objective.

usage (from the lake project directory):
    PYTHONPATH=<rsome checkout> /venv/bin/python test_det_model.py <seed> <N>
prints histograms and `cases <n> mismatches <k>`.

Every model is built through the public API (`ro.Model()` without random variables, `gcp.Model`,
`socp.Model`, `lp.Model`); the request sent to the Lean model is exported from the model's OWN
constraint objects (in `st` order) and from the objective expression handed to `min` / `max`; the reply
is compared ENTRY BY ENTRY with `m.do_math()`: nr nc a b eq ub lb c vtype qmat xmat.
Data are dyadic (perfect-square factors for S / Q, powers of two where the code divides by the
multiplier), so the comparison is exact.
"""
import sys
import os
import json
import random
import subprocess
import warnings
from fractions import Fraction

import numpy as np
import rsome as rso
from rsome import ro, gcp, socp, lp
from rsome.lp import LinConstr, Bounds, CvxConstr, PCvxConstr, KLConstr, Convex, PerspConvex

warnings.filterwarnings('ignore')
HERE = os.environ.get('RSOMEV_LEAN_DIR', os.path.dirname(os.path.abspath(__file__)))
DEBUG = bool(os.environ.get('DET_DEBUG'))


# ----------------------------------------------------------------------------- exact export
def fs(x):
    f = Fraction(float(x))
    return str(f.numerator) if f.denominator == 1 else f"{f.numerator}/{f.denominator}"


def svec(v):
    return [fs(t) for t in v]


def smat(M):
    return [[fs(v) for v in row] for row in M]


def rows_of(expr, ncols):
    """(matrix rows padded to ncols, constants, shape) of an Affine / Vars / numeric array / number"""
    if isinstance(expr, (int, float, np.floating, np.integer)):
        return [[0.0] * ncols], [float(expr)], []
    if isinstance(expr, np.ndarray):
        flat = expr.reshape(expr.size)
        return [[0.0] * ncols for _ in flat], [float(v) for v in flat], list(expr.shape)
    a = expr.to_affine()
    lin = a.linear.toarray() if hasattr(a.linear, 'toarray') else np.array(a.linear)
    lin = np.array(lin, dtype=float).reshape(a.size, -1)
    assert lin.shape[1] <= ncols, (lin.shape, ncols)
    M = np.zeros((a.size, ncols))
    M[:, :lin.shape[1]] = lin
    const = np.broadcast_to(np.array(a.const, dtype=float), a.shape).reshape(a.size)
    return M.tolist(), const.tolist(), list(a.shape)


def t_params(affine_in, params):
    """the triples of `np.broadcast(arange(size).reshape(shape), p, q)` (C order)"""
    p, q = params
    this = np.arange(affine_in.size).reshape(affine_in.shape)
    bd = np.broadcast(this, p, q)
    trip = [(int(a), int(b), int(c)) for a, b, c in bd]
    return {"idx": [t[0] for t in trip], "p": [t[1] for t in trip], "q": [t[2] for t in trip]}, bd.shape


def atom_json(c, ncols):
    """describe a CvxConstr / PCvxConstr / KLConstr / Convex / PerspConvex object of rsome"""
    if isinstance(c, KLConstr):
        P, pb, _ = rows_of(c.p, ncols)
        phat = np.array(c.phat, dtype=float).reshape(-1)
        return {"xtype": "K", "p": smat(P), "pb": svec(pb), "phat": svec(phat), "r": fs(c.r)}
    A, b, ish = rows_of(c.affine_in, ncols)
    G, g, osh = rows_of(c.affine_out, ncols)
    d = {"xtype": c.xtype, "mult": fs(c.multiplier), "ain": smat(A), "bin": svec(b),
         "aout": smat(G), "bout": svec(g), "in_shape": ish, "out_shape": osh, "params": None}
    if isinstance(c, (PCvxConstr, PerspConvex)):
        S, s, ssh = rows_of(c.affine_scale, ncols)
        d.update({"ascale": smat(S), "bscale": svec(s), "scale_shape": ssh})
    if c.xtype == 'G':
        d["params"] = int(c.params) if isinstance(c.params, (int, np.integer)) else [int(v) for v in c.params]
    elif c.xtype == 'C':
        d["params"] = [int(v) for v in c.params]
    elif c.xtype == 'T':
        d["params"], shape = t_params(c.affine_in, c.params)
        n_el = len(d["params"]["idx"])
        if len(g) != n_el:            # `aux1.reshape(bd.shape) + affine_out` broadcasts affine_out
            Gm = np.broadcast_to(np.array(G).reshape(tuple(osh) + (ncols,)), tuple(shape) + (ncols,))
            gm = np.broadcast_to(np.array(g).reshape(tuple(osh)), tuple(shape))
            d["aout"], d["bout"] = smat(Gm.reshape(n_el, ncols)), svec(gm.reshape(n_el))
    return d


def item_json(c, ncols):
    """the items of one object passed to `st`"""
    if isinstance(c, Bounds):
        return [{"kind": "bound", "btype": str(c.btype), "idx": [int(i) for i in np.asarray(c.indices).reshape(-1)],
                 "vals": svec(np.asarray(c.values, dtype=float).reshape(-1))}]
    if isinstance(c, LinConstr):
        lin = np.asarray(c.linear.todense(), dtype=float)
        M = np.zeros((lin.shape[0], ncols))
        assert lin.shape[1] <= ncols
        M[:, :lin.shape[1]] = lin
        const = np.asarray(c.const, dtype=float).reshape(-1)
        sense = np.asarray(c.sense).reshape(-1)
        return [{"kind": "row", "lin": svec(M[i]), "rhs": fs(const[i]), "eq": int(sense[i])} for i in range(M.shape[0])]
    d = atom_json(c, ncols)
    d["kind"] = "atom"
    return [d]


def obj_json(expr, sign, ncols):
    if expr is None:
        return None
    if isinstance(expr, Convex):
        d = atom_json(expr, ncols)
        d.update({"kind": "atom", "sign": fs(sign)})
        return d
    A, b, _ = rows_of(expr, ncols)
    assert len(A) == 1
    return {"kind": "affine", "sign": fs(sign), "lin": svec(A[0]), "const": fs(b[0])}


def prog_json(f):
    lin = np.asarray(f.linear.todense(), dtype=float)
    return {
        'nr': int(lin.shape[0]), 'nc': int(lin.shape[1]),
        'a': [[Fraction(float(v)) for v in row] for row in lin],
        'b': [Fraction(float(v)) for v in np.asarray(f.const, dtype=float).reshape(-1)],
        'eq': [int(s) for s in np.asarray(f.sense).reshape(-1)],
        'ub': [None if np.isinf(v) else Fraction(float(v)) for v in f.ub],
        'lb': [None if np.isinf(v) else Fraction(float(v)) for v in f.lb],
        'c': [Fraction(float(v)) for v in np.asarray(f.obj, dtype=float).reshape(-1)],
        'qmat': [[int(i) for i in q] for q in (getattr(f, 'qmat', None) or [])],
        'xmat': [[int(i) for i in q] for q in (getattr(f, 'xmat', None) or [])],
        'vtype': ''.join(str(t) for t in f.vtype),
    }


def parse_reply(r):
    def pr(s):
        return None if s is None else Fraction(s)
    return {
        'nr': r['nr'], 'nc': r['nc'],
        'a': [[pr(v) for v in row] for row in r['a']], 'b': [pr(v) for v in r['b']], 'eq': r['eq'],
        'ub': [pr(v) for v in r['ub']], 'lb': [pr(v) for v in r['lb']], 'c': [pr(v) for v in r['c']],
        'qmat': r['qmat'], 'xmat': r['xmat'], 'vtype': r['vtype'],
    }


KEYS = ['nr', 'nc', 'a', 'b', 'eq', 'ub', 'lb', 'c', 'vtype', 'qmat', 'xmat']


# ----------------------------------------------------------------------------- random data
class Gen:
    def __init__(self, rng, m, vs):
        self.rng, self.m, self.vs = rng, m, vs
        self.n = sum(v.size for v in vs)

    def dy(self, zero=0.3):
        if self.rng.random() < zero:
            return 0.0
        return self.rng.choice([-3, -2, -1.5, -1, -0.75, -0.5, -0.25, 0.25, 0.5, 0.75, 1, 1.5, 2, 3])

    def aff(self, shape=(), allow_const=False):
        """random affine expression of the given shape over ALL user variables (or numeric data)"""
        rng = self.rng
        size = int(np.prod(shape)) if shape != () else 1
        if allow_const and rng.random() < 0.2:
            v = np.array([self.dy(0.1) for _ in range(size)])
            return float(v[0]) if shape == () else v.reshape(shape)
        mat = np.array([[self.dy() for _ in range(self.n)] for _ in range(size)], dtype=float).reshape(size, self.n)
        const = np.array([self.dy() for _ in range(size)])
        expr, col = None, 0
        for v in self.vs:
            term = mat[:, col:col + v.size] @ v
            expr = term if expr is None else expr + term
            col += v.size
        expr = expr + const
        if shape == ():
            return expr[0] if (size == 1 and rng.random() < 0.5) else expr.sum()
        return expr.reshape(shape)


def decl_vars(rng, m, n):
    sizes, left = [], n
    while left > 0:
        s = rng.randint(1, left)
        sizes.append(s)
        left -= s
    vs, uv = [], [['C', 1]]
    for s in sizes:
        kind = rng.random()
        if kind < 0.55:
            vt = 'C'
        elif kind < 0.8:
            vt = rng.choice('BI')
        else:
            vt = ''.join(rng.choice('CBI') for _ in range(s))
        vs.append(m.dvar(s, vt))
        uv.append([vt, s])
    return vs, uv


POW2 = [0.25, 0.5, 1, 1, 2, 4]
DYAD = [0.25, 0.5, 1, 1, 1.5, 2, 3, 4]
SQRS = [1, 1, 4, 0.25, 9, 16, 0.0625, 2.25]

KINDS_LP = ['A', 'M', 'I']
KINDS_SOC = KINDS_LP + ['E', 'S', 'Q', 'R', 'G', 'T', 'C']
KINDS_GCP = KINDS_SOC + ['X', 'L', 'P', 'F', 'pX', 'pL', 'K']
CONCAVE = {'C', 'L', 'P', 'pL'}


def shapes_for(rng):
    m = rng.randint(1, 3)
    p = rng.randint(1, 2)
    return rng.choice([
        ((m,), (m,)), ((m,), (m,)), ((m,), (m,)),
        ((m,), ()), ((m,), (1,)), ((1,), (m,)), ((), (m,)), ((), ()),
        ((m,), (p, m)), ((p, 1), (1, m)), ((p, m), (m,)), ((p, m), (p, m)),
    ])


def base_atom(g, kind, scalar=False):
    """the rsome expression f(affine) of the given kind, the factor set, and the shape an added affine
    term may have; `scalar`: the value must have size one (objective position)"""
    rng = g.rng
    r = 1 if (scalar and kind in ('A', 'S', 'T', 'X', 'L', 'F', 'pX', 'pL')) else rng.randint(1, 3)
    if kind == 'A':
        return abs(g.aff((r,))), DYAD, (r,)
    if kind == 'M':
        return rso.norm(g.aff((r,)), 1), DYAD, ()
    if kind == 'I':
        return rso.norm(g.aff((r,)), rng.choice([np.inf, 'inf'])), DYAD, ()
    if kind == 'E':
        return rso.norm(g.aff((r,)), 2), DYAD, ()
    if kind == 'S':
        return rso.square(g.aff((r,))), SQRS, (r,)
    if kind == 'Q':
        return rso.sumsqr(g.aff((r,))), SQRS, ()
    if kind == 'G':
        deg = rng.choice([3, 3, 4, 5, (3, 2), (5, 2), (4, 3), (7, 3), (5, 4)])
        e = g.aff((r,))
        return (rso.norm(e, deg) if isinstance(deg, int) and rng.random() < 0.5 else rso.pnorm(e, deg)), DYAD, ()
    if kind == 'T':
        e = g.aff((r,))
        style = rng.random()
        if style < 0.4:
            p, q = rng.choice([(3, 1), (2, 1), (3, 2), (5, 2), (4, 3), (5, 4), (4, 1)])
        elif style < 0.5:
            p, q = rng.choice([(1, 1), (2, 2)])          # p == q everywhere: rsome returns abs()
        else:
            pq = [rng.choice([(1, 1), (3, 1), (2, 1), (3, 2), (5, 2), (4, 3), (2, 2)]) for _ in range(r)]
            p, q = np.array([t[0] for t in pq]), np.array([t[1] for t in pq])
        return rso.power(e, p, q), POW2, (r,)
    if kind == 'C':
        e = g.aff((r,))
        if rng.random() < 0.5:
            return rso.gmean(e), DYAD, ()
        return rso.gmean(e, [rng.choice([1, 1, 2, 3]) for _ in range(r)]), DYAD, ()
    if kind == 'P':
        ish = rng.choice([(r,), (r,), (r, 1), (1, r)]) if rng.random() < 0.8 else ()
        return rso.entropy(g.aff(ish)), POW2, ()
    # element-wise exp-type atoms: broadcasting between the argument and the added term
    ish, osh = ((), ()) if scalar else shapes_for(rng)
    if scalar and rng.random() < 0.5:
        ish = osh = (1,)
    e = g.aff(ish)
    if kind == 'X':
        return rso.exp(e), POW2, osh
    if kind == 'L':
        return rso.log(e), POW2, osh
    if kind == 'F':
        return rso.softplus(e), POW2, osh
    sc_shape = rng.choice([ish, ish, (), (1,), osh])
    sstyle = rng.random()
    if sstyle < 0.25:
        sc = rng.choice([0.5, 1.0, 2.0, 3.0])
    elif sstyle < 0.4 and sc_shape != ():
        sc = np.abs(np.array([g.dy(0.0) for _ in range(int(np.prod(sc_shape)))])).reshape(sc_shape) + 1
    else:
        sc = g.aff(sc_shape)
    try:
        np.broadcast_shapes(ish, sc_shape if not isinstance(sc, float) else (), osh)
    except ValueError:
        sc = 2.0
    if scalar and not isinstance(sc, float) and int(np.prod(np.shape(sc) if isinstance(sc, np.ndarray) else sc.shape)) != 1:
        sc = 2.0
    if kind == 'pX':
        return rso.pexp(e, sc), POW2, osh
    if kind == 'pL':
        return rso.plog(e, sc), POW2, osh
    raise ValueError(kind)


def make_constraint(g, kind):
    """one constraint object of the given kind, spelled in one of several equivalent ways"""
    rng = g.rng
    if kind == 'K':
        ns = rng.randint(1, 3)
        p = g.aff((ns,))
        phat = rng.choice([0.25, 0.5, 1.0, 2.0]) if rng.random() < 0.3 else \
            np.array([rng.choice([0.125, 0.25, 0.5, 1.0, 2.0]) for _ in range(ns)])
        return rso.kldiv(p, phat, rng.randint(0, 8) / rng.choice([1, 2, 4]))
    if kind == 'R':
        r = rng.randint(1, 3)
        return rso.rsocone(g.aff((r,)), g.aff(()), g.aff(()))
    atom, factors, osh = base_atom(g, kind)
    k = rng.choice(factors)
    if kind in 'AMIESQ' and rng.random() < 0.04:
        k = 0
    oth = g.aff(osh, allow_const=True)
    style = rng.randint(0, 3)
    if kind in CONCAVE:
        if style == 0:
            return -k * atom + oth <= 0
        if style == 1:
            return k * atom >= oth
        if style == 2:
            return oth <= atom * k
        return oth - k * atom <= 0
    if style == 0:
        return k * atom + oth <= 0
    if style == 1:
        return atom * k <= -oth
    if style == 2:
        return -oth >= k * atom
    return oth + k * atom <= 0


def make_bound(g):
    rng = g.rng
    v = rng.choice(g.vs)
    kind = rng.randint(0, 3)
    up = rng.random() < 0.5
    if kind == 0:
        val = g.dy(0.2)
        return (v <= val) if up else (v >= val)
    if kind == 1:
        vec = np.array([g.dy(0.2) for _ in range(v.size)])
        return (v <= vec) if up else (v >= vec)
    if kind == 2:
        idx = [rng.randrange(v.size) for _ in range(rng.randint(1, 3))]
        val = g.dy(0.2)
        return (v[idx] <= val) if up else (v[idx] >= val)
    lo = rng.randrange(v.size)
    val = g.dy(0.2)
    return (v[lo:] <= val) if up else (v[lo:] >= val)


def make_row(g):
    rng = g.rng
    shape = () if rng.random() < 0.7 else (rng.randint(1, 3),)
    e = g.aff(shape)
    rhs = g.aff(shape, allow_const=True) if rng.random() < 0.3 else g.dy(0.2)
    s = rng.random()
    if s < 0.45:
        return e <= rhs
    if s < 0.8:
        return e >= rhs
    return e == rhs


FRONTS = {'ro': (ro.Model, 2, KINDS_GCP), 'gcp': (gcp.Model, 2, KINDS_GCP),
          'socp': (socp.Model, 1, KINDS_SOC), 'lp': (lp.Model, 0, KINDS_LP)}


def gen_case(rng, idx):
    front = rng.choice(['ro', 'ro', 'gcp', 'gcp', 'socp', 'lp'])
    mk, top, kinds = FRONTS[front]
    m = mk()
    n = rng.randint(1, 4)
    vs, uv = decl_vars(rng, m, n)
    ncols = n + 1
    g = Gen(rng, m, vs)
    natoms = rng.choice([0, 1, 2, 2, 3, 3, 4])
    todo = ['atom'] * natoms + ['row'] * rng.randint(0, 3) + ['bound'] * rng.choice([0, 1, 2, 3, 4])
    rng.shuffle(todo)
    items, tags = [], []
    # rotate through the catalogue so that every kind is exercised even in short runs
    for what in todo:
        if what == 'atom':
            kind = kinds[(idx + len(tags)) % len(kinds)] if rng.random() < 0.5 else rng.choice(kinds)
            c = make_constraint(g, kind)
            if isinstance(c, CvxConstr):
                tags.append(('p' if isinstance(c, PCvxConstr) else '') + c.xtype)
            elif isinstance(c, KLConstr):
                tags.append('K')
            else:
                tags.append(type(c).__name__)
        elif what == 'row':
            c = make_row(g)
        else:
            c = make_bound(g)
        items.extend(item_json(c, ncols))      # exported BEFORE `st` / `do_math` touch the object
        m.st(c)
    # objective
    u = rng.random()
    okind = 'none'
    expr, sign = None, 1
    if front == 'ro' and u < 0.15:
        expr, sign, okind = 0, 1, 'const'
    elif u < 0.15:
        pass
    elif u < 0.5:
        expr = g.aff(()) if rng.random() < 0.8 else g.aff((1,))
        sign = rng.choice([1, -1])
        okind = 'affine'
    else:
        kind = rng.choice([k for k in kinds if k not in ('K', 'R')])
        higher = [k for k in KINDS_GCP if k not in kinds and k not in ('K', 'R')]
        dropped = bool(higher) and rng.random() < 0.2
        if dropped:
            # an objective atom of a layer the model class does not have: `min`/`max` accept it and
            # every loop of `do_math` silently skips the objective constraint
            kind = rng.choice(higher)
        atom, factors, osh = base_atom(g, kind, scalar=True)
        k = rng.choice(factors)
        oth = g.aff(osh if osh in ((), (1,)) else (), allow_const=True)
        concave = kind in CONCAVE
        # min of a convex / max of a concave expression
        sign = rng.choice([1, -1])
        coef = k if (sign == 1) != concave else -k
        expr = coef * atom + oth if rng.random() < 0.7 else oth + atom * coef
        okind = ('atom(ignored by the model class) ' if dropped else 'atom ') + \
            ('p' if isinstance(expr, PerspConvex) else '') + expr.xtype
        if int(np.prod(np.shape(expr.affine_out) if not hasattr(expr.affine_out, 'shape') else expr.affine_out.shape)) != 1:
            raise ValueError('objective of size > 1')
    if expr is None and front == 'ro':
        expr, sign, okind = 0, 1, 'const'
    oj = obj_json(expr, sign, ncols)
    if expr is not None:
        (m.min if sign == 1 else m.max)(expr)
    req = {"op": "det_model", "top": top, "ncols": ncols, "uservars": uv, "items": items, "obj": oj}
    f = m.do_math()
    return req, prog_json(f), {'front': front, 'atoms': tags, 'obj': okind + (' max' if sign == -1 and expr is not None else ''),
                               'vt': ''.join(sorted(set(''.join(v[0] for v in uv[1:])))),
                               'nrow': sum(1 for i in items if i['kind'] == 'row'),
                               'nbound': sum(1 for i in items if i['kind'] == 'bound')}


def main():
    seed = int(sys.argv[1]) if len(sys.argv) > 1 else 0
    total = int(sys.argv[2]) if len(sys.argv) > 2 else 200
    rng = random.Random(seed)
    cases, refused = [], {}
    tries = 0
    while len(cases) < total and tries < 60 * total:
        tries += 1
        try:
            cases.append(gen_case(rng, len(cases)))
        except (ValueError, TypeError, ZeroDivisionError, IndexError, AssertionError) as e:
            # shapes / curvatures the library itself refuses (not part of the modelled behaviour)
            key = type(e).__name__ + ': ' + str(e)[:60]
            refused[key] = refused.get(key, 0) + 1
            if DEBUG:
                import traceback
                traceback.print_exc()
    inp = '\n'.join(json.dumps(c[0], separators=(',', ':')) for c in cases) + '\n'
    res = subprocess.run(['lake', 'env', 'lean', '--run', 'Driver.lean'], input=inp, cwd=HERE,
                         capture_output=True, text=True)
    lines = [ln for ln in res.stdout.splitlines() if ln.startswith('{')]
    if len(lines) != len(cases):
        print('driver failure:', res.stderr[-2000:], res.stdout[-500:], file=sys.stderr)
        print(f'cases {len(cases)} mismatches {len(cases)}')
        sys.exit(1)
    mism = 0
    h_front, h_atom, h_obj, h_nat, h_vt, h_rows, h_bnds, h_size = {}, {}, {}, {}, {}, {}, {}, {}

    def bump(h, k):
        h[k] = h.get(k, 0) + 1
    for ci, ((req, want, info), ln) in enumerate(zip(cases, lines)):
        got = json.loads(ln)
        bad = []
        if 'error' in got:
            bad.append('error: ' + got['error'])
        else:
            gp = parse_reply(got)
            bad = [k for k in KEYS if gp[k] != want[k]]
        bump(h_front, info['front'])
        for t in info['atoms']:
            bump(h_atom, t)
        bump(h_obj, info['obj'])
        bump(h_nat, len(info['atoms']))
        bump(h_vt, info['vt'])
        bump(h_rows, info['nrow'])
        bump(h_bnds, info['nbound'])
        bump(h_size, '<=10' if want['nc'] <= 10 else '<=30' if want['nc'] <= 30 else '<=100' if want['nc'] <= 100 else '>100')
        if len(set(t for t in info['atoms'])) > 1:
            bump(h_nat, 'mixed')
        if bad:
            mism += 1
            if mism <= 8:
                print('MISMATCH case', ci, info, bad, file=sys.stderr)
                if DEBUG:
                    print(json.dumps(req), file=sys.stderr)
                    for k in bad:
                        if k in want:
                            print('   want', k, want[k], file=sys.stderr)
                            print('   got ', k, gp.get(k) if 'error' not in got else None, file=sys.stderr)

    def show(name, h):
        print(name, ' '.join(f'{k}:{v}' for k, v in sorted(h.items(), key=lambda kv: str(kv[0]))))
    show('front', h_front)
    show('atoms(constraint position)', h_atom)
    show('objective', h_obj)
    show('atoms per model', h_nat)
    show('vtypes', h_vt)
    show('rows per model', h_rows)
    show('bounds per model', h_bnds)
    show('columns', h_size)
    show('refused by rsome', refused)
    print(f'cases {len(cases)} mismatches {mism}')
    sys.exit(0 if mism == 0 and len(cases) == total else 1)


if __name__ == '__main__':
    main()
