"""Correspondence test: `RoConstr.le_to_rc` (rsome/lp.py) vs the Lean model `RoRows.leToRc`
(RsomeV/M/Robust.lean, driver op `le_to_rc`) on robust models where random variables are declared
AFTER `minmax()` / `forall()` fixed the uncertainty set ("late" random variables).

    /venv/bin/python test_late_rvar.py <seed> <N>

Builds N random ro models (box / 1-norm / inf-norm / 2-norm sets; 1-3 constraint rows; 0-2 late
random variables whose coefficients are zero, constant non-zero or decision dependent), calls the
real `con.le_to_rc(support)` for every robust constraint, calls the Lean op for all cases in one
driver run and compares the two fragments entry by entry (rows, rhs, senses, bounds, cones, block
sizes n1..n4).  Prints `cases <n> mismatches <k>` and the branch counts.
"""
import os, sys, json, subprocess, contextlib, warnings
from fractions import Fraction

HERE = os.environ.get('RSOMEV_LEAN_DIR', os.path.dirname(os.path.abspath(__file__)))
REPO = os.environ.get('RSOME_REPO', '/repo')
if REPO not in sys.path:
    sys.path.insert(0, REPO)
warnings.filterwarnings('ignore')

import numpy as np                      # noqa: E402
import scipy.sparse as sp               # noqa: E402
import rsome as rso                     # noqa: E402
from rsome import ro                    # noqa: E402
from rsome.lp import RoConstr, LinConstr, Bounds, ConeConstr, ExpConstr   # noqa: E402


# ----------------------------------------------------------------------------- helpers (from /verif/harness/common.py)
def fr(v):
    f = v if isinstance(v, Fraction) else Fraction(float(v))
    return str(f.numerator) if f.denominator == 1 else f"{f.numerator}/{f.denominator}"


def optfr(v):
    return None if np.isinf(v) else fr(v)


def unfr(s):
    return None if s is None else Fraction(s)


def dense(m):
    if sp.issparse(m):
        return np.asarray(m.todense())
    return np.asarray(m)


def prog_json(f):
    A = dense(f.linear)
    d = {"nr": int(A.shape[0]), "nc": int(A.shape[1]),
         "a": [[fr(v) for v in row] for row in A],
         "b": [fr(v) for v in np.asarray(f.const).reshape(-1)],
         "eq": [int(s) for s in np.asarray(f.sense).reshape(-1)],
         "ub": [optfr(v) for v in f.ub], "lb": [optfr(v) for v in f.lb],
         "c": [fr(v) for v in np.asarray(f.obj).reshape(-1)]}
    L = sp.csr_matrix(f.linear) if not sp.isspmatrix_csr(f.linear) else f.linear
    d["sp"] = [sorted(set(int(c) for c in L.indices[L.indptr[i]:L.indptr[i + 1]])) for i in range(L.shape[0])]
    d["qmat"] = [[int(i) for i in q] for q in getattr(f, 'qmat', [])]
    d["xmat"] = [[int(i) for i in q] for q in getattr(f, 'xmat', [])]
    return d


@contextlib.contextmanager
def quiet():
    sys.stdout.flush()
    saved = os.dup(1)
    devnull = os.open(os.devnull, os.O_WRONLY)
    try:
        os.dup2(devnull, 1)
        yield
    finally:
        sys.stdout.flush()
        os.dup2(saved, 1)
        os.close(devnull)
        os.close(saved)


def lean_run(cases, timeout=3600):
    if not cases:
        return []
    inp = "\n".join(json.dumps(c, separators=(',', ':')) for c in cases) + "\n"
    p = subprocess.run(['lake', 'env', 'lean', '--run', 'Driver.lean'], cwd=HERE, input=inp,
                       capture_output=True, text=True, timeout=timeout)
    lines = [l for l in p.stdout.splitlines() if l.startswith('{') or l.startswith('[')]
    if len(lines) != len(cases):
        raise RuntimeError(f"driver returned {len(lines)} lines for {len(cases)} cases; rc={p.returncode}; "
                           f"stderr: {p.stderr[:2000]} stdout-tail: {p.stdout[-500:]}")
    return [json.loads(l) for l in lines]


# ----------------------------------------------------------------------------- code side (from c01_harness_reference.py, extended)
def fragment_from_code(out, nc):
    """the list returned by le_to_rc as one dense program fragment.

    The LinConstr objects come in the order constr1, constr2, [constr3], [late == 0]; which of the
    optional ones are present is decided from the code's own branch conditions by the caller
    (`sizes` is returned so that the caller can attribute them)."""
    rows = []; b = []; eq = []; sizes = []
    ub = [None] * nc; lb = [None] * nc
    qmat = []; xmat = []
    for c in out:
        if isinstance(c, LinConstr):
            A = dense(c.linear)
            A = np.hstack([A, np.zeros((A.shape[0], nc - A.shape[1]))])
            rows.append(A); b += [fr(v) for v in np.asarray(c.const).reshape(-1)]
            eq += [int(s) for s in np.asarray(c.sense).reshape(-1)]
            sizes.append(A.shape[0])
        elif isinstance(c, Bounds):
            for i, v in zip(np.asarray(c.indices).reshape(-1), np.asarray(c.values).reshape(-1)):
                if c.btype == 'U':
                    ub[int(i)] = fr(v) if ub[int(i)] is None else fr(min(float(unfr(ub[int(i)])), v))
                else:
                    lb[int(i)] = fr(v) if lb[int(i)] is None else fr(max(float(unfr(lb[int(i)])), v))
        elif isinstance(c, ConeConstr):
            qmat.append([int(c.right_var.first + c.right_index)] + [int(c.left_var.first + i) for i in c.left_index])
        elif isinstance(c, ExpConstr):
            cols = []
            for e in (c.expr1, c.expr2, c.expr3):
                a = e.to_affine()
                L = dense(a.linear)
                nzc = np.nonzero(L.reshape(-1))[0]
                assert len(nzc) == 1 and L.reshape(-1)[nzc[0]] == 1 and not np.any(a.const)
                cols.append(int(nzc[0]))
            xmat.append(cols)
        else:
            raise TypeError(type(c).__name__)
    A = np.vstack(rows) if rows else np.zeros((0, nc))
    return {"nr": int(A.shape[0]), "nc": int(nc), "a": [[fr(v) for v in r] for r in A], "b": b, "eq": eq,
            "ub": ub, "lb": lb, "qmat": qmat, "xmat": xmat}, sizes


def rows_json(con, nd):
    raff = con.raffine
    m_, nz = raff.shape
    Rl = dense(raff.linear)
    Rl = np.hstack([Rl, np.zeros((Rl.shape[0], nd - Rl.shape[1]))]).reshape(m_, nz, nd)
    Rc = np.asarray(raff.const).reshape(m_, nz)
    al = dense(con.affine.linear)
    al = np.hstack([al, np.zeros((al.shape[0], nd - al.shape[1]))]).reshape(m_, nd)
    ac = np.asarray(con.affine.const).reshape(m_)
    return {"nd": int(nd), "m": int(m_), "nz": int(nz),
            "Rl": [[[fr(v) for v in r] for r in blk] for blk in Rl], "Rc": [[fr(v) for v in r] for r in Rc],
            "al": [[fr(v) for v in r] for r in al], "ac": [fr(v) for v in ac]}


SUPKEYS = ('nr', 'nc', 'a', 'b', 'eq', 'ub', 'lb', 'c', 'qmat', 'xmat', 'sp')
FRAGKEYS = ('nr', 'nc', 'a', 'b', 'eq', 'ub', 'lb', 'qmat', 'xmat', 'n1', 'n2', 'n3', 'n4')


# ----------------------------------------------------------------------------- generator
def rint(r, lo, hi):
    return int(r.integers(lo, hi + 1))


def rcoef(r, allow_zero=True):
    """small dyadic coefficients (exact in binary floating point)"""
    vals = [-3, -2, -1.5, -1, -0.5, 0.5, 1, 1.5, 2, 3]
    if allow_zero and r.random() < 0.3:
        return 0.0
    return float(vals[rint(r, 0, len(vals) - 1)])


def make_set(r, kind, z):
    if kind == 'box':
        lo = -float(rint(r, 0, 2)); hi = float(rint(r, 0, 2))     # lb = 0 / ub = 0 / fixed patterns
        return [z >= lo, z <= hi]
    rad = float([0.5, 1, 1.5, 2][rint(r, 0, 3)])
    if kind == 'l1':
        return [rso.norm(z, 1) <= rad]
    if kind == 'linf':
        return [rso.norm(z, 'inf') <= rad]
    if kind == 'l2':
        return [rso.norm(z, 2) <= rad]
    if kind == 'l1+box':
        return [rso.norm(z, 1) <= rad, z >= -1, z <= 1]
    if kind == 'l2+lin':
        return [rso.norm(z, 2) <= rad, z.sum() <= 1]
    raise ValueError(kind)


KINDS = ['box', 'l1', 'linf', 'l2', 'l1+box', 'l2+lin']
LATE_MODES = ['none', 'zero', 'const', 'dec', 'dec+const', 'mixed']


def robust_expr(r, x, z, lates, mrows, late_mode):
    """an `mrows`-vector of uncertain affine expressions
         (A x + a0) + sum_j (B_j x + b_j) z_j + sum_l (C_l x + c_l) u_l"""
    nx = x.shape[0]

    def dec_vec(zero_lin=False, zero_const=False):
        A = np.array([[0.0 if zero_lin else rcoef(r) for _ in range(nx)] for _ in range(mrows)])
        a0 = np.array([0.0 if zero_const else rcoef(r) for _ in range(mrows)])
        return A, a0

    A, a0 = dec_vec()
    e = A @ x + a0
    for j in range(z.shape[0]):
        if j > 0 and r.random() < 0.2:
            continue
        B, b0 = dec_vec(zero_lin=r.random() < 0.4)
        e = e + (B @ x + b0) * z[j]
    struct = 'zero'
    for u in lates:
        for l in range(u.shape[0]):
            mode = late_mode
            if mode == 'mixed':
                mode = ['zero', 'const', 'dec', 'dec+const', 'explicit0'][rint(r, 0, 4)]
            if mode in ('none', 'zero'):
                continue
            if mode == 'explicit0':
                # the late variable is mentioned with an all-zero coefficient
                e = e + np.zeros(mrows) * u[l]
                continue
            if mode == 'const':
                C, c0 = dec_vec(zero_lin=True)
                if not np.any(c0):
                    c0[rint(r, 0, mrows - 1)] = 2.0
                e = e + c0 * u[l]
            elif mode == 'dec':
                C, c0 = dec_vec(zero_const=True)
                if not np.any(C):
                    C[rint(r, 0, mrows - 1), rint(r, 0, nx - 1)] = 1.0
                e = e + (C @ x) * u[l]
            else:
                C, c0 = dec_vec()
                if not np.any(C):
                    C[rint(r, 0, mrows - 1), rint(r, 0, nx - 1)] = 1.0
                if not np.any(c0):
                    c0[rint(r, 0, mrows - 1)] = -2.0
                e = e + (C @ x + c0) * u[l]
            struct = 'nonzero'
    return e, struct


def build_case(r):
    """one model; returns (model, description)"""
    m = ro.Model()
    nx = rint(r, 1, 3)
    nz0 = rint(r, 1, 3)
    x = m.dvar(nx)
    z = m.rvar(nz0)
    kind = KINDS[rint(r, 0, len(KINDS) - 1)]
    scenario = ['minmax-late', 'minmax-late', 'minmax-late', 'early', 'forall-reuse', 'forall-own'][rint(r, 0, 5)]
    late_mode = LATE_MODES[rint(r, 0, len(LATE_MODES) - 1)]
    nlate = rint(r, 1, 2)
    desc = {"nx": nx, "nz0": nz0, "set": kind, "scenario": scenario, "late_mode": late_mode, "nlate": nlate}
    pre = []
    if r.random() < 0.4:
        # a robust constraint built BEFORE the set is formulated (narrow raffine)
        e, _ = robust_expr(r, x, z, [], rint(r, 1, 2), 'none')
        pre.append(e <= 0)
    lates = []
    if scenario == 'early':
        # all random variables are declared before the set is formulated: they are (unrestricted)
        # columns of the support program
        lates = [m.rvar(rint(r, 1, 2)) for _ in range(nlate)]
        m.minmax(x.sum(), make_set(r, kind, z))
    elif scenario == 'minmax-late':
        m.minmax(x.sum(), make_set(r, kind, z))
        lates = [m.rvar(rint(r, 1, 2)) for _ in range(nlate)]
    else:
        m.min(x.sum())
        e, _ = robust_expr(r, x, z, [], 1, 'none')
        first = (e <= 0).forall(make_set(r, kind, z))
        pre.append(first)
        lates = [m.rvar(rint(r, 1, 2)) for _ in range(nlate)]
    for c in pre:
        if c.support is None and m.obj_support is None:
            c.support = first.support        # narrow row (built before the set) under the forall-support
        m.st(c)
    ncons = rint(r, 1, 2)
    for _ in range(ncons):
        mrows = rint(r, 1, 3)
        e, _ = robust_expr(r, x, z, lates, mrows, late_mode)
        sense = rint(r, 0, 3)
        c = (e <= 0) if sense <= 1 else ((e >= 0) if sense == 2 else (e == 0))
        if scenario == 'forall-own':
            # the constraint's own set is formulated now: the late variables are known to it
            c = c.forall(make_set(r, kind, z))
        elif scenario == 'forall-reuse':
            # reuse the support formulated before the late variables were declared
            c.support = first.support
        m.st(c)
    return m, desc


def collect(m, desc, reqs, meta, counts):
    for ci, con in enumerate(m.all_constr):
        if not isinstance(con, RoConstr):
            continue
        support = con.support if con.support else m.obj_support
        if support is None:
            counts['skipped:no-support'] = counts.get('skipped:no-support', 0) + 1
            continue
        nd = con.dec_model.last
        rj = rows_json(con, nd)           # before the call: le_to_rc zero-pads con.affine.linear in place
        sj = prog_json(support)
        nz = con.raffine.shape[1]
        nrS = support.linear.shape[0]
        num_rand = min(nz, nrS)
        # the code's own branch conditions, recomputed on the code's own data
        if nz > num_rand:
            extra = con.raffine[:, num_rand:]
            present = bool(extra.linear.nnz > 0 or np.any(extra.const))
            stored_only = present and not (np.any(dense(extra.linear)) or np.any(extra.const))
        else:
            present = False; stored_only = False
        has3 = num_rand != nrS
        with quiet():
            out = con.le_to_rc(support)
        nc = con.dec_model.last
        code, sizes = fragment_from_code(out, nc)
        exp_n = 2 + int(has3) + int(present)
        assert len(sizes) == exp_n, (sizes, has3, present)
        code['n1'] = sizes[0]; code['n2'] = sizes[1]
        code['n3'] = sizes[2] if has3 else 0
        code['n4'] = sizes[-1] if present else 0
        reqs.append({"op": "le_to_rc", "support": {k: sj[k] for k in SUPKEYS}, "rows": rj})
        meta.append({"desc": desc, "constraint": ci, "code": code, "stored_only": stored_only})
        br = 'nz<=nr' if nz <= nrS else ('nz>nr:block-present' if present else 'nz>nr:block-absent')
        counts[br] = counts.get(br, 0) + 1
        if stored_only:
            counts['block-present-by-stored-zeros-only'] = counts.get('block-present-by-stored-zeros-only', 0) + 1
        counts['n3>0' if has3 else 'n3=0'] = counts.get('n3>0' if has3 else 'n3=0', 0) + 1
        if sj['qmat']:
            counts['soc-support'] = counts.get('soc-support', 0) + 1
        if nz > nrS and present:
            k = 'late-coef:' + ('dec' if np.any(dense(extra.linear)) else 'const-only')
            counts[k] = counts.get(k, 0) + 1
        counts['set:' + desc['set']] = counts.get('set:' + desc['set'], 0) + 1
        counts['rows=%d' % rj['m']] = counts.get('rows=%d' % rj['m'], 0) + 1


def main():
    seed = int(sys.argv[1]) if len(sys.argv) > 1 else 0
    N = int(sys.argv[2]) if len(sys.argv) > 2 else 50
    r = np.random.default_rng(seed)
    reqs, meta, counts = [], [], {}
    for k in range(N):
        sub = np.random.default_rng(int(r.integers(0, 2**31 - 1)))
        try:
            with quiet():
                m, desc = build_case(sub)
            collect(m, desc, reqs, meta, counts)
        except Exception as e:      # generator produced something rsome rejects
            counts['build-error:' + type(e).__name__] = counts.get('build-error:' + type(e).__name__, 0) + 1
            if os.environ.get('LATE_DEBUG'):
                raise
    outs = lean_run(reqs)
    mism = 0
    for rq, mt, out in zip(reqs, meta, outs):
        if 'error' in out:
            bad = ['driver-error: ' + str(out['error'])]
        else:
            bad = [k for k in FRAGKEYS if mt['code'].get(k) != out.get(k)]
        if bad:
            mism += 1
            if mism <= 5:
                print('MISMATCH', json.dumps(mt['desc']), 'constraint', mt['constraint'], 'keys', bad,
                      'stored_only', mt['stored_only'])
                for k in bad:
                    if k in ('n1', 'n2', 'n3', 'n4', 'nr', 'nc'):
                        print('   ', k, 'code', mt['code'].get(k), 'lean', out.get(k))
    for k in sorted(counts):
        print('count %-40s %d' % (k, counts[k]))
    print('cases %d mismatches %d' % (len(reqs), mism))
    return 0 if mism == 0 else 1


if __name__ == '__main__':
    sys.exit(main())
