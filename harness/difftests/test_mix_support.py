"""Differential test: Lean model `Dro.mixSupport` vs rsome's `Ambiguity.mix_support(primal=True)`.

usage (from the lake project directory):  /venv/bin/python test_mix_support.py <seed> <N>

Random ambiguity sets are built through the public `rsome.dro` API; the inputs of the model are
obtained exactly as the code obtains them (`pro_model.reset(); st(pro_constr); do_math(obj=False)`,
per event `exp_model.reset(); st(exp_constr[k]); do_math(obj=False)`); the Lean result is compared
ENTRY BY ENTRY (nr nc a b eq ub lb c qmat xmat, and the stored pattern sp) with the real result.

About 40% of the cases carry exponential-cone pieces in their expectation sets (`rso.exp`,
`rso.log`, `rso.entropy`, `kldiv`, `rso.pexp`, `rso.plog`, `rso.softplus` of affine functions of
`E(z)`): `mix_support` forwards the exponential cones of every expectation program (three auxiliary
columns, three linking rows and one `xmat` triple per cone, after those of the probability program).
"""
import json
import os
import subprocess
import sys
from fractions import Fraction

sys.path.insert(0, os.environ.get('RSOME_REPO', '/repo'))
import numpy as np                       # noqa: E402
import rsome as rso                      # noqa: E402
from rsome import dro, E                 # noqa: E402

HERE = os.environ.get('RSOMEV_LEAN_DIR', os.path.dirname(os.path.abspath(__file__)))


def fr(v):
    return Fraction(float(v))


def fs(v):
    f = fr(v)
    return str(f.numerator) if f.denominator == 1 else f'{f.numerator}/{f.denominator}'


def bound(v):
    return None if np.isinf(v) else fs(v)


def prog_json(f):
    """GCProg -> the JSON format of readConeProg (exact fractions)"""
    lin = f.linear.tocsr()
    nr, nc = lin.shape
    dense = np.asarray(lin.todense())
    return {
        'nr': int(nr), 'nc': int(nc),
        'a': [[fs(dense[i, j]) for j in range(nc)] for i in range(nr)],
        'b': [fs(v) for v in f.const],
        'eq': [int(v) for v in f.sense],
        'ub': [bound(v) for v in f.ub],
        'lb': [bound(v) for v in f.lb],
        'c': [fs(v) for v in f.obj],
        'qmat': [[int(j) for j in q] for q in f.qmat],
        'xmat': [[int(j) for j in e] for e in f.xmat],
        'sp': [sorted(set(int(j) for j in lin[i].indices)) for i in range(nr)],
    }


def dy(rng, lo=-4, hi=4, den=4):
    """random dyadic rational in [lo, hi]"""
    return int(rng.integers(lo * den, hi * den + 1)) / den


def rand_probs(rng, S):
    """dyadic probabilities summing to one"""
    cuts = sorted(int(rng.integers(0, 17)) for _ in range(S - 1))
    pts = [0] + cuts + [16]
    return np.array([(pts[i + 1] - pts[i]) / 16 for i in range(S)])


def nzdy(rng, lo=-2, hi=2, den=2):
    """random non-zero dyadic rational"""
    while True:
        v = dy(rng, lo, hi, den)
        if v != 0:
            return v


EXP_KINDS = ['exp', 'log', 'entropy', 'kldiv', 'expvec', 'pexp', 'plog', 'softplus']


def exp_piece(rng, z, nz, kind):
    """an expectation-set piece that compiles to exponential cones (all accepted by the API on E(z))"""
    j = int(rng.integers(0, nz))
    if kind == 'exp':
        return rso.exp(nzdy(rng) * E(z)[j] + dy(rng, -2, 2)) <= dy(rng, 1, 4)
    if kind == 'log':
        return rso.log(E(z)[j] + dy(rng, 0, 4)) >= dy(rng, -2, 1)
    if kind == 'entropy':
        return rso.entropy(E(z) + dy(rng, 1, 4)) >= dy(rng, -8, 0)
    if kind == 'kldiv':
        phat = {1: [1.0], 2: [0.5, 0.5], 3: [0.25, 0.25, 0.5]}[nz]
        return (E(z) + dy(rng, 0, 2)).kldiv(np.array(phat), int(rng.integers(1, 9)) / 8)
    if kind == 'expvec':
        return rso.exp(nzdy(rng) * E(z) + dy(rng, -2, 2)) <= dy(rng, 1, 4)
    if kind == 'pexp':
        return rso.pexp(E(z)[j] + dy(rng, -2, 2), int(rng.integers(1, 4))) <= dy(rng, 1, 4)
    if kind == 'plog':
        return rso.plog(E(z)[j] + dy(rng, 1, 4), int(rng.integers(1, 4))) >= dy(rng, -4, 0)
    if kind == 'softplus':
        return rso.softplus(nzdy(rng) * E(z)[j] + dy(rng, -2, 2)) <= dy(rng, 1, 4)
    raise ValueError(kind)


def build_case(rng, extended):
    # ~40% of the cases get exponential-cone pieces in (some of) their expectation sets
    expo = rng.random() < 0.4
    S = int(rng.integers(1, 5))
    nz = int(rng.integers(1, 4))
    m = dro.Model(S)
    z = m.rvar(nz)
    lifted = rng.random() < 0.5
    u = m.rvar(1) if lifted else None
    fset = m.ambiguity()
    p = m.p
    desc = [f'S={S}', f'nz={nz}', f'lifted={lifted}']

    # probability set
    kinds = ['none', 'fixed', 'box', 'norm1', 'norm2']
    if extended:
        kinds += ['norminf', 'kl', 'kl+norm2', 'quad']
    kind = kinds[int(rng.integers(0, len(kinds)))]
    p0 = rand_probs(rng, S)
    r = int(rng.integers(1, 5)) / 8
    if kind == 'fixed':
        fset.probset(p == p0)
    elif kind == 'box':
        fset.probset(p >= np.maximum(p0 - r, 0), p <= p0 + r)
    elif kind == 'norm1':
        fset.probset(rso.norm(p - p0, 1) <= r)
    elif kind == 'norm2':
        fset.probset(rso.norm(p - p0, 2) <= r)
    elif kind == 'norminf':
        fset.probset(rso.norm(p - p0, 'inf') <= r)
    elif kind == 'kl':
        phat = np.array([1 / S] * S) if S in (1, 2, 4) else np.array([0.25, 0.25, 0.5])
        fset.probset(p.kldiv(phat, r))
    elif kind == 'kl+norm2':
        phat = np.array([1 / S] * S) if S in (1, 2, 4) else np.array([0.25, 0.25, 0.5])
        fset.probset(p.kldiv(phat, r), rso.norm(p - p0, 2) <= r)
    elif kind == 'quad':
        fset.probset(rso.sumsqr(p - p0) <= r)
    desc.append(f'prob={kind}')

    # expectation sets on random events
    nE = int(rng.integers(0, 4))
    if expo:
        nE = max(nE, 1)
        desc.append('expo')
    expo_sets = [bool(rng.random() < 0.6) for _ in range(nE)]
    if expo and not any(expo_sets):
        expo_sets[int(rng.integers(0, nE))] = True
    for ie in range(nE):
        pieces = []
        npieces = int(rng.integers(1, 4))
        choices = ['lo', 'hi', 'lin', 'norm2']
        if lifted:
            choices.append('lift')
        if extended:
            choices += ['eq', 'norm1', 'expcone', 'quad']
        for _ in range(npieces):
            c = choices[int(rng.integers(0, len(choices)))]
            if c == 'lo':
                pieces.append(E(z) >= np.array([dy(rng) for _ in range(nz)]))
            elif c == 'hi':
                pieces.append(E(z) <= np.array([dy(rng) for _ in range(nz)]))
            elif c == 'lin':
                k = int(rng.integers(1, 3))
                A = np.array([[dy(rng, -2, 2, 2) for _ in range(nz)] for _ in range(k)])
                b = np.array([dy(rng) for _ in range(k)])
                pieces.append(A @ E(z) <= b)
            elif c == 'norm2':
                cc = np.array([dy(rng, -2, 2, 2) for _ in range(nz)])
                pieces.append(rso.norm(E(z) - cc, 2) <= dy(rng, 0, 4))
            elif c == 'lift':
                pieces.append(E(u) <= dy(rng, 0, 4))
            elif c == 'eq':
                pieces.append(E(z) == np.array([dy(rng) for _ in range(nz)]))
            elif c == 'norm1':
                cc = np.array([dy(rng, -2, 2, 2) for _ in range(nz)])
                pieces.append(rso.norm(E(z) - cc, 1) <= dy(rng, 0, 4))
            elif c == 'expcone':
                pieces.append(rso.exp(E(z)[0]) <= dy(rng, 1, 4))
            elif c == 'quad':
                pieces.append(rso.sumsqr(E(z)) <= dy(rng, 0, 4))
            desc.append(c)
        if expo and expo_sets[ie]:
            # exponential-cone pieces, inserted at random positions among the other pieces
            for _ in range(int(rng.integers(1, 3))):
                kind = EXP_KINDS[int(rng.integers(0, len(EXP_KINDS)))]
                pieces.insert(int(rng.integers(0, len(pieces) + 1)), exp_piece(rng, z, nz, kind))
                desc.append('X' + kind)
        how = int(rng.integers(0, 3))
        if how == 0 or S == 1:
            fset.exptset(*pieces)
        elif how == 1:
            fset.iloc[int(rng.integers(0, S))].exptset(*pieces)
        else:
            size = int(rng.integers(1, S + 1))
            sub = sorted(int(s) for s in rng.choice(S, size=size, replace=False))
            if rng.random() < 0.3:
                sub = sub[::-1]
            if extended and rng.random() < 0.15:
                sub = sub + [sub[0]]        # repeated scenario: `p[indices].sum()` counts it twice
            fset.iloc[sub].exptset(*pieces)
        desc.append('|')

    # the real result
    real = fset.mix_support(primal=True)
    real_json = prog_json(real)

    # the inputs, exactly as the code obtains them
    model = fset.model
    model.pro_model.reset()
    model.pro_model.st(fset.pro_constr)
    pro = prog_json(model.pro_model.do_math(obj=False))
    exps = []
    for econstr, indices in zip(fset.exp_constr, fset.exp_constr_indices):
        model.exp_model.reset()
        model.exp_model.st(econstr)
        sup = model.exp_model.do_math(obj=False)
        exps.append({'prog': prog_json(sup), 'indices': [int(s) for s in indices]})
    req = {'op': 'mix_support', 'pro': pro, 'exps': exps}
    return req, real_json, ' '.join(desc)


def rat(s):
    return None if s is None else Fraction(s)


def compare(lean, real):
    """list of differing fields"""
    bad = []
    if 'error' in lean:
        return ['error: ' + lean['error']]
    for k in ('nr', 'nc'):
        if lean[k] != real[k]:
            bad.append(k)
    if bad:
        return bad
    for k in ('b', 'c', 'ub', 'lb'):
        if [rat(v) for v in lean[k]] != [rat(v) for v in real[k]]:
            bad.append(k)
    if [[rat(v) for v in row] for row in lean['a']] != [[rat(v) for v in row] for row in real['a']]:
        bad.append('a')
    if [int(v) for v in lean['eq']] != real['eq']:
        bad.append('eq')
    for k in ('qmat', 'xmat'):
        if [list(q) for q in lean[k]] != real[k]:
            bad.append(k)
    if [sorted(r) for r in lean['sp']] != real['sp']:
        bad.append('sp')
    if not lean.get('wf_inputs', False):      # hypotheses hst/hqp/hxl/hxp/hqe/hidx of the C03 theorems
        bad.append('wf_inputs')
    return bad


def main():
    seed = int(sys.argv[1]) if len(sys.argv) > 1 else 0
    n = int(sys.argv[2]) if len(sys.argv) > 2 else 100
    rng = np.random.default_rng(seed)
    cases = []
    for i in range(n):
        # the first half uses exactly the families requested; the second half adds equality,
        # 1-/inf-norm, quadratic, KL (exponential cones in pro) and exponential pieces in exptset
        cases.append(build_case(rng, extended=(i >= n // 2)))
    inp = '\n'.join(json.dumps(c[0]) for c in cases) + '\n'
    out = subprocess.run(['lake', 'env', 'lean', '--run', 'Driver.lean'], input=inp, cwd=HERE,
                         capture_output=True, text=True)
    lines = [ln for ln in out.stdout.splitlines() if ln.strip()]
    if len(lines) != len(cases):
        print('driver failure', out.stderr[:2000], out.stdout[:2000])
        print(f'cases {len(cases)} mismatches {len(cases)}')
        sys.exit(1)
    mism = 0
    stats = {'pro_soc': 0, 'pro_exp': 0, 'blk_soc': 0, 'blk_exp': 0, 'pro_and_blk_exp': 0,
             'blk_exp_cones': 0, 'blk_exp_multi': 0, 'rows_removed': 0, 'events': 0}
    for (req, real, desc), ln in zip(cases, lines):
        lean = json.loads(ln)
        bad = compare(lean, real)
        if bad:
            mism += 1
            print('MISMATCH', bad, desc)
        stats['pro_soc'] += bool(req['pro']['qmat'])
        stats['pro_exp'] += bool(req['pro']['xmat'])
        stats['blk_soc'] += any(e['prog']['qmat'] for e in req['exps'])
        nblk = sum(bool(e['prog']['xmat']) for e in req['exps'])
        stats['blk_exp'] += nblk > 0
        stats['blk_exp_multi'] += nblk > 1
        stats['pro_and_blk_exp'] += bool(req['pro']['xmat']) and nblk > 0
        stats['blk_exp_cones'] += sum(len(e['prog']['xmat']) for e in req['exps'])
        stats['events'] += len(req['exps'])
        stats['rows_removed'] += bool(lean.get('rows_removed', False))
    print('coverage', json.dumps(stats))
    print(f"cases with >=1 expectation exp-cone: {stats['blk_exp']} of {len(cases)}"
          f" (also exp-cones in pro: {stats['pro_and_blk_exp']}, in >=2 blocks: {stats['blk_exp_multi']})")
    print(f'cases {len(cases)} mismatches {mism}')
    sys.exit(0 if mism == 0 else 1)


if __name__ == '__main__':
    main()
