"""Differential test: Lean model of the dual read-back (`RsomeV/M/DualCert.lean`: `UserLP.compile`,
`UserLP.ciarray`, `dualLin`, `dualBound`) against the real rsome code (`ro.Model.do_math`,
`Model.ciarray`, `LinConstr.dual`, `Bounds.dual`) on random continuous LPs with RANDOM synthetic
multipliers (no solver involved).

usage:  /venv/bin/python test_dual.py <seed> <N>
prints `cases <n> mismatches <k>`.
"""
import sys
import os
import json
import random
import subprocess
import warnings
from fractions import Fraction

sys.path.insert(0, os.environ.get('RSOME_REPO', '/repo'))
import numpy as np                               # noqa: E402
from rsome import ro                             # noqa: E402
from rsome.lp import LinConstr, Bounds, Solution  # noqa: E402

warnings.filterwarnings('ignore')
HERE = os.environ.get('RSOMEV_LEAN_DIR', os.path.dirname(os.path.abspath(__file__)))


def fr(v):
    f = Fraction(float(v))
    return str(f.numerator) if f.denominator == 1 else f'{f.numerator}/{f.denominator}'


def frv(a):
    return [fr(v) for v in np.asarray(a, dtype=float).reshape(-1)]


def frm(a):
    return [[fr(v) for v in row] for row in np.asarray(a, dtype=float)]


def optv(a):
    return [None if np.isinf(v) else fr(v) for v in np.asarray(a, dtype=float).reshape(-1)]


DY = [-3, -2, -1.5, -1, -0.75, -0.5, -0.25, 0.25, 0.5, 0.75, 1, 1.5, 2, 3]


def dy(rng, zero=0.3):
    """small dyadic rational, often zero"""
    if rng.random() < zero:
        return 0.0
    return float(rng.choice(DY))


def dyarr(rng, shape, zero=0.3):
    size = int(np.prod(shape)) if shape != () else 1
    return np.array([dy(rng, zero) for _ in range(size)], dtype=float).reshape(shape)


def rand_item(rng, shape):
    """a random subscript for an array of the given shape (plain / reversed / stepped slices, integers,
    fancy index lists incl. repeated entries)"""
    def one(d):
        r = rng.random()
        if r < 0.2:
            return slice(None)
        if r < 0.4:
            return slice(None, None, -1)
        if r < 0.5:
            return slice(rng.randrange(d), None)
        if r < 0.6:
            return slice(None, None, 2)
        if r < 0.7:
            return slice(d - 1, None, -2)
        if r < 0.85:
            return rng.randrange(d)
        return [rng.randrange(d) for _ in range(rng.randint(1, d + 1))]
    if len(shape) == 1:
        return one(shape[0])
    it = tuple(one(d) for d in shape)
    # two fancy lists must broadcast: keep at most one
    if sum(isinstance(i, list) for i in it) > 1:
        it = (it[0],) + tuple(slice(None) for _ in it[1:])
    if rng.random() < 0.2:
        return it[0]
    return it


class Case:
    """one random LP built through `ro.Model` together with the independent description of it"""

    def __init__(self, rng):
        self.rng = rng
        self.m = ro.Model()
        self.vars = []
        nv = rng.randint(1, 3)
        col = 1
        for _ in range(nv):
            r = rng.random()
            shape = () if r < 0.2 else (rng.randint(1, 4),) if r < 0.7 else (rng.randint(1, 3), rng.randint(1, 3))
            v = self.m.dvar(shape)
            size = int(np.prod(shape)) if shape != () else 1
            self.vars.append((v, shape, col, size))
            col += size
        self.n = col - 1
        self.is_max = rng.random() < 0.5
        cvec = np.zeros(self.n + 1)
        expr = 0
        for v, shape, first, size in self.vars:
            cv = dyarr(rng, shape)
            cvec[first:first + size] = np.asarray(cv).reshape(-1)
            expr = expr + ((cv * v).sum() if shape != () else float(cv) * v)
        self.c0 = dy(rng, 0.5)
        expr = expr + self.c0
        self.cvec = cvec
        (self.m.max if self.is_max else self.m.min)(expr)
        self.blocks = []      # (constraint object, A (m x (n+1)), b, user sense)
        self.bounds = []      # (Bounds object, kind, indices, values)
        for _ in range(rng.randint(0, 4)):
            self.add_block()
        for _ in range(rng.randint(0, 5)):
            self.add_bound()

    def lin_expr(self, mrows):
        rng = self.rng
        A = np.zeros((mrows, self.n + 1))
        expr = None
        used = [vv for vv in self.vars if rng.random() < 0.7] or [rng.choice(self.vars)]
        for v, shape, first, size in used:
            M = dyarr(rng, (mrows, size), 0.4)
            A[:, first:first + size] += M
            if shape == ():
                term = M[:, 0] * v
            elif len(shape) == 1:
                term = M @ v
            else:
                term = M @ v.reshape((size,))
            expr = term if expr is None else expr + term
        return expr, A

    def add_block(self):
        rng = self.rng
        if rng.random() < 0.15:
            # slice of a variable against an ARRAY: a LinConstr (not a Bounds object)
            cands = [vv for vv in self.vars if len(vv[1]) == 1 and vv[3] >= 2]
            if cands:
                v, shape, first, size = rng.choice(cands)
                perm = list(range(size))[::-1] if rng.random() < 0.5 else rng.sample(range(size), size)
                A = np.zeros((size, self.n + 1))
                for r, p in enumerate(perm):
                    A[r, first + p] = 1.0
                b = dyarr(rng, (size,))
                sl = slice(None, None, -1) if perm == list(range(size))[::-1] else perm
                if rng.random() < 0.5:
                    c, sense = (v[sl] <= b), 'le'
                else:
                    c, sense = (v[sl] >= b), 'ge'
                self.blocks.append((self.m.st(c), A, b, sense))
                return
        mrows = rng.randint(1, 3)
        expr, A = self.lin_expr(mrows)
        b = dyarr(rng, (mrows,))
        form = rng.choice(['le', 'ge', 'eq', 'rle', 'rge', 'sle'])
        if form == 'le':
            c, sense = (expr <= b), 'le'
        elif form == 'ge':
            c, sense = (expr >= b), 'ge'
        elif form == 'eq':
            c, sense = (expr == b), 'eq'
        elif form == 'rle':            # b <= expr  is  expr >= b
            c, sense = (b <= expr), 'ge'
        elif form == 'rge':            # b >= expr  is  expr <= b
            c, sense = (b >= expr), 'le'
        else:                          # scalar right-hand side
            s = dy(rng)
            b = np.full(mrows, s)
            c, sense = (expr <= s), 'le'
        self.blocks.append((self.m.st(c), A, b, sense))

    def add_bound(self):
        rng = self.rng
        v, shape, first, size = rng.choice(self.vars)
        kind = rng.choice('UL')
        idxarr = first + np.arange(size).reshape(shape)
        if shape == () or rng.random() < 0.35:
            # whole variable: scalar or array value
            if rng.random() < 0.5 or shape == ():
                s = dy(rng)
                vals = np.full(size, s)
                val = s
            else:
                val = dyarr(rng, shape)
                vals = np.asarray(val).reshape(-1)
            if rng.random() < 0.25:
                c = (val >= v) if kind == 'U' else (val <= v)
            else:
                c = (v <= val) if kind == 'U' else (v >= val)
            idx = idxarr.reshape(-1)
        else:
            item = rand_item(rng, shape)
            sub = v[item]
            idx = np.asarray(idxarr[item]).reshape(-1)
            s = dy(rng)
            vals = np.full(idx.size, s)
            if rng.random() < 0.25:
                c = (s >= sub) if kind == 'U' else (s <= sub)
            else:
                c = (sub <= s) if kind == 'U' else (sub >= s)
        self.bounds.append((self.m.st(c), kind, [int(i) for i in idx], vals))

    def compile_request(self, base):
        return {'op': 'dual_compile', 'n': self.n, 'is_max': self.is_max, 'c': frv(self.cvec),
                'c0': fr(self.c0), 'base': int(base),
                'blocks': [{'a': frm(A), 'b': frv(b), 'sense': s} for _, A, b, s in self.blocks],
                'bounds': [[k, idx, frv(vals)] for _, k, idx, vals in self.bounds]}


def real_prog(f, ciarray):
    lin = np.asarray(f.linear.todense(), dtype=float)
    return {'nr': int(lin.shape[0]), 'nc': int(lin.shape[1]), 'a': frm(lin), 'b': frv(f.const),
            'eq': [int(s) for s in np.asarray(f.sense).reshape(-1)],
            'ub': optv(f.ub), 'lb': optv(f.lb), 'c': frv(f.obj),
            'ciarray': [None if i is None else int(i) for i in list(ciarray)]}


def formulate(case, requests, expect):
    """do_math + synthetic multipliers; appends the two driver requests and the expected replies"""
    rng = case.rng
    m = case.m
    base = m.rc_model.constr_idx
    f = m.do_math()
    rc = m.rc_model
    real = real_prog(f, rc.ciarray)
    requests.append(case.compile_request(base))
    nr, nc = real['nr'], real['nc']
    pi = dyarr(rng, (nr,), 0.15)
    upi = dyarr(rng, (nc,), 0.15)
    lpi = dyarr(rng, (nc,), 0.15)
    rc.solution = Solution('synthetic', 0.0, np.zeros(nc), 0, 0.0,
                           y={'pi': pi.copy(), 'upi': upi.copy(), 'lpi': lpi.copy()})
    m.solution = rc.solution
    queries, duals, extra = [], [], []
    for k, (c, A, b, s) in enumerate(case.blocks):
        if not isinstance(c, LinConstr):
            extra.append(f'block {k} is {type(c).__name__}')
            continue
        if c.index != base + k:
            extra.append(f'block {k}: index {c.index} != base+k {base + k}')
        queries.append({'kind': 'lin', 'index': int(c.index)})
        duals.append(frv(np.atleast_1d(c.dual())))
    for k, (c, kind, idx, vals) in enumerate(case.bounds):
        if not isinstance(c, Bounds):
            extra.append(f'bound {k} is {type(c).__name__}')
            continue
        if (c.btype != kind or [int(i) for i in np.asarray(c.indices).reshape(-1)] != idx
                or frv(c.values) != frv(vals)):
            extra.append(f'bound {k}: object differs from the independent description')
        queries.append({'kind': kind, 'indices': idx, 'values': frv(vals)})
        duals.append(frv(np.atleast_1d(c.dual())))
    requests.append({'op': 'dual_readback', 'sign': -1 if case.is_max else 1,
                     'ciarray': real['ciarray'], 'pi': frv(pi), 'upi': frv(upi), 'lpi': frv(lpi),
                     'ub': real['ub'], 'lb': real['lb'], 'queries': queries})
    if rc.sign != (-1 if case.is_max else 1):
        extra.append('sign')
    expect.append((real, duals, extra))


def main():
    seed = int(sys.argv[1]) if len(sys.argv) > 1 else 0
    N = int(sys.argv[2]) if len(sys.argv) > 2 else 200
    rng = random.Random(seed)
    requests, expect = [], []
    for _ in range(N):
        case = Case(rng)
        formulate(case, requests, expect)
        if rng.random() < 0.35:
            # re-formulation after a change: constraints are renumbered from the running counter
            for _ in range(rng.randint(1, 2)):
                if rng.random() < 0.6:
                    case.add_block()
                else:
                    case.add_bound()
            formulate(case, requests, expect)
    inp = '\n'.join(json.dumps(r) for r in requests) + '\n'
    out = subprocess.run(['lake', 'env', 'lean', '--run', 'Driver.lean'], cwd=HERE, input=inp,
                         capture_output=True, text=True)
    lines = [ln for ln in out.stdout.splitlines() if ln.strip()]
    if len(lines) != len(requests):
        print('driver failure', out.stderr[-2000:], lines[-1:] if lines else '')
        print(f'cases {len(expect)} mismatches {len(expect)}')
        return 1
    bad = 0
    for i, (real, duals, extra) in enumerate(expect):
        comp = json.loads(lines[2 * i])
        rb = json.loads(lines[2 * i + 1])
        errs = list(extra)
        if 'error' in comp or 'error' in rb:
            errs.append(str(comp.get('error')) + ' / ' + str(rb.get('error')))
        else:
            for key in ('nr', 'nc', 'a', 'b', 'eq', 'ub', 'lb', 'c', 'ciarray'):
                if comp.get(key) != real[key]:
                    errs.append(f'compile.{key}: lean {comp.get(key)} real {real[key]}')
            if rb.get('duals') != duals:
                errs.append(f'duals: lean {rb.get("duals")} real {duals}')
        if errs:
            bad += 1
            if bad <= 5:
                print('MISMATCH case', i, errs[:4])
    print(f'cases {len(expect)} mismatches {bad}')
    return 0 if bad == 0 else 1


if __name__ == '__main__':
    sys.exit(main())
