#!/venv/bin/python
"""Differential test of the Lean model of rsome's solver interfaces (RsomeV/M/Solvers.lean).

usage: /venv/bin/python test_iface.py <seed> <N>

For every generated program the real interface code is run (`m.solve(<iface>, display=False)` for
programs built through `ro.Model`, `<iface>.solve(formula)` for hand-built `LinProg`/`SOCProg`/`GCProg`
objects) with the solver entry points replaced by recorders:

* def_sol : `scipy.optimize.linprog` / `scipy.optimize.milp` (as seen by `rsome.lp` through `opt.`)
            record their arguments and return a canned `OptimizeResult`;
* ECOS    : `ecos.solve` records its arguments and returns a canned result dict (`bool_vars_idx` /
            `int_vars_idx` compared canonically: absent, None and [] are the same; what was literally seen
            is counted in `branches`);
* OR-Tools: `pywraplp.Solver.CreateSolver` is wrapped to get hold of the solver object, which is then
            read back (`variables()`, `constraints()`, `Objective()`); `Solve` really runs;
* Gurobi  : `gurobipy.Model` is replaced by a recording proxy (arguments of `addMVar`, `addMConstr`,
            `setObjective`; the quadratic constraints are read back with `getQCRow`); `optimize` is a
            no-op.

def_sol's MILP branch rounds the bounds of the non-continuous columns inward (ceil(lb - 1e-9),
floor(ub + 1e-9)); the generator gives integer and binary columns fractional, integral, negative, infinite
and near-integer bounds (see NEAR / FRAC below; `branches` counts them as def_sol:milp:<B|I>col-bound:<kind>).

The recorded data (densified, as exact fractions, inf -> null, None -> null) are compared entry by
entry with the Lean driver's `iface_data` answer; the returned `Solution` (objval / x) is compared with
`iface_status` for def_sol and ECOS.  Last line: `cases <n> mismatches <k>`.
"""
import os
import sys
import json
import math
import random
import subprocess
import warnings
from fractions import Fraction

HERE = os.environ.get('RSOMEV_LEAN_DIR', os.path.dirname(os.path.abspath(__file__)))
sys.path.insert(0, os.environ.get('RSOME_REPO', '/repo'))

import numpy as np
import scipy.sparse as sp
import scipy.optimize
from scipy.optimize import OptimizeResult
import ecos
import rsome as rso
from rsome import ro
import rsome.lp as rlp
from rsome.lp import LinProg, def_sol
from rsome.socp import SOCProg
from rsome.gcp import GCProg
from rsome import eco_solver as eco

try:
    from rsome import ort_solver as ort
    from ortools.linear_solver import pywraplp
    HAVE_ORT = True
except Exception:                                             # pragma: no cover
    HAVE_ORT = False
try:
    import gurobipy
    from rsome import grb_solver as grb
    HAVE_GRB = True
except Exception:                                             # pragma: no cover
    HAVE_GRB = False

warnings.simplefilter('ignore')

# --------------------------------------------------------------------------- exact encodings


def fr(v):
    """float -> "p/q" string (exact), ±inf -> None"""
    v = float(v)
    if math.isinf(v):
        return None
    if math.isnan(v):
        return 'nan'
    f = Fraction(v)
    return str(f.numerator) if f.denominator == 1 else '{}/{}'.format(f.numerator, f.denominator)


def vec(a):
    return None if a is None else [fr(v) for v in np.asarray(a, dtype=float).flatten()]


def mat(a):
    if a is None:
        return None
    if sp.issparse(a):
        a = a.toarray()
    a = np.asarray(a, dtype=float)
    return [[fr(v) for v in row] for row in a]


def prog_json(f):
    lin = sp.csr_matrix(f.linear)
    nr, nc = lin.shape
    return {
        'nr': nr, 'nc': nc, 'a': mat(lin), 'b': vec(f.const),
        'eq': [int(s == 1) for s in f.sense],
        'ub': vec(f.ub), 'lb': vec(f.lb), 'c': vec(f.obj),
        'qmat': [[int(i) for i in q] for q in getattr(f, 'qmat', [])] if isinstance(f, SOCProg) else [],
        'xmat': [[int(i) for i in e] for e in getattr(f, 'xmat', [])] if isinstance(f, GCProg) else [],
        'sp': [sorted(set(int(k) for k in lin[i].indices)) for i in range(nr)],
        'vtype': ''.join(str(v) for v in f.vtype)}

# --------------------------------------------------------------------------- recorders


REC = {}
CANNED = {}


def rec_linprog(c, A_ub=None, b_ub=None, A_eq=None, b_eq=None, bounds=None, **kw):
    REC['def_sol'] = {
        'call': 'linprog', 'c': vec(c),
        'A_ub': mat(A_ub), 'b_ub': vec(b_ub), 'A_eq': mat(A_eq), 'b_eq': vec(b_eq),
        'bounds': [[fr(l), fr(u)] for l, u in bounds]}
    n = len(c)
    neq = 0 if A_eq is None else A_eq.shape[0]
    nub = 0 if A_ub is None else A_ub.shape[0]
    return OptimizeResult(status=CANNED['status'], x=CANNED['x'][:n].copy(),
                          upper={'marginals': np.zeros(n)}, lower={'marginals': np.zeros(n)},
                          eqlin={'marginals': np.zeros(neq)}, ineqlin={'marginals': np.zeros(nub)})


def rec_milp(c, *, integrality=None, bounds=None, constraints=None, options=None):
    lc = constraints
    REC['def_sol'] = {
        'call': 'milp', 'c': vec(c), 'A': mat(lc.A), 'b_l': vec(lc.lb), 'b_u': vec(lc.ub),
        'lb': vec(bounds.lb), 'ub': vec(bounds.ub),
        'integrality': [int(v) for v in integrality]}
    return OptimizeResult(status=CANNED['status'], x=CANNED['x'][:len(c)].copy())


def rec_ecos(c, G, h, dims, A=None, b=None, **kw):
    REC['ecos'] = {
        'c': vec(c), 'G': mat(G), 'h': vec(h),
        'dims': {'l': int(dims['l']), 'q': [int(k) for k in dims['q']], 'e': int(dims['e'])},
        'A': mat(A), 'b': vec(b),
        # canonical: an absent keyword, None and [] all mean "no such variable" to ecos.solve
        'bool': [int(k) for k in (kw.get('bool_vars_idx') or [])],
        'int': [int(k) for k in (kw.get('int_vars_idx') or [])],
        'mixed': ('bool_vars_idx' in kw) or ('int_vars_idx' in kw)}
    # what the wrapper literally saw for bool_vars_idx (reported in `branches`, not part of the Lean data)
    bv = kw.get('bool_vars_idx', 'absent')
    REC['ecos_boolkw'] = 'absent' if isinstance(bv, str) else ('None' if bv is None else
                                                              ('[]' if len(bv) == 0 else 'nonempty'))
    REC['ecos_fmt'] = (sp.isspmatrix_csc(G), A is None or sp.isspmatrix_csc(A))
    n = len(c)
    return {'x': CANNED['x'][:n].copy(),
            'y': np.zeros(0 if A is None else A.shape[0]), 'z': np.zeros(G.shape[0]),
            'info': {'exitFlag': CANNED['status'], 'pcost': CANNED['pcost'],
                     'timing': {'runtime': 0.0}, 'infostring': 'canned'}}


scipy.optimize.linprog = rec_linprog
scipy.optimize.milp = rec_milp
assert rlp.opt.linprog is rec_linprog and rlp.opt.milp is rec_milp
_REAL_ECOS = ecos.solve
ecos.solve = rec_ecos
assert eco.ecos.solve is rec_ecos

if HAVE_ORT:
    _orig_create = pywraplp.Solver.CreateSolver

    class OrtProxy:
        """the real pywraplp solver, except that Solve() returns a canned status without solving (all values 0)"""
        def __init__(self, s):
            self.__dict__['_s'] = s

        def __getattr__(self, k):
            return getattr(self.__dict__['_s'], k)

        def Solve(self, *a):
            return CANNED['ort_status']

    def _create(name):
        s = _orig_create(name)
        REC['ort_solver'] = (name, s)
        return OrtProxy(s)
    pywraplp.Solver.CreateSolver = staticmethod(_create)

    def read_ortools():
        name, s = REC['ort_solver']
        vs = s.variables()
        o = s.Objective()
        return {
            'solver': name,
            'lb': [fr(v.lb()) for v in vs], 'ub': [fr(v.ub()) for v in vs],
            'integer': [int(v.integer()) for v in vs],
            'obj': [fr(o.GetCoefficient(v)) for v in vs],
            'minimize': bool(o.minimization()),
            'rows': [{'coef': [fr(c.GetCoefficient(v)) for v in vs],
                      'lo': fr(c.lb()), 'hi': fr(c.ub())} for c in s.constraints()]}

if HAVE_GRB:
    _RealModel = gurobipy.Model
    _ENV = gurobipy.Env(params={'OutputFlag': 0})

    class GrbProxy:
        def __init__(self, *a, **k):
            self.__dict__['_m'] = _RealModel(env=_ENV)
            self.__dict__['_log'] = {'mconstr': [], 'getitem': []}
            REC['grb_proxy'] = self

        def __getattr__(self, k):
            # canned outcome of optimize(): status, and an incumbent (ObjVal / X) or none
            if k == 'Status':
                return CANNED['grb_status']
            if k == 'Runtime':
                return 0.0
            if k == 'SolCount':
                return 1 if CANNED['grb_inc'] else 0
            if k == 'ObjVal':
                if CANNED['grb_inc']:
                    return CANNED['pcost']
                raise AttributeError("Unable to retrieve attribute 'ObjVal'")
            return getattr(self.__dict__['_m'], k)

        def getAttr(self, name, *a):
            if name == 'X':
                if CANNED['grb_inc']:
                    return list(CANNED['x'][:self._m.NumVars])
                raise AttributeError("Unable to retrieve attribute 'X'")
            return self._m.getAttr(name, *a)

        def addMVar(self, shape, lb=0.0, ub=float('inf'), obj=0.0, vtype='C', name=''):
            self._log['mvar'] = {'lb': vec(lb), 'ub': vec(ub), 'vtype': ''.join(vtype)}
            return MVarProxy(self._m.addMVar(shape, lb=lb, ub=ub, vtype=vtype), self._log)

        def addMConstr(self, A, x, sense, b, name=''):
            self._log['mconstr'].append((sense, mat(A), vec(b)))
            return self._m.addMConstr(A, x._mv, sense, b)

        def optimize(self):
            self._m.update()

    class MVarProxy:
        """records the index lists of `x[index_left]`, `x[index_right]`"""
        __array_ufunc__ = None

        def __init__(self, mv, log):
            self._mv, self._log = mv, log

        def __getitem__(self, idx):
            self._log['getitem'].append([int(i) for i in idx])
            return self._mv[idx]

        def __rmatmul__(self, other):
            return other @ self._mv

        def __getattr__(self, k):
            return getattr(self._mv, k)

    gurobipy.Model = GrbProxy
    assert grb.gp.Model is GrbProxy

    def read_gurobi():
        p = REC['grb_proxy']
        m = p._m
        m.update()
        out = dict(p._log['mvar'])
        out.update({'A_eq': None, 'b_eq': None, 'A_le': None, 'b_le': None})
        order = []
        for sense, A, b in p._log['mconstr']:
            key = 'eq' if sense == '=' else 'le'
            order.append(key)
            out['A_' + key], out['b_' + key] = A, b
        out['order'] = order
        vs = m.getVars()
        pos = {v.VarName: i for i, v in enumerate(vs)}
        qcs = []
        for qc in m.getQConstrs():
            row = m.getQCRow(qc)
            assert row.getLinExpr().size() == 0 and qc.QCRHS == 0 and qc.QCSense == '<'
            left, right = [], []
            for t in range(row.size()):
                i, k = pos[row.getVar1(t).VarName], pos[row.getVar2(t).VarName]
                assert i == k
                co = row.getCoeff(t)
                # aggregated coefficient: +k on a left (tail) column, -1 on the right (head) column
                if co > 0:
                    left += [i] * int(co)
                elif co < 0:
                    right += [i] * int(-co)
            qcs.append({'left': left, 'right': right})
        # argument-order faithful: `x[left] @ I @ x[left] <= x[right] @ x[right]` indexes x four times
        gi = p._log['getitem']
        assert len(gi) == 4 * len(qcs)
        out['qcs'] = []
        for k, qc in enumerate(qcs):
            l1, l2, r1, r2 = gi[4 * k: 4 * k + 4]
            assert l1 == l2 and r1 == r2
            # what Gurobi stored is the same quadratic form (order-insensitive read-back)
            assert sorted(qc['left']) == sorted(l1) and sorted(qc['right']) == sorted(r1), (qc, l1, r1)
            out['qcs'].append({'left': l1, 'right': r1})
        out['obj'] = [fr(v.Obj) for v in vs]
        out['minimize'] = (m.ModelSense == 1)
        out['nrows'] = m.NumConstrs
        return out

# --------------------------------------------------------------------------- generators

DY = [-2, -1.5, -1, -0.5, -0.25, 0.25, 0.5, 1, 1.5, 2, 3]
BND0 = [-3, -2, -1, -0.5, 0, 0.25, 0.5, 0.75, 1, 1.5, 2, 4]
# def_sol rounds the bounds of integer / binary columns inward with the tolerance 1e-9 (ceil(lb - 1e-9),
# floor(ub + 1e-9)): fractional, negative and near-integer bounds k ± 1e-12, k ± 5e-10 (inside the tolerance),
# k ± 2e-9, k ± 1e-6 (outside).  Nothing within 1e-15 of k ± 1e-9: the float 1e-9 is not exactly 10^-9 and
# `lb - 1e-9` is a rounded float operation, the Lean model computes with the exact rationals.
NEAR = [k + d for k in (-2, -1, 0, 1, 2, 3) for d in (1e-12, -1e-12, 5e-10, -5e-10, 2e-9, -2e-9, 1e-6, -1e-6)]
FRAC = [-2.5, -1.5, -0.75, -0.25, 1.25, 2.5, 3.5, 0.999999, -0.000001, 1.0000001]
BND = BND0 + FRAC + NEAR


def rbnd(rng):
    t = rng.random()
    return rng.choice(BND0 if t < 0.4 else (FRAC if t < 0.6 else NEAR))


def rcoef(rng, n, pz=0.35):
    return np.array([0.0 if rng.random() < pz else rng.choice(DY) for _ in range(n)])


def gen_model(rng, kind):
    """a random program built through ro.Model"""
    m = ro.Model()
    n = rng.randint(1, 4)
    if kind in ('lp', 'socp', 'exp'):
        vt = 'C' * n
    else:
        vt = ''.join(rng.choice('CBI') for _ in range(n))
        if vt == 'C' * n:
            vt = rng.choice('BI') + vt[1:]
    x = m.dvar(n, vt)
    y = m.dvar(rng.randint(1, 2), rng.choice(['C', 'C', 'B', 'I']) if kind.startswith('mi') else 'C')
    allv = [x[i] for i in range(n)] + [y[i] for i in range(y.size if hasattr(y, 'size') else 1)]
    nv = len(allv)

    def aff(pz=0.35, const=True):
        c = rcoef(rng, nv, pz)
        e = sum((c[i] * allv[i] for i in range(nv)), 0 * allv[0]) if rng.random() < 0.8 else \
            sum((c[i] * allv[i] for i in range(nv) if c[i] != 0), c[0] * allv[0])
        return e + (rng.choice(DY) if const and rng.random() < 0.6 else 0)

    obj = aff(const=rng.random() < 0.3)
    if rng.random() < 0.7:
        m.min(obj)
    else:
        m.max(obj)
    for _ in range(rng.randint(0, 3)):
        e, r = aff(), rng.choice(DY + [0])
        t = rng.random()
        m.st(e <= r if t < 0.4 else (e >= r if t < 0.7 else e == r))
    if rng.random() < 0.35:      # rows with all-zero coefficients
        r = rng.choice([-1, 0, 1])
        m.st(0 * allv[0] <= r if rng.random() < 0.6 else 0 * allv[0] == r)
    for v in allv:               # bounds, also tighter / wider than [0, 1] on binaries
        if rng.random() < 0.5:
            m.st(v >= rbnd(rng))
        if rng.random() < 0.5:
            m.st(v <= rbnd(rng))
        if rng.random() < 0.1:
            m.st(v == rbnd(rng))
    if kind in ('socp', 'misocp', 'exp', 'miexp'):
        for _ in range(rng.randint(1, 2)):
            t = rng.random()
            k = rng.randint(1, 3)
            ins = [aff() for _ in range(k)]
            vin = rso.concat([e.reshape((1,)) for e in ins])
            if t < 0.35:
                m.st(rso.norm(vin) <= aff())
            elif t < 0.55:
                m.st(rso.sumsqr(vin) <= aff())
            elif t < 0.7:
                m.st(rso.square(ins[0]) <= aff())
            elif t < 0.85:
                m.st(abs(ins[0]) <= aff())
            else:
                m.st(rso.rsocone(vin, aff(), aff()))
    if kind in ('exp', 'miexp'):
        for _ in range(rng.randint(1, 2)):
            t = rng.random()
            if t < 0.3:
                m.st(rso.exp(aff()) <= aff())
            elif t < 0.5:
                m.st(rso.log(aff()) >= aff())
            elif t < 0.65:
                m.st(rso.expcone(aff(), aff(), aff()))
            elif t < 0.8:
                m.st(rso.entropy(rso.concat([aff().reshape((1,)), aff().reshape((1,))])) >= aff())
            else:
                m.st(rso.softplus(aff()) <= aff())
    return m


def gen_formula(rng, kind):
    """a hand-built LinProg / SOCProg / GCProg (reaches shapes ro.Model never emits: no rows at all,
    rows without stored entries, free cone heads, explicit stored zeros)"""
    nc = rng.randint(1, 5)
    nr = rng.choice([0, 0, 1, 2, 3, 4]) if rng.random() < 0.3 else rng.randint(1, 4)
    rows, cols, vals = [], [], []
    for i in range(nr):
        if rng.random() < 0.25:
            continue                                  # row without stored entries
        for k in range(nc):
            if rng.random() < 0.5:
                rows.append(i), cols.append(k)
                vals.append(0.0 if rng.random() < 0.1 else rng.choice(DY))   # some explicit zeros
    lin = sp.csr_matrix((nr, nc))
    if vals:
        lin = sp.csr_matrix(sp.coo_matrix((vals, (rows, cols)), shape=(nr, nc)))
        # keep explicit zeros: rebuild from coo -> csr keeps them unless eliminate_zeros is called
    const = np.array([rng.choice(DY + [0, 0]) for _ in range(nr)], dtype=float)
    sense = np.array([rng.choice([0, 0, 1]) for _ in range(nr)], dtype=int)
    if kind in ('flp', 'fsocp', 'fexp'):
        vt = ['C'] * nc
    else:
        vt = [rng.choice('CBI') for _ in range(nc)]
    vt = np.array(vt)
    lb = np.array([-np.inf if rng.random() < 0.2 else rbnd(rng) for _ in range(nc)], dtype=float)
    ub = np.array([np.inf if rng.random() < 0.2 else rbnd(rng) for _ in range(nc)], dtype=float)
    obj = rcoef(rng, nc)
    qmat, xmat = [], []
    if kind in ('fsocp', 'fmisocp', 'fexp', 'fmiexp'):
        for _ in range(rng.randint(1, 2)):
            # distinct columns inside a cone (Gurobi's read-back aggregates repeated columns)
            qmat.append(rng.sample(range(nc), rng.randint(1, min(4, nc))))
    if kind in ('fexp', 'fmiexp'):
        for _ in range(rng.randint(1, 2)):
            xmat.append([rng.randrange(nc) for _ in range(3)])
    if kind in ('flp', 'fmilp'):
        return LinProg(lin, const, sense, vt, ub, lb, obj)
    if kind in ('fsocp', 'fmisocp'):
        return SOCProg(lin, const, sense, vt, ub, lb, qmat, obj)
    return GCProg(lin, const, sense, vt, ub, lb, qmat, xmat, [], obj)

# --------------------------------------------------------------------------- running


def quiet(fn):
    sys.stdout.flush()
    fd = os.dup(1)
    dn = os.open(os.devnull, os.O_WRONLY)
    os.dup2(dn, 1)
    try:
        return fn()
    finally:
        sys.stdout.flush()
        os.dup2(fd, 1)
        os.close(dn)
        os.close(fd)


def sol_json(s, n):
    return {'objval': None if (isinstance(s.objval, float) and math.isnan(s.objval)) else fr(s.objval),
            'x': None if s.x is None else vec(s.x)}


def run_iface(iface, target, rng):
    """target: ro.Model or formula; returns (formula, recorded, solution_check or None)"""
    REC.clear()
    is_model = isinstance(target, ro.Model)
    f = target.do_math() if is_model else target
    n = f.linear.shape[1]
    CANNED['x'] = np.array([rng.choice(DY + [0]) for _ in range(n)], dtype=float)
    CANNED['pcost'] = float(rng.choice(DY))
    if iface == 'def_sol':
        CANNED['status'] = rng.choice([0, 0, 1, 2, 3, 4])
        if is_model:
            quiet(lambda: target.solve(display=False))
            s = target.solution
        else:
            s = quiet(lambda: def_sol(f, display=False))
        req = {'op': 'iface_status', 'iface': 'def_sol', 'status': CANNED['status'],
               'c': vec(f.obj), 'x': vec(CANNED['x'])}
        return f, REC['def_sol'], (req, sol_json(s, n), float(f.obj @ CANNED['x']))
    if iface == 'ecos':
        CANNED['status'] = rng.choice([0, 0, 10, 1, 2, -1, -2, -3, -7, 11])
        if is_model:
            quiet(lambda: target.solve(eco, display=False))
            s = target.solution
        else:
            s = quiet(lambda: eco.solve(f, display=False))
        assert REC['ecos_fmt'] == (True, True)
        req = {'op': 'iface_status', 'iface': 'ecos', 'status': CANNED['status'],
               'pcost': fr(CANNED['pcost']), 'x': vec(CANNED['x'])}
        return f, REC['ecos'], (req, sol_json(s, n), None)
    if iface == 'ortools':
        CANNED['ort_status'] = int(rng.choice([0, 0, 1, 2, 3, 4, 6]))     # OPTIMAL, FEASIBLE, INFEASIBLE, UNBOUNDED, ABNORMAL, NOT_SOLVED
        if is_model:
            quiet(lambda: target.solve(ort, display=False))
            s = target.solution
        else:
            s = quiet(lambda: ort.solve(f, display=False))
        req = {'op': 'iface_status', 'iface': 'ortools', 'status': CANNED['ort_status'], 'objval': '0', 'x': ['0'] * n}
        return f, read_ortools(), (req, sol_json(s, n), None)
    if iface == 'gurobi':
        # LOADED, OPTIMAL, INFEASIBLE, INF_OR_UNBD, UNBOUNDED, TIME_LIMIT, SUBOPTIMAL - each with and without an incumbent
        CANNED['grb_status'] = int(rng.choice([2, 2, 3, 4, 5, 5, 9, 13, 1]))
        CANNED['grb_inc'] = bool(rng.random() < 0.6)
        s = None
        if is_model:
            quiet(lambda: target.solve(grb, display=False))
            s = target.solution
        else:
            try:
                s = quiet(lambda: grb.solve(f, display=False))
            except UnboundLocalError:
                # grb_solver crashes after the model is built when the program has no row at all
                # (`c_eq` is never assigned); not reachable through ro.Model (objective row)
                if f.linear.shape[0] != 0:
                    raise
                REC['grb_crash_norows'] = True
        chk = None
        if s is not None:
            req = {'op': 'iface_status', 'iface': 'gurobi', 'status': CANNED['grb_status'], 'inc': int(CANNED['grb_inc']),
                   'objval': fr(CANNED['pcost']), 'x': vec(CANNED['x'])}
            chk = (req, sol_json(s, n), None)
        return f, read_gurobi(), chk
    raise ValueError(iface)


def diff(path, a, b, out):
    if isinstance(a, dict) and isinstance(b, dict):
        for k in sorted(set(a) | set(b)):
            if k not in a or k not in b:
                out.append('{}.{}: missing on one side'.format(path, k))
            else:
                diff(path + '.' + k, a[k], b[k], out)
    elif isinstance(a, list) and isinstance(b, list):
        if len(a) != len(b):
            out.append('{}: length {} vs {}'.format(path, len(a), len(b)))
        else:
            for i, (u, v) in enumerate(zip(a, b)):
                diff('{}[{}]'.format(path, i), u, v, out)
    elif a != b or type(a) != type(b):
        out.append('{}: python {!r} vs lean {!r}'.format(path, a, b))


def normalise(iface, rec, f):
    """things checked on the Python side only (not part of the Lean data)"""
    errs = []
    rec = dict(rec)
    if iface == 'ortools':
        if not rec.pop('minimize'):
            errs.append('ortools objective is not a minimisation')
    if iface == 'gurobi':
        if not rec.pop('minimize'):
            errs.append('gurobi objective is not a minimisation')
        order = rec.pop('order')
        nr = f.linear.shape[0]
        if order != (['eq', 'le'] if nr > 0 else []):
            errs.append('gurobi addMConstr order {}'.format(order))
        nrows = rec.pop('nrows')
        if nrows != nr:
            errs.append('gurobi rows {} vs {}'.format(nrows, nr))
    return rec, errs


def ecos_convention_check():
    """ECOS' exponential cone is cl{(s0,s1,s2): s2>0, s2*exp(s0/s2) <= s1}: with s0 = s2 = 1 the
    minimal s1 is e.  (Uses the real ecos.solve.)"""
    real = _REAL_ECOS
    G = sp.csc_matrix(-np.eye(3))
    A = sp.csc_matrix(np.array([[1., 0, 0], [0, 0, 1.]]))
    sol = quiet(lambda: real(np.array([0., 1., 0.]), G, np.zeros(3), {'l': 0, 'q': [], 'e': 1},
                             A, np.array([1., 1.]), verbose=False))
    return sol['info']['exitFlag'] == 0 and abs(sol['x'][1] - math.e) < 1e-6


def main():
    seed = int(sys.argv[1]) if len(sys.argv) > 1 else 0
    N = int(sys.argv[2]) if len(sys.argv) > 2 else 60
    rng = random.Random(seed)
    np.random.seed(seed)
    ifaces = ['def_sol', 'ecos'] + (['ortools'] if HAVE_ORT else []) + (['gurobi'] if HAVE_GRB else [])
    kinds = ['lp', 'milp', 'socp', 'misocp', 'exp', 'miexp',
             'flp', 'fmilp', 'fsocp', 'fmisocp', 'fexp', 'fmiexp']
    requests, expect, labels = [], [], []
    pyerrs = []
    hist = {}
    for t in range(N):
        kind = kinds[t % len(kinds)]
        try:
            target = gen_formula(rng, kind) if kind.startswith('f') else gen_model(rng, kind)
            if isinstance(target, ro.Model):
                target.do_math()
        except Exception as e:                      # generator produced something rsome rejects
            hist['gen_rejected'] = hist.get('gen_rejected', 0) + 1
            if os.environ.get('IFACE_DEBUG'):
                print('rejected', kind, repr(e))
            continue
        # hypotheses of ortools_equiv / gurobi_equiv, observed on the generated programs
        f0 = target.do_math() if isinstance(target, ro.Model) else target
        src = 'model' if isinstance(target, ro.Model) else 'handbuilt'
        lin0 = sp.csr_matrix(f0.linear)
        bad_empty = any(lin0[i].indices.size == 0 and
                        (f0.const[i] != 0 if f0.sense[i] == 1 else f0.const[i] < 0)
                        for i in range(lin0.shape[0]))
        free_head = any(len(q) > 0 and not (f0.lb[q[0]] >= 0) for q in getattr(f0, 'qmat', []))
        if bad_empty:
            hist[src + ':violated-empty-row(kept by every interface)'] = hist.get(src + ':violated-empty-row(kept by every interface)', 0) + 1
        if free_head:
            hist[src + ':HeadsNonneg_violated'] = hist.get(src + ':HeadsNonneg_violated', 0) + 1
        for iface in ifaces:
            label = 'case {} kind {} iface {}'.format(t, kind, iface)
            try:
                f, rec, solchk = run_iface(iface, target, rng)
            except Exception as e:
                pyerrs.append('{}: python raised {!r}'.format(label, e))
                continue
            rec, errs = normalise(iface, rec, f)
            pyerrs += ['{}: {}'.format(label, e) for e in errs]
            requests.append({'op': 'iface_data', 'iface': iface, 'prog': prog_json(f)})
            expect.append(rec)
            labels.append(label)
            key = iface + ':' + (rec.get('call') or rec.get('solver') or
                                 ('norows' if iface == 'gurobi' and rec.get('A_eq') is None else
                                  'mixed' if rec.get('mixed') else 'cont'))
            hist[key] = hist.get(key, 0) + 1
            if iface == 'ecos':
                kk = 'ecos:bool_vars_idx:' + REC.get('ecos_boolkw', '?')
                hist[kk] = hist.get(kk, 0) + 1
                if rec.get('mixed'):
                    vts = ''.join(str(v) for v in f.vtype)
                    if 'I' in vts and 'B' in vts and vts.index('I') < vts.rindex('B'):
                        hist['ecos:mixed:I-before-B'] = hist.get('ecos:mixed:I-before-B', 0) + 1
            if iface == 'def_sol' and rec.get('call') == 'milp':
                # coverage of the inward rounding: non-continuous columns by the kind of bound they carry
                for k, v in enumerate(f.vtype):
                    if v == 'C':
                        continue
                    for b in (float(f.lb[k]), float(f.ub[k])):
                        if math.isinf(b):
                            kd = 'inf'
                        elif b == round(b):
                            kd = 'integral'
                        elif abs(b - round(b)) < 1e-9:
                            kd = 'near-int-within-tol'
                        elif abs(b - round(b)) < 1e-5:
                            kd = 'near-int-outside-tol'
                        else:
                            kd = 'fractional'
                        kk = 'def_sol:milp:{}col-bound:{}{}'.format(v, kd, '' if b >= 0 else ':neg')
                        hist[kk] = hist.get(kk, 0) + 1
            if solchk is not None:
                req, got, objref = solchk
                if objref is not None and got['objval'] is not None and got['objval'] != fr(objref):
                    pyerrs.append('{}: objval is not obj @ x'.format(label))
                requests.append(req)
                expect.append(got)
                labels.append(label + ' [status {}]'.format(req['status']))
    inp = '\n'.join(json.dumps(r) for r in requests) + '\n'
    p = subprocess.run(['lake', 'env', 'lean', '--run', 'Driver.lean'], cwd=HERE, input=inp,
                       capture_output=True, text=True)
    lines = [l for l in p.stdout.splitlines() if l.strip()]
    mism = 0
    if len(lines) != len(requests):
        print('driver returned {} lines for {} requests\n{}'.format(len(lines), len(requests), p.stderr[-2000:]))
        mism += abs(len(lines) - len(requests)) + 1
    for label, exp, line in zip(labels, expect, lines):
        got = json.loads(line)
        out = []
        if 'error' in got:
            out.append('lean error: ' + got['error'])
        else:
            if 'status' in got and 'status' not in exp:
                got.pop('status')
            diff('', exp, got, out)
        if out:
            mism += 1
            print('MISMATCH', label)
            for o in out[:8]:
                print('   ', o)
    for e in pyerrs:
        mism += 1
        print('MISMATCH', e)
    conv = ecos_convention_check()
    if conv is False:
        mism += 1
        print('MISMATCH ECOS exponential-cone convention')
    print('ecos exp-cone convention s2*exp(s0/s2) <= s1 confirmed numerically:', conv)
    print('branches', json.dumps(hist, sort_keys=True))
    print('cases {} mismatches {}'.format(len(requests), mism))
    return 0 if mism == 0 else 1


if __name__ == '__main__':
    sys.exit(main())
