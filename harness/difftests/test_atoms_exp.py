#!/venv/bin/python
"""Differential test: Lean model `encodeAtom` / `encodeAtoms` (RsomeV/M/AtomsExp.lean) against the
real `rsome.gcp.Model.do_math()` for the exponential-cone atoms X, L, P, F, perspective X / L, K.

usage (from the project dir):  /venv/bin/python test_atoms_exp.py <seed> <N>
prints `cases <n> mismatches <k>`.
"""
import sys, os, json, random, subprocess
from fractions import Fraction
sys.path.insert(0, os.environ.get('RSOME_REPO', '/repo'))
import numpy as np
import rsome as rso
from rsome import ro, gcp
from rsome.lp import PCvxConstr, KLConstr, CvxConstr

HERE = os.environ.get('RSOMEV_LEAN_DIR', os.path.join(os.path.dirname(os.path.dirname(os.path.dirname(os.path.abspath(__file__)))), 'lean'))


def fr(x):
    return Fraction(float(x))


def fs(x):
    f = fr(x)
    return str(f.numerator) if f.denominator == 1 else f"{f.numerator}/{f.denominator}"


class Gen:
    def __init__(self, rng):
        self.rng = rng

    def dy(self, zero_p=0.3):
        r = self.rng
        if r.random() < zero_p:
            return 0.0
        return r.randint(-8, 8) / r.choice([1, 1, 2, 4])

    def mat(self, m, n, zero_p=0.3):
        return np.array([[self.dy(zero_p) for _ in range(n)] for _ in range(m)], dtype=float).reshape(m, n)

    def vec(self, m, zero_p=0.3):
        return np.array([self.dy(zero_p) for _ in range(m)], dtype=float)

    def aff(self, x, shape, allow_const=False):
        """random affine expression (or numeric array / scalar) of the given shape over x"""
        r = self.rng
        size = int(np.prod(shape)) if shape != () else 1
        n = x.size
        kind = r.random()
        if allow_const and kind < 0.2:
            v = self.vec(size, 0.1)
            if shape == ():
                return float(v[0])
            return v.reshape(shape)
        e = self.mat(size, n) @ x + self.vec(size)
        if shape == ():
            return e[0] if r.random() < 0.5 else e.sum() if size == 1 else e[0]
        return e.reshape(shape)


def rows_of(expr, ncols, size=None):
    """(matrix rows padded to ncols, constants, shape) of an Affine / Vars / numeric array"""
    if isinstance(expr, (int, float, np.floating, np.integer)):
        return [[0.0] * ncols], [float(expr)], []
    if isinstance(expr, np.ndarray):
        flat = expr.reshape(expr.size)
        return [[0.0] * ncols for _ in flat], [float(v) for v in flat], list(expr.shape)
    a = expr.to_affine()
    lin = a.linear.toarray() if hasattr(a.linear, 'toarray') else np.array(a.linear)
    lin = np.array(lin, dtype=float).reshape(a.size, -1)
    assert lin.shape[1] <= ncols
    M = np.zeros((a.size, ncols))
    M[:, :lin.shape[1]] = lin
    const = np.array(a.const, dtype=float).reshape(a.size) if not isinstance(a.const, float) else np.array([a.const] * a.size)
    const = np.broadcast_to(np.array(a.const, dtype=float), a.shape).reshape(a.size)
    return M.tolist(), const.tolist(), list(a.shape)


def smat(M):
    return [[fs(v) for v in row] for row in M]


def svec(v):
    return [fs(t) for t in v]


def atom_json(c, ncols):
    """describe a constraint object produced by rsome in the driver's request format"""
    if isinstance(c, KLConstr):
        P, pb, _ = rows_of(c.p, ncols)
        phat = np.array(c.phat, dtype=float).reshape(-1)
        return {"xtype": "K", "p": smat(P), "pb": svec(pb), "phat": svec(phat), "r": fs(c.r)}
    A, b, ish = rows_of(c.affine_in, ncols)
    G, g, osh = rows_of(c.affine_out, ncols)
    d = {"xtype": c.xtype, "mult": fs(c.multiplier), "ain": smat(A), "bin": svec(b),
         "aout": smat(G), "bout": svec(g), "in_shape": ish, "out_shape": osh}
    if isinstance(c, PCvxConstr):
        S, s, ssh = rows_of(c.affine_scale, ncols)
        d.update({"ascale": smat(S), "bscale": svec(s), "scale_shape": ssh})
    return d


def shapes_for(rng):
    """(in_shape, other_shape) pairs that NumPy can broadcast (affine_out = zeros(in_shape)+other)"""
    m = rng.randint(1, 3)
    p = rng.randint(1, 2)
    return rng.choice([
        ((m,), (m,)), ((m,), (m,)), ((m,), (m,)),
        ((m,), ()), ((m,), (1,)), ((1,), (m,)), ((), (m,)), ((), ()),
        ((m,), (p, m)), ((p, 1), (1, m)), ((p, m), (m,)), ((p, m), (p, m)),
    ])


def make_atom(g, m, x, kind):
    """build one constraint of the given kind in model m over variables x"""
    rng = g.rng
    k = rng.choice([0.25, 0.5, 1, 1, 2, 4])
    if kind == 'K':
        ns = rng.randint(1, 3)
        p = g.aff(x, (ns,))
        style = rng.random()
        if style < 0.3:
            phat = rng.choice([0.25, 0.5, 1.0, 2.0])
        else:
            phat = np.array([rng.choice([0.125, 0.25, 0.5, 1.0, 2.0]) for _ in range(ns)])
        r = rng.randint(0, 8) / rng.choice([1, 2, 4])
        return rso.kldiv(p, phat, r)
    if kind == 'P':
        ns = rng.randint(1, 3)
        ish = rng.choice([(ns,), (ns,), (ns, 1), (1, ns)]) if rng.random() < 0.8 else ()
        e = g.aff(x, ish)
        oth_shape = rng.choice([(), (), (), (rng.randint(1, 3),)])
        oth = g.aff(x, oth_shape, allow_const=True)
        if rng.random() < 0.5:
            return -k * rso.entropy(e) + oth <= 0
        return k * rso.entropy(e) >= oth
    ish, osh = shapes_for(rng)
    e = g.aff(x, ish)
    oth = g.aff(x, osh, allow_const=True)
    flip = rng.random() < 0.4
    if kind == 'X':
        return (k * rso.exp(e) + oth <= 0) if not flip else (-oth >= rso.exp(e) * k)
    if kind == 'L':
        return (-k * rso.log(e) + oth <= 0) if not flip else (k * rso.log(e) >= oth)
    if kind == 'F':
        return (k * rso.softplus(e) + oth <= 0) if not flip else (-oth >= k * rso.softplus(e))
    # perspective: scale of any broadcastable shape (number, array, variables or affine)
    sc_shape = rng.choice([ish, ish, (), (1,), osh])
    sstyle = rng.random()
    if sstyle < 0.25:
        sc = rng.choice([0.5, 1.0, 2.0, 3.0])
    elif sstyle < 0.4 and sc_shape != ():
        sc = np.abs(g.vec(int(np.prod(sc_shape)), 0.0)).reshape(sc_shape) + 1
    else:
        sc = g.aff(x, sc_shape)
    try:
        np.broadcast_shapes(ish, sc_shape if not isinstance(sc, float) else (), osh)
    except ValueError:
        sc = 2.0
    if kind == 'pX':
        return (k * rso.pexp(e, sc) + oth <= 0) if not flip else (-oth >= k * rso.pexp(e, sc))
    if kind == 'pL':
        return (-k * rso.plog(e, sc) + oth <= 0) if not flip else (k * rso.plog(e, sc) >= oth)
    raise ValueError(kind)


def formula_dict(f, drop_last_row=False):
    A = f.linear.toarray()
    b = np.array(f.const, dtype=float)
    s = np.array(f.sense)
    if drop_last_row:
        A, b, s = A[:-1], b[:-1], s[:-1]
    return {
        "nr": A.shape[0], "nc": A.shape[1],
        "a": [[fr(v) for v in row] for row in A],
        "b": [fr(v) for v in b],
        "eq": [int(v) for v in s],
        "ub": [None if np.isinf(v) else fr(v) for v in f.ub],
        "lb": [None if np.isinf(v) else fr(v) for v in f.lb],
        "c": [fr(v) for v in f.obj],
        "qmat": [list(map(int, q)) for q in f.qmat],
        "xmat": [list(map(int, q)) for q in f.xmat],
    }


def parse_reply(r):
    def pr(s):
        return None if s is None else Fraction(s)
    return {
        "nr": r["nr"], "nc": r["nc"],
        "a": [[pr(v) for v in row] for row in r["a"]],
        "b": [pr(v) for v in r["b"]],
        "eq": r["eq"],
        "ub": [pr(v) for v in r["ub"]], "lb": [pr(v) for v in r["lb"]],
        "c": [pr(v) for v in r["c"]],
        "qmat": r["qmat"], "xmat": r["xmat"],
    }


def diff(exp, got):
    out = []
    for key in ["nr", "nc", "a", "b", "eq", "ub", "lb", "c", "qmat", "xmat"]:
        if exp[key] != got[key]:
            out.append(key)
    return out


KINDS = ['X', 'L', 'P', 'F', 'pX', 'pL', 'K']


def main():
    seed = int(sys.argv[1]) if len(sys.argv) > 1 else 0
    N = int(sys.argv[2]) if len(sys.argv) > 2 else 200
    rng = random.Random(seed)
    g = Gen(rng)
    reqs, exps, descs = [], [], []
    hist = {}
    tries = 0
    while len(reqs) < N:
        tries += 1
        if tries > 50 * N:
            break
        n = rng.randint(1, 4)
        via_ro = rng.random() < 0.3
        multi = rng.random() < 0.25
        if via_ro:
            m = ro.Model()
            x = m.dvar(n)
            m.min(0)            # constant objective: adds only the last row `-x0 <= 0`
        else:
            m = gcp.Model()
            x = m.dvar(n)
        ncols = n + 1
        kinds = [rng.choice(KINDS) for _ in range(rng.randint(2, 3))] if multi else [KINDS[len(reqs) % len(KINDS)] if rng.random() < 0.5 else rng.choice(KINDS)]
        try:
            cs = [make_atom(g, m, x, kd) for kd in kinds]
        except (ValueError, TypeError) as e:
            # shapes the library itself refuses (not part of the modelled behaviour)
            hist['rsome_refuses_constr'] = hist.get('rsome_refuses_constr', 0) + 1
            if os.environ.get('ATOMS_DEBUG'):
                print('refused', kinds, repr(e)[:150])
            continue
        ok = True
        for c, kd in zip(cs, kinds):
            if kd == 'K':
                ok = ok and isinstance(c, KLConstr)
            elif kd in ('pX', 'pL'):
                ok = ok and isinstance(c, PCvxConstr)
            else:
                ok = ok and isinstance(c, CvxConstr) and c.xtype == kd
        if not ok:
            continue
        atoms = [atom_json(c, ncols) for c in cs]
        for c in cs:
            m.st(c)
        try:
            f = m.do_math()
        except Exception as e:      # library crash on an exotic shape: skip, count
            hist['rsome_raises'] = hist.get('rsome_raises', 0) + 1
            if os.environ.get('ATOMS_DEBUG'):
                print('do_math raised', kinds, repr(e)[:150])
            continue
        if via_ro:
            A = f.linear.toarray()
            last = A[-1]
            assert last[0] == -1 and not last[1:].any() and f.const[-1] == 0 and f.sense[-1] == 0
        exp = formula_dict(f, drop_last_row=via_ro)
        if multi:
            req = {"op": "atoms_exp_encode", "ncols": ncols, "atoms": atoms}
        else:
            req = dict(atoms[0]); req["op"] = "atom_encode"; req["ncols"] = ncols
        reqs.append(req); exps.append(exp); descs.append((kinds, via_ro))
        for kd, a in zip(kinds, atoms):
            hist[kd] = hist.get(kd, 0) + 1
            if kd != 'K' and (len(a['in_shape']) > 1 or len(a['out_shape']) > 1):
                hist['shape_2d'] = hist.get('shape_2d', 0) + 1
            if kd != 'K' and a['in_shape'] != a['out_shape']:
                hist['shape_bcast'] = hist.get('shape_bcast', 0) + 1
        hist['multi' if multi else 'single'] = hist.get('multi' if multi else 'single', 0) + 1
        if via_ro:
            hist['via_ro'] = hist.get('via_ro', 0) + 1

    inp = "\n".join(json.dumps(r) for r in reqs) + "\n"
    pr = subprocess.run(["lake", "env", "lean", "--run", "Driver.lean"], input=inp, capture_output=True,
                        text=True, cwd=HERE)
    lines = [l for l in pr.stdout.splitlines() if l.strip()]
    mism = 0
    if len(lines) != len(reqs):
        print("driver returned", len(lines), "lines for", len(reqs), "requests", pr.stderr[:2000])
        mism = abs(len(lines) - len(reqs))
    for i, (line, exp) in enumerate(zip(lines, exps)):
        r = json.loads(line)
        if "error" in r:
            mism += 1
            print("case", i, descs[i], "driver error:", r["error"])
            continue
        d = diff(exp, parse_reply(r))
        if d:
            mism += 1
            if mism <= 5:
                print("case", i, descs[i], "differs in", d)
                print(" request:", json.dumps(reqs[i]))
    print("histogram", dict(sorted(hist.items())))
    print(f"cases {len(lines)} mismatches {mism}")
    return 0 if mism == 0 else 1


if __name__ == "__main__":
    sys.exit(main())
