"""Exact correspondence test of the array-expression language (RsomeV/M/AffExpr.lean) with rsome.

usage: test_aff_expr.py <seed> <N>      (PYTHONPATH must contain the rsome checkout, or RSOME_REPO names it)

Random expression trees (height <= 5, shapes of rank 0..3, every constructor of `Expr`) are built through the REAL
API on `ro.Model().dvar(...)` blocks.  `e.to_affine().linear / .const` are exported as exact rationals and compared
ENTRY BY ENTRY with `Expr.compile` of the same tree (driver op `aff_expr`).  Oracle for acceptance: NumPy applied to
value arrays (`diag`: 2-D only, `concat`: rsome's promotion of 0-d operands).
  * NumPy rejects            -> rsome must raise and the model must answer {"error":"shape"}
  * the result has no element -> the model must answer {"error":"shape"} (the language is about non-empty arrays;
                                 rsome itself is inconsistent there and is not compared)
  * otherwise                 -> rsome must accept, the model must accept, shape / linear / const must be equal; in
                                 addition linear @ x + const must be the NumPy value of the expression (semantics).
"""
import os, sys, json, subprocess, collections
from fractions import Fraction

HERE = os.environ.get('RSOMEV_LEAN_DIR', os.path.dirname(os.path.abspath(__file__)))
if os.environ.get('RSOME_REPO'):
    sys.path.insert(0, os.environ['RSOME_REPO'])
import warnings
warnings.filterwarnings('ignore')
import numpy as np
import scipy.sparse as sp
import rsome as rso
from rsome import ro
from rsome.lp import Affine, Vars, VarSub

MAXH = 5


def fr(v):
    f = v if isinstance(v, Fraction) else Fraction(float(v))
    return str(f.numerator) if f.denominator == 1 else '%d/%d' % (f.numerator, f.denominator)


def lean_run(cases, timeout=3600):
    if not cases:
        return []
    inp = '\n'.join(json.dumps(c, separators=(',', ':')) for c in cases) + '\n'
    p = subprocess.run(['lake', 'env', 'lean', '--run', 'Driver.lean'], cwd=HERE, input=inp, capture_output=True,
                       text=True, timeout=timeout)
    lines = [l for l in p.stdout.splitlines() if l.startswith('{')]
    if len(lines) != len(cases):
        raise RuntimeError('driver returned %d lines for %d cases; rc=%s; stderr: %s' %
                           (len(lines), len(cases), p.returncode, p.stderr[:2000]))
    return [json.loads(l) for l in lines]


HIST = collections.Counter()      # operator / sub-case histogram (all nodes)
SHAPES = collections.Counter()    # rank of the results of accepted nodes


class Reject(Exception):
    """the oracle rejects the operation at the root of `tree`"""
    def __init__(self, tree, why, rs_accepts):
        self.tree, self.why, self.rs_accepts = tree, why, rs_accepts


class Empty(Exception):
    def __init__(self, tree):
        self.tree = tree


class RsomeRaises(Exception):
    def __init__(self, tree, ex):
        self.tree, self.ex = tree, ex


class Node:
    def __init__(self, tree, obj, val, h, const=False):
        self.tree, self.obj, self.val, self.h, self.const = tree, obj, np.asarray(val, dtype=float), h, const

    @property
    def shape(self):
        return self.val.shape


def finish(tree, np_fn, rs_fn, h):
    """apply the oracle and the real API; classify"""
    try:
        nv = np.asarray(np_fn(), dtype=float)
    except Exception as ex:
        try:
            rs_fn()
            acc = True
        except Exception:
            acc = False
        raise Reject(tree, type(ex).__name__, acc)
    if nv.size == 0:
        raise Empty(tree)
    try:
        obj = rs_fn()
    except Exception as ex:
        raise RsomeRaises(tree, ex)
    SHAPES['rank%d' % nv.ndim] += 1
    return Node(tree, obj, nv, h)


def dyadic(r, shape):
    v = r.integers(-3, 4, shape).astype(float)
    if r.random() < 0.3:
        v = v / 2.0
    return v


def jdata(a):
    return [fr(v) for v in np.asarray(a, dtype=float).reshape(-1)]


class Env:
    def __init__(self, r):
        self.r = r
        self.m = ro.Model()
        self.blocks = []
        shapes = [(), (int(r.integers(1, 5)),), tuple(int(v) for v in r.integers(1, 4, 2)),
                  tuple(int(v) for v in r.integers(1, 4, 3))]
        if r.random() < 0.5:
            shapes.append(tuple(int(v) for v in r.integers(1, 4, int(r.integers(1, 4)))))
        if r.random() < 0.3:
            shapes.append((int(r.integers(2, 4)),) * 2)
        order = r.permutation(len(shapes))
        for i in order:
            self.blocks.append(self.m.dvar(shapes[i]))
        self.ncols = int(self.blocks[0].model.last)
        self.xv = r.integers(-3, 4, self.ncols).astype(float)

    def leaf(self, want_const=False):
        r = self.r
        if want_const:
            rank = int(r.choice([0, 1, 1, 2, 2, 3]))
            shp = tuple(int(v) for v in r.integers(1, 4, rank))
            return self.const_leaf(shp)
        v = self.blocks[int(r.integers(len(self.blocks)))]
        val = self.xv[v.first:v.first + v.size].reshape(v.shape)
        HIST['var'] += 1
        SHAPES['rank%d' % len(v.shape)] += 1
        obj = v if r.random() < 0.6 else v.to_affine()
        return Node({"t": "var", "first": int(v.first), "shape": [int(d) for d in v.shape]}, obj, val, 0)

    def const_leaf(self, shp):
        c = dyadic(self.r, shp)
        HIST['const'] += 1
        return Node({"t": "const", "shape": [int(d) for d in shp], "data": jdata(c)}, c, c, 0, const=True)


# ------------------------------------------------------------------------------------------------- index expressions
def rand_items(r, shape, bad):
    items, jitems = [], []
    nit = int(r.integers(0, len(shape) + 1)) if r.random() < 0.4 else len(shape)
    if bad and r.random() < 0.3:
        nit = len(shape) + 1
    for ax in range(nit):
        n = shape[ax] if ax < len(shape) else 2
        u = r.random()
        if u < 0.35:
            i = int(r.integers(-n, n))
            if bad and r.random() < 0.4:
                i = int(r.choice([n, -n - 1, n + 2]))
            if i < 0:
                HIST['getitem:negint'] += 1
            items.append(i); jitems.append(i)
        else:
            a = r.choice([None, None, 0, 1, -1, -n, n - 1, n, -n - 1, n + 3, 2, -2])
            b = r.choice([None, None, n, n - 1, -1, 1, 0, -n, -n - 1, n + 3, 2, -2])
            c = r.choice([None, None, 1, 2, -1, -1, -2, 3, -3])
            if bad and r.random() < 0.3:
                c = 0
            a, b, c = [None if v is None else int(v) for v in (a, b, c)]
            if c is not None and c < 0:
                HIST['getitem:negstep'] += 1
            if (a is not None and a < 0) or (b is not None and b < 0):
                HIST['getitem:negbound'] += 1
            items.append(slice(a, b, c)); jitems.append([a, b, c])
    return tuple(items), jitems


# ------------------------------------------------------------------------------------------------- unary operators
def bcast_partner(r, shp):
    """a constant shape that broadcasts with shp; returns (shape, label of the direction)"""
    tgt = list(shp)
    mode = r.random()
    if mode < 0.25:
        return tuple(tgt), 'same'
    if mode < 0.5:
        return tuple(tgt[int(r.integers(0, len(tgt) + 1)):]), 'const-up(trailing)'
    if mode < 0.7:
        return tuple(1 if r.random() < 0.5 else d for d in tgt), 'const-up(ones)'
    if mode < 0.85:
        return tuple([int(r.integers(1, 4)) for _ in range(int(r.integers(1, 3)))] + tgt), 'expr-up(rank)'
    # both directions: the expression has 1s that the constant blows up, the constant has 1s
    cs = [int(r.integers(2, 4)) if d == 1 else (1 if r.random() < 0.5 else d) for d in tgt]
    return tuple(cs), 'both'


def unary(env, n, bad=False):
    r = env.r
    shp = n.shape
    e, v, t, h = n.obj, n.val, n.tree, n.h + 1
    ops = ['neg', 'getitem', 'getitem', 'reshape', 'T', 'sum', 'sumaxis', 'sumaxis', 'scale', 'mulc', 'rmulc',
           'matmulc', 'matmulc', 'rmatmulc', 'rmatmulc', 'diag', 'addc', 'subc', 'rsubc']
    if len(shp) == 2:
        ops += ['diag', 'diag', 'diag']
    op = str(r.choice(ops))
    if not bad and r.random() < 0.85:
        # mostly applicable operators; the rest exercises the rejections (diag of a non-matrix, @ with a 0-d array)
        while (op == 'diag' and len(shp) != 2) or (op in ('matmulc', 'rmatmulc') and len(shp) == 0):
            op = str(r.choice(ops))
    if op == 'neg':
        HIST['neg'] += 1
        return finish({"t": "neg", "a": t}, lambda: -v, lambda: -e, h)
    if op == 'getitem':
        items, jitems = rand_items(r, shp, bad)
        for _ in range(3):
            try:
                if v[items].size > 0 or bad:
                    break
            except Exception:
                break
            items, jitems = rand_items(r, shp, bad)          # empty selections only now and then
        HIST['getitem'] += 1
        ee = e
        if isinstance(e, (Vars, VarSub)) and not isinstance(e, Affine) and r.random() < 0.4:
            ee = e.to_affine()
        HIST['getitem:' + ('affine' if isinstance(ee, Affine) else 'vars')] += 1
        return finish({"t": "getitem", "a": t, "items": jitems}, lambda: v[items], lambda: ee[items], h)
    if op == 'reshape':
        size = v.size
        cands = [(size,), (1, size), (size, 1), (-1,), (1, -1, 1), ()] + \
                [(a, size // a) for a in range(2, size) if size % a == 0] + \
                [(a, -1) for a in range(2, size) if size % a == 0] + \
                [(-1, a) for a in range(2, size) if size % a == 0] + \
                [(a, b, size // (a * b)) for a in range(1, 4) for b in range(1, 4) if size % (a * b) == 0]
        if bad or r.random() < 0.08:
            cands = [(size + 1,), (-1, -1), (2, -1, -1), (size, -2), (0, -1), (size + 1, -1), (-3, size), (), (-size,)]
        ns = cands[int(r.integers(len(cands)))]
        HIST['reshape'] += 1
        if any(d < 0 for d in ns):
            HIST['reshape:unknown-dim'] += 1
        return finish({"t": "reshape", "a": t, "shape": [int(d) for d in ns]}, lambda: v.reshape(ns),
                      lambda: e.reshape(ns), h)
    if op == 'T':
        HIST['T'] += 1
        return finish({"t": "T", "a": t}, lambda: v.T, lambda: e.T, h)
    if op == 'sum':
        HIST['sum'] += 1
        return finish({"t": "sum", "a": t}, lambda: v.sum(), lambda: e.sum(), h)
    if op == 'sumaxis':
        k = len(shp)
        ax = int(r.integers(-k, k)) if k > 0 else int(r.choice([0, -1]))
        if bad or r.random() < 0.05:
            ax = int(r.choice([k, -k - 1, k + 1]))
        HIST['sumaxis'] += 1
        if ax < 0:
            HIST['sumaxis:neg'] += 1
        return finish({"t": "sumaxis", "a": t, "axis": ax}, lambda: v.sum(axis=ax), lambda: e.sum(axis=ax), h)
    if op == 'scale':
        k = float(r.choice([-2., 0.5, 3., 0., 1.5, -1.]))
        left = r.random() < 0.5
        HIST['scale'] += 1
        return finish({"t": "scale", "k": fr(k), "a": t}, lambda: k * v, lambda: (k * e) if left else (e * k), h)
    if op in ('mulc', 'rmulc', 'addc', 'subc', 'rsubc'):
        cs, lab = bcast_partner(r, shp)
        if bad and r.random() < 0.7:
            cs = tuple(list(cs[:-1]) + [cs[-1] + 1 + (1 if cs[-1] == 0 else 0)]) if len(cs) else (2, 0)
            if len(cs) and cs[-1] == 1:
                cs = cs[:-1] + (5,)
            lab = 'random'
        c = dyadic(r, cs)
        if op in ('mulc', 'rmulc'):
            HIST[op] += 1
            HIST['bcast:' + lab] += 1
            tree = {"t": op, "a": t, "cshape": [int(d) for d in cs], "c": jdata(c)}
            cc = c
            if len(cs) == 0 and r.random() < 0.5:
                cc = np.float64(c)       # NumPy scalar instead of a 0-d array
            if op == 'mulc':
                return finish(tree, lambda: v * c, lambda: e * cc, h)
            return finish(tree, lambda: c * v, lambda: cc * e, h)
        # + / - with a constant leaf
        cn = Node({"t": "const", "shape": [int(d) for d in cs], "data": jdata(c)}, c, c, 0, const=True)
        HIST['const'] += 1
        HIST['bcast:' + lab] += 1
        if op == 'addc':
            HIST['add'] += 1
            if r.random() < 0.5:
                return finish({"t": "add", "a": t, "b": cn.tree}, lambda: v + c, lambda: e + c, h)
            return finish({"t": "add", "a": cn.tree, "b": t}, lambda: c + v, lambda: c + e, h)
        HIST['sub'] += 1
        if op == 'subc':
            return finish({"t": "sub", "a": t, "b": cn.tree}, lambda: v - c, lambda: e - c, h)
        return finish({"t": "sub", "a": cn.tree, "b": t}, lambda: c - v, lambda: c - e, h)
    if op in ('matmulc', 'rmatmulc'):
        HIST[op] += 1
        if len(shp) == 0:
            cs = (int(r.integers(1, 4)),)
            kind = '0-d operand'
        else:
            if op == 'matmulc':
                inner = shp[-1]
            else:
                inner = shp[-2] if len(shp) >= 2 else shp[0]
            if bad and r.random() < 0.7:
                inner += 1
            other = int(r.integers(1, 4))
            mode = r.random()
            ebatch = list(shp[:-2]) if len(shp) > 2 else []
            if mode < 0.2:
                cs = (inner,)
                kind = 'vec.vec' if len(shp) == 1 else ('mat.vec' if op == 'matmulc' else 'vec.mat')
            else:
                core = (inner, other) if op == 'matmulc' else (other, inner)
                if mode < 0.5:
                    batch = []
                    kind = 'plain' if not ebatch else 'batched expr, plain const'
                elif mode < 0.7:
                    batch = [int(r.integers(1, 4)) for _ in range(int(r.integers(1, 3)))]
                    if ebatch:
                        batch = batch[:1] + ebatch if r.random() < 0.5 else list(ebatch)
                    kind = 'batched const'
                else:
                    batch = [int(r.integers(2, 4)) if d == 1 else (1 if r.random() < 0.5 else d) for d in ebatch]
                    if r.random() < 0.5:
                        batch = [int(r.integers(1, 3))] + batch
                    kind = 'batch broadcast' if batch else 'plain'
                cs = tuple(batch) + core
                if len(shp) == 1:
                    kind = ('vec.mat' if op == 'matmulc' else 'mat.vec') + ('' if len(cs) == 2 else ' batched')
        HIST['matmul:' + kind] += 1
        c = dyadic(r, cs)
        tree = {"t": op, "a": t, "cshape": [int(d) for d in cs], "c": jdata(c)}
        if op == 'matmulc':
            return finish(tree, lambda: v @ c, lambda: e @ c, h)
        return finish(tree, lambda: c @ v, lambda: c @ e, h)
    if op == 'diag':
        k = int(r.integers(-3, 4))
        if len(shp) == 2 and r.random() < 0.8:
            k = int(r.integers(-(shp[0] - 1), shp[1]))
        HIST['diag'] += 1
        meth = r.random() < 0.5

        def npd():
            if v.ndim != 2:
                raise ValueError('diag: 2-D only')
            return np.diag(v, k)
        return finish({"t": "diag", "a": t, "k": k}, npd, lambda: e.diag(k) if meth else rso.diag(e, k), h)
    raise AssertionError(op)


# ------------------------------------------------------------------------------------------------- binary operators
def adapt(env, b, ts):
    """turn node b into a node of shape ts (reshape(-1)[:need].reshape(ts)); None if b is too small"""
    need = int(np.prod(ts))
    if b.val.size < need or b.const:
        return None
    r = env.r
    if b.shape == tuple(ts):
        return b
    n = b
    if b.val.size != need:
        if b.val.ndim != 1:
            HIST['reshape'] += 1
            n = finish({"t": "reshape", "a": n.tree, "shape": [-1]}, lambda: b.val.reshape(-1), lambda: b.obj.reshape((-1,)), n.h + 1)
        n0 = n
        if r.random() < 0.5:
            it, jit = slice(None, need, None), [None, need, None]
        else:
            it, jit = slice(-1, -need - 1, -1), [-1, -need - 1, -1]
            HIST['getitem:negstep'] += 1
        HIST['getitem'] += 1
        HIST['getitem:' + ('affine' if isinstance(n0.obj, Affine) else 'vars')] += 1
        n = finish({"t": "getitem", "a": n0.tree, "items": [jit]}, lambda: n0.val[it], lambda: n0.obj[it], n0.h + 1)
    if n.shape != tuple(ts):
        n1 = n
        HIST['reshape'] += 1
        n = finish({"t": "reshape", "a": n1.tree, "shape": [int(d) for d in ts]}, lambda: n1.val.reshape(ts),
                   lambda: n1.obj.reshape(tuple(ts)), n1.h + 1)
    return n


def second_operand(env, a, ts, hmax):
    """a node of shape ts and height <= hmax: adapted random tree, variable block, or constant"""
    r = env.r
    for _ in range(4):
        b0 = tree_of(env, max(0, hmax - 3)) if hmax >= 3 and r.random() < 0.7 else env.leaf()
        if b0 is None:
            continue
        b = adapt(env, b0, ts)
        if b is not None and b.h <= hmax:
            return b
    return env.const_leaf(tuple(ts))


def binary(env, a, hmax, bad=False):
    r = env.r
    op = str(r.choice(['add', 'sub', 'concat', 'concat']))
    shp = a.shape
    if op in ('add', 'sub'):
        ts, lab = bcast_partner(r, shp)
        if r.random() < 0.15:
            ts, lab = (), 'const-up(trailing)'
        b = second_operand(env, a, ts, hmax - 1)
        if bad:
            b = env.leaf()
            lab = 'random'
        if r.random() < 0.5 and not (a.const and b.const):
            a, b = b, a
        if a.const and b.const:
            return None
        HIST[op] += 1
        HIST['bcast2:' + lab.replace('const-up', 'right-up').replace('expr-up', 'left-up')] += 1
        h = max(a.h, b.h) + 1
        if op == 'add':
            return finish({"t": "add", "a": a.tree, "b": b.tree}, lambda: a.val + b.val, lambda: a.obj + b.obj, h)
        return finish({"t": "sub", "a": a.tree, "b": b.tree}, lambda: a.val - b.val, lambda: a.obj - b.obj, h)
    # concat
    k = len(shp)
    nops = int(r.choice([2, 2, 2, 3, 3, 1])) if k > 0 or r.random() < 0.1 else int(r.choice([2, 3]))
    ax = int(r.integers(-k, k)) if k > 0 else 0
    if bad:
        ax = int(r.choice([k, -k - 1]))
    parts = [a]
    for _ in range(nops - 1):
        u = r.random()
        if k == 0 and r.random() < 0.9:
            ts = (int(r.integers(1, 4)),)                     # the 0-d first operand is promoted to [1]
            HIST['concat:0-d operand'] += 1
        elif k == 0 or (u < 0.15 and all(d == 1 for i, d in enumerate(shp) if i != ax % k)):
            ts = ()                                           # 0-d operand: promoted to [1]*ndim by rsome
            HIST['concat:0-d operand'] += 1
        else:
            ts = list(shp)
            ts[ax % k if -k <= ax < k else 0] = int(r.integers(1, 4))
            if bad and r.random() < 0.5:
                ts[int(r.integers(k))] += 1
        if r.random() < 0.25:
            b = env.const_leaf(tuple(ts))
        else:
            b = second_operand(env, a, ts, hmax - 1)
        if r.random() < 0.5:
            parts.append(b)
        else:
            parts.insert(0, b)
    if all(p.const for p in parts):
        return None
    HIST['concat'] += 1
    HIST['concat:%d operands' % len(parts)] += 1
    if ax < 0:
        HIST['concat:negaxis'] += 1
    h = max(p.h for p in parts) + 1

    def npc():
        nd = max(p.val.ndim for p in parts)
        return np.concatenate([p.val.reshape([1] * nd) if p.val.ndim == 0 else p.val for p in parts], axis=ax)
    return finish({"t": "concat", "axis": ax, "es": [p.tree for p in parts]}, npc,
                  lambda: rso.concat([p.obj for p in parts], axis=ax), h)


def tree_of(env, hmax, bad_at_root=False):
    """random tree of height <= hmax (exceptions Reject / Empty / RsomeRaises end the case)"""
    r = env.r
    if hmax == 0 or r.random() < 0.1:
        return env.leaf()
    if r.random() < 0.68:
        n = tree_of(env, hmax - 1)
        return unary(env, n, bad_at_root)
    a = tree_of(env, hmax - 1)
    for _ in range(3):
        m = binary(env, a, hmax, bad_at_root)
        if m is not None:
            return m
    return a


def height(t):
    kids = [t[k] for k in ('a', 'b') if k in t] + list(t.get('es', []))
    return 0 if not kids else 1 + max(height(k) for k in kids)


def export(obj):
    if isinstance(obj, np.ndarray) or np.isscalar(obj):
        return None, np.asarray(obj, dtype=float)
    a = obj.to_affine()
    L = a.linear
    L = np.asarray(L.todense()) if sp.issparse(L) else np.asarray(L)
    return L, np.asarray(a.const, dtype=float)


def main():
    seed, N = int(sys.argv[1]), int(sys.argv[2])
    r = np.random.default_rng(seed)
    cases = []          # (request, expectation)
    outcome = collections.Counter()
    heights = collections.Counter()
    final_shapes = collections.Counter()
    problems = []
    while len(cases) < N:
        env = Env(r)
        bad = r.random() < 0.12
        try:
            n = tree_of(env, int(r.choice([1, 2, 3, 4, 5, 5, 5])), bad_at_root=bad)
            if n.const:
                continue
            L, c = export(n.obj)
            val = (L @ env.xv[:L.shape[1]]).reshape(n.shape) + c
            final_shapes[str(tuple(int(d) for d in n.shape))] += 1
            exp = {"kind": "ok", "shape": [int(d) for d in n.shape], "L": L, "c": c,
                   "value_ok": bool(np.array_equal(val, n.val)) and tuple(np.shape(c)) == tuple(n.shape)}
            tree = n.tree
        except Reject as ex:
            tree = ex.tree
            exp = {"kind": "reject", "why": ex.why, "rs_accepts": ex.rs_accepts}
        except Empty as ex:
            tree = ex.tree
            exp = {"kind": "empty"}
        except RsomeRaises as ex:
            tree = ex.tree
            exp = {"kind": "rsome-raises", "ex": '%s: %s' % (type(ex.ex).__name__, ex.ex)}
        assert height(tree) <= MAXH, height(tree)
        heights[height(tree)] += 1
        cases.append(({"op": "aff_expr", "expr": tree, "ncols": env.ncols}, exp))
    replies = lean_run([c for c, _ in cases])
    mism = 0
    for (req, exp), rep in zip(cases, replies):
        bad = None
        if 'error' in rep and rep['error'] != 'shape':
            bad = 'driver error: ' + rep['error']
        elif exp['kind'] == 'reject':
            outcome['rejected by NumPy, rsome and the model'] += 1
            if exp['rs_accepts']:
                bad = 'rsome accepts what NumPy rejects (%s)' % exp['why']
            elif 'error' not in rep:
                bad = 'model accepts what NumPy / rsome reject (%s)' % exp['why']
        elif exp['kind'] == 'empty':
            outcome['empty result, rejected by the model'] += 1
            if 'error' not in rep:
                bad = 'model accepts an empty array'
        elif exp['kind'] == 'rsome-raises':
            outcome['rsome raises on a NumPy-valid case'] += 1
            bad = 'rsome raises where NumPy accepts: ' + exp['ex']
        else:
            outcome['accepted, compared entry by entry'] += 1
            if 'error' in rep:
                bad = 'model rejects an accepted case'
            else:
                L, c = exp['L'], exp['c']
                if rep['shape'] != exp['shape'] or rep['shape_q'] != exp['shape']:
                    bad = 'shape %s / %s vs %s' % (rep['shape'], rep['shape_q'], exp['shape'])
                elif rep['ncols'] != L.shape[1] or len(rep['linear']) != L.shape[0]:
                    bad = 'linear dimensions'
                elif rep['const'] != [fr(v) for v in c.reshape(-1)]:
                    bad = 'const differs'
                else:
                    for i in range(L.shape[0]):
                        if rep['linear'][i] != [fr(v) for v in L[i]]:
                            bad = 'linear row %d differs' % i
                            break
                if bad is None and not exp['value_ok']:
                    bad = 'rsome value differs from NumPy value'
        if bad:
            mism += 1
            if len(problems) < 8:
                problems.append((bad, json.dumps(req['expr'])[:1500], json.dumps(rep)[:600]))
    print('histogram operators', dict(sorted(HIST.items())))
    print('histogram result ranks', dict(sorted(SHAPES.items())))
    print('histogram shapes of compared results (top 25 of %d)' % len(final_shapes), dict(final_shapes.most_common(25)))
    print('histogram tree heights', dict(sorted(heights.items())))
    print('histogram outcomes', dict(outcome))
    for p in problems:
        print('MISMATCH', *p, sep='\n   ')
    print('cases %d mismatches %d' % (len(cases), mism))
    return 0 if mism == 0 else 1


if __name__ == '__main__':
    sys.exit(main())
