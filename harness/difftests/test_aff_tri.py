"""Exact correspondence test of `tril`, `triu`, `trace`, `diag(k, fill=True)` (RsomeV/M/AffTri.lean) with rsome.

usage: test_aff_tri.py <seed> <N>      (PYTHONPATH must contain the rsome checkout, or RSOME_REPO names it)

A case is a random array expression (generator of test_aff_expr.py: trees over `ro.Model().dvar(...)` blocks,
built through the REAL API), brought to a 2-D shape (square, non-square, 1 x n, n x 1; now and then another rank, to
exercise the rejections), optionally combined with a DENSE or SPARSE (scipy csr/csc/coo matrix, csr array) constant
(`A @ e`, `e @ B`, `e * C`, `C * e`, `e + D`), followed by 1-3 post operations out of

    tril(k)   triu(k)   trace()   diag(k, fill=True)         k in [-3, 3]

called as methods (`Vars` / `VarSub` / `Affine`) or through `rsome.tril / triu / trace / diag`.

Checked per case
  * `linear` / `const` / shape of the result  ==  driver op `aff_tri` (Lean `applyPosts` of the compiled expression),
    entry by entry, exact rationals;
  * rsome raises  <=>  NumPy's oracle rejects (operand not 2-D)  <=>  the model answers {"error":"post","at":t};
  * values: `linear @ x + const` at the point of the generator and at 3 more random integer points equals
    `np.tril / np.triu / np.trace / k-th diagonal kept (np.eye mask, cross-checked with np.diag)` of the operand's value;
  * aliasing: `linear` / `const` of every operand (the original expression and every intermediate result) are
    unchanged after the call.
Prints `cases <n> mismatches <k>`.
"""
import os, sys, json, collections
import warnings
warnings.filterwarnings('ignore')
import numpy as np
import scipy.sparse as sp

sys.path.insert(0, os.path.dirname(os.path.abspath(__file__)))
import test_aff_expr as G
import rsome as rso
from rsome.lp import Affine, Vars, VarSub

HIST = collections.Counter()


class Env2(G.Env):
    """the blocks of the generator plus one block of the target shape"""
    def __init__(self, r, ts):
        super().__init__(r)
        self.main = self.m.dvar(ts)
        self.blocks.insert(int(r.integers(len(self.blocks) + 1)), self.main)
        self.ncols = int(self.main.model.last)
        self.xv = r.integers(-3, 4, self.ncols).astype(float)


def target_shape(r):
    u = r.random()
    if u < 0.35:
        n = int(r.integers(1, 5)); return (n, n), 'square'
    if u < 0.5:
        return (1, int(r.integers(2, 6))), '1xn'
    if u < 0.65:
        return (int(r.integers(2, 6)), 1), 'nx1'
    m, n = int(r.integers(2, 5)), int(r.integers(2, 5))
    if m == n:
        n += 1
    return (m, n), 'wide' if m < n else 'tall'


def main_leaf(env, r):
    v = env.main
    val = env.xv[v.first:v.first + v.size].reshape(v.shape)
    tree = {"t": "var", "first": int(v.first), "shape": [int(d) for d in v.shape]}
    u = r.random()
    if u < 0.4:
        HIST['base:Vars'] += 1
        return G.Node(tree, v, val, 0)
    if u < 0.7:
        HIST['base:Vars.to_affine'] += 1
        return G.Node(tree, v.to_affine(), val, 0)
    HIST['base:VarSub'] += 1
    return G.Node({"t": "getitem", "a": tree, "items": [[None, None, None]]}, v[:], val, 1)


def sparse_mask(r, c):
    return c * (r.random(c.shape) < 0.6)


def as_const(r, c, allow_sparse):
    """the constant as the API sees it: ndarray or a scipy sparse container"""
    if allow_sparse and c.ndim == 2 and r.random() < 0.6:
        kind = str(r.choice(['csr_matrix', 'csc_matrix', 'coo_matrix', 'csr_array', 'lil_matrix']))
        HIST['const:' + kind] += 1
        return getattr(sp, kind)(c)
    HIST['const:dense'] += 1
    return c


def with_const(env, n, r):
    """combine the 2-D node with a constant"""
    m_, n_ = n.shape
    e, v, t, h = n.obj, n.val, n.tree, n.h + 1
    op = str(r.choice(['rmatmulc', 'matmulc', 'mulc', 'rmulc', 'addc']))
    HIST['wrap:' + op] += 1
    if op == 'rmatmulc':
        c = sparse_mask(r, G.dyadic(r, (int(r.integers(1, 5)), m_)))
        cc = as_const(r, c, True)
        return G.finish({"t": op, "a": t, "cshape": list(c.shape), "c": G.jdata(c)}, lambda: c @ v, lambda: cc @ e, h)
    if op == 'matmulc':
        c = sparse_mask(r, G.dyadic(r, (n_, int(r.integers(1, 5)))))
        cc = as_const(r, c, True)
        return G.finish({"t": op, "a": t, "cshape": list(c.shape), "c": G.jdata(c)}, lambda: v @ c, lambda: e @ cc, h)
    if op in ('mulc', 'rmulc'):
        cs = [(m_, n_), (m_, n_), (n_,), (m_, 1), (1, n_)][int(r.integers(5))]
        c = sparse_mask(r, G.dyadic(r, cs))
        cc = as_const(r, c, True)
        tree = {"t": op, "a": t, "cshape": list(c.shape), "c": G.jdata(c)}
        if op == 'mulc':
            return G.finish(tree, lambda: v * c, lambda: e * cc, h)
        return G.finish(tree, lambda: c * v, lambda: cc * e, h)
    cs = [(m_, n_), (n_,), (m_, 1)][int(r.integers(3))]
    c = sparse_mask(r, G.dyadic(r, cs))
    HIST['const:dense'] += 1
    ctree = {"t": "const", "shape": list(c.shape), "data": G.jdata(c)}
    if r.random() < 0.5:
        return G.finish({"t": "add", "a": t, "b": ctree}, lambda: v + c, lambda: e + c, h)
    return G.finish({"t": "sub", "a": ctree, "b": t}, lambda: c - v, lambda: c - e, h)


def base_node(env, ts, r):
    """a node of shape ts (or, rarely, of any shape)"""
    u = r.random()
    if u < 0.06:
        HIST['base:any rank'] += 1
        n = G.tree_of(env, int(r.integers(0, 3)))
        return None if n.const else n
    if u < 0.3:
        n = main_leaf(env, r)
    else:
        n = None
        for _ in range(4):
            try:
                b0 = G.tree_of(env, int(r.choice([1, 2, 3, 3])))
            except (G.Reject, G.Empty, G.RsomeRaises):
                continue
            b = G.adapt(env, b0, ts)
            if b is not None:
                n = b
                HIST['base:tree'] += 1
                break
        if n is None:
            n = main_leaf(env, r)
    if r.random() < 0.45:
        n = with_const(env, n, r)
    return n


def export(obj):
    a = obj.to_affine()
    L = a.linear
    L = np.array(L.todense()) if sp.issparse(L) else np.array(L)
    return L.astype(float), np.array(a.const, dtype=float)


def np_post(p, v):
    """the NumPy oracle of one post operation on a value array"""
    if v.ndim != 2:
        raise ValueError('2-D only')
    f, k = p['f'], p.get('k')
    if f == 'tril':
        return np.tril(v, k)
    if f == 'triu':
        return np.triu(v, k)
    if f == 'trace':
        return np.asarray(np.trace(v))
    out = np.where(np.eye(v.shape[0], v.shape[1], k, dtype=bool), v, 0.0)
    d = np.diag(v, k)
    assert np.array_equal(np.diag(out, k), d) and np.count_nonzero(out) == np.count_nonzero(d)
    return out


def rs_post(p, e, r):
    f, k = p['f'], p.get('k')
    fn = r.random() < 0.4
    HIST['call:' + ('function' if fn else 'method')] += 1
    if f == 'tril':
        if k == 0 and r.random() < 0.5:
            return rso.tril(e) if fn else e.tril()
        return rso.tril(e, k) if fn else e.tril(k)
    if f == 'triu':
        if k == 0 and not fn and r.random() < 0.5:
            return e.triu()
        return rso.triu(e, k) if fn else e.triu(k)
    if f == 'trace':
        return rso.trace(e) if fn else e.trace()
    if r.random() < 0.5:
        return rso.diag(e, k, True) if fn else e.diag(k, True)
    return rso.diag(e, k=k, fill=True) if fn else e.diag(k=k, fill=True)


def rand_posts(r, shape):
    n = int(r.choice([1, 1, 1, 2, 2, 3]))
    ps = []
    for i in range(n):
        f = str(r.choice(['tril', 'triu', 'diagfill', 'trace'] if i == n - 1 or r.random() < 0.08
                         else ['tril', 'triu', 'diagfill']))
        if f == 'trace':
            ps.append({"f": f})
        else:
            k = int(r.integers(-3, 4))
            if len(shape) == 2 and r.random() < 0.5:
                k = int(r.integers(-(shape[0] - 1) - 1, shape[1] + 1))
                k = max(-3, min(3, k))
            ps.append({"f": f, "k": k})
    return ps


def main():
    seed, N = int(sys.argv[1]), int(sys.argv[2])
    r = np.random.default_rng(seed)
    cases = []
    shapes = collections.Counter()
    outcome = collections.Counter()
    ks = collections.Counter()
    problems = []
    while len(cases) < N:
        ts, lab = target_shape(r)
        env = Env2(r, ts)
        try:
            n = base_node(env, ts, r)
        except (G.Reject, G.Empty, G.RsomeRaises):
            continue                      # the expression language itself is the subject of test_aff_expr.py
        if n is None or n.const:
            continue
        posts = rand_posts(r, n.shape)
        pts = [env.xv] + [r.integers(-4, 5, env.ncols).astype(float) for _ in range(3)]
        L0, c0 = export(n.obj)
        if not np.array_equal((L0 @ env.xv).reshape(n.shape) + c0, n.val):
            continue                      # (would be a finding of test_aff_expr.py)
        vals = [(L0 @ x).reshape(n.shape) + c0 for x in pts]
        cur = n.obj
        exp = {"kind": "ok", "notes": []}
        for t, p in enumerate(posts):
            HIST['post:' + p['f']] += 1
            if 'k' in p:
                ks[p['k']] += 1
            before = export(cur)
            try:
                nvals = [np.asarray(np_post(p, v), dtype=float) for v in vals]
            except ValueError:
                try:
                    rs_post(p, cur, r)
                    exp = {"kind": "reject", "at": t, "rs_accepts": True, "notes": exp["notes"]}
                except Exception as ex:
                    exp = {"kind": "reject", "at": t, "rs_accepts": False, "notes": exp["notes"],
                           "ex": type(ex).__name__}
                break
            try:
                new = rs_post(p, cur, r)
            except Exception as ex:
                exp = {"kind": "rsome-raises", "at": t, "ex": '%s: %s' % (type(ex).__name__, ex), "notes": exp["notes"]}
                break
            after = export(cur)
            if not (np.array_equal(before[0], after[0]) and np.array_equal(before[1], after[1])
                    and before[1].shape == after[1].shape):
                exp["notes"].append('operand of post %d (%s) was mutated' % (t, p['f']))
            if not isinstance(new, Affine):
                exp["notes"].append('post %d returns %s' % (t, type(new).__name__))
            cur, vals = new, nvals
        if exp["kind"] == "ok":
            L, c = export(cur)
            L0b, c0b = export(n.obj)
            if not (np.array_equal(L0, L0b) and np.array_equal(c0, c0b)):
                exp["notes"].append('the original expression was mutated')
            if tuple(c.shape) != tuple(vals[0].shape):
                exp["notes"].append('const shape %s, NumPy %s' % (c.shape, vals[0].shape))
            else:
                for x, v in zip(pts, vals):
                    if not np.array_equal((L @ x).reshape(c.shape) + c, v):
                        exp["notes"].append('value differs from NumPy at a point')
                        break
            exp.update({"shape": [int(d) for d in c.shape], "L": L, "c": c})
        shapes[lab if len(n.shape) == 2 and tuple(n.shape) == ts else
               ('2-D other' if len(n.shape) == 2 else 'rank %d' % len(n.shape))] += 1
        cases.append(({"op": "aff_tri", "expr": n.tree, "ncols": env.ncols, "post": posts}, exp))
    replies = G.lean_run([c for c, _ in cases])
    mism = 0
    for (req, exp), rep in zip(cases, replies):
        bad = None
        err = rep.get('error')
        if err is not None and err not in ('post',):
            bad = 'driver error: %s' % err
        elif exp['kind'] == 'reject':
            outcome['rejected (operand not 2-D) by NumPy, rsome and the model'] += 1
            if exp['rs_accepts']:
                bad = 'rsome accepts a non-2-D operand'
            elif exp.get('ex') != 'ValueError':
                bad = 'rsome raises %s instead of ValueError' % exp.get('ex')
            elif err != 'post' or rep.get('at') != exp['at']:
                bad = 'model does not reject at post %d: %s' % (exp['at'], json.dumps(rep)[:200])
        elif exp['kind'] == 'rsome-raises':
            outcome['rsome raises on a NumPy-valid case'] += 1
            bad = 'rsome raises where NumPy accepts: ' + exp['ex']
        else:
            outcome['accepted, compared entry by entry'] += 1
            if err is not None:
                bad = 'model rejects an accepted case: ' + json.dumps(rep)
            else:
                L, c = exp['L'], exp['c']
                if rep['shape'] != exp['shape']:
                    bad = 'shape %s vs %s' % (rep['shape'], exp['shape'])
                elif rep['ncols'] != L.shape[1] or len(rep['linear']) != L.shape[0]:
                    bad = 'linear dimensions'
                elif rep['const'] != [G.fr(v) for v in c.reshape(-1)]:
                    bad = 'const differs'
                else:
                    for i in range(L.shape[0]):
                        if rep['linear'][i] != [G.fr(v) for v in L[i]]:
                            bad = 'linear row %d differs' % i
                            break
        if bad is None and exp['notes']:
            bad = '; '.join(exp['notes'])
        if bad:
            mism += 1
            if len(problems) < 8:
                problems.append((bad, json.dumps(req['post']), json.dumps(req['expr'])[:1200], json.dumps(rep)[:400]))
    print('histogram generator', dict(sorted(HIST.items())))
    print('histogram operand shapes', dict(sorted(shapes.items())))
    print('histogram k', dict(sorted(ks.items())))
    print('histogram outcomes', dict(outcome))
    for p in problems:
        print('MISMATCH', *p, sep='\n   ')
    print('cases %d mismatches %d' % (len(cases), mism))
    return 0 if mism == 0 else 1


if __name__ == '__main__':
    sys.exit(main())
