#!/venv/bin/python
"""Differential test: Lean model `encodeSumAtom` (RsomeV/M/AtomsSum.lean, op "atom_sum_encode") against
the real `gcp.Model.do_math()` (reached through `ro.Model`) for the summed exponential-cone atoms
`rso.exp(e).sum(axis)` / `rso.log(e).sum(axis)`.

usage (from the project dir):
    PYTHONPATH=<rsome checkout> /venv/bin/python test_atoms_sum.py <seed> <N>
prints `cases <n> mismatches <k>` (k must be 0).

Every case builds ONE constraint (or an objective) from random dyadic numbers, lets rsome compile it and
compares the standard form ENTRY BY ENTRY (`nr nc a b eq ub lb c qmat xmat`, exact rationals) with the
Lean model's output.  The Lean request is read off the `CvxConstr` object rsome built
(`multiplier`, `affine_in`, `affine_out`, `params`); independently the same request is computed from the
generator's own numbers and the two descriptions must agree as well (`request check`, this covers the
`Convex` arithmetic `* + - neg sum <= >=` in front of `do_math`).
"""
import sys, os, json, random, subprocess
from fractions import Fraction

HERE = os.path.dirname(os.path.abspath(__file__))
if not os.environ.get('PYTHONPATH'):
    sys.path.insert(0, os.path.join(HERE, 'repo_wt'))
import numpy as np
import rsome as rso
from rsome import ro
from rsome.lp import CvxConstr

LEAN_DIR = os.environ.get('RSOMEV_LEAN_DIR', HERE)


def fr(x):
    return Fraction(float(x))


def fs(x):
    f = fr(x)
    return str(f.numerator) if f.denominator == 1 else f"{f.numerator}/{f.denominator}"


def smat(M):
    return [[fs(v) for v in row] for row in M]


def svec(v):
    return [fs(t) for t in v]


# ------------------------------------------------------------------ numeric affine arrays
class NA:
    """an affine array kept as numbers: `t[..., :C]` coefficients of the C model columns,
    `t[..., C]` the constant; shape = t.shape[:-1]"""

    def __init__(self, t):
        self.t = np.array(t, dtype=float)

    @property
    def shape(self):
        return self.t.shape[:-1]

    def sum(self, axis):
        if axis is None:
            return NA(self.t.reshape(-1, self.t.shape[-1]).sum(axis=0))
        nd = len(self.shape)
        ax = axis + nd if axis < 0 else axis
        return NA(self.t.sum(axis=ax))

    def __add__(self, o):
        return NA(self.t + o.t)         # trailing axis is shared, the rest broadcasts like NumPy

    def __mul__(self, k):
        return NA(self.t * k)

    def __neg__(self):
        return NA(-self.t)

    def rows(self):
        C = self.t.shape[-1] - 1
        flat = self.t.reshape(-1, C + 1)
        return flat[:, :C].tolist(), flat[:, C].tolist(), list(self.shape)


class Gen:
    def __init__(self, rng):
        self.rng = rng

    def dy(self, zero_p=0.3):
        r = self.rng
        if r.random() < zero_p:
            return 0.0
        return r.randint(-8, 8) / r.choice([1, 1, 2, 4])

    def aff(self, xflat, ncols, first, shape, const_p=0.0):
        """random affine array of `shape` over the flattened variables (rsome object, NA)"""
        size = int(np.prod(shape)) if shape != () else 1
        n = xflat.size
        if self.rng.random() < const_p:
            v = np.array([self.dy(0.1) for _ in range(size)])
            t = np.zeros((size, ncols + 1)); t[:, ncols] = v
            if shape == ():
                return float(v[0]), NA(t.reshape(ncols + 1))
            return v.reshape(shape), NA(t.reshape(shape + (ncols + 1,)))
        A = np.array([[self.dy() for _ in range(n)] for _ in range(size)], dtype=float).reshape(size, n)
        b = np.array([self.dy() for _ in range(size)], dtype=float)
        t = np.zeros((size, ncols + 1)); t[:, first:first + n] = A; t[:, ncols] = b
        e = A @ xflat + b
        if shape == ():
            return e[0], NA(t.reshape(ncols + 1))
        return e.reshape(shape), NA(t.reshape(shape + (ncols + 1,)))


def rows_of(expr, ncols):
    """(matrix rows padded to ncols, constants, shape) of an Affine / Vars / numeric array / number"""
    if isinstance(expr, (int, float, np.floating, np.integer)):
        return [[0.0] * ncols], [float(expr)], []
    if isinstance(expr, np.ndarray):
        flat = expr.reshape(expr.size)
        return [[0.0] * ncols for _ in flat], [float(v) for v in flat], list(expr.shape)
    a = expr.to_affine()
    lin = np.array(a.linear.toarray(), dtype=float).reshape(a.size, -1)
    assert lin.shape[1] <= ncols
    M = np.zeros((a.size, ncols))
    M[:, :lin.shape[1]] = lin
    const = np.broadcast_to(np.array(a.const, dtype=float), a.shape).reshape(a.size)
    return M.tolist(), const.tolist(), list(a.shape)


def np_groups(shape, axis):
    size = int(np.prod(shape)) if shape != () else 1
    idx = np.arange(size).reshape(shape)
    if axis is None:
        return [list(range(size))], []
    g = np.moveaxis(idx, axis, -1)
    return [[int(v) for v in row] for row in g.reshape(-1, idx.shape[axis])], list(g.shape[:-1])


def formula_dict(f, drop_last_row=False):
    A = f.linear.toarray()
    b = np.array(f.const, dtype=float)
    s = np.array(f.sense)
    if drop_last_row:
        A, b, s = A[:-1], b[:-1], s[:-1]
    return {
        "nr": A.shape[0], "nc": A.shape[1],
        "a": [[fr(v) for v in row] for row in A],
        "b": [fr(v) for v in b],
        "eq": [int(v) for v in s],
        "ub": [None if np.isinf(v) else fr(v) for v in f.ub],
        "lb": [None if np.isinf(v) else fr(v) for v in f.lb],
        "c": [fr(v) for v in f.obj],
        "qmat": [list(map(int, q)) for q in f.qmat],
        "xmat": [list(map(int, q)) for q in f.xmat],
    }


def parse_reply(r):
    def pr(s):
        return None if s is None else Fraction(s)
    return {
        "nr": r["nr"], "nc": r["nc"],
        "a": [[pr(v) for v in row] for row in r["a"]],
        "b": [pr(v) for v in r["b"]],
        "eq": r["eq"],
        "ub": [pr(v) for v in r["ub"]], "lb": [pr(v) for v in r["lb"]],
        "c": [pr(v) for v in r["c"]],
        "qmat": r["qmat"], "xmat": r["xmat"],
    }


KEYS = ["nr", "nc", "a", "b", "eq", "ub", "lb", "c", "qmat", "xmat"]


def diff(exp, got):
    return [k for k in KEYS if exp[k] != got[k]]


def pow2(rng):
    return rng.choice([0.125, 0.25, 0.5, 1, 1, 1, 2, 4, 8])


def build_case(g, hist):
    """returns (request, expected standard form, description) or None when rsome refuses the syntax"""
    rng = g.rng
    is_log = rng.random() < 0.5
    objective = rng.random() < 0.25
    # ---- shape of e and the axis
    r = rng.random()
    if r < 0.35:
        shp = (rng.randint(1, 4),)
        axis = rng.choice([None, None, 0, -1])
        kind = '1d'
    else:
        shp = (rng.randint(1, 3), rng.randint(1, 3))
        axis = rng.choice([0, 1, None, 0, 1, None, -1, -2])
        kind = '2d'
    if objective:
        # the objective must have one entry
        if kind == '1d':
            axis = rng.choice([None, 0])
        else:
            opts = [None]
            if shp[1] == 1:
                opts.append(0)
            if shp[0] == 1:
                opts.append(1)
            axis = rng.choice(opts)
    size = int(np.prod(shp))
    sum_shape = np.zeros(shp).sum(axis=axis).shape

    m = ro.Model()
    plain = rng.random() < 0.15          # e is the variable array itself (a `Vars` object)
    if plain:
        x = m.dvar(shp)
        n = size
    else:
        n = rng.randint(1, 4)
        x = m.dvar(n) if rng.random() < 0.7 else m.dvar((1, n))
    ncols = n + 1
    xflat = x.to_affine().reshape(n) if not plain else None

    if plain:
        e = x
        t = np.zeros((size, ncols + 1)); t[:, 1:1 + n] = np.eye(n)
        e_na = NA(t.reshape(shp + (ncols + 1,)))
    else:
        e, e_na = g.aff(xflat, ncols, 1, shp)

    # ---- T = c1 * ((c0*f(e) + pre).sum(axis)) + oth
    c0 = pow2(rng) * rng.choice([1, 1, -1])
    c1 = pow2(rng) * rng.choice([1, 1, -1])
    if rng.random() < 0.5:
        c0 = 1
    if rng.random() < 0.3:
        c1 = 1
    f = rso.log(e) if is_log else rso.exp(e)
    inner = f if c0 == 1 and rng.random() < 0.7 else (c0 * f if rng.random() < 0.5 else f * c0)
    zero = NA(np.zeros(shp + (ncols + 1,)))
    pre_na = zero
    if not plain and rng.random() < 0.25:
        psh = rng.choice([shp, shp, (), shp[-1:]])
        pre, pre_na0 = g.aff(xflat, ncols, 1, psh, const_p=0.4)
        inner = inner + pre if rng.random() < 0.5 else pre + inner
        pre_na = zero + pre_na0
        hist['pre_sum_offset'] = hist.get('pre_sum_offset', 0) + 1
    double = False
    if axis is not None and len(shp) == 2 and rng.random() < 0.08:
        S = inner.sum(axis=axis).sum()       # second sum overwrites params: everything is summed
        axis_eff = None
        double = True
        hist['double_sum'] = hist.get('double_sum', 0) + 1
    else:
        S = inner.sum(axis=axis) if (axis is not None or rng.random() < 0.5) else inner.sum()
        axis_eff = axis
    eff_sum_shape = () if double else sum_shape
    S_na = pre_na.sum(axis).sum(None) if double else pre_na.sum(axis)
    S = S if c1 == 1 and rng.random() < 0.7 else (c1 * S if rng.random() < 0.5 else S * c1)
    S_na = S_na * c1
    coef = c0 * c1                            # coefficient of Σ f(e) in T

    # ---- the other side
    if objective:
        osh = rng.choice([(), (), (1,), eff_sum_shape])
    else:
        opts = [eff_sum_shape] * 6 + [()] * 2
        if eff_sum_shape == ():
            opts += [(rng.randint(1, 3),), (1,)]
        elif len(eff_sum_shape) == 1:
            opts += [(rng.randint(1, 2), eff_sum_shape[0]), (1,)]
        osh = rng.choice(opts)
    if plain:
        xf = x.to_affine().reshape(n)
    else:
        xf = xflat
    oth, oth_na = g.aff(xf, ncols, 1, osh, const_p=0.3)
    T_na = S_na + oth_na

    convex_coef_positive = not is_log          # exp needs coef > 0 in `T <= 0`, log needs coef < 0
    desc = {'log': is_log, 'shape': shp, 'axis': axis, 'objective': objective, 'osh': osh}
    try:
        if objective:
            want_min = (coef > 0) == convex_coef_positive
            T = S + oth if rng.random() < 0.6 else oth + S
            if want_min:
                m.min(T)
            else:
                m.max(T)
            hist['obj_min' if want_min else 'obj_max'] = hist.get('obj_min' if want_min else 'obj_max', 0) + 1
            sign = 1 if want_min else -1
            c = (m.rc_model.vars[0] - sign * T >= 0)       # what gcp.Model.do_math itself forms
            x0 = np.zeros(ncols + 1); x0[0] = 1        # vars[0] has shape ()
            norm_na = (T_na * sign) + NA(-x0)
            ncoef = coef * sign
        else:
            m.min(0)
            flip = (coef > 0) != convex_coef_positive       # T itself is concave: state `T >= 0`
            form = rng.randint(0, 5)
            if not flip:
                c = [lambda: S + oth <= 0, lambda: -(S + oth) >= 0, lambda: S <= -oth,
                     lambda: -oth >= S, lambda: -S >= oth, lambda: oth <= -S][form]()
                norm_na, ncoef = T_na, coef
            else:
                c = [lambda: S + oth >= 0, lambda: -(S + oth) <= 0, lambda: S >= -oth,
                     lambda: -oth <= S, lambda: -S <= oth, lambda: oth >= -S][form]()
                norm_na, ncoef = -T_na, -coef
            hist['form_%d%s' % (form, 'f' if flip else '')] = hist.get('form_%d%s' % (form, 'f' if flip else ''), 0) + 1
            m.st(c)
    except (ValueError, TypeError) as ex:
        hist['rsome_refuses_syntax'] = hist.get('rsome_refuses_syntax', 0) + 1
        if os.environ.get('ATOMS_DEBUG'):
            print('refused', desc, repr(ex)[:200])
        return None
    assert isinstance(c, CvxConstr) and c.xtype == ('L' if is_log else 'X') and c.params is not None, (desc, c)
    assert c.params[0] == 'sum'

    # ---- the request, read off the constraint object
    A, b, ish = rows_of(c.affine_in, ncols)
    G, gg, oshape = rows_of(c.affine_out, ncols)
    req = {"op": "atom_sum_encode", "ncols": ncols, "xtype": c.xtype, "mult": fs(c.multiplier),
           "ain": smat(A), "bin": svec(b), "aout": smat(G), "bout": svec(gg), "out_shape": oshape}
    ax = c.params[1]
    if rng.random() < 0.6:
        req["in_shape"] = ish
        req["axis"] = None if ax is None else int(ax)
        hist['req_axis'] = hist.get('req_axis', 0) + 1
    else:
        grp, gshape = np_groups(tuple(ish), ax)
        req["groups"] = grp
        req["sum_shape"] = gshape
        hist['req_groups'] = hist.get('req_groups', 0) + 1

    # ---- the same request from the generator's numbers
    #      normalised constraint: ncoef * Σ f(e) + OUT <= 0, OUT broadcast against the sums
    ok_sign = (ncoef > 0) if not is_log else (ncoef < 0)
    EA, Eb, Eish = e_na.rows()
    out_full = NA(np.zeros(eff_sum_shape + (ncols + 1,))) + norm_na
    OG, Og, Oosh = out_full.rows()
    reqdiff = []
    if not ok_sign:
        reqdiff.append('sign')
    if fr(c.multiplier) != fr(abs(ncoef)):
        reqdiff.append('mult')
    if (smat(A), svec(b), list(ish)) != (smat(EA), svec(Eb), list(Eish)):
        reqdiff.append('ain')
    if (smat(G), svec(gg), list(oshape)) != (smat(OG), svec(Og), list(Oosh)):
        reqdiff.append('aout')
    if ax != axis_eff and not (ax is not None and axis_eff is not None and ax % len(shp) == axis_eff % len(shp)):
        reqdiff.append('axis')

    f_ = m.do_math()
    if not objective:
        Afull = f_.linear.toarray()
        last = Afull[-1]
        assert last[0] == -1 and not last[1:].any() and f_.const[-1] == 0 and f_.sense[-1] == 0
    exp = formula_dict(f_, drop_last_row=not objective)

    hist['L' if is_log else 'X'] = hist.get('L' if is_log else 'X', 0) + 1
    hist[kind] = hist.get(kind, 0) + 1
    hist['axis_%s' % (axis,)] = hist.get('axis_%s' % (axis,), 0) + 1
    if objective:
        hist['objective'] = hist.get('objective', 0) + 1
    if plain:
        hist['e_is_vars'] = hist.get('e_is_vars', 0) + 1
    if tuple(oshape) != tuple(eff_sum_shape):
        hist['out_bcast'] = hist.get('out_bcast', 0) + 1
    if is_log and not objective and ncoef != coef:
        hist['log_neg_scaled'] = hist.get('log_neg_scaled', 0) + 1
    return req, exp, desc, reqdiff


def main():
    seed = int(sys.argv[1]) if len(sys.argv) > 1 else 0
    N = int(sys.argv[2]) if len(sys.argv) > 2 else 200
    rng = random.Random(seed)
    np.random.seed(seed)
    g = Gen(rng)
    hist = {}
    reqs, exps, descs, reqdiffs = [], [], [], []
    tries = 0
    while len(reqs) < N and tries < 50 * N:
        tries += 1
        out = build_case(g, hist)
        if out is None:
            continue
        req, exp, desc, rd = out
        reqs.append(req); exps.append(exp); descs.append(desc); reqdiffs.append(rd)

    inp = "\n".join(json.dumps(r) for r in reqs) + "\n"
    pr = subprocess.run(["lake", "env", "lean", "--run", "Driver.lean"], input=inp, capture_output=True,
                        text=True, cwd=LEAN_DIR)
    lines = [l for l in pr.stdout.splitlines() if l.strip()]
    mism = 0
    if len(lines) != len(reqs):
        print("driver returned", len(lines), "lines for", len(reqs), "requests", pr.stderr[:2000])
        mism = abs(len(lines) - len(reqs))
    req_mism = 0
    for i, (line, exp) in enumerate(zip(lines, exps)):
        r = json.loads(line)
        bad = False
        if "error" in r:
            bad = True
            print("case", i, descs[i], "driver error:", r["error"])
        else:
            d = diff(exp, parse_reply(r))
            if d:
                bad = True
                if mism < 5:
                    print("case", i, descs[i], "differs in", d)
                    print(" request:", json.dumps(reqs[i]))
        if reqdiffs[i]:
            bad = True
            req_mism += 1
            if req_mism <= 5:
                print("case", i, descs[i], "request check differs in", reqdiffs[i])
                print(" request:", json.dumps(reqs[i]))
        if bad:
            mism += 1
    print("histogram", dict(sorted(hist.items())))
    print("request-check mismatches", req_mism)
    print(f"cases {len(lines)} mismatches {mism}")
    return 0 if mism == 0 else 1


if __name__ == "__main__":
    sys.exit(main())
