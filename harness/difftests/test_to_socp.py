#!/venv/bin/python
"""Differential test: Lean model `SocApprox.toSocp` (RsomeV/M/SocApprox.lean) against the real
`rsome.gcp.GCProg.to_socp(degree, cuts)`.

usage (from the project dir):  /venv/bin/python test_to_socp.py <seed> <N>
prints `cases <n> mismatches <k>`.

Programs: (a) formulated by `ro.Model` / `gcp.Model` with exp / log / entropy / softplus / pexp /
kldiv constraints (0-3 exponential cones, at the positions rsome puts them) plus norm / quadratic
constraints so that `qmat` is non-empty; (b) synthetic `GCProg` objects with random rows, bounds,
cones and exponential cones at arbitrary column positions.  Every call of `to_socp` gets a freshly
formulated program (the code extends the source's `qmat` in place); the mutation itself is checked
separately (counted in the histogram as `src_qmat_mutated`).

The model parameter `elo` (the coefficient `np.exp(cut_lower)` of `alpha_0` in row 0 of every
block, the repair of the lower cut) is sent as the exact rational value of the float
`np.exp(cuts[0])`; the driver refuses a request without `elo` (checked: `old_format_rejected`).
Against the unrepaired library (no such entry) every case with an exponential cone mismatches.

Comparison is entry by entry and exact: every float of the result is converted to an exact
fraction.  The only non-dyadic entries are the three literals `20/2**L/24`, `23/24`, `1/24`, for
which the model holds the exact rational and the code its correctly rounded double: there the test
requires `float(model) == code` (and that the model's denominator is a multiple of 3).
"""
import sys, os, json, random, subprocess, copy
from fractions import Fraction
# the library under test: $RSOME_REPO (default /repo)
sys.path.insert(0, os.environ.get('RSOME_REPO', '/repo'))
import numpy as np
import scipy.sparse as sp
import rsome as rso
from rsome import ro, gcp
from rsome.gcp import GCProg

HERE = os.environ.get('RSOMEV_LEAN_DIR', os.path.dirname(os.path.abspath(__file__)))


def fr(x):
    return Fraction(float(x))


def fs(x):
    f = x if isinstance(x, Fraction) else fr(x)
    return str(f.numerator) if f.denominator == 1 else f"{f.numerator}/{f.denominator}"


def dy(rng, zero_p=0.3):
    if rng.random() < zero_p:
        return 0.0
    return rng.randint(-8, 8) / rng.choice([1, 1, 2, 4])


def stored_rows(M):
    M = sp.csr_matrix(M) if not sp.issparse(M) else M.tocsr() if M.format != 'csr' else M
    return [sorted(set(int(c) for c in M.indices[M.indptr[i]:M.indptr[i + 1]])) for i in range(M.shape[0])]


def prog_json(f):
    A = f.linear.toarray()
    return {
        "nr": int(A.shape[0]), "nc": int(A.shape[1]),
        "a": [[fs(v) for v in row] for row in A],
        "b": [fs(v) for v in f.const],
        "eq": [int(v) for v in f.sense],
        "ub": [None if np.isinf(v) else fs(v) for v in f.ub],
        "lb": [None if np.isinf(v) else fs(v) for v in f.lb],
        "c": [fs(v) for v in f.obj],
        "qmat": [list(map(int, q)) for q in f.qmat],
        "xmat": [list(map(int, q)) for q in f.xmat],
        "sp": stored_rows(f.linear),
    }


def prog_expected(g):
    A = g.linear.toarray()
    return {
        "nr": int(A.shape[0]), "nc": int(A.shape[1]),
        "a": [[float(v) for v in row] for row in A],
        "b": [float(v) for v in g.const],
        "eq": [int(v) for v in g.sense],
        "ub": [None if np.isinf(v) else float(v) for v in g.ub],
        "lb": [None if np.isinf(v) else float(v) for v in g.lb],
        "c": [float(v) for v in g.obj],
        "qmat": [list(map(int, q)) for q in g.qmat],
        "xmat": [list(map(int, q)) for q in g.xmat],
        "sp": stored_rows(g.linear),
    }


ROUNDED = [0]


def same_num(code, model):
    """code: float or None, model: 'p/q' string or None"""
    if code is None or model is None:
        return code is None and model is None
    m = Fraction(model)
    if Fraction(code) == m:
        return True
    if m.denominator % 3 == 0 and float(m) == code:
        ROUNDED[0] += 1
        return True
    return False


def diff(exp, got):
    out = []
    for key in ["nr", "nc", "eq", "qmat", "xmat", "sp"]:
        if exp[key] != got[key]:
            out.append(key)
    for key in ["b", "ub", "lb", "c"]:
        if len(exp[key]) != len(got[key]) or not all(same_num(a, b) for a, b in zip(exp[key], got[key])):
            out.append(key)
    if len(exp["a"]) != len(got["a"]):
        out.append("a")
    else:
        for i, (r1, r2) in enumerate(zip(exp["a"], got["a"])):
            if len(r1) != len(r2) or not all(same_num(a, b) for a, b in zip(r1, r2)):
                out.append(f"a[row {i}]")
                break
    return out


# ---------------------------------------------------------------- program generators

def aff(rng, x, size):
    n = x.size
    M = np.array([[dy(rng) for _ in range(n)] for _ in range(size)], dtype=float).reshape(size, n)
    v = np.array([dy(rng) for _ in range(size)], dtype=float)
    return M @ x + v


def model_program(rng, want):
    """a freshly built model whose formula has (about) `want` exponential cones; returns a thunk"""
    kind = rng.choice(['ro', 'ro', 'gcp'])
    n = rng.randint(1, 4)
    plan = []
    cones = 0
    while cones < want:
        left = want - cones
        atom = rng.choice(['exp', 'log', 'entropy', 'softplus', 'pexp', 'kl', 'exp', 'log'])
        if atom == 'entropy':
            sz = rng.randint(1, left)
            cones += sz
        elif atom == 'softplus':
            if left < 2:
                continue
            sz = 1
            cones += 2
        elif atom == 'kl':
            sz = rng.randint(1, left)
            cones += sz
        else:
            sz = 1
            cones += 1
        plan.append((atom, sz, rng.getrandbits(32)))
    nq = rng.randint(0, 2)
    for _ in range(nq):
        plan.append((rng.choice(['norm', 'sumsqr', 'abs', 'norm']), rng.randint(1, 3), rng.getrandbits(32)))
    rng.shuffle(plan)
    with_obj = rng.random() < 0.7
    with_bounds = rng.random() < 0.5
    oseed = rng.getrandbits(32)

    def build():
        m = ro.Model() if kind == 'ro' else gcp.Model()
        x = m.dvar(n)
        r0 = random.Random(oseed)
        if with_obj:
            m.min(np.array([dy(r0, 0.1) for _ in range(n)]) @ x + dy(r0))
        elif kind == 'ro':
            m.min(0)            # ro.Model needs an objective
        if with_bounds:
            m.st(x >= -4)
            m.st(x[0] <= 8)
        for atom, sz, s in plan:
            r = random.Random(s)
            k = r.choice([0.5, 1, 1, 2])
            oth = aff(r, x, 1)[0]
            if atom == 'exp':
                m.st(k * rso.exp(aff(r, x, 1)[0]) + oth <= 0)
            elif atom == 'log':
                m.st(k * rso.log(aff(r, x, 1)[0]) >= oth)
            elif atom == 'entropy':
                m.st(k * rso.entropy(aff(r, x, sz)) >= oth)
            elif atom == 'softplus':
                m.st(k * rso.softplus(aff(r, x, 1)[0]) + oth <= 0)
            elif atom == 'pexp':
                m.st(k * rso.pexp(aff(r, x, 1)[0], aff(r, x, 1)[0]) + oth <= 0)
            elif atom == 'kl':
                phat = np.array([r.choice([0.25, 0.5, 1.0]) for _ in range(sz)])
                m.st(rso.kldiv(aff(r, x, sz), phat, r.randint(0, 4) / 2))
            elif atom == 'norm':
                m.st(k * rso.norm(aff(r, x, sz)) + oth <= 0)
            elif atom == 'sumsqr':
                m.st(rso.sumsqr(aff(r, x, sz)) + oth <= 0)
            elif atom == 'abs':
                m.st(k * abs(aff(r, x, 1)[0]) + oth <= 0)
        f = m.do_math()
        return f
    return build, f"{kind}:{[p[0] for p in plan]}"


def synthetic_program(rng, want):
    nr = rng.randint(0, 4)
    nc = rng.randint(3, 9)
    A = np.array([[dy(rng, 0.5) for _ in range(nc)] for _ in range(nr)], dtype=float).reshape(nr, nc)
    const = np.array([dy(rng) for _ in range(nr)], dtype=float)
    sense = np.array([rng.choice([0, 0, 1]) for _ in range(nr)])
    ub = np.array([rng.choice([np.inf, np.inf, 0.0, 4.0]) for _ in range(nc)])
    lb = np.array([rng.choice([-np.inf, -np.inf, 0.0, -2.0]) for _ in range(nc)])
    obj = np.array([dy(rng) for _ in range(nc)], dtype=float)
    vtype = np.array(['C'] * nc)
    qm = [[rng.randrange(nc) for _ in range(rng.randint(1, 4))] for _ in range(rng.randint(0, 2))]
    # exponential cones at arbitrary (possibly repeated / shared) positions
    xm = [[rng.randrange(nc) for _ in range(3)] for _ in range(want)]

    def build():
        return GCProg(sp.csr_matrix(A), const.copy(), sense.copy(), vtype.copy(), ub.copy(), lb.copy(),
                      [list(q) for q in qm], [list(e) for e in xm], [], obj.copy())
    return build, "synthetic"


CUTS = [(-30, 60), (-30, 60), (-4, 4), (0, 8), (-8, 0), (-2.5, 3.75), (-1, 1), (0, 0), (-16, 16), (2, 5)]


def main():
    seed = int(sys.argv[1]) if len(sys.argv) > 1 else 0
    N = int(sys.argv[2]) if len(sys.argv) > 2 else 60
    rng = random.Random(seed)
    reqs, exps, descs = [], [], []
    hist = {}

    def bump(k, v=1):
        hist[k] = hist.get(k, 0) + v

    tries = 0
    while len(reqs) < N and tries < 50 * N:
        tries += 1
        want = rng.choice([0, 1, 1, 2, 2, 3])
        synth = rng.random() < 0.35
        build, desc = (synthetic_program if synth else model_program)(rng, want)
        L = rng.randint(1, 8)
        cuts = rng.choice(CUTS)
        try:
            f = build()
        except Exception as e:
            bump('build_raises')
            if os.environ.get('SOCP_DEBUG'):
                print('build raised', desc, repr(e)[:200])
            continue
        if not isinstance(f, GCProg):
            # LinProg / SOCProg formulas (no exp cone): `to_socp` does not exist there
            bump('not_gcprog')
            if want == 0 and not synth:
                # lift to a GCProg with no exponential cone (what gcp.Model.do_math builds)
                qm = [list(map(int, q)) for q in getattr(f, 'qmat', [])]
                f0 = f

                def build(f0=f0, qm=qm):
                    return GCProg(f0.linear.copy(), f0.const.copy(), np.array(f0.sense).copy(), f0.vtype.copy(),
                                  f0.ub.copy(), f0.lb.copy(), [list(q) for q in qm], [], [], f0.obj.copy())
                f = build()
            else:
                continue
        if len(f.lmi) > 0:
            continue
        src = prog_json(f)
        nq_before = len(f.qmat)
        g = f.to_socp(L, cuts)
        if len(f.qmat) != nq_before:
            bump('src_qmat_mutated')
        # the result must not depend on the mutation: a second fresh program gives the same answer
        if rng.random() < 0.2:
            f2 = build()
            g2 = f2.to_socp(L, cuts)
            assert prog_expected(g2) == prog_expected(g)
        exp = prog_expected(g)
        # `elo`: the float the code writes for `np.exp(cut_lower)` at (row 0, alpha_0) of every block,
        # passed exactly; the driver rejects a request without it
        elo = Fraction(float(np.exp(cuts[0])))
        req = {"op": "to_socp", "prog": src, "degree": L, "cuts": [fs(cuts[0]), fs(cuts[1])], "elo": fs(elo)}
        reqs.append(req); exps.append(exp); descs.append((desc, L, cuts, len(src["xmat"])))
        bump(f'ncones_{len(src["xmat"])}')
        bump('synthetic' if synth else 'model')
        bump(f'degree_{L}')
        if src["qmat"]:
            bump('qmat_nonempty')
        if 0 in cuts and src["xmat"]:
            bump('explicit_zero_cut')

    # degree 0: rsome raises IndexError, the driver refuses
    build, _ = synthetic_program(rng, 1)
    try:
        build().to_socp(0, (-30, 60))
        deg0 = 'returns'
    except IndexError:
        deg0 = 'IndexError'
    bump('degree0_' + deg0)

    # an old-format request (no "elo") must be rejected by the driver
    old_req = None
    if reqs:
        old_req = {k: v for k, v in reqs[0].items() if k != "elo"}
    inp = "\n".join(json.dumps(r) for r in reqs + ([old_req] if old_req else [])) + "\n"
    pr = subprocess.run(["lake", "env", "lean", "--run", "Driver.lean"], input=inp, capture_output=True,
                        text=True, cwd=HERE)
    lines = [l for l in pr.stdout.splitlines() if l.strip()]
    mism = 0
    if old_req is not None and len(lines) == len(reqs) + 1:
        last = json.loads(lines.pop())
        if "error" in last and "elo" in last["error"]:
            bump('old_format_rejected')
        else:
            mism += 1
            print("old-format request (no elo) was not rejected:", str(last)[:200])
    if len(lines) != len(reqs):
        print("driver returned", len(lines), "lines for", len(reqs), "requests", pr.stderr[:2000])
        mism = abs(len(lines) - len(reqs))
    for i, (line, exp) in enumerate(zip(lines, exps)):
        r = json.loads(line)
        if "error" in r:
            mism += 1
            print("case", i, descs[i], "driver error:", r["error"])
            continue
        d = diff(exp, r)
        if d:
            mism += 1
            if mism <= 5:
                print("case", i, descs[i], "differs in", d)
    if deg0 != 'IndexError':
        mism += 1
        print("degree 0: rsome did not raise")
    print("histogram", dict(sorted(hist.items())), "rounded_literal_entries", ROUNDED[0])
    print(f"cases {len(lines)} mismatches {mism}")
    return 0 if mism == 0 else 1


if __name__ == "__main__":
    sys.exit(main())
