"""Correspondence test: the repaired `RoConstr.le_to_rc` (rsome/lp.py) vs the Lean model `RoRows.leToRcK`
(RsomeV/M/RobustStray.lean, driver op `le_to_rc_k`) on robust models in which a random variable is declared
AFTER sets with auxiliary columns (1-norm / inf-norm pieces, cone members) were formulated: the late variable
takes the column number of an auxiliary column of those sets ("stray" random variable), and `le_to_rc` must
force its coefficients to vanish (block `raffine[:, known:num_rand] == 0`, `known = support.num_rand`).

    /venv/bin/python test_stray_rvar.py <seed> <N>

Builds N random ro models (default set 1-norm / inf-norm / box / mixtures / 2-norm through minmax / maxmin, a
constraint with its own set of fewer or more auxiliary columns in between, then the late random variable(s),
then constraints that multiply them by decisions under the default set, under the earlier own set (re-used)
and under own sets formulated after the late variable), exports every `RoConstr` BEFORE `le_to_rc` is called
on it, calls the real `con.le_to_rc(support)`, calls the Lean op for all cases in one driver run and compares
the two fragments ENTRY BY ENTRY (rows, rhs, senses, bounds, cones, block sizes n1..n5, and the kinds of the
items of the returned list in order - which fixes the position of the stray block relative to the bound
items).  When no stray block arises (also: supports that carry no `num_rand`) the reply must also equal the reply of
the old op `le_to_rc`.  The scenario of the defect report is always appended as one more model.  A list whose
row blocks do not fit its own data (e.g. a missing stray block) and a comparison that breaks down are mismatches.
Prints `cases <n> mismatches <k>`, the number of cases with a non-empty stray block and the branch counts.
"""
import os, sys, json, copy, subprocess, contextlib, warnings
from fractions import Fraction

HERE = os.environ.get('RSOMEV_LEAN_DIR', os.path.dirname(os.path.abspath(__file__)))
REPO = os.environ.get('RSOME_REPO')
if REPO and REPO not in sys.path:
    sys.path.insert(0, REPO)
warnings.filterwarnings('ignore')

import numpy as np                      # noqa: E402
import scipy.sparse as sp               # noqa: E402
import rsome as rso                     # noqa: E402
from rsome import ro                    # noqa: E402
from rsome.lp import RoConstr, LinConstr, Bounds, ConeConstr, ExpConstr   # noqa: E402


# ----------------------------------------------------------------------------- helpers
def fr(v):
    f = v if isinstance(v, Fraction) else Fraction(float(v))
    return str(f.numerator) if f.denominator == 1 else f"{f.numerator}/{f.denominator}"


def optfr(v):
    return None if np.isinf(v) else fr(v)


def unfr(s):
    return None if s is None else Fraction(s)


def dense(m):
    if sp.issparse(m):
        return np.asarray(m.todense())
    return np.asarray(m)


def prog_json(f):
    A = dense(f.linear)
    d = {"nr": int(A.shape[0]), "nc": int(A.shape[1]),
         "a": [[fr(v) for v in row] for row in A],
         "b": [fr(v) for v in np.asarray(f.const).reshape(-1)],
         "eq": [int(s) for s in np.asarray(f.sense).reshape(-1)],
         "ub": [optfr(v) for v in f.ub], "lb": [optfr(v) for v in f.lb],
         "c": [fr(v) for v in np.asarray(f.obj).reshape(-1)]}
    L = sp.csr_matrix(f.linear) if not sp.isspmatrix_csr(f.linear) else f.linear
    d["sp"] = [sorted(set(int(c) for c in L.indices[L.indptr[i]:L.indptr[i + 1]])) for i in range(L.shape[0])]
    d["qmat"] = [[int(i) for i in q] for q in getattr(f, 'qmat', [])]
    d["xmat"] = [[int(i) for i in q] for q in getattr(f, 'xmat', [])]
    return d


@contextlib.contextmanager
def quiet():
    sys.stdout.flush()
    saved = os.dup(1)
    devnull = os.open(os.devnull, os.O_WRONLY)
    try:
        os.dup2(devnull, 1)
        yield
    finally:
        sys.stdout.flush()
        os.dup2(saved, 1)
        os.close(devnull)
        os.close(saved)


def lean_run(cases, timeout=3600):
    if not cases:
        return []
    inp = "\n".join(json.dumps(c, separators=(',', ':')) for c in cases) + "\n"
    p = subprocess.run(['lake', 'env', 'lean', '--run', 'Driver.lean'], cwd=HERE, input=inp,
                       capture_output=True, text=True, timeout=timeout)
    lines = [l for l in p.stdout.splitlines() if l.startswith('{') or l.startswith('[')]
    if len(lines) != len(cases):
        raise RuntimeError(f"driver returned {len(lines)} lines for {len(cases)} cases; rc={p.returncode}; "
                           f"stderr: {p.stderr[:2000]} stdout-tail: {p.stdout[-500:]}")
    return [json.loads(l) for l in lines]


# ----------------------------------------------------------------------------- code side
def fragment_from_code(out, nc):
    """the list returned by le_to_rc as one dense program fragment, the sizes of its LinConstr items in order
    and the kinds of all its items in order"""
    rows = []; b = []; eq = []; sizes = []; kinds = []
    ub = [None] * nc; lb = [None] * nc
    qmat = []; xmat = []
    for c in out:
        if isinstance(c, LinConstr):
            A = dense(c.linear)
            A = np.hstack([A, np.zeros((A.shape[0], nc - A.shape[1]))])
            rows.append(A); b += [fr(v) for v in np.asarray(c.const).reshape(-1)]
            eq += [int(s) for s in np.asarray(c.sense).reshape(-1)]
            sizes.append(A.shape[0]); kinds.append('rows')
        elif isinstance(c, Bounds):
            for i, v in zip(np.asarray(c.indices).reshape(-1), np.asarray(c.values).reshape(-1)):
                if c.btype == 'U':
                    ub[int(i)] = fr(v) if ub[int(i)] is None else fr(min(float(unfr(ub[int(i)])), v))
                else:
                    lb[int(i)] = fr(v) if lb[int(i)] is None else fr(max(float(unfr(lb[int(i)])), v))
            kinds.append('ub' if c.btype == 'U' else 'lb')
        elif isinstance(c, ConeConstr):
            qmat.append([int(c.right_var.first + c.right_index)] + [int(c.left_var.first + i) for i in c.left_index])
            kinds.append('soc')
        elif isinstance(c, ExpConstr):
            cols = []
            for e in (c.expr1, c.expr2, c.expr3):
                a = e.to_affine()
                L = dense(a.linear)
                nzc = np.nonzero(L.reshape(-1))[0]
                assert len(nzc) == 1 and L.reshape(-1)[nzc[0]] == 1 and not np.any(a.const)
                cols.append(int(nzc[0]))
            xmat.append(cols); kinds.append('exp')
        else:
            raise TypeError(type(c).__name__)
    A = np.vstack(rows) if rows else np.zeros((0, nc))
    return {"nr": int(A.shape[0]), "nc": int(nc), "a": [[fr(v) for v in r] for r in A], "b": b, "eq": eq,
            "ub": ub, "lb": lb, "qmat": qmat, "xmat": xmat}, sizes, kinds


def rows_json(con, nd):
    raff = con.raffine
    m_, nz = raff.shape
    Rl = dense(raff.linear)
    Rl = np.hstack([Rl, np.zeros((Rl.shape[0], nd - Rl.shape[1]))]).reshape(m_, nz, nd)
    Rc = np.asarray(raff.const).reshape(m_, nz)
    al = dense(con.affine.linear)
    al = np.hstack([al, np.zeros((al.shape[0], nd - al.shape[1]))]).reshape(m_, nd)
    ac = np.asarray(con.affine.const).reshape(m_)
    return {"nd": int(nd), "m": int(m_), "nz": int(nz),
            "Rl": [[[fr(v) for v in r] for r in blk] for blk in Rl], "Rc": [[fr(v) for v in r] for r in Rc],
            "al": [[fr(v) for v in r] for r in al], "ac": [fr(v) for v in ac]}


SUPKEYS = ('nr', 'nc', 'a', 'b', 'eq', 'ub', 'lb', 'c', 'qmat', 'xmat', 'sp')
FRAGKEYS = ('nr', 'nc', 'a', 'b', 'eq', 'ub', 'lb', 'qmat', 'xmat', 'n1', 'n2', 'n3', 'n4', 'n5', 'items')
OLDKEYS = ('nr', 'nc', 'a', 'b', 'eq', 'ub', 'lb', 'qmat', 'xmat', 'sp', 'n1', 'n2', 'n3', 'n4')
ROWKIND = {'rows1': 'rows', 'rows2': 'rows', 'rows3': 'rows', 'late': 'rows', 'stray': 'rows'}


# ----------------------------------------------------------------------------- generator
def rint(r, lo, hi):
    return int(r.integers(lo, hi + 1))


def pick(r, xs):
    return xs[rint(r, 0, len(xs) - 1)]


def rcoef(r, allow_zero=True):
    """small dyadic coefficients (exact in binary floating point)"""
    vals = [-3, -2, -1.5, -1, -0.5, 0.5, 1, 1.5, 2, 3]
    if allow_zero and r.random() < 0.3:
        return 0.0
    return float(vals[rint(r, 0, len(vals) - 1)])


# number of auxiliary columns of the formulation, for a vector z of n random components
#   box 0 | linf 0 (rows only) | l1 n | l2: cone members | mixtures: sums
KINDS = ['box', 'l1', 'linf', 'l1+box', 'linf+l1', 'l1+l1', 'l2', 'l2+l1', 'l1-part', 'kl']


def make_set(r, kind, z, extra=None):
    """constraints of an uncertainty set over `z` (and, when given, over the late variables `extra`)"""
    rad = float(pick(r, [0.5, 1, 1.5, 2]))
    out = []
    if kind == 'box':
        lo = -float(rint(r, 0, 2)); hi = float(rint(r, 0, 2))     # lb = 0 / ub = 0 / fixed patterns
        out = [z >= lo, z <= hi]
    elif kind == 'l1':
        out = [rso.norm(z, 1) <= rad]
    elif kind == 'linf':
        out = [rso.norm(z, 'inf') <= rad]
    elif kind == 'l1+box':
        out = [rso.norm(z, 1) <= rad, z >= -1, z <= 1]
    elif kind == 'linf+l1':
        out = [rso.norm(z, 'inf') <= 1, rso.norm(z, 1) <= rad]
    elif kind == 'l1+l1':
        out = [rso.norm(z, 1) <= rad, rso.norm(2 * z - 0.5, 1) <= 4]
    elif kind == 'l2':
        out = [rso.norm(z, 2) <= rad]
    elif kind == 'l2+l1':
        out = [rso.norm(z, 2) <= rad, rso.norm(z, 1) <= 1.5 * rad]
    elif kind == 'l1-part':
        out = [rso.norm(z[:1], 1) <= rad, z >= -2, z <= 2]
    elif kind == 'kl':
        out = [rso.kldiv(z * 0.25 + 0.5, 1.0 / z.shape[0], 0.5) if z.shape[0] > 1 else rso.norm(z, 1) <= rad,
               z >= -1, z <= 1]
    else:
        raise ValueError(kind)
    if extra is not None:
        for u in extra:
            mode = rint(r, 0, 3)
            if mode == 0:
                continue                       # known to the set but unrestricted in it
            if mode == 1:
                out += [u >= -1, u <= 1]
            elif mode == 2:
                out += [rso.norm(u, 1) <= 1]
            else:
                out += [rso.norm(u, 'inf') <= 2]
    return out


LATE_MODES = ['zero', 'const', 'dec', 'dec+const', 'mixed', 'mixed', 'dec', 'dec+const', 'dec']


def robust_expr(r, x, z, lates, mrows, late_mode):
    """an `mrows`-vector of uncertain affine expressions
         (A x + a0) + sum_j (B_j x + b_j) z_j + sum_l (C_l x + c_l) u_l"""
    nx = x.shape[0]

    def dec_vec(zero_lin=False, zero_const=False):
        A = np.array([[0.0 if zero_lin else rcoef(r) for _ in range(nx)] for _ in range(mrows)])
        a0 = np.array([0.0 if zero_const else rcoef(r) for _ in range(mrows)])
        return A, a0

    A, a0 = dec_vec()
    e = A @ x + a0
    for j in range(z.shape[0]):
        if j > 0 and r.random() < 0.2:
            continue
        B, b0 = dec_vec(zero_lin=r.random() < 0.4)
        e = e + (B @ x + b0) * z[j]
    for u in lates:
        for l in range(u.shape[0]):
            mode = late_mode
            if mode == 'mixed':
                mode = pick(r, ['zero', 'const', 'dec', 'dec+const', 'explicit0'])
            if mode == 'zero':
                continue
            if mode == 'explicit0':
                e = e + np.zeros(mrows) * u[l]      # the late variable is mentioned with an all-zero coefficient
                continue
            if mode == 'const':
                C, c0 = dec_vec(zero_lin=True)
                if not np.any(c0):
                    c0[rint(r, 0, mrows - 1)] = 2.0
                e = e + c0 * u[l]
            elif mode == 'dec':
                C, c0 = dec_vec(zero_const=True)
                if not np.any(C):
                    C[rint(r, 0, mrows - 1), rint(r, 0, nx - 1)] = 1.0
                e = e + (C @ x) * u[l]
            else:
                C, c0 = dec_vec()
                if not np.any(C):
                    C[rint(r, 0, mrows - 1), rint(r, 0, nx - 1)] = 1.0
                if not np.any(c0):
                    c0[rint(r, 0, mrows - 1)] = -2.0
                e = e + (C @ x + c0) * u[l]
    return e


def with_sense(r, e):
    s = rint(r, 0, 3)
    return (e <= 0) if s <= 1 else ((e >= 0) if s == 2 else (e == 0))


FEW = ['box', 'box', 'linf', 'l1-part', 'box']          # formulations with no / one auxiliary column


def build_case(r):
    """one model; returns (model, description).

    `Model.do_math` of the support model first drops the auxiliary columns of the previous formulation and then
    appends its own, so a random variable declared after the formulations F_1 .. F_k takes the column number
    `nz0 + aux(F_k)`: it is a stray for every earlier F_i with more auxiliary columns than F_k whose support is
    used afterwards (default set; re-used own set)."""
    m = ro.Model()
    nx = rint(r, 1, 3)
    nz0 = rint(r, 1, 3)
    x = m.dvar(nx)
    z = m.rvar(nz0)
    dkind = pick(r, ['l1', 'linf', 'box', 'l1', 'l1', 'l1+box', 'linf+l1', 'l1+l1', 'l2', 'l2+l1', 'l1-part', 'kl', 'l1+l1'])
    default = pick(r, ['minmax', 'minmax', 'maxmin', 'maxmin', 'none'])
    nbetween = pick(r, [0, 1, 1, 1, 1, 2, 2])
    late_mode = pick(r, LATE_MODES)
    nlate = rint(r, 1, 2)
    desc = {"nx": nx, "nz0": nz0, "default": default, "dset": dkind, "late_mode": late_mode, "nlate": nlate}
    # 1. the default set (formulated now: its auxiliary columns start at column nz0)
    if default == 'minmax':
        m.minmax(x.sum(), make_set(r, dkind, z))
    elif default == 'maxmin':
        m.maxmin(x.sum(), make_set(r, dkind, z))
    else:
        m.min(x.sum())
        nbetween = max(nbetween, 1)
    # 2. constraints with their own sets (fewer or more auxiliary columns) in between
    owns = []; bkinds = []
    for b in range(nbetween):
        last = (b == nbetween - 1)
        bkind = pick(r, FEW) if (last and r.random() < 0.8) else pick(r, KINDS)
        bkinds.append(bkind)
        e = robust_expr(r, x, z, [], rint(r, 1, 2), 'zero')
        c = (e <= 0).forall(make_set(r, bkind, z))
        owns.append(c)
        m.st(c)
    desc['between'] = bkinds
    if nbetween == 0 and r.random() < 0.5:
        m.st(with_sense(r, robust_expr(r, x, z, [], rint(r, 1, 2), 'zero')))
    # 3. the late random variables take the column numbers of auxiliary columns of earlier formulations
    lates = [m.rvar(rint(r, 1, 2)) for _ in range(nlate)]
    # 4. later constraints multiply them by decisions
    ncons = rint(r, 1, 3)
    for ci in range(ncons):
        mrows = rint(r, 1, 3)
        e = robust_expr(r, x, z, lates, mrows, late_mode)
        c = with_sense(r, e)
        opts = ['default', 'default', 'default', 'own-new', 'reuse', 'reuse'] if default != 'none' else ['own-new', 'reuse', 'reuse', 'reuse']
        under = pick(r, opts)
        if under == 'reuse' and not owns:
            under = 'default' if default != 'none' else 'own-new'
        if under == 'own-new':
            # own set formulated now: the late variables are known to it (no stray block)
            c = c.forall(make_set(r, pick(r, KINDS), z, extra=lates if r.random() < 0.8 else None))
        elif under == 'reuse':
            # the support of an earlier own set, formulated before the late variables were declared
            c.support = pick(r, owns).support
            if r.random() < 0.15:
                # a support that carries no `num_rand` (`known` defaults to `num_rand`: no stray block)
                c.support = copy.copy(c.support)
                del c.support.num_rand
        m.st(c)
        if ci == 0 and r.random() < 0.3:
            lates = lates + [m.rvar(1)]            # one more late variable (declared after an own-new set as well)
    return m, desc


def build_reproducer():
    """the scenario of the defect report, in its own numbers"""
    m = ro.Model()
    x, y = m.dvar(), m.dvar()
    z = m.rvar(2)
    m.minmax(x, rso.norm(z, 1) <= 1)
    m.st((x >= z[0] - 10).forall(z >= -1, z <= 1))
    w = m.rvar()
    m.st(x >= z.sum() + y*w + y, y >= -5, y <= 5)
    return m, {"reproducer": True}


def collect(m, desc, reqs, meta, counts):
    def cnt(k, n=1):
        counts[k] = counts.get(k, 0) + n

    for ci, con in enumerate(m.all_constr):
        if not isinstance(con, RoConstr):
            continue
        support = con.support if con.support else m.obj_support
        if support is None:
            cnt('skipped:no-support')
            continue
        if getattr(support, 'lmi', None):
            cnt('skipped:lmi')
            continue
        nd = con.dec_model.last
        rj = rows_json(con, nd)           # before the call: le_to_rc zero-pads con.affine.linear in place
        sj = prog_json(support)
        nz = con.raffine.shape[1]
        nrS = support.linear.shape[0]
        num_rand = min(nz, nrS)
        known = getattr(support, 'num_rand', None)
        # the code's own branch conditions, recomputed on the code's own data (to attribute the row blocks)
        if nz > num_rand:
            extra = con.raffine[:, num_rand:]
            present = bool(extra.linear.nnz > 0 or np.any(extra.const))
        else:
            present = False
        kn = num_rand if known is None else int(known)
        if kn < num_rand:
            stray = con.raffine[:, kn:num_rand]
            spresent = bool(stray.linear.nnz > 0 or np.any(stray.const))
            stored_only = spresent and not (np.any(dense(stray.linear)) or np.any(stray.const))
            sdec = bool(np.any(dense(stray.linear)))
        else:
            spresent = False; stored_only = False; sdec = False
        has3 = num_rand != nrS
        with quiet():
            out = con.le_to_rc(support)
        nc = con.dec_model.last
        code, sizes, kinds = fragment_from_code(out, nc)
        exp_n = 2 + int(has3) + int(present) + int(spresent)
        if len(sizes) == exp_n:
            code['n1'] = sizes[0]; code['n2'] = sizes[1]
            code['n3'] = sizes[2] if has3 else 0
            code['n4'] = sizes[2 + int(has3)] if present else 0
            code['n5'] = sizes[-1] if spresent else 0
        else:
            # the list does not have the row blocks its own data call for (e.g. the stray block is missing):
            # a mismatch, reported as such (n1..n5 cannot be attributed)
            code['list-shape'] = {"sizes": sizes, "has3": has3, "late": present, "stray": spresent}
        code['items'] = kinds
        rq = {"op": "le_to_rc_k", "support": {k: sj[k] for k in SUPKEYS}, "rows": rj, "known": known}
        reqs.append(rq)
        meta.append({"desc": desc, "constraint": ci, "code": code, "stored_only": stored_only, "stray": spresent,
                     "old": None})
        if not spresent:
            # no stray block: the reply must equal the reply of the old op
            meta[-1]['old'] = len(reqs)
            reqs.append({"op": "le_to_rc", "support": rq["support"], "rows": rj})
            meta.append(None)
        # ------------------------------------------------------------------ branch counts
        cnt('stray:' + ('present' if spresent else ('absent(known<num_rand, structurally zero)' if kn < num_rand
                                                    else 'absent(known>=num_rand)')))
        if spresent:
            cnt('stray-coef:' + ('dec' if sdec else 'const-only'))
            cnt('stray-width=%d' % (num_rand - kn))
            cnt('stray+late-block' if present else 'stray-only')
            cnt('stray-under:' + ('own-support' if con.support else 'default-support'))
        if stored_only:
            cnt('stray-present-by-stored-zeros-only')
        cnt('late-block:' + ('present' if present else 'absent'))
        cnt('n3>0' if has3 else 'n3=0')
        cnt('known:' + ('none' if known is None else ('<nrS' if kn < nrS else '=nrS' if kn == nrS else '>nrS')))
        if sj['qmat']:
            cnt('soc-support')
        if sj['xmat']:
            cnt('exp-support')
        cnt('rows=%d' % rj['m'])
        cnt('items:' + ','.join(kinds[:kinds.index('soc') if 'soc' in kinds else None][:8]))


def main():
    seed = int(sys.argv[1]) if len(sys.argv) > 1 else 0
    N = int(sys.argv[2]) if len(sys.argv) > 2 else 50
    r = np.random.default_rng(seed)
    reqs, meta, counts, broken = [], [], {}, []
    for k in range(N + 1):
        sub = np.random.default_rng(int(r.integers(0, 2**31 - 1)))
        try:
            with quiet():
                m, desc = build_case(sub) if k < N else build_reproducer()
        except Exception as e:      # generator produced something rsome rejects
            counts['build-error:' + type(e).__name__] = counts.get('build-error:' + type(e).__name__, 0) + 1
            if os.environ.get('STRAY_DEBUG'):
                raise
            continue
        try:
            collect(m, desc, reqs, meta, counts)
        except Exception as e:      # export / le_to_rc / reading its result broke down: a mismatch, not a skipped case
            broken.append((desc, type(e).__name__ + ': ' + str(e)[:300]))
            if os.environ.get('STRAY_DEBUG'):
                raise
    outs = lean_run(reqs)
    mism = 0; cases = 0; nstray = 0; oldcmp = 0
    for i, (rq, mt, out) in enumerate(zip(reqs, meta, outs)):
        if mt is None:
            continue
        cases += 1
        nstray += int(mt['stray'])
        if 'error' in out:
            bad = ['driver-error: ' + str(out['error'])]
        elif 'list-shape' in mt['code']:
            bad = ['list-shape: ' + json.dumps(mt['code']['list-shape']) + ' lean n1..n5 ' +
                   str([out.get(k) for k in ('n1', 'n2', 'n3', 'n4', 'n5')])]
        else:
            lean = dict(out)
            lean['items'] = [ROWKIND.get(k, k) for k in out.get('items', [])]
            bad = [k for k in FRAGKEYS if mt['code'].get(k) != lean.get(k)]
            # the row blocks named by the model, in order, have the sizes of the code's LinConstr items in order
            named = [k for k in out.get('items', []) if k in ROWKIND]
            want = {'rows1': 'n1', 'rows2': 'n2', 'rows3': 'n3', 'late': 'n4', 'stray': 'n5'}
            if [out.get(want[k]) for k in named] != [mt['code'][want[k]] for k in named] or \
                    sum(out.get(k, 0) for k in ('n1', 'n2', 'n3', 'n4', 'n5')) != out.get('nr'):
                bad.append('block-order')
            if ('stray' in out.get('items', [])) != mt['stray']:
                bad.append('stray-presence')
            if mt['old'] is not None:
                oldcmp += 1
                old = outs[mt['old']]
                if 'error' in old:
                    bad.append('old-op-error: ' + str(old['error']))
                else:
                    bad += ['old:' + k for k in OLDKEYS if old.get(k) != out.get(k)]
                    if out.get('n5') != 0:
                        bad.append('old:n5')
        if bad:
            mism += 1
            if mism <= 5:
                print('MISMATCH', json.dumps(mt['desc']), 'constraint', mt['constraint'], 'keys', bad,
                      'stored_only', mt['stored_only'])
                for k in bad:
                    if k in ('n1', 'n2', 'n3', 'n4', 'n5', 'nr', 'nc', 'items'):
                        print('   ', k, 'code', mt['code'].get(k), 'lean', out.get(k))
    for desc, msg in broken:
        cases += 1; mism += 1
        print('MISMATCH (comparison broke down)', json.dumps(desc), msg)
    for k in sorted(counts):
        print('count %-60s %d' % (k, counts[k]))
    print('stray-block cases %d (non-empty stray block); no-stray cases compared with the old op %d' % (nstray, oldcmp))
    print('cases %d mismatches %d' % (cases, mism))
    return 0 if mism == 0 else 1


if __name__ == '__main__':
    sys.exit(main())
