"""Differential test (C16): Lean model `RsomeV.ShowTable.showTable` against the real `formula.show()`
DataFrames of rsome (`LinProg.show`, `SOCProg.show`, `GCProg.show`).

usage (from the lake project directory, rsome on PYTHONPATH):
    PYTHONPATH=<rsome tree> /venv/bin/python test_show.py <seed> <N>
prints `cases <n> mismatches <k>`.

Formulas come from
  * random `ro.Model`s (LP / MILP / SOCP / exponential-cone; `m.do_math()` and `m.do_math(primal=False)`) built with
    atoms: `norm` over slices of different lengths (>= 2 second-order cones of different sizes), `sumsqr`, `square`,
    `rsocone`, `abs`, `norm(·,1)`, `norm(·,inf)`, `exp`, `log`, `entropy`, `softplus`, `kldiv`, `pexp`,
    `plog`, `expcone`; binaries / integers; finite and infinite bounds;
  * `lp.Model` / `socp.Model` front ends (formula classes `LinProg` / `SOCProg`);
  * hand-built `LinProg` / `SOCProg` / `GCProg` objects: explicit stored zeros, unsorted and duplicate CSR indices,
    no linear row at all, cones of sizes 1..5 in one program, unsorted cone tails, and (flagged `distinct = false`)
    cones that mention a column twice.
The DataFrame is exported cell by cell: column labels, row labels, every cell as a token -- a finite float as its exact
rational, `inf` / `-inf` / `nan`, or the Python string -- and compared with the Lean table, exactly.
A case also counts as a mismatch when
  * Lean says `no_raise = false` (the hypotheses under which `show()` does not raise) although `show()` returned, or
  * `no_raise and distinct` hold but Lean's own `readTable` does not give back the program (`read_ok`; this is the theorem
    `show_roundtrip` of RsomeV/Props/C16Show.lean), or
  * a formula produced by rsome's own pipeline is not `distinct`.
"""
import sys
import os
import json
import random
import subprocess
import warnings
from fractions import Fraction

import numpy as np                      # noqa: E402
import scipy.sparse as sp               # noqa: E402
import rsome as rso                     # noqa: E402
from rsome import ro                    # noqa: E402
from rsome import lp as rlp             # noqa: E402
from rsome import socp as rsocp         # noqa: E402
from rsome.lp import LinProg            # noqa: E402
from rsome.socp import SOCProg          # noqa: E402
from rsome.gcp import GCProg            # noqa: E402

warnings.filterwarnings('ignore')
HERE = os.environ.get('RSOMEV_LEAN_DIR', os.path.dirname(os.path.abspath(__file__)))

POOL = [-3.0, -2.5, -1.0, -1e-07, -0.5, 0.5, 1.0, 2.0, 1e-07, 1e+20, -1e+20, 123456789.125,
        0.1, -0.30000000000000004, 7.0, 1e-300, 65536.0, 3.0000000000000004e-05, 3.0, 4.0]


def num(rng, zero=0.25):
    if rng.random() < zero:
        return 0.0
    return rng.choice(POOL)


def small(rng):
    return rng.choice([-2.0, -1.0, -0.5, 0.5, 1.0, 2.0, 3.0, 0.25])


def fr(v):
    f = Fraction(float(v))
    return str(f.numerator) if f.denominator == 1 else f"{f.numerator}/{f.denominator}"


def optfr(v):
    return None if np.isinf(v) else fr(v)


class Unrepresentable(Exception):
    pass


def prog_json(f):
    """the exact-rational wire description of a formula object (same fields as harness `prog_json`)"""
    A = np.asarray(f.linear.todense())
    obj = np.zeros(A.shape[1]) if f.obj is None else np.asarray(f.obj).reshape(-1)
    for arr in (A, np.asarray(f.const), obj):
        if not np.all(np.isfinite(arr)):
            raise Unrepresentable('non-finite coefficient')
    if np.any(np.isnan(f.ub)) or np.any(np.isnan(f.lb)) or np.any(f.ub == -np.inf) or np.any(f.lb == np.inf):
        raise Unrepresentable('bound')
    L = sp.csr_matrix(f.linear)
    return {"nr": int(A.shape[0]), "nc": int(A.shape[1]),
            "a": [[fr(v) for v in row] for row in A],
            "b": [fr(v) for v in np.asarray(f.const).reshape(-1)],
            "eq": [1 if s else 0 for s in np.asarray(f.sense).reshape(-1)],
            "ub": [optfr(v) for v in f.ub], "lb": [optfr(v) for v in f.lb],
            "c": [fr(v) for v in obj],
            "vtype": [str(v) for v in f.vtype],
            "sp": [sorted(set(int(c) for c in L.indices[L.indptr[i]:L.indptr[i + 1]])) for i in range(L.shape[0])],
            "qmat": [[int(i) for i in q] for q in getattr(f, 'qmat', [])],
            "xmat": [[int(i) for i in q] for q in getattr(f, 'xmat', [])],
            "nlmi": len(getattr(f, 'lmi', []) or [])}


def cell(v):
    if isinstance(v, str):
        return ["s", v]
    if isinstance(v, (bool, np.bool_)):
        return ["s", "bool:" + str(v)]
    if isinstance(v, (int, float, np.integer, np.floating)):
        x = float(v)
        if x != x:
            return ["f", "nan"]
        if x == float('inf'):
            return ["f", "inf"]
        if x == float('-inf'):
            return ["f", "-inf"]
        return ["n", fr(Fraction(v) if isinstance(v, int) else x)]
    return ["s", "other:" + type(v).__name__ + ":" + repr(v)]


def table_json(t):
    nr, nc = t.shape
    return {"columns": [c if isinstance(c, str) else "nonstr:" + repr(c) for c in t.columns],
            "index": [c if isinstance(c, str) else "nonstr:" + repr(c) for c in t.index],
            "cells": [[cell(t.iat[i, j]) for j in range(nc)] for i in range(nr)]}


def cls_of(f):
    return {LinProg: 'lp', SOCProg: 'socp', GCProg: 'gcp'}[type(f)]


# ----------------------------------------------------------------------------------------------- generators
def random_model(rng, front):
    """a random model through one of the front ends; returns (model, kind)"""
    m = {'ro': ro.Model, 'lp': rlp.Model, 'socp': rsocp.Model}[front]()
    n = rng.randint(2, 6)
    x = m.dvar(n)
    nb = rng.choice([0, 0, 0, 1, 2])
    ni = rng.choice([0, 0, 0, 1, 2])
    y = m.dvar(nb, 'B') if nb else None
    z = m.dvar(ni, 'I') if ni else None
    kind = 'lp' if nb + ni == 0 else 'milp'

    def lin():
        e = sum(num(rng) * x[j] for j in range(n))
        if y is not None and rng.random() < 0.6:
            e = e + sum(num(rng) * y[j] for j in range(nb))
        if z is not None and rng.random() < 0.6:
            e = e + sum(num(rng) * z[j] for j in range(ni))
        return e + num(rng, 0.5)

    def aff(k):
        A = np.array([[num(rng, 0.4) for _ in range(n)] for _ in range(k)])
        b = np.array([num(rng, 0.5) for _ in range(k)])
        return A @ x + b

    obj = lin()
    if rng.random() < 0.5:
        m.min(obj)
    else:
        m.max(obj)
    for _ in range(rng.randint(0, 4)):
        r = rng.random()
        e = lin()
        if r < 0.35:
            m.st(e <= num(rng))
        elif r < 0.55:
            m.st(e >= num(rng))
        elif r < 0.75:
            m.st(e == num(rng))
        elif r < 0.85:
            m.st(0 * x[rng.randrange(n)] <= num(rng))
        else:
            m.st(x[rng.randrange(n)] - x[rng.randrange(n)] <= num(rng))
    for j in range(n):
        r = rng.random()
        if r < 0.3:
            m.st(x[j] >= num(rng))
        elif r < 0.5:
            m.st(x[j] <= num(rng))
        elif r < 0.6:
            m.st(x[j] >= -1)
            m.st(x[j] <= num(rng, 0) + 2)
    if z is not None and rng.random() < 0.5:
        m.st(z >= -3)
        m.st(z <= 8)
    if front == 'lp':
        return m, kind
    if front == 'ro' and rng.random() < 0.5:
        for _ in range(rng.randint(1, 2)):
            r = rng.random()
            if r < 0.4:
                m.st(abs(aff(rng.randint(1, 2))) <= small(rng) + 3)
            elif r < 0.7:
                m.st(rso.norm(aff(rng.randint(1, 3)), 1) <= lin())
            else:
                m.st(rso.norm(aff(rng.randint(1, 3)), 'inf') <= lin())
    # second-order cones: with probability 1/2 two norms over slices of different lengths
    ncone = rng.choice([0, 1, 2, 2, 3])
    if ncone:
        kind = 'socp' if kind in ('lp', 'socp') else 'misocp'
    sizes = []
    for c in range(ncone):
        r = rng.random()
        if c == 1 and sizes and rng.random() < 0.7:
            k = sizes[0] + rng.randint(1, 2)              # a different size for sure
            m.st(rso.norm(aff(k)) <= lin())
            sizes.append(k)
        elif r < 0.45:
            k = rng.randint(1, 4)
            m.st(rso.norm(aff(k)) <= lin())
            sizes.append(k)
        elif r < 0.6:
            k = rng.randint(1, 3)
            m.st(rso.sumsqr(aff(k)) <= lin())
            sizes.append(k + 1)
        elif r < 0.7:
            m.st(rso.square(x[rng.randrange(n)]) <= lin())
            sizes.append(2)
        elif r < 0.8 and front == 'ro':
            m.st(rso.rsocone(aff(rng.randint(1, 3)), lin(), lin()))
            sizes.append(0)
        else:
            lo = rng.randrange(n - 1)
            hi = rng.randint(lo + 1, n)
            m.st(rso.norm(x[lo:hi]) <= num(rng, 0) + 4)
            sizes.append(hi - lo)
    if front != 'ro':
        return m, kind
    # exponential cones
    for _ in range(rng.choice([0, 0, 1, 1, 2])):
        kind = kind + '+exp' if not kind.endswith('+exp') else kind
        r = rng.random()
        j = rng.randrange(n)
        i = rng.randrange(n)
        if r < 0.2:
            m.st(rso.exp(small(rng) * x[j] + num(rng, 0.5)) <= lin())
        elif r < 0.35:
            m.st(rso.log(x[j] + 3) >= lin())
        elif r < 0.5:
            m.st(rso.entropy(x[:rng.randint(1, n)]) >= num(rng, 0) - 5)
        elif r < 0.6:
            m.st(rso.softplus(aff(1)) <= lin())
        elif r < 0.7:
            k = rng.randint(1, min(n, 3))
            ph = np.ones(k) / k
            m.st(rso.kldiv(x[:k], ph, 0.1 + rng.random()))
        elif r < 0.8:
            m.st(rso.pexp(x[j], 2.0) <= lin())
        elif r < 0.9:
            m.st(rso.plog(x[j], 2.0) >= lin())
        else:
            if i == j:
                i = (j + 1) % n
            m.st(rso.expcone(x[j], x[i], small(rng) if rng.random() < 0.5 else x[(i + 1) % n]))
    return m, kind


def random_direct(rng):
    """a formula object built by hand"""
    nv = rng.randint(1, 9)
    nr = rng.choice([0, 0, 1, 2, 3, 4, 5])
    data, indices, indptr = [], [], [0]
    for _ in range(nr):
        k = rng.choice([0, 0, 1, 2, 3, min(nv, 5)])
        cols = rng.sample(range(nv), min(k, nv))
        if rng.random() < 0.5:
            cols.sort()
        if cols and rng.random() < 0.2:
            cols.append(rng.choice(cols))                  # a duplicate CSR entry: todense() adds them up
        for j in cols:
            data.append(rng.choice([0.0, -0.0, num(rng, 0)]) if rng.random() < 0.4 else num(rng, 0))
            indices.append(j)
        indptr.append(len(data))
    linear = sp.csr_matrix((np.array(data, dtype=float), np.array(indices, dtype=int),
                            np.array(indptr, dtype=int)), shape=(nr, nv))
    const = np.array([rng.choice([0.0, -0.0, num(rng)]) for _ in range(nr)], dtype=float)
    sense = np.array([rng.choice([0, 1]) for _ in range(nr)])
    if rng.random() < 0.3:
        sense = sense.astype(float)
    vtype = np.array([rng.choice('CCCBI') for _ in range(nv)])
    lb = np.array([rng.choice([-np.inf, 0.0, -0.0, num(rng)]) for _ in range(nv)], dtype=float)
    ub = np.array([rng.choice([np.inf, 0.0, 1.0, num(rng)]) for _ in range(nv)], dtype=float)
    obj = np.array([rng.choice([0.0, -0.0, num(rng), num(rng, 0)]) for _ in range(nv)], dtype=float)
    r = rng.random()
    if r < 0.2:
        return LinProg(linear, const, sense, vtype, ub, lb, obj), 'direct-lp', True
    distinct = rng.random() < 0.75
    qmat = []
    for _ in range(rng.choice([0, 1, 2, 2, 3, 4])):
        k = rng.choice([1, 2, 2, 3, 4, 5])
        if distinct:
            q = rng.sample(range(nv), min(k, nv))           # distinct members, any order
            if rng.random() < 0.3 and len(q) > 2:
                q = q + [q[-1]]                             # a repeated *tail* member is still readable
        else:
            q = [rng.randrange(nv) for _ in range(k)]
        qmat.append(q)
    if r < 0.55:
        return SOCProg(linear, const, sense, vtype, ub, lb, qmat, obj), 'direct-socp', distinct
    xmat = []
    if nv >= 3 or not distinct:
        for _ in range(rng.choice([0, 1, 2, 3])):
            xmat.append(rng.sample(range(nv), 3) if distinct else [rng.randrange(nv) for _ in range(3)])
    return GCProg(linear, const, sense, vtype, ub, lb, qmat, xmat, [], obj), 'direct-gcp', distinct


def gen_cases(seed, N):
    rng = random.Random(seed)
    cases = []
    attempts = 0
    while len(cases) < N and attempts < 20 * N:
        attempts += 1
        try:
            r = rng.random()
            if r < 0.35:
                f, kind, _ = random_direct(rng)
                cases.append((kind, f, False))
            else:
                front = 'ro' if r < 0.85 else ('socp' if r < 0.93 else 'lp')
                m, kind = random_model(rng, front)
                kind = front + ':' + kind
                cases.append((kind + '-primal', m.do_math(), True))
                if len(cases) < N:
                    cases.append((kind + '-dual', m.do_math(primal=False), True))
        except Exception as e:        # a generator hiccup (e.g. a rejected expression) is not a case
            sys.stderr.write(f'skip: {type(e).__name__}: {e}\n')
    return cases


def main():
    seed = int(sys.argv[1]) if len(sys.argv) > 1 else 0
    N = int(sys.argv[2]) if len(sys.argv) > 2 else 200
    raw = gen_cases(seed, N)
    cases, reqs, expected = [], [], []
    skipped = 0
    for kind, f, pipeline in raw:
        try:
            p = prog_json(f)
        except Unrepresentable:
            skipped += 1
            continue
        if p['nlmi']:
            skipped += 1
            continue
        t = f.show()
        cases.append((kind, f, pipeline, p))
        expected.append(table_json(t))
        reqs.append({'op': 'show_table', 'prog': p, 'cls': cls_of(f)})
    inp = ''.join(json.dumps(r) + '\n' for r in reqs)
    res = subprocess.run(['lake', 'env', 'lean', '--run', 'Driver.lean'], input=inp, cwd=HERE,
                         capture_output=True, text=True)
    lines = [ln for ln in res.stdout.split('\n') if ln.strip()]
    if res.returncode != 0 or len(lines) != len(cases):
        sys.stderr.write(res.stderr[-2000:] + '\n' + res.stdout[-2000:] + '\n')
        print(f'cases {len(cases)} mismatches {len(cases)}')
        return 1
    mism = 0
    stats = {}
    feat = {'qc': 0, 'two_cone_sizes': 0, 'ec': 0, 'qc_and_ec': 0, 'int_or_bin': 0, 'inf_bound': 0, 'no_lc_row': 0,
            'lp_class': 0, 'socp_class': 0, 'gcp_class': 0, 'not_distinct': 0, 'read_not_ok': 0, 'unsorted_tail': 0,
            'not_no_raise': 0, 'pipeline_not_distinct': 0, 'cells': 0, 'skipped': skipped}
    for (kind, f, pipeline, p), exp, ln in zip(cases, expected, lines):
        stats[kind] = stats.get(kind, 0) + 1
        out = json.loads(ln)
        feat['qc'] += len(p['qmat']) > 0
        feat['two_cone_sizes'] += len(set(len(q) for q in p['qmat'])) >= 2
        feat['ec'] += len(p['xmat']) > 0
        feat['qc_and_ec'] += len(p['xmat']) > 0 and len(p['qmat']) > 0
        feat['int_or_bin'] += any(v != 'C' for v in p['vtype'])
        feat['inf_bound'] += any(v is None for v in p['ub'] + p['lb'])
        feat['no_lc_row'] += p['nr'] == 0
        feat[cls_of(f) + '_class'] += 1
        feat['unsorted_tail'] += any(list(q[1:]) != sorted(q[1:]) for q in p['qmat'])
        feat['cells'] += sum(len(r) for r in exp['cells'])
        ok = all(out.get(k) == exp[k] for k in ('columns', 'index', 'cells'))
        if 'cells' in out:
            if not out.get('no_raise', False):
                feat['not_no_raise'] += 1
                ok = False
            if not out.get('distinct', False):
                feat['not_distinct'] += 1
                if pipeline:
                    feat['pipeline_not_distinct'] += 1
                    ok = False
            elif not out.get('read_ok', False):
                feat['read_not_ok'] += 1
                ok = False
        if not ok:
            mism += 1
            if mism <= 3:
                sys.stderr.write(f'MISMATCH ({kind})\n--- python ---\n{json.dumps(exp)[:3000]}\n--- lean ---\n'
                                 f'{json.dumps(out)[:3000]}\n')
    sys.stderr.write('kinds ' + json.dumps(stats, sort_keys=True) + '\n')
    sys.stderr.write('features ' + json.dumps(feat, sort_keys=True) + '\n')
    print(f'cases {len(cases)} mismatches {mism}')
    return 0 if mism == 0 else 1


if __name__ == '__main__':
    sys.exit(main())
