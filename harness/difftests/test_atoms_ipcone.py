"""Differential test of the Lean model of the standard form of one 'G' / 'T' / 'C' constraint
(driver op "atom_encode", RsomeV/M/IPConeEnc.lean) against the real `do_math()` of rsome.

Run from the project directory:  /venv/bin/python test_atoms_ipcone.py <seed> <N>

Every case: a fresh `rsome.gcp.Model` (what `ro.Model` formulates into), `x = m.dvar(n)`, one constraint
  G:  k*pnorm(A@x+b, degree) + g@x + g0 <= 0         degree = integer p in 2..9 or (a, b), a > b >= 1
  T:  k*power(A@x+b, p, q) + G@x + g0 <= 0           p, q scalars or arrays (mixed p == q entries allowed)
  C:  k*gmean(A@x+b, beta) >= g@x + g0               beta integer weights >= 1 (also a single entry)
with small dyadic data (floats exact).  The fields of the `CvxConstr` object (affine_in, affine_out,
multiplier, params) are sent to the driver; the reply is compared ENTRY BY ENTRY with `f = m.do_math()`:
shape, linear (dense), const, sense, ub, lb, obj, qmat, xmat.
"""
import sys, os, json, subprocess, random
from fractions import Fraction
sys.path.insert(0, os.environ.get('RSOME_REPO', '/repo'))
import numpy as np
import rsome as rso
from rsome.gcp import Model

HERE = os.environ.get('RSOMEV_LEAN_DIR', os.path.join(os.path.dirname(os.path.dirname(os.path.dirname(os.path.abspath(__file__)))), 'lean'))


def fr(v):
    f = Fraction(float(v))
    return str(f.numerator) if f.denominator == 1 else '%d/%d' % (f.numerator, f.denominator)


def dense(a, ncols):
    lin = a.linear
    lin = lin.toarray() if hasattr(lin, 'toarray') else np.asarray(lin)
    out = np.zeros((lin.shape[0], ncols))
    out[:, :lin.shape[1]] = lin
    return out


def dy(rng, zero_ok=True):
    vals = [-2, -1, -0.5, 0.5, 1, 2, 0.25, -1.5, 3]
    if zero_ok:
        vals = vals + [0, 0]
    return rng.choice(vals)


def make_case(rng):
    n = rng.randint(1, 3)
    m = Model()
    x = m.dvar(n)
    ncols = n + 1
    kind = rng.choice('GGTTCC')
    k = rng.choice([1, 2, 0.5, 4, 0.25])
    N = rng.randint(1, 3)
    A = np.array([[dy(rng) for _ in range(n)] for _ in range(N)], dtype=float)
    b = np.array([dy(rng) for _ in range(N)], dtype=float)
    g = np.array([dy(rng) for _ in range(n)], dtype=float)
    g0 = float(dy(rng))
    expr = A @ x + b
    if kind == 'G':
        if rng.random() < 0.5:
            degree = rng.randint(2, 9)
            pj = degree
        else:
            bb = rng.randint(1, 5)
            aa = bb + rng.randint(1, 6)
            degree = (aa, bb)
            pj = [aa, bb]
        c = (k * rso.pnorm(expr, degree) + g @ x + g0 <= 0)
    elif kind == 'T':
        if rng.random() < 0.4:
            q = rng.randint(1, 4)
            p = q + rng.randint(1, 5)
        else:
            q = [rng.randint(1, 4) for _ in range(N)]
            p = [qq + rng.randint(0, 4) for qq in q]
            if all(pp == qq for pp, qq in zip(p, q)):
                p[0] += 1
        Gm = np.array([[dy(rng) for _ in range(n)] for _ in range(N)], dtype=float)
        gv = np.array([dy(rng) for _ in range(N)], dtype=float)
        c = (k * rso.power(expr, p, q) + Gm @ x + gv <= 0)
        pa, qa = c.params
        bd = np.broadcast(np.arange(N), pa, qa)
        trip = [(int(i), int(pp), int(qq)) for (i, pp, qq) in bd]
        pj = {'idx': [t[0] for t in trip], 'p': [t[1] for t in trip], 'q': [t[2] for t in trip]}
    else:
        beta = [rng.randint(1, 4) for _ in range(N)]
        c = (k * rso.gmean(expr, beta) >= g @ x + g0)
        pj = [int(v) for v in c.params]
    assert c.xtype == kind, (c.xtype, kind)
    ain = dense(c.affine_in, ncols)
    aout = dense(c.affine_out, ncols)
    bin_ = np.asarray(c.affine_in.const, dtype=float).reshape(-1)
    bout = np.asarray(c.affine_out.const, dtype=float).reshape(-1)
    assert ain.shape[0] == bin_.size and aout.shape[0] == bout.size
    req = {'op': 'atom_encode', 'xtype': kind, 'ncols': ncols, 'mult': fr(c.multiplier),
           'ain': [[fr(v) for v in row] for row in ain], 'bin': [fr(v) for v in bin_],
           'aout': [[fr(v) for v in row] for row in aout], 'bout': [fr(v) for v in bout],
           'params': pj}
    m.st(c)
    f = m.do_math()
    return kind, req, f


def compare(lean, f):
    """list of differences between the driver's reply and the real program"""
    if 'error' in lean:
        return ['driver error: ' + lean['error']]
    diffs = []
    lin = f.linear.toarray()
    nr, nc = lin.shape
    if (lean['nr'], lean['nc']) != (nr, nc):
        return ['shape lean %s real %s' % ((lean['nr'], lean['nc']), (nr, nc))]
    for i in range(nr):
        for j in range(nc):
            if Fraction(lean['a'][i][j]) != Fraction(float(lin[i, j])):
                diffs.append('a[%d][%d] lean %s real %s' % (i, j, lean['a'][i][j], lin[i, j]))
        if Fraction(lean['b'][i]) != Fraction(float(f.const[i])):
            diffs.append('b[%d] lean %s real %s' % (i, lean['b'][i], f.const[i]))
        if int(lean['eq'][i]) != int(f.sense[i]):
            diffs.append('sense[%d]' % i)
    for j in range(nc):
        ub = None if np.isinf(f.ub[j]) else Fraction(float(f.ub[j]))
        lb = None if np.isinf(f.lb[j]) else Fraction(float(f.lb[j]))
        lub = None if lean['ub'][j] is None else Fraction(lean['ub'][j])
        llb = None if lean['lb'][j] is None else Fraction(lean['lb'][j])
        if ub != lub:
            diffs.append('ub[%d] lean %s real %s' % (j, lub, ub))
        if lb != llb:
            diffs.append('lb[%d] lean %s real %s' % (j, llb, lb))
        if Fraction(lean['c'][j]) != Fraction(float(f.obj[j])):
            diffs.append('obj[%d]' % j)
    rq = [[int(v) for v in q] for q in f.qmat]
    if lean['qmat'] != rq:
        diffs.append('qmat lean %s real %s' % (lean['qmat'], rq))
    rx = [[int(v) for v in q] for q in f.xmat]
    if lean['xmat'] != rx:
        diffs.append('xmat')
    if any(t != 'C' for t in f.vtype) or len(f.vtype) != nc:
        diffs.append('vtype')
    return diffs


def main():
    seed = int(sys.argv[1]) if len(sys.argv) > 1 else 0
    N = int(sys.argv[2]) if len(sys.argv) > 2 else 200
    rng = random.Random(seed)
    cases = [make_case(rng) for _ in range(N)]
    reqs = '\n'.join(json.dumps(c[1]) for c in cases) + '\n'
    out = subprocess.run(['lake', 'env', 'lean', '--run', 'Driver.lean'], input=reqs, cwd=HERE,
                         capture_output=True, text=True, check=True).stdout.strip().split('\n')
    assert len(out) == len(cases), (len(out), len(cases))
    mism = 0
    hist = {}
    for (kind, req, f), line in zip(cases, out):
        d = compare(json.loads(line), f)
        hist[kind] = hist.get(kind, 0) + 1
        if d:
            mism += 1
            if mism <= 5:
                print('MISMATCH', kind, json.dumps(req))
                for s in d[:8]:
                    print('   ', s)
    print('kinds', hist, 'cones', sum(len(c[2].qmat) for c in cases))
    print('cases %d mismatches %d' % (len(cases), mism))
    return 0 if mism == 0 else 1


if __name__ == '__main__':
    sys.exit(main())
