"""Differential test of the Lean model of `IPCone.to_soc` against the real rsome code.

Run from the project directory:  /venv/bin/python test_ipcone.py [maxdeg=12] [maxlen=4]

For every weight vector beta (entries >= 1) with sum(beta) <= maxdeg and len(beta) <= maxlen the real
`IPCone(x, r, beta).to_soc()` is run on a fresh model; the column indices of the returned constraint
objects are mapped to the Lean naming ("x", "r<i>", "a<k>": k-th variable created by the tower,
column = model.last-before-to_soc + k) and compared with the driver op "ipcone":
pad flag, |.|<= rows, cone triples in list order, number of created variables, aux/non-aux flag of each,
and the weight vectors of all (recursive) `split` calls in call order.
"""
import sys, os, json, subprocess, itertools
sys.path.insert(0, os.environ.get('RSOME_REPO', '/repo'))
import numpy as np
from rsome.lp import IPCone
from rsome.gcp import Model

HERE = os.environ.get('RSOMEV_LEAN_DIR', os.path.join(os.path.dirname(os.path.dirname(os.path.dirname(os.path.abspath(__file__)))), 'lean'))


def dense(a, ncol):
    lin = a.linear
    lin = lin.toarray() if hasattr(lin, 'toarray') else np.asarray(lin)
    out = np.zeros((lin.shape[0], ncol))
    out[:, :lin.shape[1]] = lin
    return out


def real_case(beta):
    m = Model()
    x = m.dvar()
    r = m.dvar(len(beta))
    base = m.last
    xcol = x.first
    rcol = {r.first + i: i for i in range(len(beta))}
    calls = []
    orig = IPCone.split

    def traced(self):
        calls.append([int(b) for b in self.beta])
        return orig(self)
    IPCone.split = traced
    try:
        constrs = IPCone(x, r, list(beta)).to_soc()
    finally:
        IPCone.split = orig
    ncol = m.last

    def name(col):
        if col == xcol:
            return 'x'
        if col in rcol:
            return 'r%d' % rcol[col]
        assert col >= base, col
        return 'a%d' % (col - base)

    def single(row):
        nz = np.nonzero(row)[0]
        assert len(nz) == 1, row
        return int(nz[0]), row[nz[0]]

    absrows, cones = [], []
    for c in constrs:
        ain, aout = dense(c.affine_in, ncol), dense(c.affine_out, ncol)
        assert np.all(np.asarray(c.affine_in.const) == 0) and np.all(np.asarray(c.affine_out.const) == 0)
        assert c.multiplier == 1
        if c.xtype == 'A':
            assert not cones, 'abs row after a cone'
            (ci, vi), (co, vo) = single(ain[0]), single(aout[0])
            assert vi == 1 and vo == -1
            absrows.append([name(ci), name(co)])
        elif c.xtype == 'E':
            assert ain.shape[0] == 2 and aout.shape[0] == 1
            cl, vl = single(ain[1])
            assert vl == 1
            pos = np.nonzero(ain[0] == 0.5)[0]
            neg = np.nonzero(ain[0] == -0.5)[0]
            assert len(pos) == 1 and len(neg) == 1 and np.count_nonzero(ain[0]) == 2
            u, v = int(pos[0]), int(neg[0])
            exp_out = np.zeros(ncol)
            exp_out[u] -= 0.5
            exp_out[v] -= 0.5
            assert np.all(aout[0] == exp_out)
            cones.append([name(cl), name(u), name(v)])
        else:
            raise AssertionError(c.xtype)
    naux = ncol - base
    flag = [None] * naux
    for v in m.auxs:
        for k in range(v.size):
            flag[v.first + k - base] = 1
    for v in m.vars:
        for k in range(v.size):
            if v.first + k >= base:
                flag[v.first + k - base] = 0
    assert None not in flag
    return {'ok': True, 'pad': any(a[0] == 'x' and a[1].startswith('a') for a in absrows),
            'abs': absrows, 'cones': cones, 'naux': naux, 'auxflag': flag, 'calls': calls}


def compositions(maxdeg, maxlen):
    for n in range(1, maxlen + 1):
        for beta in itertools.product(range(1, maxdeg + 1), repeat=n):
            if sum(beta) <= maxdeg:
                yield list(beta)


def main():
    maxdeg = int(sys.argv[1]) if len(sys.argv) > 1 else 12
    maxlen = int(sys.argv[2]) if len(sys.argv) > 2 else 4
    betas = list(compositions(maxdeg, maxlen))
    reqs = '\n'.join(json.dumps({'op': 'ipcone', 'beta': b}) for b in betas) + '\n'
    out = subprocess.run(['lake', 'env', 'lean', '--run', 'Driver.lean'], input=reqs, cwd=HERE,
                         capture_output=True, text=True, check=True).stdout.strip().split('\n')
    assert len(out) == len(betas), (len(out), len(betas))
    mism = 0
    stats = {'pad': 0, 'nonaux': 0, 'cones': 0, 'single': 0}
    for b, line in zip(betas, out):
        lean = json.loads(line)
        real = real_case(b)
        if lean != real:
            mism += 1
            if mism <= 10:
                print('MISMATCH beta', b, '\n  lean', lean, '\n  real', real)
        stats['pad'] += int(real['pad'])
        stats['nonaux'] += real['auxflag'].count(0)
        stats['cones'] += len(real['cones'])
        stats['single'] += int(len(b) == 1)
    print('stats', stats)
    print('cases %d mismatches %d' % (len(betas), mism))
    return 0 if mism == 0 else 1


if __name__ == '__main__':
    sys.exit(main())
