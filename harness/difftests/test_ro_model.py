"""Correspondence test: the real `ro.Model.do_math()` vs the Lean model `roModel` (op "ro_model").

usage: test_ro_model.py <seed> <N>

Random ro models are built through the public API (static decisions of several vtypes, scalar / vector LDRs with
random dependency masks, 1-3 robust constraints incl. vector-valued ones with <=, >=, ==, per-constraint `forall`
sets and the default set of `minmax`/`maxmin`, plain / affine-uncertain / piecewise (`maxof`, `minof`) objectives,
deterministic rows and bounds in between, random variables declared before / after the set, sets made of bounds,
linear (in)equalities, 1-/2-/inf-norms, sums of squares and exponential-cone pieces).

For every model the request is exported from the model's OWN objects (`m.all_constr`, each `RoConstr`'s
`raffine / affine / support`, `m.obj`, `m.sign`, `m.obj_support`, `m.rc_model.vars / last`) BEFORE `do_math()` is
called, in two variants:
  (A) from `m.all_constr` (what `ro.Model.st` stored: robust equalities already split),
  (B) from the constraints as they were handed to `ro.Model.st` (robust equalities as one `robeq` item: the Lean
      model performs the split),
and both replies are compared ENTRY BY ENTRY with `m.do_math()`: nr nc a b eq ub lb c vtype qmat xmat.
Where `do_math()` raises (`support undefined`, `Nonconvex constraints`) the Lean op must answer the same error.

Prints the branch histogram and `cases <n> mismatches <k>`."""
import os, sys, json, subprocess, warnings, contextlib
from fractions import Fraction
from collections.abc import Iterable

HERE = os.path.dirname(os.path.abspath(__file__))
LEAN_DIR = os.environ.get('RSOMEV_LEAN_DIR', HERE)
REPO = os.environ.get('RSOME_REPO', os.path.join(HERE, 'repo_wt'))
if not os.path.isdir(os.path.join(REPO, 'rsome')):
    REPO = '/repo'
sys.path.insert(0, REPO)
warnings.filterwarnings('ignore')

import numpy as np                      # noqa: E402
import scipy.sparse as sp               # noqa: E402
import rsome as rso                     # noqa: E402
from rsome import ro                    # noqa: E402
from rsome.lp import (LinConstr, Bounds, RoConstr, RoAffine, Affine, Vars, VarSub, PiecewiseConvex,     # noqa: E402
                      DecRule, DecRuleSub)
from numbers import Real                # noqa: E402


# ----------------------------------------------------------------------------- exact export helpers
def fr(v):
    f = v if isinstance(v, Fraction) else Fraction(float(v))
    return str(f.numerator) if f.denominator == 1 else f"{f.numerator}/{f.denominator}"


def optfr(v):
    return None if np.isinf(v) else fr(v)


def dense(m):
    return np.asarray(m.todense()) if sp.issparse(m) else np.asarray(m)


def prog_json(f):
    A = dense(f.linear)
    d = {"nr": int(A.shape[0]), "nc": int(A.shape[1]),
         "a": [[fr(v) for v in row] for row in A],
         "b": [fr(v) for v in np.asarray(f.const).reshape(-1)],
         "eq": [int(s) for s in np.asarray(f.sense).reshape(-1)],
         "ub": [optfr(v) for v in f.ub], "lb": [optfr(v) for v in f.lb],
         "c": [fr(v) for v in np.asarray(f.obj).reshape(-1)],
         "vtype": [str(v) for v in f.vtype]}
    d["qmat"] = [[int(i) for i in q] for q in getattr(f, 'qmat', [])]
    d["xmat"] = [[int(i) for i in q] for q in getattr(f, 'xmat', [])]
    d["nlmi"] = len(getattr(f, 'lmi', []) or [])
    return d


def pad(A, nd):
    A = dense(A)
    assert A.shape[1] <= nd, (A.shape, nd)
    return np.hstack([A, np.zeros((A.shape[0], nd - A.shape[1]))])


def rows_json(raffine, affine, nd):
    """a bi-affine block (`RoAffine.raffine`, `RoAffine.affine`) over `nd` decision columns"""
    m_, nz = raffine.shape
    Rl = pad(raffine.linear, nd).reshape(m_, nz, nd)
    Rc = np.asarray(raffine.const).reshape(m_, nz)
    al = pad(affine.linear, nd).reshape(m_, nd)
    ac = np.asarray(affine.const).reshape(m_)
    return {"nd": int(nd), "m": int(m_), "nz": int(nz),
            "Rl": [[[fr(v) for v in r] for r in blk] for blk in Rl], "Rc": [[fr(v) for v in r] for r in Rc],
            "al": [[fr(v) for v in r] for r in al], "ac": [fr(v) for v in ac]}


@contextlib.contextmanager
def quiet():
    sys.stdout.flush()
    saved = os.dup(1)
    devnull = os.open(os.devnull, os.O_WRONLY)
    try:
        os.dup2(devnull, 1)
        yield
    finally:
        sys.stdout.flush()
        os.dup2(saved, 1)
        os.close(devnull)
        os.close(saved)


def lean_run(cases, timeout=3600):
    if not cases:
        return []
    inp = "\n".join(json.dumps(c, separators=(',', ':')) for c in cases) + "\n"
    p = subprocess.run(['lake', 'env', 'lean', '--run', 'Driver.lean'], cwd=LEAN_DIR, input=inp,
                       capture_output=True, text=True, timeout=timeout)
    lines = [l for l in p.stdout.splitlines() if l.startswith('{') or l.startswith('[')]
    if len(lines) != len(cases):
        raise RuntimeError(f"driver returned {len(lines)} lines for {len(cases)} cases; rc={p.returncode}; "
                           f"stderr: {p.stderr[:2000]} stdout-tail: {p.stdout[-500:]}")
    return [json.loads(l) for l in lines]


# ----------------------------------------------------------------------------- export of a model
class Supports:
    """the distinct support programs of one model (by identity)"""

    def __init__(self):
        self.ids = {}
        self.progs = []

    def ref(self, s):
        if s is None:
            return None
        if id(s) not in self.ids:
            if getattr(s, 'lmi', None):
                raise NotImplementedError('LMI support')
            self.ids[id(s)] = len(self.progs)
            self.progs.append(prog_json(s))
        return self.ids[id(s)]


def item_json(con, nd, sups, user_level):
    if isinstance(con, LinConstr):
        A = pad(con.linear, nd)
        return {"k": "det", "nr": int(A.shape[0]), "a": [[fr(v) for v in r] for r in A],
                "b": [fr(v) for v in np.asarray(con.const).reshape(-1)],
                "eq": [int(s) for s in np.asarray(con.sense).reshape(-1)]}
    if isinstance(con, Bounds):
        idx = np.asarray(con.indices).reshape(-1)
        vals = np.asarray(con.values, dtype=float).reshape(-1)
        assert len(idx) == len(vals)
        # well-formedness assumed by the Lean theorem (`C01Model.WF`): decision columns only, repeated indices agree
        assert all(0 <= int(i) < nd for i in idx)
        seen = {}
        for i, v in zip(idx, vals):
            assert seen.setdefault(int(i), float(v)) == float(v)
        return {"k": "bnd", "upper": 1 if con.btype == 'U' else 0, "idx": [int(i) for i in idx],
                "vals": [fr(v) for v in vals]}
    if isinstance(con, RoConstr):
        sense = con.sense[0] if isinstance(con.sense, np.ndarray) else con.sense
        return {"k": "robeq" if sense != 0 else "rob", "rows": rows_json(con.raffine, con.affine, nd),
                "support": sups.ref(con.support)}
    raise NotImplementedError(type(con).__name__)


def piece_json(p, nd):
    if isinstance(p, (DecRule, DecRuleSub)):
        raise NotImplementedError('bare decision rule as a piece')
    if isinstance(p, RoAffine):
        assert p.affine.size == 1
        return {"k": "ro", "rows": rows_json(p.raffine, p.affine, nd)}
    if isinstance(p, (Vars, VarSub, Affine)):
        a = p.to_affine()
        assert a.size == 1
        return {"k": "aff", "c": [fr(v) for v in pad(a.linear, nd).reshape(-1)], "c0": fr(np.asarray(a.const).reshape(-1)[0])}
    if isinstance(p, (Real, np.ndarray)):
        v = np.asarray(p, dtype=float).reshape(-1)
        assert v.size == 1
        return {"k": "aff", "c": [fr(0)] * nd, "c0": fr(v[0])}
    raise NotImplementedError(type(p).__name__)


def obj_json(m, nd):
    o = m.obj
    if isinstance(o, PiecewiseConvex):
        return {"k": "piecewise", "sign": fr(m.sign), "pwsign": fr(o.sign), "pieces": [piece_json(p, nd) for p in o.pieces]}
    if isinstance(o, RoAffine):
        assert o.affine.size == 1
        return {"k": "roaffine", "sign": fr(m.sign), "rows": rows_json(o.raffine, o.affine, nd)}
    if isinstance(o, (Vars, VarSub, Affine)):
        a = o.to_affine()
        return {"k": "affine", "sign": fr(m.sign), "c": [fr(v) for v in pad(a.linear, nd).reshape(-1)],
                "c0": fr(np.asarray(a.const).reshape(-1)[0])}
    if isinstance(o, Real):
        return {"k": "affine", "sign": fr(m.sign), "c": [fr(0)] * nd, "c0": fr(o)}
    raise NotImplementedError(type(o).__name__)


def flat_user(args, out):
    for c in args:
        if isinstance(c, Iterable):
            flat_user(list(c), out)
        else:
            out.append(c)


def export(m, user_cons):
    """the two requests of one model; nothing here allocates variables or touches `le_to_rc`"""
    nd = int(m.rc_model.last)
    assert nd == m.rc_model.vars[-1].first + m.rc_model.vars[-1].size
    reqs = []
    for user_level in (False, True):
        sups = Supports()
        cons = user_cons if user_level else m.all_constr
        items = [item_json(c, nd, sups, user_level) for c in cons]
        obj = obj_json(m, nd)
        dflt = sups.ref(m.obj_support)
        reqs.append({"op": "ro_model", "nd": nd, "vars": [[str(v.vtype), int(v.size)] for v in m.rc_model.vars],
                     "supports": sups.progs, "default": dflt, "items": items, "obj": obj})
    return reqs


KEYS = ('nr', 'nc', 'a', 'b', 'eq', 'ub', 'lb', 'c', 'vtype', 'qmat', 'xmat')


# ----------------------------------------------------------------------------- generator
def rint(r, lo, hi, size=None):
    return r.integers(lo, hi + 1, size=size).astype(float)


def gen_set(r, nz, allow_exp=True):
    lo = rint(r, -3, 0, nz)
    hi = lo + rint(r, 1, 4, nz)
    for j in range(nz):
        u = r.random()
        if u < 0.15:
            lo[j] = 0.0; hi[j] = float(rint(r, 1, 3))
        elif u < 0.3:
            hi[j] = 0.0; lo[j] = -float(rint(r, 1, 3))
        elif u < 0.36:
            hi[j] = lo[j] = float(r.choice([-1.0, 0.0, 2.0]))
        elif u < 0.42:
            lo[j] = -np.inf                      # no lower bound on this component
        elif u < 0.48:
            hi[j] = np.inf
    mid = np.where(np.isfinite(lo + hi), (lo + hi) / 2, 0.0)
    S = {'lo': lo.tolist(), 'hi': hi.tolist(), 'ineq': [], 'eq': [], 'norm': None, 'quad': None, 'exp': None,
         'split_bounds': bool(r.random() < 0.2)}
    if r.random() < 0.5:
        a = rint(r, -2, 2, nz)
        if np.any(a):
            S['ineq'].append([a.tolist(), float(a @ mid + 1)])
    if r.random() < 0.3 and nz > 1:
        a = rint(r, -2, 2, nz)
        if np.any(a):
            S['eq'].append([a.tolist(), float(a @ mid)])
    u = r.random()
    if u < 0.2:
        S['norm'] = [1, float(r.choice([1.0, 2.0, 0.5])), mid.tolist(), float(r.choice([3.0, 1.0, 2.0]))]
    elif u < 0.45:
        S['norm'] = [2, float(r.choice([1.0, 0.5, 2.0])), mid.tolist(), float(r.choice([1.5, 1.0, 2.0]))]
    elif u < 0.6:
        S['norm'] = ['inf', float(r.choice([1.0, 2.0])), mid.tolist(), float(r.choice([2.0, 1.0]))]
    elif u < 0.7:
        S['quad'] = [mid.tolist(), float(r.choice([1.0, 4.0, 2.25]))]
    if allow_exp and r.random() < 0.12:
        a = rint(r, -1, 1, nz)
        S['exp'] = [str(r.choice(['exp', 'entropy', 'kl'])), a.tolist(), float(r.choice([3.0, 5.0]))]
    return S


def rs_set(z, S, r):
    lo, hi = np.array(S['lo']), np.array(S['hi'])
    cs = []
    if S['split_bounds']:
        # bounds given component by component (several `Bounds` objects on the support model)
        for j in range(len(lo)):
            if np.isfinite(lo[j]):
                cs.append(z[j] >= lo[j])
            if np.isfinite(hi[j]):
                cs.append(z[j] <= hi[j])
    else:
        if np.all(np.isfinite(lo)):
            cs.append(z >= lo)
        else:
            cs += [z[j] >= lo[j] for j in range(len(lo)) if np.isfinite(lo[j])]
        if np.all(np.isfinite(hi)):
            cs.append(z <= hi)
        else:
            cs += [z[j] <= hi[j] for j in range(len(hi)) if np.isfinite(hi[j])]
    for a, b in S['ineq']:
        cs.append(np.array(a) @ z <= b)
    for a, b in S['eq']:
        cs.append(np.array(a) @ z == b)
    if S['norm']:
        p, mlt, c, rho = S['norm']
        p = np.inf if p == 'inf' else p
        e = mlt * (z - np.array(c))
        cs.append(rso.norm(e, p) <= rho if r.random() < 0.5 else e.norm(p) <= rho)
    if S.get('quad'):
        c, rho = S['quad']
        cs.append(rso.sumsqr(z - np.array(c)) <= rho)
    if S.get('exp'):
        kind, a, rho = S['exp']
        a = np.array(a)
        if kind == 'exp':
            cs.append(rso.exp(a @ z) <= rho)
        elif kind == 'entropy':
            cs.append(rso.entropy(z + 4.0) >= -rho)
        else:
            cs.append(rso.exp(z[0]) + (a @ z) <= rho)
    return cs


class StLog:
    """records what is handed to `ro.Model.st` (flattened, in order)"""

    def __init__(self, m):
        self.m = m
        self.user = []

    def st(self, *args):
        flat_user(args, self.user)
        return self.m.st(*args)


def gen_build(r, H):
    """one random model through the public API; returns (model, user-level constraint list, tags)"""
    tags = []
    m = ro.Model()
    L = StLog(m)
    nd = int(r.integers(1, 4))
    vt = 'C'
    u = r.random()
    if u < 0.1:
        vt = 'B'
    elif u < 0.2:
        vt = 'I'
    elif u < 0.27 and nd > 1:
        vt = ''.join(r.choice(list('CBI'), size=nd))
    x = m.dvar(nd, vtype=vt)
    if vt != 'C':
        tags.append('vtype:non-continuous')
    w = None
    if r.random() < 0.25:
        w = m.dvar((2, 2))
        tags.append('dvar:second-array')
    if r.random() < 0.15:
        m.rvar(2)
        tags.append('rvar:extra-before')
    nz = int(r.integers(1, 4))
    z = m.rvar(nz)
    # decision rules
    y = None; yv = None
    if r.random() < 0.55:
        y = m.ldr()
        mask = r.random(nz) < 0.6
        for j in range(nz):
            if mask[j]:
                y.adapt(z[j])
        tags.append('ldr:scalar:adaptive' if mask.any() else 'ldr:scalar:static')
    if r.random() < 0.25:
        yv = m.ldr(2)
        mk = r.random((2, nz)) < 0.5
        for i in range(2):
            for j in range(nz):
                if mk[i, j]:
                    yv[i].adapt(z[j])
        tags.append('ldr:vector:adaptive' if mk.any() else 'ldr:vector:static')

    def det_stuff(p):
        """deterministic rows and bounds in between"""
        if r.random() < p:
            k = r.random()
            if k < 0.3:
                L.st(rint(r, -2, 2, nd) @ x <= float(rint(r, 1, 6)))
                tags.append('det:row<=')
            elif k < 0.45:
                L.st(rint(r, -2, 2, (2, nd)) @ x == rint(r, -2, 2, 2))
                tags.append('det:rows==')
            elif k < 0.6:
                L.st(x >= -float(rint(r, 1, 6)))
                tags.append('det:bound-lower')
            elif k < 0.75:
                L.st(x <= rint(r, 1, 6, nd))
                tags.append('det:bound-upper-vector')
            elif k < 0.85 and nd > 1:
                L.st(x[1:] <= float(rint(r, 0, 3)), x[0] >= 0)
                tags.append('det:bound-sub')
            elif k < 0.93 and w is not None:
                L.st(w.sum() + x[0] <= 3, w >= 0)
                tags.append('det:second-array')
            elif y is not None and not any(t == 'ldr:scalar:adaptive' for t in tags) and r.random() < 0.5:
                L.st(y <= 4)            # a static rule is an affine expression: a deterministic row
                tags.append('det:static-ldr-row')
            else:
                L.st([x <= 9, x >= -9])
                tags.append('det:bound-list')

    default_ok = r.random() < 0.85          # the objective will define a default set
    ncons = int(r.integers(1, 4))
    vec = r.random() < 0.35
    for c in range(ncons):
        det_stuff(0.5)
        rows = int(r.integers(2, 4)) if (vec and c == 0) else 1
        R = rint(r, -2, 2, (rows, nz, nd)); r0 = rint(r, -2, 2, (rows, nz))
        a = rint(r, -2, 2, (rows, nd)); a0 = rint(r, -8, -1, rows)
        if rows == 1:
            expr = (R[0] @ x + r0[0]) @ z + a[0] @ x + a0[0]
            if y is not None and r.random() < 0.7:
                expr = expr + float(r.choice([-2.0, -1.0, 1.0, 2.0])) * y
                tags.append('rob:uses-ldr')
            if yv is not None and r.random() < 0.5:
                expr = expr + rint(r, -1, 1, 2) @ yv
                tags.append('rob:uses-vector-ldr')
            if w is not None and r.random() < 0.3:
                expr = expr + w[0, 1] * z[0]
        else:
            Mx = r0
            for dd in range(nd):
                Mx = x[dd] * R[:, :, dd] + Mx
            expr = Mx @ z + a @ x + a0
            if yv is not None and rows == 2 and r.random() < 0.6:
                expr = expr + yv
                tags.append('rob:vector+vector-ldr')
            tags.append('rob:vector-valued')
        sense = str(r.choice(['le', 'ge', 'eq'], p=[0.5, 0.25, 0.25]))
        if sense == 'le':
            con = (expr <= 0)
        elif sense == 'ge':
            con = (-expr >= 0) if r.random() < 0.5 else (expr >= float(rint(r, -3, 0)))
        else:
            con = (expr == 0)
        tags.append('rob:sense:' + sense)
        own = (r.random() < 0.4) or not default_ok
        if own:
            con = con.forall(rs_set(z, gen_set(r, nz), r))
            tags.append('rob:own-set')
        else:
            tags.append('rob:default-set')
        L.st(con)
    det_stuff(0.8)
    # the objective
    kind = str(r.choice(['plain', 'affine', 'affine', 'pw', 'pw']))
    mx = bool(r.random() < 0.4)
    c0 = rint(r, -2, 2, nd) @ x + float(rint(r, -2, 2))
    e0 = c0 + rint(r, -1, 1, nz) @ z
    if y is not None and r.random() < 0.5:
        e0 = e0 + y
    S0 = rs_set(z, gen_set(r, nz), r)
    if kind == 'plain':
        u = r.random()
        if u < 0.1:
            o = float(rint(r, -2, 2)); tags.append('obj:plain:constant')
        elif u < 0.2:
            o = x[0]; tags.append('obj:plain:varsub')
        elif u < 0.3 and nd == 1:
            o = x; tags.append('obj:plain:vars')
        else:
            o = c0; tags.append('obj:plain:affine')
        if default_ok:
            (m.maxmin if mx else m.minmax)(o, S0)
            tags.append('obj:plain:with-default-set')
        else:
            (m.max if mx else m.min)(o)
            tags.append('obj:plain:min/max')
    elif kind == 'affine':
        (m.maxmin if mx else m.minmax)(e0, S0)
        tags.append('obj:roaffine:' + ('maxmin' if mx else 'minmax'))
    else:
        e1 = rint(r, -2, 2, nd) @ x + rint(r, -1, 1, nz) @ z
        pieces = [e0, e1]
        if r.random() < 0.35:
            pieces.append(rint(r, -2, 2, nd) @ x + 1.0)       # a deterministic piece
            tags.append('obj:pw:deterministic-piece')
        if r.random() < 0.15:
            pieces.append(float(rint(r, -3, 3)))               # a constant piece
            tags.append('obj:pw:constant-piece')
        wrong = r.random() < 0.06
        f = (rso.minof if (mx != wrong) else rso.maxof)(*pieces)
        if r.random() < 0.6:
            f = float(r.choice([1.0, 2.0, 0.5])) * f
        if r.random() < 0.5:
            f = f + (rint(r, -2, 2, nd) @ x + rint(r, -1, 1, nz) @ z)
            tags.append('obj:pw:plus-roaffine')
        elif r.random() < 0.3:
            f = f + rint(r, -2, 2, nd) @ x
            tags.append('obj:pw:plus-affine')
        (m.maxmin if mx else m.minmax)(f, S0)
        tags.append('obj:pw:' + ('maxmin' if mx else 'minmax') + (':nonconvex' if wrong else ''))
    if not default_ok and kind != 'plain':
        tags.append('default-set-from-objective-only')
    # a random variable declared after the sets were formulated
    if r.random() < 0.1:
        u_ = m.rvar()
        g = rint(r, -1, 1, nd)
        con = ((rint(r, -2, 2, (nz, nd)) @ x + rint(r, -2, 2, nz)) @ z + rint(r, -2, 2, nd) @ x - 3.0 + (g @ x) * u_ <= 0)
        if r.random() < 0.3 or (not default_ok and kind == 'plain'):
            con = con.forall(rs_set(z, gen_set(r, nz), r))
        L.st(con)
        tags.append('rvar:late' + (':zero-coefficient' if not np.any(g) else ''))
    # a robust constraint without any set: do_math raises
    if kind == 'plain' and not default_ok and r.random() < 0.3:
        L.st((rint(r, -2, 2, nd) @ x) * z[0] <= 2)
        tags.append('rob:no-set-at-all')
    det_stuff(0.3)
    return m, L.user, tags


# ----------------------------------------------------------------------------- main
def main():
    seed = int(sys.argv[1]) if len(sys.argv) > 1 else 1
    N = int(sys.argv[2]) if len(sys.argv) > 2 else 50
    rng = np.random.default_rng(seed)
    H = {}

    def count(t, k=1):
        H[t] = H.get(t, 0) + k

    reqs = []; meta = []
    for k in range(N):
        sub = int(rng.integers(2 ** 31))
        r = np.random.default_rng(sub)
        try:
            with quiet():
                m, user, tags = gen_build(r, H)
        except Exception as e:             # the generator asked the API for something it rejects
            count('gen-error:' + type(e).__name__ + ':' + str(e)[:60])
            continue
        try:
            rq = export(m, user)
        except NotImplementedError as e:
            count('export-skip:' + str(e))
            continue
        # the real thing, after the export
        try:
            with quiet():
                f = m.do_math()
            code = prog_json(f)
            if code['nlmi']:
                count('skip:lmi'); continue
        except RuntimeError as e:
            code = {"error": "support undefined"} if 'support of random variables is undefined' in str(e) else {"error": "RuntimeError: " + str(e)}
        except ValueError as e:
            code = {"error": "nonconvex"} if 'Nonconvex' in str(e) else {"error": "ValueError: " + str(e)}
        for t in set(tags):
            count(t)
        count('supports:%d' % len(rq[0]['supports']))
        for variant, q in zip('AB', rq):
            reqs.append(q)
            meta.append({"seed": sub, "variant": variant, "code": code, "tags": tags})
    if os.environ.get('RO_MODEL_SELFTEST'):
        # self-test of the comparison: reverse the item order of every request; (almost) every case must then differ
        for q in reqs:
            q['items'] = q['items'][::-1]
    outs = lean_run(reqs)
    cases = 0; mism = 0
    for q, mt, out in zip(reqs, meta, outs):
        cases += 1
        code = mt['code']
        if 'error' in code or 'error' in out:
            ok = code.get('error') == out.get('error')
            count('outcome:error:' + str(code.get('error', 'none'))[:40])
            diff = None if ok else {"code": code.get('error'), "model": out.get('error')}
        else:
            missing = [k for k in KEYS if k not in code or k not in out]
            d = missing + [k for k in KEYS if k not in missing and code[k] != out[k]]
            ok = not d
            diff = None if ok else {k: {"code": code.get(k), "model": out.get(k)} for k in d[:3]}
            count('outcome:program')
            for b in out.get('branches', []):
                count('lean:' + b)
            if out.get('xmat'):
                count('program:exp-cones')
            if out.get('qmat'):
                count('program:soc-cones')
            count('program:' + ('robust-blocks>=3' if sum(1 for i in q['items'] if i['k'] in ('rob', 'robeq')) >= 3 else 'robust-blocks<3'))
        if not ok:
            mism += 1
            if mism <= 5:
                sys.stderr.write("MISMATCH seed=%d variant=%s tags=%s\n  %s\n" % (mt['seed'], mt['variant'], mt['tags'],
                                                                           json.dumps(diff)[:1500]))
    print('histogram ' + json.dumps(dict(sorted(H.items()))))
    print('cases %d mismatches %d' % (cases, mism))


if __name__ == '__main__':
    main()
