"""Exact correspondence test of `RsomeV/M/Assign.lean` (driver op `assign_call`) with rsome:
bi-affine expressions / decision rules evaluated at assigned realisations.

usage: test_assign_call.py <seed> <N>      (PYTHONPATH must contain the rsome checkout, or RSOME_REPO names it)

ro part (N models): random rvar blocks (rank 0..3), random bi-affine expression trees over fresh dvar blocks (products
`dec * rand`, `dec @ rand`, `rand @ dec`, re-mixing by constant matrices, sums, slices, transposes, reshapes, scalings) with
optional decision rules (random adaptation masks), decision rules and their slices on their own.  A synthetic solution is
planted (no solver).  Every object is called with several random argument lists: whole variables, slices (ints, negative
steps, fancy indices with repeats, pairs of fancy lists, `np.ix_`, boolean masks, `...`, `None`), several slices of one
variable (disjoint partitions in random order, overlapping - later wins), whole-then-slice, slice-then-whole, arguments for
only some variables, arguments for a random variable declared AFTER the expression was built, values that broadcast
(numbers, 0-d arrays, rows, columns, leading 1-axes).
dro part (N models): 1..4 scenarios (integer or string labels), static / event-wise / z-adaptive decisions, `DecRoAffine`
expressions and `DecVar` / `DecVarSub` / `DecAffine` objects, the same arguments with random `sw=True` flags.

For every call three things are compared EXACTLY (all data are small dyadic numbers, so float arithmetic is exact):
  (1) the real `__call__` output, entry by entry, with `roCall` / `droCall` / `decCall` of the Lean model, fed with the dense
      coefficient table read off the real expression object (`raffine.linear/const`, `affine.linear/const` at the planted
      solution; dro: through `rule_var()`), and with positions / values computed HERE (`first + arange(size).reshape(shape)[idx]`,
      `np.broadcast_to`), not taken from `RandVal`;
  (2) the real output with a NumPy re-computation of the expression tree at the realisation obtained by NumPy's own
      `Z[idx] = values` assignments in argument order;
  (3) `RandVal.index` / `RandVal.values` with the positions / values of (1); Lean's `rvec` with the NumPy realisation; the
      Series / non-Series form of dro results with `droSeries` / `decSeries`.
Known defects of the real code are probed in separate families (D1, D2, D3, see the final report lines); they are compared
against the intended semantics and are NOT counted in `mismatches` unless STRICT=1.
"""
import os, sys, json, subprocess, collections
from fractions import Fraction

HERE = os.environ.get('RSOMEV_LEAN_DIR', os.path.dirname(os.path.abspath(__file__)))
if os.environ.get('RSOME_REPO'):
    sys.path.insert(0, os.environ['RSOME_REPO'])
import warnings
warnings.filterwarnings('ignore')
import numpy as np
import pandas as pd
import rsome as rso
from rsome import ro, dro
from rsome.lp import Affine, RoAffine, DecRule, DecRuleSub, RandVal, Solution, DecRoAffine, DecAffine

STRICT = os.environ.get('STRICT') == '1'
HIST = collections.Counter()
MISMATCHES = []
DEFECTS = collections.Counter()


def fr(v):
    f = Fraction(float(v))
    return str(f.numerator) if f.denominator == 1 else '%d/%d' % (f.numerator, f.denominator)


def frl(a):
    return [fr(v) for v in np.asarray(a, dtype=float).reshape(-1)]


def lean_run(cases, timeout=3600):
    if not cases:
        return []
    inp = '\n'.join(json.dumps(c, separators=(',', ':')) for c in cases) + '\n'
    p = subprocess.run(['lake', 'env', 'lean', '--run', 'Driver.lean'], cwd=HERE, input=inp, capture_output=True,
                       text=True, timeout=timeout)
    lines = [l for l in p.stdout.splitlines() if l.startswith('{')]
    if len(lines) != len(cases):
        raise RuntimeError('driver returned %d lines for %d cases; rc=%s; stderr: %s' %
                           (len(lines), len(cases), p.returncode, p.stderr[:2000]))
    return [json.loads(l) for l in lines]


def set_solution(m, vec, objval=0.0):
    sol = Solution('synthetic', float(objval), np.asarray(vec, dtype=float), 0, 0.0)
    if hasattr(m, 'ro_model'):            # dro
        m.ro_model.rc_model.solution = sol; m.ro_model.solution = sol; m.solution = sol
    else:
        m.rc_model.solution = sol; m.solution = sol
    return sol


def dyad(r, shape=()):
    v = r.integers(-3, 4, shape).astype(float)
    if r.random() < 0.3:
        v = v / 2.0
    return v


def dyad_nz(r):
    return float(r.choice([-2.0, -1.0, -0.5, 0.5, 1.0, 2.0, 3.0]))


def prod(sh):
    return int(np.prod(sh, dtype=int)) if len(sh) else 1


# ---------------------------------------------------------------------------------------------------------------------
# random indices
# ---------------------------------------------------------------------------------------------------------------------

def axis_index(r, n, allow_fancy=True):
    u = r.random()
    if u < 0.25:
        return int(r.integers(-n, n))
    if u < 0.7 or not allow_fancy:
        step = [None, 1, 2, -1, -2, -3][int(r.integers(6))]
        start = None if r.random() < 0.4 else int(r.integers(-n - 1, n + 2))
        stop = None if r.random() < 0.4 else int(r.integers(-n - 1, n + 2))
        return slice(start, stop, step)
    k = int(r.integers(1, 4))
    return [int(v) for v in r.integers(-n, n, k)]          # repeats allowed


def rand_index(r, shape):
    """a random NumPy index of a non-0-d array of shape `shape` with a non-empty result; returns (index, kind)"""
    ia = np.arange(prod(shape)).reshape(shape)
    for _ in range(200):
        nd = len(shape)
        u = r.random()
        kind = 'basic'
        if nd == 1:
            idx = axis_index(r, shape[0])
            if u < 0.1:
                idx = r.random(shape) < 0.6; kind = 'bool'
            elif u < 0.17:
                idx = (None, axis_index(r, shape[0], allow_fancy=False)); kind = 'newaxis'
        else:
            if u < 0.45:
                idx = tuple(axis_index(r, n, allow_fancy=False) for n in shape[:int(r.integers(1, nd + 1))])
            elif u < 0.6:
                k = int(r.integers(1, 4))
                idx = tuple([int(v) for v in r.integers(-n, n, k)] for n in shape[:2]); kind = 'fancy-pair'
            elif u < 0.7:
                idx = np.ix_(*[[int(v) for v in r.integers(-n, n, int(r.integers(1, 3)))] for n in shape[:2]]); kind = 'ix_'
            elif u < 0.78:
                idx = r.random(shape) < 0.5; kind = 'bool'
            elif u < 0.88:
                idx = (Ellipsis, axis_index(r, shape[-1])); kind = 'ellipsis'
            else:
                idx = tuple(axis_index(r, n) if i == int(u * 1000) % nd else axis_index(r, n, allow_fancy=False)
                            for i, n in enumerate(shape)); kind = 'mixed'
        try:
            sel = ia[idx]
        except Exception:
            continue
        if np.size(sel) == 0:
            continue
        if kind == 'basic':
            flat = idx if isinstance(idx, tuple) else (idx,)
            if any(isinstance(c, list) for c in flat):
                kind = 'fancy'
            elif any(isinstance(c, slice) and c.step is not None and c.step < 0 for c in flat):
                kind = 'negstep'
        if len(np.unique(sel)) < np.size(sel):
            kind += '+repeat'
        return idx, kind
    return slice(None), 'basic'


def rand_values(r, ss):
    """values that broadcast against the shape `ss`; returns (values, kind)"""
    ss = tuple(int(v) for v in ss)
    opts = ['full', 'full', 'number', 'zerod']
    if len(ss) >= 2:
        opts += ['row', 'column']
    if len(ss) >= 1:
        opts += ['lead1', 'one']
    k = opts[int(r.integers(len(opts)))]
    if k == 'full':
        return dyad(r, ss), k
    if k == 'number':
        return float(dyad(r)), k
    if k == 'zerod':
        return np.array(float(dyad(r))), k
    if k == 'row':
        return dyad(r, ss[-1:]), k
    if k == 'column':
        return dyad(r, ss[:-1] + (1,)), k
    if k == 'lead1':
        return dyad(r, (1,) + ss), k
    return dyad(r, (1,) * len(ss)), k


class Block:
    def __init__(self, k, var, shape):
        self.k, self.var, self.shape = k, var, tuple(int(v) for v in shape)
        self.size = prod(self.shape)
        self.first = int(var.first)
        self.ia = np.arange(self.size).reshape(self.shape)


def gen_args(r, blocks, nscen=None):
    """a random argument list: dicts {k, idx, idxkind, values, valkind, sw}"""
    out = []
    for b in blocks:
        u = r.random()
        if u < 0.15:
            HIST['arg:none'] += 1
            continue
        lst = []

        def one(idx, kind):
            ss = b.shape if idx is None else np.shape(b.ia[idx])
            v, vk = rand_values(r, ss)
            lst.append({"k": b.k, "idx": idx, "idxkind": kind, "values": v, "valkind": vk, "ss": tuple(ss)})
        if b.shape == () or u < 0.35:
            one(None, 'whole'); mode = 'whole'
        elif u < 0.55:
            for _ in range(int(r.integers(1, 4))):
                one(*rand_index(r, b.shape))
            mode = 'slices%d' % len(lst)
        elif u < 0.75:
            # a partition of the positions along one axis, in random order
            ax = int(r.integers(len(b.shape))); n = b.shape[ax]
            if n >= 2 and r.random() < 0.5:
                parts = [slice(0, None, 2), slice(1, None, 2)]
            else:
                cuts = sorted(set(int(v) for v in r.integers(1, max(n, 2), int(r.integers(1, 3)))) | {0, n})
                cuts = [c for c in cuts if c <= n]
                parts = [slice(a, c) for a, c in zip(cuts[:-1], cuts[1:]) if c > a]
            if r.random() < 0.3:
                parts = [slice(p.stop - 1 if p.stop is not None else None, p.start - 1 if p.start else None, -1)
                         if (p.step is None) else p for p in parts]       # the same pieces, walked backwards
            order = r.permutation(len(parts))
            for i in order:
                one((slice(None),) * ax + (parts[int(i)],), 'part')
            mode = 'partition'
        elif u < 0.87:
            one(None, 'whole'); one(*rand_index(r, b.shape)); mode = 'whole+slice'
        else:
            one(*rand_index(r, b.shape)); one(None, 'whole'); mode = 'slice+whole'
        HIST['arg:' + mode] += 1
        out.append(lst)
    # interleave the per-variable lists (order inside one variable is kept) or shuffle everything
    flat = []
    if r.random() < 0.5:
        flat = [a for lst in out for a in lst]
        r.shuffle(flat)
    else:
        out = [list(l) for l in out]
        while any(out):
            i = int(r.integers(len(out)))
            if out[i]:
                flat.append(out[i].pop(0))
    for a in flat:
        a["sw"] = False
        if nscen is not None and r.random() < 0.45:
            a["sw"] = True
            vs = []
            for _ in range(nscen):
                vs.append(np.asarray(rand_values_fixed(r, a["ss"], a["valkind"]), dtype=float))
            a["values"] = np.array(vs)
        HIST['idx:' + a["idxkind"]] += 1
        HIST['val:' + a["valkind"] + ('/sw' if a["sw"] else '')] += 1
    return flat


def rand_values_fixed(r, ss, k):
    ss = tuple(ss)
    if k == 'full':
        return dyad(r, ss)
    if k in ('number', 'zerod'):
        return dyad(r)
    if k == 'row':
        return dyad(r, ss[-1:])
    if k == 'column':
        return dyad(r, ss[:-1] + (1,))
    if k == 'lead1':
        return dyad(r, (1,) + ss)
    return dyad(r, (1,) * len(ss))


def arg_cells(b, a, s=None):
    """positions and values of one argument, computed without rsome"""
    sel = np.asarray(b.ia if a["idx"] is None else b.ia[a["idx"]])
    v = np.asarray(a["values"] if s is None or not a["sw"] else a["values"][s], dtype=float)
    if v.ndim > sel.ndim:                       # leading axes of length one
        v = v.reshape(v.shape[v.ndim - sel.ndim:])
    vals = np.broadcast_to(v, sel.shape)
    return (b.first + sel.ravel()).astype(int), np.array(vals, dtype=float).ravel()


def padcut(v, n):
    v = np.asarray(v, dtype=float).ravel()
    return np.concatenate([v, np.zeros(max(0, n - v.size))])[:n]


def apply_numpy(Z, b, a, s=None):
    v = a["values"] if s is None or not a["sw"] else a["values"][s]
    v = np.asarray(v, dtype=float)
    nd = Z[b.k].ndim if a["idx"] is None else np.ndim(b.ia[a["idx"]])
    if v.ndim > nd:                              # leading axes of length one
        v = v.reshape(v.shape[v.ndim - nd:])
    if a["idx"] is None:
        Z[b.k][...] = v
    else:
        Z[b.k][a["idx"]] = v


def make_randval(b, a):
    tgt = b.var if a["idx"] is None else b.var[a["idx"]]
    if a["sw"]:
        return tgt.assign(a["values"], sw=True)
    return tgt.assign(a["values"])


# ---------------------------------------------------------------------------------------------------------------------
# expression trees with NumPy evaluators
# ---------------------------------------------------------------------------------------------------------------------

class Node:
    def __init__(self, obj, ev, shape, desc):
        self.obj, self.ev, self.shape, self.desc = obj, ev, tuple(int(v) for v in shape), desc


class Env:
    """a model, its random blocks, and factories of decision operands"""
    def __init__(self, r, kind):
        self.r, self.kind = r, kind
        self.dvars = []

    def dvar(self, sh, adaptive_ok=False):
        x = self.m.dvar(sh)
        self.dvars.append(x)
        if self.kind == 'dro':
            self.decorate(x, adaptive_ok)
        return x

    def dec_node(self, sh, adaptive_ok=False):
        r = self.r
        u = r.random()
        if u < 0.5:
            xb = self.dvar(sh, adaptive_ok); obj = xb; ev = lambda E, xb=xb: E.x(xb); d = 'x%s' % (sh,)
        elif u < 0.75:
            xb = self.dvar((2,) + sh, adaptive_ok); i = int(r.integers(2)); obj = xb[i]
            ev = lambda E, xb=xb, i=i: E.x(xb)[i]; d = 'x%s[%d]' % ((2,) + sh, i)
        else:
            xb = self.dvar(sh + (3,), adaptive_ok); j = int(r.integers(-3, 3)); obj = xb[..., j]
            ev = lambda E, xb=xb, j=j: E.x(xb)[..., j]; d = 'x%s[...,%d]' % (sh + (3,), j)
        if r.random() < 0.5:
            c = dyad_nz(r); bb = dyad(r, sh) if r.random() < 0.5 else float(dyad(r))
            obj2 = c * obj + bb
            ev2 = lambda E, ev=ev, c=c, bb=bb: c * ev(E) + bb
            return Node(obj2, ev2, sh, '(%g*%s+b)' % (c, d))
        return Node(obj, ev, sh, d)

    def rand_node(self):
        r = self.r
        b = self.blocks[int(r.integers(len(self.blocks)))]
        if b.shape == () or r.random() < 0.3:
            obj = b.var; ev = lambda E, b=b: E.z(b.k); sh = b.shape; d = 'z%d' % b.k
        else:
            idx, kind = rand_index(r, b.shape)
            if kind.startswith('bool') or kind == 'newaxis':
                idx = slice(None, None, -1)
            obj = b.var[idx]; ev = lambda E, b=b, idx=idx: E.z(b.k)[idx]; sh = np.shape(b.ia[idx]); d = 'z%d[%s]' % (b.k, kind)
        if r.random() < 0.4:
            c = dyad_nz(r); bb = dyad(r, sh) if r.random() < 0.5 else float(dyad(r))
            obj2 = c * obj + bb
            ev2 = lambda E, ev=ev, c=c, bb=bb: c * ev(E) + bb
            return Node(obj2, ev2, sh, '(%g*%s+b)' % (c, d))
        return Node(obj, ev, sh, d)

    def term(self):
        r = self.r
        rp = self.rand_node()
        sr = rp.shape
        u = r.random()
        if u < 0.6 or len(sr) == 0 or len(sr) > 2:
            opts = [sr, ()]
            if len(sr) >= 2:
                opts.append(sr[-1:])
            dsh = opts[int(r.integers(len(opts)))]
            dp = self.dec_node(dsh)
            if r.random() < 0.5:
                obj = dp.obj * rp.obj
            else:
                obj = rp.obj * dp.obj
            HIST['term:mul'] += 1
            return Node(obj, lambda E, dp=dp, rp=rp: dp.ev(E) * rp.ev(E), sr, '%s*%s' % (dp.desc, rp.desc))
        if u < 0.8:
            dsh = (int(r.integers(1, 4)), sr[0]) if r.random() < 0.6 else (sr[0],)
            dp = self.dec_node(dsh)
            obj = dp.obj @ rp.obj
            sh = (np.zeros(dsh) @ np.zeros(sr)).shape
            HIST['term:dec@rand'] += 1
            return Node(obj, lambda E, dp=dp, rp=rp: dp.ev(E) @ rp.ev(E), sh, '%s@%s' % (dp.desc, rp.desc))
        dsh = (sr[-1], int(r.integers(1, 4))) if r.random() < 0.6 else (sr[-1],)
        dp = self.dec_node(dsh)
        obj = rp.obj @ dp.obj
        sh = (np.zeros(sr) @ np.zeros(dsh)).shape
        HIST['term:rand@dec'] += 1
        return Node(obj, lambda E, dp=dp, rp=rp: rp.ev(E) @ dp.ev(E), sh, '%s@%s' % (rp.desc, dp.desc))

    def mix_matrix(self, rows, cols):
        r = self.r
        M = dyad(r, (rows, cols)) * (r.random((rows, cols)) < 0.7)
        return M

    def normalise(self, t, sh):
        """bring a node to shape `sh`"""
        r = self.r
        if t.shape == sh and r.random() < 0.7:
            return t
        if sh == ():
            HIST['norm:sum'] += 1
            return Node(t.obj.sum(), lambda E, t=t: np.asarray(t.ev(E).sum()), (), 'sum(%s)' % t.desc)
        n = prod(t.shape)
        if self.kind == 'dro':
            # DecRoAffine has no reshape / indexing of its own: only 1-D and 2-D operands are re-mixed
            if len(t.shape) == 1 and len(sh) == 1:
                M = self.mix_matrix(sh[0], n)
                HIST['norm:M@t'] += 1
                return Node(M @ t.obj, lambda E, t=t, M=M: M @ t.ev(E), sh, 'M@(%s)' % t.desc)
            raise Retry('dro shape')
        M = self.mix_matrix(prod(sh), n)
        flat = t.obj if t.shape == (n,) else t.obj.reshape((n,))
        obj = M @ flat
        if sh != (prod(sh),):
            obj = obj.reshape(sh)
        HIST['norm:M@flat'] += 1
        return Node(obj, lambda E, t=t, M=M, sh=sh: (M @ t.ev(E).reshape(-1)).reshape(sh), sh, 'M@flat(%s)' % t.desc)


class Retry(Exception):
    pass


def rand_shape(r, maxrank=2):
    rank = int(r.integers(0, maxrank + 1))
    return tuple(int(v) for v in r.integers(1, 4, rank))


# ---------------------------------------------------------------------------------------------------------------------
# ro
# ---------------------------------------------------------------------------------------------------------------------

class RoEnv(Env):
    def __init__(self, r):
        super().__init__(r, 'ro')
        self.m = ro.Model()
        self.blocks = []
        shapes = [rand_shape(r, 3) for _ in range(int(r.integers(1, 4)))]
        if all(s == () for s in shapes):
            shapes.append((int(r.integers(2, 5)),))
        for k, s in enumerate(shapes):
            self.blocks.append(Block(k, self.m.rvar(s), s))
        self.ldrs = []

    def nrand_now(self):
        return sum(b.size for b in self.blocks)

    def ldr(self, sh):
        r = self.r
        y = self.m.ldr(sh)
        size = prod(sh)
        nr = self.nrand_now()
        mask = np.zeros((size, nr), bool)
        if r.random() < 0.85:
            mask = r.random((size, nr)) < 0.5
        for b in self.blocks:
            for i in range(size):
                row = mask[i, b.first:b.first + b.size]
                yi = y if sh == () else y[tuple(int(v) for v in np.unravel_index(i, sh))]
                if row.all() and r.random() < 0.5:
                    yi.adapt(b.var)
                else:
                    for p in np.where(row)[0]:
                        yi.adapt(b.var if b.shape == () else b.var[tuple(int(v) for v in np.unravel_index(p, b.shape))])
        self.ldrs.append((y, mask))
        return y, mask

    def ldr_node(self, sh):
        r = self.r
        if r.random() < 0.6:
            y, _ = self.ldr(sh)
            return Node(y, lambda E, y=y: E.y(y), sh, 'y%s' % (sh,))
        y, _ = self.ldr((2,) + sh)
        i = int(r.integers(2))
        return Node(y[i], lambda E, y=y, i=i: E.y(y)[i], sh, 'y%s[%d]' % ((2,) + sh, i))

    def expression(self):
        r = self.r
        sh = rand_shape(r, 2)
        parts = [self.normalise(self.term(), sh) for _ in range(int(r.integers(1, 4)))]
        if r.random() < 0.5:
            parts.append(self.dec_node(sh))
        if r.random() < 0.4:
            parts.append(self.normalise(self.rand_node(), sh))
        if r.random() < 0.4:
            c = dyad(r, sh)
            parts.append(Node(c, lambda E, c=c: c, sh, 'const'))
        if r.random() < 0.45:
            parts.append(self.ldr_node(sh)); HIST['expr:with-ldr'] += 1
        # the first operand must be an rsome object
        order = list(r.permutation(len(parts)))
        while isinstance(parts[order[0]].obj, np.ndarray):
            order = list(r.permutation(len(parts)))
        e = parts[order[0]]
        for i in order[1:]:
            p = parts[i]
            if r.random() < 0.25:
                e = Node(e.obj - p.obj, lambda E, e=e, p=p: e.ev(E) - p.ev(E), sh, '(%s - %s)' % (e.desc, p.desc))
            else:
                e = Node(e.obj + p.obj, lambda E, e=e, p=p: e.ev(E) + p.ev(E), sh, '(%s + %s)' % (e.desc, p.desc))
        for _ in range(int(r.integers(0, 3))):
            e = self.post(e)
        return e

    def post(self, e):
        r = self.r
        u = r.random()
        if u < 0.15:
            HIST['post:neg'] += 1
            return Node(-e.obj, lambda E, e=e: -e.ev(E), e.shape, '-(%s)' % e.desc)
        if u < 0.35:
            c = dyad_nz(r); HIST['post:scale'] += 1
            if r.random() < 0.5:
                return Node(c * e.obj, lambda E, e=e, c=c: c * e.ev(E), e.shape, '%g*(%s)' % (c, e.desc))
            return Node(e.obj * c, lambda E, e=e, c=c: e.ev(E) * c, e.shape, '(%s)*%g' % (e.desc, c))
        if u < 0.55 and len(e.shape) >= 1:
            idx, kind = rand_index(r, e.shape)
            if kind.startswith('bool') or kind == 'newaxis':
                idx = slice(None, None, -1)
            sh = np.shape(np.zeros(e.shape)[idx]); HIST['post:index'] += 1
            return Node(e.obj[idx], lambda E, e=e, idx=idx: e.ev(E)[idx], sh, '(%s)[%s]' % (e.desc, kind))
        if u < 0.65 and len(e.shape) == 2:
            HIST['post:T'] += 1
            return Node(e.obj.T, lambda E, e=e: e.ev(E).T, e.shape[::-1], '(%s).T' % e.desc)
        if u < 0.8 and len(e.shape) >= 1:
            ax = int(r.integers(len(e.shape))); HIST['post:sum-axis'] += 1
            sh = np.zeros(e.shape).sum(axis=ax).shape
            return Node(e.obj.sum(axis=ax), lambda E, e=e, ax=ax: e.ev(E).sum(axis=ax), sh, '(%s).sum(%d)' % (e.desc, ax))
        if u < 0.9 and len(e.shape) == 2:
            sh = (e.shape[1], e.shape[0]) if r.random() < 0.5 else (prod(e.shape),); HIST['post:reshape'] += 1
            return Node(e.obj.reshape(sh), lambda E, e=e, sh=sh: e.ev(E).reshape(sh), sh, '(%s).reshape%s' % (e.desc, sh))
        HIST['post:sum'] += 1
        return Node(e.obj.sum(), lambda E, e=e: np.asarray(e.ev(E).sum()), (), 'sum(%s)' % e.desc)


class RoEval:
    def __init__(self, env, vec, Z):
        self.env, self.vec, self.Z = env, vec, Z

    def x(self, xb):
        n = prod(xb.shape)
        return self.vec[xb.first:xb.first + n].reshape(xb.shape)

    def z(self, k):
        return self.Z[k]

    def zvec(self):
        return np.concatenate([z.ravel() for z in self.Z])

    def y(self, y):
        sh = tuple(y.shape); size = prod(sh)
        y0 = self.x(y.fixed)
        dep = y.depend
        if dep is None or y.var_coeff is None:
            return y0.copy()
        coef = np.zeros(dep.shape)
        coef[dep == 1] = self.x(y.var_coeff).ravel()
        zv = self.zvec()
        return y0 + (coef @ zv[:dep.shape[1]]).reshape(sh)


def record(case, what, detail):
    MISMATCHES.append((what, case, detail))


def ro_model(seed, reqs, pend):
    r = np.random.default_rng(seed)
    env = RoEnv(r)
    m = env.m
    targets = []                 # (node, label)
    for _ in range(int(r.integers(1, 4))):
        for attempt in range(20):
            try:
                e = env.expression()
            except Retry:
                continue
            except Exception as ex:
                HIST['ro:build-raises:%s: %s' % (type(ex).__name__, str(ex)[:50])] += 1
                continue
            break
        else:
            continue
        if not isinstance(e.obj, RoAffine):
            HIST['ro:expression-type-' + type(e.obj).__name__] += 1
            continue
        targets.append((e, 'RoAffine'))
    if r.random() < 0.6:
        sh = rand_shape(r, 2)
        y, mask = env.ldr(sh)
        if mask.any():
            targets.append((Node(y, lambda E, y=y: E.y(y), sh, 'ldr%s' % (sh,)), 'DecRule'))
            if len(sh) >= 1:
                idx, kind = rand_index(r, sh)
                if not (kind.startswith('bool') or kind == 'newaxis'):
                    ssh = np.shape(np.zeros(sh)[idx])
                    targets.append((Node(y[idx], lambda E, y=y, idx=idx: E.y(y)[idx], ssh, 'ldr%s[%s]' % (sh, kind)), 'DecRuleSub'))
    # a random variable declared after everything was built (its positions have no column in the coefficient tables)
    if r.random() < 0.35:
        s = rand_shape(r, 1)
        env.blocks.append(Block(len(env.blocks), m.rvar(s), s)); HIST['ro:late-rvar'] += 1
    # decision rules create their coefficient variables in to_affine(): before the solution is planted
    for y, _ in env.ldrs:
        y.to_affine()
    objs = []
    for e, label in targets:
        o = e.obj
        if isinstance(o, (DecRule, DecRuleSub)):
            o = o.to_affine()
        objs.append(o)
    x0 = env.dvars[0] if env.dvars else m.dvar()
    m.min(x0.sum() if x0.shape != () else x0)
    f = m.do_math()
    ncol = f.linear.shape[1]
    vec = dyad(r, ncol)
    set_solution(m, vec)
    for (e, label), o in zip(targets, objs):
        if not isinstance(o, RoAffine):
            HIST['ro:target-not-biaffine'] += 1
            continue
        # dense coefficient table from the raw data of the expression
        RA, A = o.raffine, o.affine
        size = prod(o.shape)
        flat = RA.linear @ vec[:RA.linear.shape[1]] + np.asarray(RA.const, dtype=float).ravel()
        nr = flat.size // size
        coef = flat.reshape(size, nr)
        det = A.linear @ vec[:A.linear.shape[1]] + np.asarray(A.const, dtype=float).ravel()
        for _ in range(3):
            args = gen_args(r, env.blocks)
            case = {"seed": seed, "kind": "ro", "target": label, "expr": e.desc,
                    "args": [(a["k"], a["idxkind"], a["valkind"]) for a in args]}
            Z = [np.zeros(b.shape) for b in env.blocks]
            jargs = []; rvs = []
            ok = True
            for a in args:
                b = env.blocks[a["k"]]
                pos, vals = arg_cells(b, a)
                apply_numpy(Z, b, a)
                try:
                    rv = make_randval(b, a)
                except Exception as ex:
                    record(case, 'assign-raises', '%s: %s' % (type(ex).__name__, ex)); ok = False; break
                if list(np.asarray(rv.index).ravel()) != list(pos) or not np.array_equal(np.asarray(rv.values, dtype=float).ravel(), vals):
                    record(case, 'randval-cells', {"index": np.asarray(rv.index).tolist(), "pos": pos.tolist(),
                                                    "values": np.asarray(rv.values).ravel().tolist(), "vals": vals.tolist()})
                    ok = False; break
                rvs.append(rv)
                jargs.append({"pos": [int(p) for p in pos], "vals": frl(vals)})
            if not ok:
                pend.append(None); reqs.append({"op": "assign_call", "nrand": 0, "coef": [], "det": [], "args": []}); continue
            E = RoEval(env, vec, Z)
            expected = np.asarray(e.ev(E), dtype=float)
            try:
                got = e.obj(*rvs)
            except Exception as ex:
                record(case, 'call-raises', '%s: %s' % (type(ex).__name__, ex))
                pend.append(None); reqs.append({"op": "assign_call", "nrand": 0, "coef": [], "det": [], "args": []}); continue
            got = np.asarray(got, dtype=float)
            HIST['ro:' + label] += 1
            if got.shape != expected.shape or not np.array_equal(got, expected):
                record(case, 'numpy', {"got": got.tolist(), "expected": expected.tolist()})
            reqs.append({"op": "assign_call", "nrand": int(nr), "coef": [frl(row) for row in coef], "det": frl(det), "args": jargs})
            pend.append({"case": case, "got": [frl(got)], "rvec": [frl(padcut(E.zvec(), nr))], "series": None})


# ---------------------------------------------------------------------------------------------------------------------
# dro
# ---------------------------------------------------------------------------------------------------------------------

def rand_partition(r, S):
    lab = r.integers(0, max(1, int(r.integers(1, S + 1))), S)
    lab[0] = lab[0]
    groups = {}
    for s, l in enumerate(lab):
        groups.setdefault(int(l), []).append(s)
    parts = list(groups.values())
    # the event holding scenario 0 first (it is the implicit remainder)
    parts.sort(key=lambda e: 0 if 0 in e else 1)
    return parts


class DroEnv(Env):
    def __init__(self, r):
        super().__init__(r, 'dro')
        self.S = int(r.integers(1, 5))
        self.labels = None if r.random() < 0.5 else ['s%d' % i for i in range(self.S)]
        self.m = dro.Model(self.labels if self.labels else self.S)
        self.blocks = []
        shapes = [rand_shape(r, 2) for _ in range(int(r.integers(1, 4)))]
        if all(s == () for s in shapes):
            shapes.append((int(r.integers(2, 4)),))
        for k, s in enumerate(shapes):
            self.blocks.append(Block(k, self.m.rvar(s), s))
        self.adaptive = set()

    def decorate(self, x, adaptive_ok):
        r = self.r
        if r.random() < 0.6:
            part = rand_partition(r, self.S)
            rest = part[1:]
            r.shuffle(rest)
            for e in rest:
                x.adapt([self.labels[i] for i in e] if self.labels else (e if len(e) > 1 or r.random() < 0.5 else e[0]))
        if adaptive_ok and r.random() < 0.6:
            b = self.blocks[int(r.integers(len(self.blocks)))]
            if b.shape == () or r.random() < 0.5:
                x.adapt(b.var)
            else:
                idx, kind = rand_index(r, b.shape)
                if kind.startswith('bool') or kind == 'newaxis' or 'repeat' in kind:
                    idx = slice(None, None, -1)
                x.adapt(b.var[idx])
            self.adaptive.add(id(x))

    def expression(self):
        r = self.r
        t = self.term()
        sh = t.shape
        u = r.random()
        if u < 0.25:
            t = self.normalise(t, ()); sh = ()
        elif u < 0.45 and len(sh) == 1:
            sh = (int(r.integers(1, 4)),)
            t = self.normalise(t, sh)
        parts = [t]
        if r.random() < 0.4:
            # a second product of the same shape: a fresh operand times a random scalar / the same kind of slice
            sc = [b for b in self.blocks if b.shape == ()]
            dp = self.dec_node(sh)
            if sc and r.random() < 0.6:
                b = sc[0]
                parts.append(Node(dp.obj * b.var, lambda E, dp=dp, b=b: dp.ev(E) * E.z(b.k), sh, '%s*z%d' % (dp.desc, b.k)))
            else:
                same = [b for b in self.blocks if b.shape == sh]
                if same:
                    b = same[int(r.integers(len(same)))]
                    parts.append(Node(dp.obj * b.var, lambda E, dp=dp, b=b: dp.ev(E) * E.z(b.k), sh, '%s*z%d' % (dp.desc, b.k)))
        if r.random() < 0.6:
            parts.append(self.dec_node(sh, adaptive_ok=(r.random() < 0.4)))
        if r.random() < 0.3:
            c = dyad(r, sh)
            parts.append(Node(c, lambda E, c=c: c, sh, 'const'))
        same = [b for b in self.blocks if b.shape == sh]
        if same and r.random() < 0.3:
            b = same[int(r.integers(len(same)))]; c = dyad_nz(r)
            parts.append(Node(c * b.var, lambda E, b=b, c=c: c * E.z(b.k), sh, '%g*z%d' % (c, b.k)))
        e = parts[0]
        for p in parts[1:]:
            if r.random() < 0.25:
                e = Node(e.obj - p.obj, lambda E, e=e, p=p: e.ev(E) - p.ev(E), sh, '(%s - %s)' % (e.desc, p.desc))
            else:
                e = Node(e.obj + p.obj, lambda E, e=e, p=p: e.ev(E) + p.ev(E), sh, '(%s + %s)' % (e.desc, p.desc))
        u = r.random()
        if u < 0.15:
            e = Node(-e.obj, lambda E, e=e: -e.ev(E), sh, '-(%s)' % e.desc)
        elif u < 0.35:
            c = dyad_nz(r)
            e = Node(c * e.obj, lambda E, e=e, c=c: c * e.ev(E), sh, '%g*(%s)' % (c, e.desc))
        elif u < 0.5 and len(sh) >= 1:
            e = Node(e.obj.sum(), lambda E, e=e: np.asarray(e.ev(E).sum()), (), 'sum(%s)' % e.desc)
        return e

    def affine_target(self):
        """DecVar / DecVarSub / DecAffine with affine adaptation"""
        r = self.r
        sh = rand_shape(r, 2)
        for _ in range(10):
            w = self.dvar(sh, adaptive_ok=True)
            if id(w) in self.adaptive:
                break
        u = r.random()
        if u < 0.4 or sh == ():
            return Node(w, lambda E, w=w: E.x(w), sh, 'w%s' % (sh,)), 'DecVar'
        if u < 0.7:
            idx, kind = rand_index(r, sh)
            if kind.startswith('bool') or kind == 'newaxis':
                idx = slice(None, None, -1)
            ssh = np.shape(np.zeros(sh)[idx])
            return Node(w[idx], lambda E, w=w, idx=idx: E.x(w)[idx], ssh, 'w%s[%s]' % (sh, kind)), 'DecVarSub'
        x = self.dec_node(sh, adaptive_ok=True); c = dyad_nz(r); bb = dyad(r, sh)
        return Node(c * w + x.obj + bb, lambda E, w=w, x=x, c=c, bb=bb: c * E.x(w) + x.ev(E) + bb, sh,
                    '%g*w%s + %s + b' % (c, sh, x.desc)), 'DecAffine'


class DroEval:
    """values in scenario `s`: decisions through the rule of scenario `s` (A_s z + b_s), realisation Z"""
    def __init__(self, env, A, bvec, Z):
        self.env, self.A, self.b, self.Z = env, A, bvec, Z

    def zvec(self):
        return np.concatenate([z.ravel() for z in self.Z])

    def x(self, xb):
        n = prod(xb.shape)
        rows = slice(xb.first, xb.first + n)
        zv = self.zvec()
        k = min(self.A.shape[1], zv.size)
        return (self.b[rows] + self.A[rows, :k] @ zv[:k]).reshape(xb.shape)

    def z(self, k):
        return self.Z[k]


def dense(a):
    return np.asarray(a.todense()) if hasattr(a, 'todense') else np.asarray(a)


def dro_model(seed, reqs, pend):
    r = np.random.default_rng(seed)
    env = DroEnv(r)
    m, S = env.m, env.S
    targets = []
    for _ in range(int(r.integers(1, 3))):
        for attempt in range(20):
            try:
                e = env.expression()
            except Retry:
                continue
            except Exception as ex:
                HIST['dro:build-raises:%s: %s' % (type(ex).__name__, str(ex)[:50])] += 1
                continue
            break
        else:
            continue
        if isinstance(e.obj, DecRoAffine):
            targets.append((e, 'DecRoAffine'))
        else:
            HIST['dro:expression-type-' + type(e.obj).__name__] += 1
    for _ in range(int(r.integers(1, 3))):
        targets.append(env.affine_target())
    if r.random() < 0.3:
        s = rand_shape(r, 1)
        env.blocks.append(Block(len(env.blocks), m.rvar(s), s)); HIST['dro:late-rvar'] += 1
    fset = m.ambiguity()
    fset.suppset(*[c for b in env.blocks for c in (b.var >= -4, b.var <= 4)])
    x0 = env.dvars[0]
    m.minsup(x0.sum() if x0.shape != () else x0, fset)
    f = m.do_math()
    ncol = f.linear.shape[1]
    vec = dyad(r, ncol)
    set_solution(m, vec)
    nz = sum(b.size for b in env.blocks)
    # per-scenario rules of all decisions: xs_s(z) = A_s z + b_s
    rules = []
    for dec in m.rule_var():
        if isinstance(dec, RoAffine):
            RA, A = dec.raffine, dec.affine
            size = prod(dec.shape)
            flat = RA.linear @ vec[:RA.linear.shape[1]] + np.asarray(RA.const, dtype=float).ravel()
            As = flat.reshape(size, flat.size // size)
            bs = A.linear @ vec[:A.linear.shape[1]] + np.asarray(A.const, dtype=float).ravel()
        else:
            bs = dec.linear @ vec[:dec.linear.shape[1]] + np.asarray(dec.const, dtype=float).ravel()
            As = np.zeros((bs.size, 0))
        if As.shape[1] < nz:
            As = np.concatenate([As, np.zeros((As.shape[0], nz - As.shape[1]))], axis=1)
        rules.append((As, np.asarray(bs, dtype=float)))
    for e, label in targets:
        o = e.obj
        if label == 'DecRoAffine':
            RA, A = o.raffine, o.affine
            size = prod(o.shape)
            nr = RA.linear.shape[0] // size
            Lr, Cr = RA.linear, np.asarray(RA.const, dtype=float).ravel()
            La, ca = A.linear, np.asarray(A.const, dtype=float).ravel()
            ew = len(o.event_adapt) > 1
            ew_r, ew_a = len(RA.event_adapt) > 1, len(A.event_adapt) > 1
        else:
            a = o.to_affine() if hasattr(o, 'to_affine') else o
            size = prod(a.shape); nr = nz
            La, ca = a.linear, np.asarray(a.const, dtype=float).ravel()
            ew = len(a.event_adapt) > 1
        coefs, dets = [], []
        d2 = False
        for s in range(S):
            As, bs = rules[s]
            nv = La.shape[1]
            extra = dense(La @ As[:nv])                          # size x nz: z-dependence of the deterministic part
            if label == 'DecRoAffine':
                nvr = Lr.shape[1]
                cf = (Lr @ bs[:nvr] + Cr).reshape(size, nr)
                if np.any(dense(Lr @ As[:nvr])):
                    raise RuntimeError('quadratic in z')
                if extra.any():
                    d2 = True
                width = max(nr, nz)
                full = np.zeros((size, width)); full[:, :nr] = cf; full[:, :nz] += extra
                cf = full
            else:
                cf = extra
            coefs.append(cf)
            dets.append(La @ bs[:nv] + ca)
        width = coefs[0].shape[1]
        d1 = label == 'DecRoAffine' and S > 1 and (ew_a != ew_r)
        for _ in range(3):
            args = gen_args(r, env.blocks, nscen=S)
            case = {"seed": seed, "kind": "dro", "S": S, "target": label, "expr": e.desc,
                    "args": [(a["k"], a["idxkind"], a["valkind"], a["sw"]) for a in args]}
            Zs = [[np.zeros(b.shape) for b in env.blocks] for _ in range(S)]
            jargs = []; rvs = []
            ok = True
            for a in args:
                b = env.blocks[a["k"]]
                per = [arg_cells(b, a, s) for s in range(S)]
                for s in range(S):
                    apply_numpy(Zs[s], b, a, s)
                d3 = False
                try:
                    rv = make_randval(b, a)
                except ValueError as ex:
                    if a["sw"] and a["idx"] is None and 'non-broadcastable' in str(ex):
                        # defect D3: RandVar.assign(values, sw=True) adds in place, so per-scenario values that need
                        # broadcasting are refused for a WHOLE variable (a slice and sw=False accept them)
                        DEFECTS['D3 whole-variable sw values not broadcast: reproduced'] += 1
                        d3 = True
                        full = np.array([per[s][1].reshape(b.shape) for s in range(S)])
                        rv = b.var.assign(full, sw=True)
                    else:
                        record(case, 'assign-raises', '%s: %s' % (type(ex).__name__, ex)); ok = False; break
                except Exception as ex:
                    record(case, 'assign-raises', '%s: %s' % (type(ex).__name__, ex)); ok = False; break
                if a["sw"] and a["idx"] is None and not d3 and a["valkind"] not in ('full',):
                    DEFECTS['D3 whole-variable sw values not broadcast: accepted'] += 1
                pos = per[0][0]
                if a["sw"]:
                    rvv = [np.asarray(rv.values.iloc[s], dtype=float).ravel() for s in range(S)]
                    good = all(np.array_equal(rvv[s], per[s][1]) for s in range(S))
                    if self_labels(env) != list(rv.values.index):
                        good = False
                else:
                    good = np.array_equal(np.asarray(rv.values, dtype=float).ravel(), per[0][1])
                if list(np.asarray(rv.index).ravel()) != list(pos) or not good:
                    record(case, 'randval-cells', {"index": np.asarray(rv.index).tolist(), "pos": pos.tolist()})
                    ok = False; break
                rvs.append(rv)
                if a["sw"]:
                    jargs.append({"pos": [int(p) for p in pos], "sw": True, "vals": [frl(per[s][1]) for s in range(S)]})
                else:
                    jargs.append({"pos": [int(p) for p in pos], "sw": False, "vals": frl(per[0][1])})
            dummy = {"op": "assign_call", "nrand": 0, "coef": [], "det": [], "args": []}
            if not ok:
                pend.append(None); reqs.append(dummy); continue
            anysw = any(a["sw"] for a in args)
            expected = []
            for s in range(S):
                E = DroEval(env, rules[s][0], rules[s][1], Zs[s])
                expected.append(np.asarray(e.ev(E), dtype=float))
            defect_family = None
            if d1:
                defect_family = 'D1 static products + event-wise deterministic part'
            elif d2:
                defect_family = 'D2 z-adaptive decision in the deterministic part'
            elif label == 'DecRoAffine' and any('repeat' in a["idxkind"] for a in args):
                defect_family = 'D4 DecRoAffine.__call__ with a repeated position in one argument'
            try:
                got = e.obj(*rvs)
            except Exception as ex:
                if defect_family:
                    DEFECTS[defect_family + ': raises ' + type(ex).__name__] += 1
                    if STRICT:
                        record(case, 'call-raises', '%s: %s' % (type(ex).__name__, ex))
                else:
                    record(case, 'call-raises', '%s: %s' % (type(ex).__name__, ex))
                pend.append(None); reqs.append(dummy); continue
            is_series = isinstance(got, pd.Series)
            if is_series:
                if list(got.index) != self_labels(env):
                    record(case, 'series-index', list(got.index))
                gots = [np.asarray(v, dtype=float) for v in got.values]
            else:
                gots = [np.asarray(got, dtype=float)] * S
                if len(set(v.tobytes() for v in expected)) > 1 and not defect_family:
                    record(case, 'single-value-for-different-scenarios', {"expected": [v.tolist() for v in expected]})
            good = len(gots) == S and all(g.shape == x.shape and np.array_equal(g, x) for g, x in zip(gots, expected))
            if defect_family:
                DEFECTS[defect_family + (': right value' if good else ': WRONG value')] += 1
                if not good and not STRICT:
                    pend.append(None); reqs.append(dummy); continue
            HIST['dro:' + label + ('/sw' if anysw else '') + ('/event-wise' if ew else '')] += 1
            if not good:
                record(case, 'numpy', {"got": [g.tolist() for g in gots], "expected": [v.tolist() for v in expected]})
            reqs.append({"op": "assign_call", "nscen": S, "path": "ro" if label == 'DecRoAffine' else "dec", "eventwise": bool(ew),
                         "nrand": int(width), "coef": [[frl(row) for row in cf] for cf in coefs], "det": [frl(d) for d in dets],
                         "args": jargs})
            rv_expect = []
            for s in range(S):
                zv = np.concatenate([z.ravel() for z in Zs[s]])
                rv_expect.append(frl(padcut(zv, width)))
            pend.append({"case": case, "got": [frl(g) for g in gots], "rvec": rv_expect, "series": is_series})


def self_labels(env):
    return env.labels if env.labels else list(range(env.S))


# ---------------------------------------------------------------------------------------------------------------------

def main():
    seed = int(sys.argv[1]) if len(sys.argv) > 1 else 0
    N = int(sys.argv[2]) if len(sys.argv) > 2 else 50
    rng = np.random.default_rng(seed)
    reqs, pend = [], []
    errors = collections.Counter()
    for kind, fn in (('ro', ro_model), ('dro', dro_model)):
        for i in range(N):
            s = int(rng.integers(2 ** 31))
            n0 = len(reqs)
            try:
                fn(s, reqs, pend)
            except Exception as ex:
                # a failure while BUILDING a model is not about the property (nothing was called yet)
                errors['%s-build:%s: %s' % (kind, type(ex).__name__, str(ex)[:70])] += 1
                del reqs[n0:]; del pend[n0:]
    outs = lean_run(reqs)
    ncases = 0
    for rq, pd_, out in zip(reqs, pend, outs):
        if pd_ is None:
            continue
        ncases += 1
        if 'error' in out:
            record(pd_["case"], 'lean-error', out); continue
        if 'nscen' in rq:
            lo, lr = out["out"], out["rvecs"]
        else:
            lo, lr = [out["out"]], [out["rvec"]]
        if lo != pd_["got"]:
            record(pd_["case"], 'lean-value', {"lean": lo, "rsome": pd_["got"]})
        if lr != pd_["rvec"]:
            record(pd_["case"], 'lean-rvec', {"lean": lr, "numpy": pd_["rvec"]})
        if pd_["series"] is not None and out["series"] != pd_["series"]:
            record(pd_["case"], 'lean-series', {"lean": out["series"], "rsome": pd_["series"]})
    for k in sorted(HIST):
        print('  %-40s %d' % (k, HIST[k]))
    for k in sorted(errors):
        print('  harness: %-60s %d' % (k, errors[k]))
    for k in sorted(DEFECTS):
        print('  defect probe: %-70s %d' % (k, DEFECTS[k]))
    for what, case, detail in MISMATCHES[:15]:
        print('MISMATCH', what, json.dumps(case, default=str)[:600], str(detail)[:600])
    print('cases %d mismatches %d' % (ncases + len([1 for w, c, d in MISMATCHES if w in ('assign-raises', 'call-raises', 'randval-cells')]),
                                      len(MISMATCHES)))
    return 0 if not MISMATCHES else 1


if __name__ == '__main__':
    sys.exit(main())
