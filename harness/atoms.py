"""Catalogue of rsome's convex / concave atoms: how to build each through the public API, its NumPy
meaning, its xtype letter, curvature, domain and the cone class it needs.  Shared by C06, C07, C10, C12."""
import numpy as np
import rsome as rso


def _pn(p):
    return lambda v: float(np.sum(np.abs(v) ** p) ** (1.0 / p))


# name: (xtype, sign, quad, output, domain, cone, build(expr), numpy(v))
#   output: 'elem' (same shape as the argument) | 'scalar'
#   domain: 'any' | 'pos' (argument must be > 0)
ATOMS = {
    'abs':      ('A', 1, False, 'elem', 'any', 'lp', lambda e: abs(e), lambda v: np.abs(v)),
    'norm1':    ('M', 1, False, 'scalar', 'any', 'lp', lambda e: rso.norm(e, 1), lambda v: float(np.abs(v).sum())),
    'norminf':  ('I', 1, False, 'scalar', 'any', 'lp', lambda e: rso.norm(e, 'inf'), lambda v: float(np.abs(v).max())),
    'norm2':    ('E', 1, False, 'scalar', 'any', 'soc', lambda e: rso.norm(e, 2), lambda v: float(np.sqrt((v ** 2).sum()))),
    'pnorm3':   ('G', 1, False, 'scalar', 'any', 'soc', lambda e: rso.norm(e, 3), _pn(3)),
    'pnorm52':  ('G', 1, False, 'scalar', 'any', 'soc', lambda e: rso.pnorm(e, (5, 2)), _pn(2.5)),
    'pnorm_x':  ('N', 1, False, 'scalar', 'any', 'exp', lambda e: rso.pnorm(e, 2.5), _pn(2.5)),
    'pnorm73x': ('N', 1, False, 'scalar', 'any', 'exp', lambda e: rso.pnorm(e, (7, 3), 'exc'), _pn(7.0 / 3.0)),
    'pnorm4x':  ('N', 1, False, 'scalar', 'any', 'exp', lambda e: rso.pnorm(e, 4, 'exc'), _pn(4.0)),
    'square':   ('S', 1, True, 'elem', 'any', 'soc', lambda e: rso.square(e), lambda v: v ** 2),
    'sumsqr':   ('Q', 1, True, 'scalar', 'any', 'soc', lambda e: rso.sumsqr(e), lambda v: float((v ** 2).sum())),
    'power32':  ('T', 1, False, 'elem', 'any', 'soc', lambda e: rso.power(e, 3, 2), lambda v: np.abs(v) ** 1.5),
    'power3':   ('T', 1, False, 'elem', 'any', 'soc', lambda e: rso.power(e, 3), lambda v: np.abs(v) ** 3.0),
    'power_arr': ('T', 1, False, 'elem', 'any', 'soc',
                  lambda e: rso.power(e, np.array([1, 3, 5])[:e.size], np.array([1, 1, 2])[:e.size]),
                  lambda v: np.abs(v) ** np.array([1.0, 3.0, 2.5])[:len(v)]),
    'gmean':    ('C', -1, False, 'scalar1', 'pos', 'soc', lambda e: rso.gmean(e), lambda v: float(np.prod(v) ** (1.0 / len(v)))),
    'gmean_w':  ('C', -1, False, 'scalar1', 'pos', 'soc', lambda e: rso.gmean(e, [2, 1, 1][:e.size] if e.size <= 3 else None),
                 lambda v: float(np.prod(v ** np.array([2, 1, 1][:len(v)])) ** (1.0 / sum([2, 1, 1][:len(v)])))),
    'exp':      ('X', 1, False, 'elem', 'any', 'exp', lambda e: rso.exp(e), lambda v: np.exp(v)),
    'log':      ('L', -1, False, 'elem', 'pos', 'exp', lambda e: rso.log(e), lambda v: np.log(v)),
    'entropy':  ('P', -1, False, 'scalar', 'pos', 'exp', lambda e: rso.entropy(e), lambda v: float(-(v * np.log(v)).sum())),
    'softplus': ('F', 1, False, 'elem', 'any', 'exp', lambda e: rso.softplus(e), lambda v: np.log1p(np.exp(v))),
    'pexp':     ('X', 1, False, 'elem', 'any', 'exp', lambda e: rso.pexp(e, 2.0), lambda v: 2.0 * np.exp(v / 2.0)),
    'plog':     ('L', -1, False, 'elem', 'pos', 'exp', lambda e: rso.plog(e, 2.0), lambda v: 2.0 * np.log(v / 2.0)),
}
PERSP = {'pexp', 'plog'}


def make_arg(r, x, name, x0, k=None):
    """an affine argument A@x + b for the atom, valid (positive where required) at the point x0.
    Returns (expr, A, b)."""
    xt, sign, quad, outk, dom, cone, build, npf = ATOMS[name]
    n = x.size
    k = 3 if name == 'gmean_w' else (int(r.integers(1, 4)) if k is None else k)
    A = r.choice([-2., -1., -0.5, 0., 0.5, 1., 2.], (k, n))
    b = r.choice([-1., 0., 0.5, 1.], k)
    if dom == 'pos':
        v = A @ x0 + b
        b = b + np.ceil(np.maximum(0.0, 0.5 - v) * 2) / 2 + r.choice([0.5, 1.0], k)
    return A @ x + b, A, b
