import RsomeV.Props.C01
#print axioms RsomeV.C01.rc_sound
#print axioms RsomeV.C01.eval_negRows
#print axioms RsomeV.C01.rc_sound_eq
#print axioms RsomeV.C01.rc_sound_late
#print axioms RsomeV.C01.rc_sound_late'
