import RsomeV.M.LpDual
import Mathlib.Tactic.Linarith
import Mathlib.Tactic.Ring

/-! # C15 — equivalent ways of writing a model give the same optimum

One lemma per member of the property's group of rewrites, at the level of the standard form (`LinProg`): each says the
two presentations have the same feasible set (and objective), so their optimal values coincide; the group is closed under
composition because each lemma is an `↔` on feasibility. -/

namespace RsomeV.C15
open Finset RsomeV
variable {K : Type} [Field K] [LinearOrder K] [IsStrictOrderedRing K]

/-- an equality row is the pair of inequalities `r ≤ b` and `-r ≤ -b` -/
theorem eq_row_iff_two_ineq (r b : K) : r = b ↔ (r ≤ b ∧ -r ≤ -b) := by
  constructor
  · intro h; subst h; exact ⟨le_refl _, le_refl _⟩
  · rintro ⟨h1, h2⟩; linarith

/-- `a ≤ b`, `-b ≤ -a` and `b ≥ a` are the same row -/
theorem flip_row_iff (a b : K) : a ≤ b ↔ -b ≤ -a := by constructor <;> intro h <;> linarith

/-- positive rescaling of a row -/
theorem scale_row_iff (k a b : K) (hk : 0 < k) : k * a ≤ k * b ↔ a ≤ b := by
  constructor
  · intro h; exact le_of_mul_le_mul_left h hk
  · intro h; exact mul_le_mul_of_nonneg_left h hk.le

/-- an upper bound object on column `j` is the row `e_j · x ≤ u` -/
theorem bound_as_row_ub (n j : ℕ) (hj : j < n) (u : K) (x : ℕ → K) :
    LinProg.leUb (x j) (some u) ↔ ∑ k ∈ range n, (if k = j then (1 : K) else 0) * x k ≤ u := by
  have : ∑ k ∈ range n, (if k = j then (1 : K) else 0) * x k = x j := by
    rw [Finset.sum_eq_single j]
    · simp
    · intro k _ hk; simp [hk]
    · intro h; exact absurd (Finset.mem_range.mpr hj) h
  rw [this]; rfl

/-- a lower bound object on column `j` is the row `-e_j · x ≤ -l` -/
theorem bound_as_row_lb (n j : ℕ) (hj : j < n) (l : K) (x : ℕ → K) :
    LinProg.geLb (x j) (some l) ↔ ∑ k ∈ range n, (if k = j then (-1 : K) else 0) * x k ≤ -l := by
  have : ∑ k ∈ range n, (if k = j then (-1 : K) else 0) * x k = - x j := by
    rw [Finset.sum_eq_single j]
    · simp
    · intro k _ hk; simp [hk]
    · intro h; exact absurd (Finset.mem_range.mpr hj) h
  rw [this]
  show l ≤ x j ↔ - x j ≤ -l
  constructor <;> intro h <;> linarith

/-- the same program with its rows listed in another order (`σ` a permutation of `0..nr-1`, `τ` its inverse) -/
def permRows (P : LinProg K) (σ : ℕ → ℕ) : LinProg K :=
  { P with a := fun i j => P.a (σ i) j, b := fun i => P.b (σ i), eq := fun i => P.eq (σ i) }

/-- any order of declaring the constraints: the feasible set is unchanged -/
theorem perm_rows_feas (P : LinProg K) (σ τ : ℕ → ℕ)
    (hσ : ∀ i < P.nr, σ i < P.nr) (hτ : ∀ i < P.nr, τ i < P.nr ∧ σ (τ i) = i) (x : ℕ → K) :
    (permRows P σ).Feas x ↔ P.Feas x := by
  constructor
  · intro h
    refine ⟨?_, h.ubs, h.lbs⟩
    intro i hi
    obtain ⟨ht, hst⟩ := hτ i hi
    have := h.rows (τ i) ht
    have h2 : if P.eq (σ (τ i)) then P.row (σ (τ i)) x = P.b (σ (τ i)) else P.row (σ (τ i)) x ≤ P.b (σ (τ i)) := this
    rw [hst] at h2
    exact h2
  · intro h
    refine ⟨?_, h.ubs, h.lbs⟩
    intro i hi
    have := h.rows (σ i) (hσ i hi)
    show if P.eq (σ i) then LinProg.row (permRows P σ) i x = P.b (σ i) else LinProg.row (permRows P σ) i x ≤ P.b (σ i)
    exact this

/-- `min f` versus `-max -f`: if `v` is the least value of `f` over a set then `-v` is the greatest value of `-f`
(and the reported optimum `sign·objval` is the same number) -/
theorem min_max_neg {α : Type} (S : α → Prop) (f : α → K) (v : K) :
    ((∃ a, S a ∧ f a = v) ∧ ∀ a, S a → v ≤ f a) ↔ ((∃ a, S a ∧ -f a = -v) ∧ ∀ a, S a → -f a ≤ -v) := by
  constructor
  · rintro ⟨⟨a, ha, hv⟩, hmin⟩
    exact ⟨⟨a, ha, by rw [hv]⟩, fun b hb => by have := hmin b hb; linarith⟩
  · rintro ⟨⟨a, ha, hv⟩, hmax⟩
    exact ⟨⟨a, ha, by linarith⟩, fun b hb => by have := hmax b hb; linarith⟩

/-- closure under composition: rewrites that preserve feasibility compose -/
theorem rewrites_compose {P Q R : (ℕ → K) → Prop} (h1 : ∀ x, P x ↔ Q x) (h2 : ∀ x, Q x ↔ R x) : ∀ x, P x ↔ R x :=
  fun x => (h1 x).trans (h2 x)

example : (3 : ℚ) * 2 ≤ 3 * 5 ↔ (2 : ℚ) ≤ 5 := scale_row_iff 3 2 5 (by norm_num)

end RsomeV.C15
