import RsomeV.M.Export
import RsomeV.L.ExportLemmas

/-! # C16 — the LP-format text determines the program

Model: `RsomeV/M/Export.lean` (`ExProg`, `render`, `renderLines`, `parseLines`, `parseText`,
`toParsed`, `ExProg.WF`); helper lemmas: `RsomeV/L/ExportLemmas.lean`; differential test against
`LinProg.lp_export` / `SOCProg.lp_export`: `test_export.py` (driver op `lp_render`).

Numbers are abstract tokens (`str(abs(coeff))`, `'{}'.format(const[i])`, …).  The theorems say that
the *layout* emitted by `lp_export` loses nothing: from the text one reads back every objective term
(zero coefficients are not printed, so they are the one thing lost), every stored row entry with its
sign, token and column, every sense, right-hand side, bound pair, the integer and binary column sets
and every cone. -/

namespace RsomeV.C16
open RsomeV.Export

/-- `render` is by definition `'\n'.join(' '.join(words) for words in renderLines p)`. -/
theorem render_eq_unlines_unwords (p : ExProg) :
    render p = "\n".intercalate ((renderLines p).map fun ws => " ".intercalate ws) := rfl

/-- a small SOCP-shaped program: `min x1 - 2.5 x3` (a stored zero objective entry for `x2`),
one cone `x3² + x4² ≤ x2²`, rows `- 1.0 x1 + 0.0 x2 <= 1.0` (explicit stored zero) and the empty row
`= -0.0`, four columns of types `C I B C`. -/
def exProg : ExProg where
  obj := [⟨false, false, "1.0"⟩, ⟨false, true, "0.0"⟩, ⟨true, false, "2.5"⟩, ⟨false, true, "0.0"⟩]
  rows := [[(⟨true, false, "1.0"⟩, 0), (⟨false, true, "0.0"⟩, 1)], []]
  sense := [false, true]
  const := ["1.0", "-0.0"]
  lb := ["-inf", "0.0", "0.0", "-inf"]
  ub := ["inf", "inf", "1.0", "1e+20"]
  vtype := ['C', 'I', 'B', 'C']
  qmat := [[1, 2, 3]]

/-- `exProg` is well-formed (so `WF` is not vacuous) -/
example : exProg.WF := by decide

set_option maxRecDepth 20000 in
/-- the text of `exProg`, character for character what `SOCProg.lp_export` returns -/
example : render exProg =
    "Minimize\n obj: 1.0 x1 - 2.5 x3\nSubject To\n q1: [ x3 ^2 + x4 ^2 - x2 ^2 ] <= 0\n" ++
    " c1: - 1.0 x1 + 0.0 x2 <= 1.0\n c2:  = -0.0\nBounds\n-inf <= x1 <= inf\n0.0 <= x2 <= inf\n" ++
    "0.0 <= x3 <= 1.0\n-inf <= x4 <= 1e+20\nGeneral\n x2\nBinary\n x3\nEnd" := by decide

/-- **`lp_roundtrip`** (line / word level): parsing the lines emitted for a well-formed program gives
back the program, zero objective coefficients dropped (`toParsed`).  Of `WF` only `GoodTok … ≠ "-"`
for the first printed token of each expression and the non-emptiness of the cones are used here. -/
theorem lp_roundtrip (p : ExProg) (h : p.WF) : parseLines (renderLines p) = some (toParsed p) :=
  have ok := toParsed_ok h
  parseLines_parsedLines (toParsed p) ok.firstOk_obj ok.firstOk_rows ok.cones

example : parseLines (renderLines exProg) = some (toParsed exProg) := by decide

/-- the objective of the example is read back without its two zero entries -/
example : (toParsed exProg).obj = [⟨false, "1.0", 0⟩, ⟨true, "2.5", 2⟩] := by decide

/-- **`split_render`**: cutting the text at newlines and blanks gives back exactly the line / word
structure (this is where "tokens contain no blank and no newline" is used). -/
theorem split_render (p : ExProg) (h : p.WF) : splitText (render p) = renderLines p :=
  splitText_unlinesWords _ (parsedLines_ne_nil _) (clean_parsedLines _ (toParsed_ok h))

/-- **`lp_roundtrip_text`** (character level): parsing the *text* returned by `lp_export()` gives back
the program, zero objective coefficients dropped. -/
theorem lp_roundtrip_text (p : ExProg) (h : p.WF) : parseText (render p) = some (toParsed p) := by
  unfold parseText
  rw [split_render p h, lp_roundtrip p h]

set_option maxRecDepth 20000 in
example : parseText (render exProg) = some (toParsed exProg) := by decide

/-- **`render_injective`**: two well-formed programs with the same text have the same content. -/
theorem render_injective (p q : ExProg) (hp : p.WF) (hq : q.WF) (h : render p = render q) :
    toParsed p = toParsed q := by
  have := lp_roundtrip_text p hp
  rw [h, lp_roundtrip_text q hq] at this
  exact (Option.some.inj this).symm

/-- the same on the line level -/
theorem renderLines_injective (p q : ExProg) (hp : p.WF) (hq : q.WF)
    (h : renderLines p = renderLines q) : toParsed p = toParsed q := by
  have := lp_roundtrip p hp
  rw [h, lp_roundtrip q hq] at this
  exact (Option.some.inj this).symm

/-- **`toParsed_determines`**: what `toParsed` keeps.  For well-formed programs equal content means:
the same non-zero objective terms (sign, token, column), the same stored entries (sign, token, column)
in every row, and *equal* senses, right-hand sides, bounds, type letters and cones. -/
theorem toParsed_determines (p q : ExProg) (hp : p.WF) (hq : q.WF) (h : toParsed p = toParsed q) :
    objTermsFrom 0 p.obj = objTermsFrom 0 q.obj ∧
    p.rows.map rowTerms = q.rows.map rowTerms ∧
    p.sense = q.sense ∧ p.const = q.const ∧ p.lb = q.lb ∧ p.ub = q.ub ∧
    p.vtype = q.vtype ∧ p.qmat = q.qmat := by
  have e1 : objTermsFrom 0 p.obj = objTermsFrom 0 q.obj := congrArg Parsed.obj h
  have e2 : p.qmat = q.qmat := congrArg Parsed.cones h
  have e3 : zipRows p.rows p.sense p.const = zipRows q.rows q.sense q.const := congrArg Parsed.rows h
  have e4 : p.lb.zip p.ub = q.lb.zip q.ub := congrArg Parsed.bounds h
  have e5 : idxWhereFrom 'I' 0 p.vtype = idxWhereFrom 'I' 0 q.vtype := congrArg Parsed.ints h
  have e6 : idxWhereFrom 'B' 0 p.vtype = idxWhereFrom 'B' 0 q.vtype := congrArg Parsed.bins h
  obtain ⟨r1, r2, r3⟩ := zipRows_inj hp.len_sense hp.len_const hq.len_sense hq.len_const e3
  obtain ⟨b1, b2⟩ := zip_inj (hp.len_lb.trans hp.len_ub.symm) (hq.len_lb.trans hq.len_ub.symm) e4
  have hl : p.vtype.length = q.vtype.length := by rw [← hp.len_lb, ← hq.len_lb, b1]
  exact ⟨e1, r1, r2, r3, b1, b2, vtype_determined _ _ 0 hl hp.vtype_ok hq.vtype_ok e5 e6, e2⟩

/-- **`text_determines`**: `render_injective` and `toParsed_determines` together — the text fixes the
program up to objective zeros (and the zero flags of row entries, whose tokens are printed anyway). -/
theorem text_determines (p q : ExProg) (hp : p.WF) (hq : q.WF) (h : render p = render q) :
    objTermsFrom 0 p.obj = objTermsFrom 0 q.obj ∧
    p.rows.map rowTerms = q.rows.map rowTerms ∧
    p.sense = q.sense ∧ p.const = q.const ∧ p.lb = q.lb ∧ p.ub = q.ub ∧
    p.vtype = q.vtype ∧ p.qmat = q.qmat :=
  toParsed_determines p q hp hq (render_injective p q hp hq h)

set_option maxRecDepth 20000 in
/-- objective zeros are really lost: two well-formed programs, different objectives, same text -/
example :
    let p : ExProg := { exProg with obj := [⟨false, false, "1.0"⟩, ⟨false, true, "0.0"⟩,
      ⟨true, false, "2.5"⟩, ⟨true, true, "0.0"⟩] }
    p ≠ exProg ∧ render p = render exProg := by decide

/-! ## the sections separately (the lemmas the composition is made of) -/

/-- objective / left-hand side of a row -/
theorem lp_roundtrip_obj (ts : List Term) (h : ∀ t ∈ ts, GoodTok t.tok) :
    parseLhs (lhsWords ts) = some ts :=
  parseLhs_lhsWords ts (fun t ht _ => (h t (List.mem_of_mem_head? ht)).ne_minus)

/-- the block of linear rows, followed by anything that is not a ` c{k}:` line -/
theorem lp_roundtrip_rows (rs : List PRow) (i : Nat) (tail : List (List String))
    (h : ∀ r ∈ rs, ∀ t ∈ r.terms, GoodTok t.tok)
    (hstop : ∀ k, parseRows k tail = some ([], tail)) :
    parseRows i (rowLinesFrom i rs ++ tail) = some (rs, tail) :=
  parseRows_block rs i tail
    (fun r hr t ht _ => (h r hr t (List.mem_of_mem_head? ht)).ne_minus) hstop

/-- the block of `Bounds` lines -/
theorem lp_roundtrip_bounds (bs : List (String × String)) (i : Nat) (tail : List (List String))
    (hstop : ∀ k, parseBounds k tail = ([], tail)) :
    parseBounds i (boundLinesFrom i bs ++ tail) = (bs, tail) :=
  parseBounds_block bs i tail hstop

/-- a `General` / `Binary` section -/
theorem lp_roundtrip_types (kw : String) (idx : List Nat) (tail : List (List String))
    (hkw : parseSection kw tail = some ([], tail)) (hstop : parseNames tail = ([], tail)) :
    parseSection kw (typeSection kw idx ++ tail) = some (idx, tail) :=
  parseSection_block kw idx tail hkw hstop

/-- the block of quadratic rows -/
theorem lp_roundtrip_cones (qs : List (List Nat)) (i : Nat) (tail : List (List String))
    (hok : ∀ q ∈ qs, q ≠ []) (hstop : ∀ k, parseCones k tail = some ([], tail)) :
    parseCones i (coneLinesFrom i qs ++ tail) = some (qs, tail) :=
  parseCones_block qs i tail hok hstop

end RsomeV.C16
