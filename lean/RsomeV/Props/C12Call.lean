import RsomeV.M.Assign
import Mathlib.Algebra.BigOperators.Group.Finset.Basic
import Mathlib.Data.List.Perm.Basic
import Mathlib.Tactic.Ring

/-! # C12 (calls) — bi-affine expressions / decision rules evaluated at assigned realisations

Theorems about `RsomeV/M/Assign.lean` (the model of `z.assign(..)`, `z[idx].assign(..)` and of
`RoAffine.__call__`, `DecRoAffine.__call__`, `DecAffine.__call__(*args)`). -/

namespace RsomeV.C12Call
open RsomeV.Assign

/-! ## what a list of cells / of arguments says about one position -/

/-- the value of the LAST cell of `cs` at position `j` -/
def lookupCells : List (ℕ × ℚ) → ℕ → Option ℚ
  | [], _ => none
  | c :: cs, j => (lookupCells cs j).or (if c.1 = j then some c.2 else none)

/-- the value the LAST argument that mentions `j` gives to `j` -/
def lookupArgs : List Arg → ℕ → Option ℚ
  | [], _ => none
  | a :: as, j => (lookupArgs as j).or (lookupCells a.cells j)

theorem setCells_eq (r : ℕ → ℚ) (cs : List (ℕ × ℚ)) (j : ℕ) :
    setCells r cs j = (lookupCells cs j).getD (r j) := by
  induction cs generalizing r with
  | nil => rfl
  | cons c cs ih =>
    rw [setCells, ih, lookupCells]
    cases h : lookupCells cs j with
    | some v => simp
    | none =>
      by_cases hc : c.1 = j
      · subst hc; simp
      · have : j ≠ c.1 := fun h => hc h.symm
        simp [hc, Function.update_of_ne this]

theorem foldl_apply_eq (r : ℕ → ℚ) (args : List Arg) (j : ℕ) :
    args.foldl Arg.apply r j = (lookupArgs args j).getD (r j) := by
  induction args generalizing r with
  | nil => rfl
  | cons a as ih =>
    rw [List.foldl_cons, ih, lookupArgs, Arg.apply, setCells_eq]
    cases lookupArgs as j <;> simp

/-- closed form of `buildRvec` -/
theorem buildRvec_eq (nrand : ℕ) (args : List Arg) (j : ℕ) :
    buildRvec nrand args j = if j < nrand then (lookupArgs args j).getD 0 else 0 := by
  unfold buildRvec
  split
  · rw [foldl_apply_eq]
  · rfl

theorem lookupCells_eq_none {cs : List (ℕ × ℚ)} {j : ℕ} :
    lookupCells cs j = none ↔ j ∉ cs.map Prod.fst := by
  induction cs with
  | nil => simp [lookupCells]
  | cons c cs ih =>
    simp only [lookupCells, Option.or_eq_none_iff, ih, List.map_cons, List.mem_cons, not_or]
    constructor
    · rintro ⟨h1, h2⟩
      refine ⟨?_, h1⟩
      intro h; simp [h] at h2
    · rintro ⟨h1, h2⟩
      refine ⟨h2, ?_⟩
      have : ¬ c.1 = j := fun h => h1 h.symm
      simp [this]

theorem lookupCells_some_mem {cs : List (ℕ × ℚ)} {j : ℕ} {v : ℚ} (h : lookupCells cs j = some v) :
    (j, v) ∈ cs := by
  induction cs with
  | nil => simp [lookupCells] at h
  | cons c cs ih =>
    rw [lookupCells, Option.or_eq_some_iff] at h
    rcases h with h | ⟨_, h⟩
    · exact List.mem_cons_of_mem _ (ih h)
    · by_cases hc : c.1 = j
      · simp only [hc, if_true, Option.some.injEq] at h
        have : c = (j, v) := Prod.ext hc h
        simp [this]
      · simp [hc] at h

theorem lookupCells_append (cs ds : List (ℕ × ℚ)) (j : ℕ) :
    lookupCells (cs ++ ds) j = (lookupCells ds j).or (lookupCells cs j) := by
  induction cs with
  | nil => simp [lookupCells]
  | cons c cs ih => simp [lookupCells, ih, Option.or_assoc]

/-- a cell that no later cell of the same argument overwrites is the one that counts -/
theorem lookupCells_last {c1 c2 : List (ℕ × ℚ)} {j : ℕ} (v : ℚ) (h : j ∉ c2.map Prod.fst) :
    lookupCells (c1 ++ (j, v) :: c2) j = some v := by
  rw [lookupCells_append, lookupCells, lookupCells_eq_none.mpr h]
  simp

theorem lookupCells_nodup {cs : List (ℕ × ℚ)} {j : ℕ} {v : ℚ} (hn : (cs.map Prod.fst).Nodup)
    (h : (j, v) ∈ cs) : lookupCells cs j = some v := by
  obtain ⟨c1, c2, rfl⟩ := List.append_of_mem h
  apply lookupCells_last
  simp only [List.map_append, List.map_cons] at hn
  have := (List.nodup_append.mp hn).2.1
  exact (List.nodup_cons.mp this).1

theorem lookupArgs_append (as bs : List Arg) (j : ℕ) :
    lookupArgs (as ++ bs) j = (lookupArgs bs j).or (lookupArgs as j) := by
  induction as with
  | nil => simp [lookupArgs]
  | cons a as ih => simp [lookupArgs, ih, Option.or_assoc]

theorem lookupArgs_eq_none {args : List Arg} {j : ℕ} :
    lookupArgs args j = none ↔ ∀ a ∈ args, j ∉ a.pos := by
  induction args with
  | nil => simp [lookupArgs]
  | cons a as ih =>
    simp only [lookupArgs, Option.or_eq_none_iff, ih, lookupCells_eq_none, List.mem_cons, forall_eq_or_imp]
    exact ⟨fun ⟨h1, h2⟩ => ⟨h2, h1⟩, fun ⟨h1, h2⟩ => ⟨h2, h1⟩⟩

theorem lookupArgs_some_mem {args : List Arg} {j : ℕ} {v : ℚ} (h : lookupArgs args j = some v) :
    ∃ a ∈ args, (j, v) ∈ a.cells := by
  induction args with
  | nil => simp [lookupArgs] at h
  | cons a as ih =>
    rw [lookupArgs, Option.or_eq_some_iff] at h
    rcases h with h | ⟨_, h⟩
    · obtain ⟨b, hb, hc⟩ := ih h
      exact ⟨b, List.mem_cons_of_mem _ hb, hc⟩
    · exact ⟨a, List.mem_cons_self, lookupCells_some_mem h⟩

/-- `buildRvec` depends on the arguments only through `lookupArgs` -/
theorem buildRvec_congr {nrand : ℕ} {as bs : List Arg} (h : ∀ j, lookupArgs as j = lookupArgs bs j) :
    buildRvec nrand as = buildRvec nrand bs := by
  funext j
  rw [buildRvec_eq, buildRvec_eq, h]

/-- the driver's arguments (`Arg.mk' pos vals`, equal lengths) have exactly the positions / values sent -/
theorem mk'_pos (ps : List ℕ) (vs : List ℚ) (h : ps.length = vs.length) : (Arg.mk' ps vs).pos = ps := by
  simp [Arg.mk', Arg.pos, List.map_fst_zip, h]

theorem mk'_vals (ps : List ℕ) (vs : List ℚ) (h : ps.length = vs.length) : (Arg.mk' ps vs).vals = vs := by
  simp [Arg.mk', Arg.vals, List.map_snd_zip, h]

/-! ## the theorems of the task -/

/-- **`buildRvec_unassigned`**: a position no argument mentions is `0` (also: every position `≥ nrand`). -/
theorem buildRvec_unassigned (nrand : ℕ) (args : List Arg) (j : ℕ) (h : ∀ a ∈ args, j ∉ a.pos) :
    buildRvec nrand args j = 0 := by
  rw [buildRvec_eq, lookupArgs_eq_none.mpr h]
  simp

theorem buildRvec_out_of_range (nrand : ℕ) (args : List Arg) (j : ℕ) (h : nrand ≤ j) :
    buildRvec nrand args j = 0 := by
  rw [buildRvec_eq, if_neg (by omega)]

/-- **`buildRvec_last_wins`**: position `j` holds the value of the LAST cell of the LAST argument that mentions it:
`a` is followed by arguments `post` that do not mention `j`, and inside `a` the cell `(j, v)` is followed by cells
`c2` at other positions (a fancy index may repeat a position: NumPy keeps the last value). Whatever comes before
(`pre`, `c1`) is irrelevant. -/
theorem buildRvec_last_wins (nrand : ℕ) (pre post : List Arg) (a : Arg) (c1 c2 : List (ℕ × ℚ)) (j : ℕ) (v : ℚ)
    (hj : j < nrand) (ha : a.cells = c1 ++ (j, v) :: c2) (hc2 : j ∉ c2.map Prod.fst)
    (hpost : ∀ b ∈ post, j ∉ b.pos) :
    buildRvec nrand (pre ++ a :: post) j = v := by
  rw [buildRvec_eq, if_pos hj, lookupArgs_append, lookupArgs, lookupArgs_eq_none.mpr hpost, ha,
    lookupCells_last v hc2]
  simp

/-- `buildRvec_last_wins` for an argument without repeated positions (every basic slice, every whole variable) -/
theorem buildRvec_last_wins_nodup (nrand : ℕ) (pre post : List Arg) (a : Arg) (j : ℕ) (v : ℚ)
    (hj : j < nrand) (hn : a.pos.Nodup) (ha : (j, v) ∈ a.cells) (hpost : ∀ b ∈ post, j ∉ b.pos) :
    buildRvec nrand (pre ++ a :: post) j = v := by
  rw [buildRvec_eq, if_pos hj, lookupArgs_append, lookupArgs, lookupArgs_eq_none.mpr hpost,
    lookupCells_nodup hn ha]
  simp

/-- **`buildRvec_slice_only`**: a (slice) argument changes only its own positions: at every other position the
vector is what it is without that argument, wherever the argument stands in the list. -/
theorem buildRvec_slice_only (nrand : ℕ) (pre post : List Arg) (a : Arg) (j : ℕ) (h : j ∉ a.pos) :
    buildRvec nrand (pre ++ a :: post) j = buildRvec nrand (pre ++ post) j := by
  rw [buildRvec_eq, buildRvec_eq, lookupArgs_append, lookupArgs_append, lookupArgs,
    lookupCells_eq_none.mpr h]
  simp

/-- the general form of `buildRvec_split`: slices whose cells are cells of `w` and which together mention every
position of `w` (they may overlap, stand in any order and repeat cells) act as `w`. -/
theorem buildRvec_split_of_cover (nrand : ℕ) (pre post : List Arg) (w : Arg) (slices : List Arg)
    (hw : w.pos.Nodup) (hsub : ∀ s ∈ slices, ∀ c ∈ s.cells, c ∈ w.cells)
    (hcov : ∀ p ∈ w.pos, ∃ s ∈ slices, p ∈ s.pos) :
    buildRvec nrand (pre ++ slices ++ post) = buildRvec nrand (pre ++ w :: post) := by
  apply buildRvec_congr
  intro j
  have key : lookupArgs slices j = lookupCells w.cells j := by
    cases h : lookupArgs slices j with
    | some v =>
      obtain ⟨s, hs, hc⟩ := lookupArgs_some_mem h
      exact (lookupCells_nodup hw (hsub s hs _ hc)).symm
    | none =>
      symm
      rw [lookupCells_eq_none]
      intro hp
      obtain ⟨s, hs, hps⟩ := hcov j hp
      exact (lookupArgs_eq_none.mp h) s hs hps
  rw [List.append_assoc, lookupArgs_append, lookupArgs_append, lookupArgs_append, lookupArgs, key]

/-- **`buildRvec_split`**: a whole-variable argument `w` (no repeated position) equals any list of slice arguments
whose cells together are a rearrangement of the cells of `w` (the position lists partition the positions of `w`
and carry the same values), at the same place of the argument list. -/
theorem buildRvec_split (nrand : ℕ) (pre post : List Arg) (w : Arg) (slices : List Arg)
    (hw : w.pos.Nodup) (hperm : (slices.flatMap Arg.cells).Perm w.cells) :
    buildRvec nrand (pre ++ slices ++ post) = buildRvec nrand (pre ++ w :: post) := by
  apply buildRvec_split_of_cover nrand pre post w slices hw
  · intro s hs c hc
    exact hperm.subset (List.mem_flatMap.mpr ⟨s, hs, hc⟩)
  · intro p hp
    obtain ⟨c, hc, rfl⟩ := List.mem_map.mp hp
    obtain ⟨s, hs, hcs⟩ := List.mem_flatMap.mp (hperm.symm.subset hc)
    exact ⟨s, hs, List.mem_map.mpr ⟨c, hcs, rfl⟩⟩

theorem lookup_swap (a b : Arg) (j : ℕ) (h : List.Disjoint a.pos b.pos) :
    lookupArgs [a, b] j = lookupArgs [b, a] j := by
  simp only [lookupArgs, Option.none_or]
  by_cases ha : j ∈ a.pos
  · have hb : j ∉ b.pos := fun hb => h ha hb
    rw [lookupCells_eq_none.mpr hb]; simp
  · rw [lookupCells_eq_none.mpr ha]; simp

/-- **`buildRvec_comm`**: two neighbouring arguments with disjoint position sets commute. -/
theorem buildRvec_comm (nrand : ℕ) (pre post : List Arg) (a b : Arg) (h : List.Disjoint a.pos b.pos) :
    buildRvec nrand (pre ++ a :: b :: post) = buildRvec nrand (pre ++ b :: a :: post) := by
  apply buildRvec_congr
  intro j
  have e1 : pre ++ a :: b :: post = pre ++ ([a, b] ++ post) := by simp
  have e2 : pre ++ b :: a :: post = pre ++ ([b, a] ++ post) := by simp
  rw [e1, e2, lookupArgs_append, lookupArgs_append, lookupArgs_append, lookupArgs_append, lookup_swap a b j h]

/-- arguments with pairwise disjoint position sets may be given in ANY order -/
theorem buildRvec_perm (nrand : ℕ) {as bs : List Arg} (hp : as.Perm bs)
    (hd : as.Pairwise (fun a b => List.Disjoint a.pos b.pos)) :
    buildRvec nrand as = buildRvec nrand bs := by
  apply buildRvec_congr
  intro j
  induction hp with
  | nil => rfl
  | cons x _ ih =>
    rw [lookupArgs, lookupArgs, ih (List.pairwise_cons.mp hd).2]
  | swap x y l =>
    have hxy : List.Disjoint y.pos x.pos := (List.pairwise_cons.mp hd).1 x (by simp)
    have := lookup_swap y x j hxy
    simp only [lookupArgs, Option.none_or] at this ⊢
    rw [Option.or_assoc, Option.or_assoc, this]
  | trans h1 _ ih1 ih2 =>
    rw [ih1 hd, ih2 ((h1.pairwise_iff (fun h => List.Disjoint.symm h)).mp hd)]

/-! ## the value -/

theorem dotRow_eq_sum (nrand : ℕ) (row rvec : ℕ → ℚ) :
    dotRow nrand row rvec = ∑ j ∈ Finset.range nrand, row j * rvec j := by
  unfold dotRow
  induction nrand with
  | zero => simp
  | succ n ih => rw [List.range_succ, List.foldl_append, ih, Finset.sum_range_succ]; rfl

/-- **`roCall_eq_numpy`**: entry `k` of the result is `Σ_j coef[k][j] * rvec[j] + det[k]`
(`(raffine_value @ rvec[:nrand]).reshape(shape) + affine_value`). -/
theorem roCall_eq_numpy (nrand : ℕ) (coef : ℕ → ℕ → ℚ) (det : ℕ → ℚ) (args : List Arg) (k : ℕ) :
    roCall nrand coef det args k = ∑ j ∈ Finset.range nrand, coef k j * buildRvec nrand args j + det k := by
  rw [roCall, dotRow_eq_sum]

/-- if the arguments describe the realisation `z` (every position `< nrand` holds `z j`), the result is the
bi-affine expression evaluated at `z` -/
theorem roCall_at_realisation (nrand : ℕ) (coef : ℕ → ℕ → ℚ) (det : ℕ → ℚ) (args : List Arg) (z : ℕ → ℚ)
    (h : ∀ j < nrand, buildRvec nrand args j = z j) (k : ℕ) :
    roCall nrand coef det args k = ∑ j ∈ Finset.range nrand, coef k j * z j + det k := by
  rw [roCall_eq_numpy]
  congr 1
  exact Finset.sum_congr rfl fun j hj => by rw [h j (Finset.mem_range.mp hj)]

/-- without arguments the result is the deterministic part -/
theorem roCall_nil (nrand : ℕ) (coef : ℕ → ℕ → ℚ) (det : ℕ → ℚ) (k : ℕ) : roCall nrand coef det [] k = det k := by
  rw [roCall_eq_numpy]
  simp [buildRvec_unassigned]

/-- the value does not change when a whole-variable argument is given slice by slice -/
theorem roCall_split (nrand : ℕ) (coef : ℕ → ℕ → ℚ) (det : ℕ → ℚ) (pre post : List Arg) (w : Arg)
    (slices : List Arg) (hw : w.pos.Nodup) (hperm : (slices.flatMap Arg.cells).Perm w.cells) (k : ℕ) :
    roCall nrand coef det (pre ++ slices ++ post) k = roCall nrand coef det (pre ++ w :: post) k := by
  rw [roCall, roCall, buildRvec_split nrand pre post w slices hw hperm]

/-- the value does not depend on the order of arguments with pairwise disjoint position sets -/
theorem roCall_perm (nrand : ℕ) (coef : ℕ → ℕ → ℚ) (det : ℕ → ℚ) {as bs : List Arg} (hp : as.Perm bs)
    (hd : as.Pairwise (fun a b => List.Disjoint a.pos b.pos)) (k : ℕ) :
    roCall nrand coef det as k = roCall nrand coef det bs k := by
  rw [roCall, roCall, buildRvec_perm nrand hp hd]

/-! ## scenario-wise -/

theorem foldl_update_row (f : ℕ → (ℕ → ℚ) → ℕ → ℚ) (l : List ℕ) (hl : l.Nodup) (T : ℕ → ℕ → ℚ) (s : ℕ) :
    l.foldl (fun T i => Function.update T i (f i (T i))) T s = if s ∈ l then f s (T s) else T s := by
  induction l generalizing T with
  | nil => simp
  | cons i l ih =>
    rw [List.foldl_cons, ih (List.nodup_cons.mp hl).2]
    have hi : i ∉ l := (List.nodup_cons.mp hl).1
    by_cases hs : s = i
    · subst hs; simp [hi]
    · simp [hs]

/-- one pass of the loop of `DecRoAffine.__call__` gives row `s` what `RoAffine.__call__` would give it with the
argument restricted to scenario `s` -/
theorem stepSw_row (nscen : ℕ) (T : ℕ → ℕ → ℚ) (a : SwArg) (s : ℕ) (hs : s < nscen) :
    stepSw nscen T a s = (a.at s).apply (T s) := by
  unfold stepSw SwArg.at
  cases a.sw with
  | false => simp
  | true =>
    simp only [if_true]
    rw [foldl_update_row (fun i r => (a.scen i).apply r) _ List.nodup_range]
    simp [hs]

theorem foldl_stepSw_row (nscen : ℕ) (args : List SwArg) (T : ℕ → ℕ → ℚ) (s : ℕ) (hs : s < nscen) :
    args.foldl (stepSw nscen) T s = (args.map (·.at s)).foldl Arg.apply (T s) := by
  induction args generalizing T with
  | nil => rfl
  | cons a as ih => rw [List.foldl_cons, ih, List.map_cons, List.foldl_cons, stepSw_row nscen T a s hs]

/-- **scenario-wise analogue, the vector**: row `s` of the table `rvecs` is the vector `RoAffine.__call__` builds from
the `s`-th realisation of every `sw` argument and the common realisation of the others, in the order given. -/
theorem buildRvecsSw_row (nscen nrand : ℕ) (args : List SwArg) (s : ℕ) (hs : s < nscen) :
    buildRvecsSw nscen nrand args s = buildRvec nrand (args.map (·.at s)) := by
  funext j
  unfold buildRvecsSw buildRvec
  rw [foldl_stepSw_row nscen args _ s hs]

/-- **scenario-wise analogue, the value**: scenario `s` gets `Σ_j coef_s[k][j] * rvec_s[j] + det_s[k]` with `rvec_s`
as in `buildRvecsSw_row`. -/
theorem droCall_eq_numpy (nscen nrand : ℕ) (coef : ℕ → ℕ → ℕ → ℚ) (det : ℕ → ℕ → ℚ) (args : List SwArg)
    (s k : ℕ) (hs : s < nscen) :
    droCall nscen nrand coef det args s k =
      ∑ j ∈ Finset.range nrand, coef s k j * buildRvec nrand (args.map (·.at s)) j + det s k := by
  rw [droCall, dotRow_eq_sum, buildRvecsSw_row nscen nrand args s hs]

/-- the two dro code paths (`DecRoAffine.__call__` with its table, `DecAffine.__call__` scenario by scenario)
compute the same numbers -/
theorem droCall_eq_decCall (nscen nrand : ℕ) (coef : ℕ → ℕ → ℕ → ℚ) (det : ℕ → ℕ → ℚ) (args : List SwArg)
    (s k : ℕ) (hs : s < nscen) :
    droCall nscen nrand coef det args s k = decCall nrand coef det args s k := by
  rw [droCall, decCall, roCall, buildRvecsSw_row nscen nrand args s hs]

/-- a position last mentioned by a scenario-wise argument holds, in scenario `s`, the `s`-th realisation -/
theorem buildRvecsSw_sees_scenario (nscen nrand : ℕ) (pre post : List SwArg) (a : SwArg) (s j : ℕ) (v : ℚ)
    (hs : s < nscen) (hj : j < nrand) (hsw : a.sw = true) (hn : (a.scen s).pos.Nodup)
    (ha : (j, v) ∈ (a.scen s).cells) (hpost : ∀ b ∈ post, j ∉ (b.at s).pos) :
    buildRvecsSw nscen nrand (pre ++ a :: post) s j = v := by
  rw [buildRvecsSw_row nscen nrand _ s hs, List.map_append, List.map_cons]
  apply buildRvec_last_wins_nodup nrand _ _ _ j v hj
  · simpa [SwArg.at, hsw] using hn
  · simpa [SwArg.at, hsw] using ha
  · intro b hb
    obtain ⟨b', hb', rfl⟩ := List.mem_map.mp hb
    exact hpost b' hb'

/-- a position last mentioned by a plain argument holds the common value in every scenario -/
theorem buildRvecsSw_sees_common (nscen nrand : ℕ) (pre post : List SwArg) (a : SwArg) (s j : ℕ) (v : ℚ)
    (hs : s < nscen) (hj : j < nrand) (hsw : a.sw = false) (hn : a.common.pos.Nodup)
    (ha : (j, v) ∈ a.common.cells) (hpost : ∀ b ∈ post, j ∉ (b.at s).pos) :
    buildRvecsSw nscen nrand (pre ++ a :: post) s j = v := by
  rw [buildRvecsSw_row nscen nrand _ s hs, List.map_append, List.map_cons]
  apply buildRvec_last_wins_nodup nrand _ _ _ j v hj
  · simpa [SwArg.at, hsw] using hn
  · simpa [SwArg.at, hsw] using ha
  · intro b hb
    obtain ⟨b', hb', rfl⟩ := List.mem_map.mp hb
    exact hpost b' hb'

/-- without scenario-wise arguments every scenario sees the same vector -/
theorem buildRvecsSw_plain (nscen nrand : ℕ) (args : List SwArg) (h : ∀ a ∈ args, a.sw = false) (s t : ℕ)
    (hs : s < nscen) (ht : t < nscen) :
    buildRvecsSw nscen nrand args s = buildRvecsSw nscen nrand args t := by
  rw [buildRvecsSw_row _ _ _ _ hs, buildRvecsSw_row _ _ _ _ ht]
  congr 1
  apply List.map_congr_left
  intro a ha
  simp [SwArg.at, h a ha]

/-- the Series answers of the two dro paths differ only for a one-scenario model with a scenario-wise argument
(`DecRoAffine.__call__` returns a Series of length one, `DecAffine.__call__` the bare value) -/
theorem series_paths (nscen : ℕ) (ew : Bool) (args : List SwArg) (h : 1 < nscen) :
    droSeries nscen ew args = decSeries nscen ew args := by
  simp [droSeries, decSeries, h]

/-! ## concrete examples -/

section examples

/-- `z` is 2×3 at positions 0..5, `u` a scalar at 6 -/
private def zAll : Arg := Arg.mk' [0, 1, 2, 3, 4, 5] [1, 2, 3, 4, 5, 6]
/-- `z[:, ::-1][0]` = positions 2, 1, 0 -/
private def zRow0Rev : Arg := Arg.mk' [2, 1, 0] [3, 2, 1]
private def zRow1 : Arg := Arg.mk' [3, 4, 5] [4, 5, 6]
/-- `z[[0, 0, 1], [1, 1, 2]]` with values 7, 8, 9: position 1 twice (8 wins), position 5 -/
private def zFancy : Arg := Arg.mk' [1, 1, 5] [7, 8, 9]
private def uArg : Arg := Arg.mk' [6] [1 / 2]

private def vecOf (n : ℕ) (args : List Arg) : List ℚ := (List.range n).map (buildRvec n args)

example : vecOf 7 [] = [0, 0, 0, 0, 0, 0, 0] := by decide +kernel
example : vecOf 7 [zAll] = [1, 2, 3, 4, 5, 6, 0] := by decide +kernel
example : vecOf 7 [zRow1, uArg, zRow0Rev] = vecOf 7 [zAll, uArg] := by decide +kernel
example : vecOf 7 [zAll, zFancy] = [1, 8, 3, 4, 5, 9, 0] := by decide +kernel
example : vecOf 7 [zFancy, zAll] = [1, 2, 3, 4, 5, 6, 0] := by decide +kernel
/-- columns beyond the coefficient table are dropped -/
example : vecOf 7 [zAll, uArg] = [1, 2, 3, 4, 5, 6, 1 / 2] ∧ buildRvec 6 [zAll, uArg] 6 = 0 := by decide +kernel

/-- `(x * z[0]).sum() + 2 u + 1` with `x = (1, -1, 2)`: coefficients `(1, -1, 2, 0, 0, 0, 2)`, deterministic part 1 -/
private def cf : ℕ → ℕ → ℚ := fun _ j => [1, -1, 2, 0, 0, 0, 2].getD j 0
example : roCall 7 cf (fun _ => 1) [zAll, uArg] 0 = 1 - 2 + 6 + 1 + 1 := by decide +kernel
example : roCall 7 cf (fun _ => 1) [zAll, uArg, zFancy] 0 = 1 - 8 + 6 + 1 + 1 := by decide +kernel
example : roCall 7 cf (fun _ => 1) [] 0 = 1 := by decide +kernel

/-- two scenarios, `z` scenario-wise, `u` common; scenario-wise argument last / first -/
private def zSw : SwArg := ⟨true, ⟨[]⟩, fun s => Arg.mk' [0, 1, 2] (if s = 0 then [1, 1, 1] else [2, 0, -1])⟩
private def uPlain : SwArg := ⟨false, uArg, fun _ => ⟨[]⟩⟩
private def z0Plain : SwArg := ⟨false, Arg.mk' [0] [5], fun _ => ⟨[]⟩⟩
example : (List.range 2).map (fun s => droCall 2 7 (fun _ => cf) (fun _ _ => 1) [zSw, uPlain] s 0) = [4, 2] := by
  decide +kernel
example : (List.range 2).map (fun s => droCall 2 7 (fun _ => cf) (fun _ _ => 1) [uPlain, zSw] s 0) = [4, 2] := by
  decide +kernel
/-- a later plain argument overwrites the scenario-wise one in every scenario -/
example : (List.range 2).map (fun s => droCall 2 7 (fun _ => cf) (fun _ _ => 1) [zSw, z0Plain] s 0) = [7, 4] := by
  decide +kernel
example : droSeries 1 false [zSw] = true ∧ decSeries 1 false [zSw] = false := by decide

end examples

end RsomeV.C12Call
