import RsomeV.M.Lmi
import RsomeV.L.Lmi
import RsomeV.L.ExpCone
import Mathlib.Tactic.FinCases
import Mathlib.Tactic.NormNum
import Mathlib.Tactic.Positivity
import Mathlib.LinearAlgebra.Matrix.Notation

/-! # LMI layer of `gcp.Model.do_math(primal=False)` is a weak dual

Property theorems about the order-faithful model `LmiProg.lmiDual` (`RsomeV/M/Lmi.lean`) of the
positive-semidefinite block of `gcp.Model.do_math(primal=False)`.  Helper lemmas live in
`RsomeV/L/Lmi.lean`.  The model is tied to rsome's code by the differential test `test_lmi.py`
(driver op `lmi_dual`). -/

set_option linter.unusedSectionVars false
set_option linter.unusedVariables false

namespace RsomeV.Lmi
open Finset RsomeV LmiProg Matrix

/-- `0 ≤ tr(X·Y)` for real positive semidefinite `X`, `Y` (self-duality of the PSD cone). -/
theorem psd_trace_mul_nonneg {n : Type} [Fintype n] [DecidableEq n] (X Y : Matrix n n ℝ)
    (hX : X.PosSemidef) (hY : Y.PosSemidef) : 0 ≤ (X * Y).trace :=
  trace_mul_nonneg_of_posSemidef X Y hX hY

/-- **Duality-gap inequality of the LMI layer**, over every linear ordered field and without any
semidefiniteness assumption: the dual value plus the pairing of the dual matrix columns with the
primal LMI matrices is below the primal value.  (`extEntry P.lmi x t` is entry `t` of the stacked
matrices `reshape(linear·x − const)`; `n + t` is the dual column that holds the matching entry of the
dual matrix variable.) -/
theorem lmi_dual_gap {K : Type} [Field K] [LinearOrder K] [IsStrictOrderedRing K]
    (P : LmiProg K) (E : K → K → K → Prop) (hE : ExpPair E) (hwf : P.cone.WF)
    (hc : P.cone.rowsRemoved = true → ∀ q ∈ P.cone.qmat, ∀ j ∈ q, P.cone.lp.c j = 0)
    (hxq : P.cone.rowsRemoved = true → ∀ e ∈ P.cone.xmat, ∀ j ∈ e, j ∉ P.cone.eye)
    (hwd : ∀ B ∈ P.lmi, B.w ≤ P.cone.lp.nc)
    (hlq : P.cone.rowsRemoved = true → ∀ B ∈ P.lmi, ∀ e < B.dim ^ 2, ∀ j ∈ P.cone.eye, B.linP e j = 0)
    (x w : ℕ → K) (hx : P.cone.Feas E x) (hw : P.lmiDual.cone.Feas E w) :
    - P.lmiDual.cone.lp.obj w
      + ∑ t ∈ range (total P.lmi), w (P.cone.coneDual.lp.nc + t) * extEntry P.lmi x t
      ≤ P.cone.lp.obj x :=
  lmiDual_gap P E hE hwf hc hxq hwd hlq x w hx hw

/-- the LMI blocks of the dual sit exactly behind the columns of the conic dual -/
lemma lmiDual_lmi (P : LmiProg ℝ) :
    P.lmiDual.lmi = dualBlocks P.lmi P.cone.coneDual.lp.nc (P.cone.coneDual.lp.nc + total P.lmi) := by
  by_cases hne : P.lmi.isEmpty = true
  · rw [lmiDual_of_empty P hne, List.isEmpty_iff.mp hne]; rfl
  · rw [lmiDual_of_ne P hne]

/-- weak duality for any two readings `Pp` (primal side) / `Pd` (dual side) of "the block is PSD"
whose members pair non-negatively -/
theorem lmi_dual_weak_of_pairing
    (Pp Pd : ∀ d : ℕ, Matrix (Fin d) (Fin d) ℝ → Prop)
    (hpair : ∀ d (X Y : Matrix (Fin d) (Fin d) ℝ), Pp d X → Pd d Y → 0 ≤ frob X Y)
    (P : LmiProg ℝ) (E : ℝ → ℝ → ℝ → Prop) (hE : ExpPair E) (hwf : P.cone.WF)
    (hc : P.cone.rowsRemoved = true → ∀ q ∈ P.cone.qmat, ∀ j ∈ q, P.cone.lp.c j = 0)
    (hxq : P.cone.rowsRemoved = true → ∀ e ∈ P.cone.xmat, ∀ j ∈ e, j ∉ P.cone.eye)
    (hwd : ∀ B ∈ P.lmi, B.w ≤ P.cone.lp.nc)
    (hlq : P.cone.rowsRemoved = true → ∀ B ∈ P.lmi, ∀ e < B.dim ^ 2, ∀ j ∈ P.cone.eye, B.linP e j = 0)
    (x w : ℕ → ℝ) (hx : P.cone.Feas E x) (hxp : ∀ B ∈ P.lmi, Pp B.dim (B.mat x))
    (hw : P.lmiDual.cone.Feas E w) (hwp : ∀ B ∈ P.lmiDual.lmi, Pd B.dim (B.mat w)) :
    - P.lmiDual.cone.lp.obj w ≤ P.cone.lp.obj x := by
  have hgap := lmiDual_gap P E hE hwf hc hxq hwd hlq x w hx hw
  rw [lmiDual_lmi] at hwp
  have hnn := blocks_pairing_nonneg Pp Pd hpair x w (P.cone.coneDual.lp.nc + total P.lmi) P.lmi
    P.cone.coneDual.lp.nc le_rfl hxp hwp
  linarith

/-- **Weak duality of the model of `gcp.Model.do_math(primal=False)` with LMI blocks** (orientation of
`RsomeV.C08.cone_dual_weak`): for every primal-feasible `x` (rows, bounds, second-order and
exponential cones, every LMI matrix `reshape(linear·x − const)` symmetric positive semidefinite) and
every dual-feasible `w` (the same for the program `lmiDual` returns, whose LMI blocks say that the
matrix held by each group of `dim²` new columns is symmetric positive semidefinite), the dual value
`-(dual objective)` is below the primal objective.

Side conditions (beyond `cone_dual_weak`'s `hwf hc hxq`): `hwd` widths, `hlq` no LMI coefficient on a
second-order-cone column in the compact layout.  Columns with upper bound `0` are covered: the
repaired code (commit 19ae405) negates the LMI columns on exactly the dual rows the linear layer
negates (`extEntryCoef`); the former hypothesis `hneg` is gone. -/
theorem lmi_dual_weak (P : LmiProg ℝ) (E : ℝ → ℝ → ℝ → Prop) (hE : ExpPair E) (hwf : P.cone.WF)
    (hc : P.cone.rowsRemoved = true → ∀ q ∈ P.cone.qmat, ∀ j ∈ q, P.cone.lp.c j = 0)
    (hxq : P.cone.rowsRemoved = true → ∀ e ∈ P.cone.xmat, ∀ j ∈ e, j ∉ P.cone.eye)
    (hwd : ∀ B ∈ P.lmi, B.w ≤ P.cone.lp.nc)
    (hlq : P.cone.rowsRemoved = true → ∀ B ∈ P.lmi, ∀ e < B.dim ^ 2, ∀ j ∈ P.cone.eye, B.linP e j = 0)
    (x w : ℕ → ℝ) (hx : P.Feas E x) (hw : P.lmiDual.Feas E w) :
    - P.lmiDual.cone.lp.obj w ≤ P.cone.lp.obj x :=
  lmi_dual_weak_of_pairing (fun _ X => X.PosSemidef) (fun _ Y => Y.PosSemidef)
    (fun _ X Y hX hY => frob_nonneg X Y hX hY) P E hE hwf hc hxq hwd hlq x w
    hx.cone hx.psd hw.cone hw.psd

/-- weak duality when the dual LMI is only read as "symmetric part PSD" (a symmetrising solver
interface; the dual branch adds no symmetry rows for the dual matrix variable) -/
theorem lmi_dual_weak_symDual (P : LmiProg ℝ) (E : ℝ → ℝ → ℝ → Prop) (hE : ExpPair E)
    (hwf : P.cone.WF)
    (hc : P.cone.rowsRemoved = true → ∀ q ∈ P.cone.qmat, ∀ j ∈ q, P.cone.lp.c j = 0)
    (hxq : P.cone.rowsRemoved = true → ∀ e ∈ P.cone.xmat, ∀ j ∈ e, j ∉ P.cone.eye)
    (hwd : ∀ B ∈ P.lmi, B.w ≤ P.cone.lp.nc)
    (hlq : P.cone.rowsRemoved = true → ∀ B ∈ P.lmi, ∀ e < B.dim ^ 2, ∀ j ∈ P.cone.eye, B.linP e j = 0)
    (x w : ℕ → ℝ) (hx : P.Feas E x) (hw : P.lmiDual.FeasSym E w) :
    - P.lmiDual.cone.lp.obj w ≤ P.cone.lp.obj x :=
  lmi_dual_weak_of_pairing (fun _ X => X.PosSemidef) (fun _ Y => (Y + Y.transpose).PosSemidef)
    (fun _ X Y hX hY => frob_nonneg_symPart_right X Y hX hY) P E hE hwf hc hxq hwd hlq x w
    hx.cone hx.psd hw.cone hw.psd

/-- weak duality when the primal LMI is only read as "symmetric part PSD" and the dual matrix is
symmetric PSD -/
theorem lmi_dual_weak_symPrimal (P : LmiProg ℝ) (E : ℝ → ℝ → ℝ → Prop) (hE : ExpPair E)
    (hwf : P.cone.WF)
    (hc : P.cone.rowsRemoved = true → ∀ q ∈ P.cone.qmat, ∀ j ∈ q, P.cone.lp.c j = 0)
    (hxq : P.cone.rowsRemoved = true → ∀ e ∈ P.cone.xmat, ∀ j ∈ e, j ∉ P.cone.eye)
    (hwd : ∀ B ∈ P.lmi, B.w ≤ P.cone.lp.nc)
    (hlq : P.cone.rowsRemoved = true → ∀ B ∈ P.lmi, ∀ e < B.dim ^ 2, ∀ j ∈ P.cone.eye, B.linP e j = 0)
    (x w : ℕ → ℝ) (hx : P.FeasSym E x) (hw : P.lmiDual.Feas E w) :
    - P.lmiDual.cone.lp.obj w ≤ P.cone.lp.obj x :=
  lmi_dual_weak_of_pairing (fun _ X => (X + X.transpose).PosSemidef) (fun _ Y => Y.PosSemidef)
    (fun _ X Y hX hY => frob_nonneg_symPart_left X Y hX hY) P E hE hwf hc hxq hwd hlq x w
    hx.cone hx.psd hw.cone hw.psd

/-- the instance the solvers see: the closed real exponential cone -/
theorem lmi_dual_weak_real (P : LmiProg ℝ) (hwf : P.cone.WF)
    (hc : P.cone.rowsRemoved = true → ∀ q ∈ P.cone.qmat, ∀ j ∈ q, P.cone.lp.c j = 0)
    (hxq : P.cone.rowsRemoved = true → ∀ e ∈ P.cone.xmat, ∀ j ∈ e, j ∉ P.cone.eye)
    (hwd : ∀ B ∈ P.lmi, B.w ≤ P.cone.lp.nc)
    (hlq : P.cone.rowsRemoved = true → ∀ B ∈ P.lmi, ∀ e < B.dim ^ 2, ∀ j ∈ P.cone.eye, B.linP e j = 0)
    (x w : ℕ → ℝ) (hx : P.Feas realExpCone x) (hw : P.lmiDual.Feas realExpCone w) :
    - P.lmiDual.cone.lp.obj w ≤ P.cone.lp.obj x :=
  lmi_dual_weak P realExpCone realExpCone_pair hwf hc hxq hwd hlq x w hx hw

/-! ### Robust counterpart over a support with LMI blocks -/

/-- **Safety of the robust counterpart for supports with LMI blocks** (mirror of
`RsomeV.C01.rc_sound`): `Pz` is the (lifted) support program with its LMI blocks, `Pz.lmiDual` the
model of `sup_model.do_math(primal=False, obj=False)`, `R.leToRcLmi` the model of
`RoConstr.le_to_rc` (rows and cones of `RoRows.leToRc`, plus the constraints
`(linear @ dual_var[n]).reshape(dim, dim) − const ⪰ 0` it appends for every support LMI).  Every
assignment `v` (decisions and multipliers) feasible for the counterpart satisfies uncertain row `n` at
every point `ζ` of the support.

Hypotheses: those of `rc_sound` for the conic part, and the two side conditions `hwd`, `hlq` of
`lmi_dual_weak` for the support program (supports with an LMI on a column bounded above by `0` are
covered since the repair of commit 19ae405). -/
theorem rc_sound_lmi (Pz : LmiProg ℝ) (E : ℝ → ℝ → ℝ → Prop) (hE : ExpPair E) (hwf : Pz.cone.WF)
    (hones : ∀ j, Pz.cone.lp.c j = 1)
    (R : RoRows ℝ) (hnz : R.nz ≤ Pz.cone.lp.nc)
    (hq : ∀ q ∈ Pz.cone.qmat, ∀ j ∈ q, R.nz ≤ j)
    (hxq : Pz.cone.rowsRemoved = true → ∀ e ∈ Pz.cone.xmat, ∀ j ∈ e, j ∉ Pz.cone.eye)
    (hwd : ∀ B ∈ Pz.lmi, B.w ≤ Pz.cone.lp.nc)
    (hlq : Pz.cone.rowsRemoved = true → ∀ B ∈ Pz.lmi, ∀ e < B.dim ^ 2, ∀ j ∈ Pz.cone.eye, B.linP e j = 0)
    (v : ℕ → ℝ) (hv : (R.leToRcLmi Pz.lmiDual).Feas E v)
    (n : ℕ) (hn : n < R.m) (ζ : ℕ → ℝ) (hζ : Pz.Feas E ζ) :
    R.eval n v ζ ≤ 0 := by
  set S := Pz.lmiDual.cone with hS
  set c' : ℕ → ℝ := fun j => if j < R.nz then - R.coef n j v else 0 with hc'
  have hnr : R.nz ≤ S.lp.nr := by
    rw [hS, lmiDual_cone_nr]; exact ConeProg.le_coneDual_nr Pz.cone R.nz hnz hq
  have hnum : R.numRand S = R.nz := by unfold RoRows.numRand; exact Nat.min_eq_left hnr
  have hvc : (R.leToRc S).prog.Feas E v := hv.cone
  -- the multipliers of row `n` are feasible for the dual of the re-costed support program
  have hycone : ConeProg.Feas { S with lp := { S.lp with b := Pz.cone.dualRhs c' } } E
      (fun i => v (R.ycol S n i)) := by
    apply RoRows.leToRc_extract R S E (lmiDual_cone_ub Pz) (lmiDual_cone_lb Pz)
      (by rw [hS, lmiDual_cone_xmat]; exact ConeProg.coneDual_xlen Pz.cone) v hvc n hn
    intro j hj
    rw [hnum, hS, lmiDual_cone_b, ConeProg.coneDual_b]
    rw [hS, lmiDual_cone_nr] at hj
    unfold ConeProg.dualRhs
    by_cases h : j < R.nz
    · rw [if_pos h, ConeProg.rowIdx_lt Pz.cone R.nz hnz hq j h, hones]
      simp only [hc', h, if_true]
      split_ifs <;> ring
    · have := ConeProg.rowIdx_ge Pz.cone R.nz hnz hq j (by omega) hj
      rw [if_neg h]
      simp only [hc', show ¬ Pz.cone.rowIdx j < R.nz by omega, if_false]
      split_ifs <;> simp
  have hy : (Pz.withCost c').lmiDual.Feas E (fun i => v (R.ycol S n i)) := by
    rw [lmiDual_withCost]
    refine ⟨hycone, ?_⟩
    intro B hB
    have hB' : B ∈ Pz.lmiDual.lmi := hB
    have h := hv.psd _ (RoRows.rcBlock_mem R Pz.lmiDual n hn B hB')
    rw [RoRows.rcBlock_mat R Pz.lmiDual.cone n hn B (by rw [lmiDual_lmi_w Pz B hB']) v] at h
    exact h
  have hwf' : (Pz.withCost c').cone.WF := ⟨hwf.qlt, hwf.xlen, hwf.xlt, hwf.xnotneg, hwf.stcov⟩
  have hζ' : (Pz.withCost c').Feas E ζ :=
    ⟨⟨⟨hζ.cone.lin.rows, hζ.cone.lin.ubs, hζ.cone.lin.lbs⟩, hζ.cone.soc, hζ.cone.exp⟩, hζ.psd⟩
  have hcz : (Pz.withCost c').cone.rowsRemoved = true →
      ∀ q ∈ (Pz.withCost c').cone.qmat, ∀ j ∈ q, (Pz.withCost c').cone.lp.c j = 0 := by
    intro _ q hq' j hj
    have := hq q hq' j hj
    show c' j = 0
    simp only [hc', show ¬ j < R.nz by omega, if_false]
  have hweak := lmi_dual_weak (Pz.withCost c') E hE hwf' hcz hxq hwd hlq ζ _ hζ' hy
  have hobjS : (Pz.withCost c').lmiDual.cone.lp.obj (fun i => v (R.ycol S n i))
      = ∑ i ∈ range S.lp.nc, S.lp.c i * v (R.ycol S n i) := by
    rw [lmiDual_withCost]; rfl
  have hobjP : (Pz.withCost c').cone.lp.obj ζ = - ∑ j ∈ range R.nz, R.coef n j v * ζ j := by
    show ∑ j ∈ range Pz.cone.lp.nc, c' j * ζ j = _
    obtain ⟨k, hk⟩ := Nat.exists_eq_add_of_le hnz
    rw [hk, Finset.sum_range_add, ← Finset.sum_neg_distrib]
    have h0 : ∑ x ∈ range k, c' (R.nz + x) * ζ (R.nz + x) = 0 := by
      apply Finset.sum_eq_zero; intro x _
      simp only [hc', show ¬ R.nz + x < R.nz by omega, if_false, zero_mul]
    rw [h0, add_zero]
    apply Finset.sum_congr rfl; intro j hj
    simp only [hc', Finset.mem_range.mp hj, if_true]; ring
  have hrow1 := hvc.lin.rows n (by rw [RoRows.leToRc_nr]; omega)
  rw [RoRows.leToRc_row1 R S n hn, RoRows.leToRc_b1 R S n hn, RoRows.leToRc_eq1 R S n hn] at hrow1
  simp only [Bool.false_eq_true, if_false] at hrow1
  rw [hobjS, hobjP] at hweak
  unfold RoRows.eval
  unfold RoRows.coef at hweak
  linarith

/-! ### The hypotheses of `lmi_dual_weak` are satisfiable, and the bound is attained

`min x₀  s.t.  [[x₀, 1], [1, x₀]] ⪰ 0`  (one free column, one `2 × 2` block with
`linear = (1,0,0,1)ᵀ`, `const = [[0,-1],[-1,0]]`).  Primal point `x₀ = 1` (value `1`).  The model's dual
has one equality row `Y₀₀ + Y₁₁ = 1`, cost `(0, 1, 1, 0)` and the LMI `Y ⪰ 0`; the dual point
`Y = [[½, -½], [-½, ½]]` is feasible with value `-(Y₀₁ + Y₁₀) = 1`. -/

/-- a symmetric real `2 × 2` matrix with non-negative diagonal and determinant is PSD -/
lemma psd_two (a b c : ℝ) (ha : 0 ≤ a) (hc : 0 ≤ c) (hdet : b ^ 2 ≤ a * c) :
    (!![a, b; b, c] : Matrix (Fin 2) (Fin 2) ℝ).PosSemidef := by
  apply Matrix.PosSemidef.of_dotProduct_mulVec_nonneg
  · ext i j; fin_cases i <;> fin_cases j <;> simp
  · intro v
    simp only [dotProduct, mulVec, Fin.sum_univ_two, star_trivial, Pi.star_apply]
    simp
    by_cases h0 : a = 0
    · have hb : b = 0 := by
        have : b ^ 2 ≤ 0 := by simpa [h0] using hdet
        nlinarith [sq_nonneg b]
      subst h0; subst hb
      nlinarith [mul_nonneg hc (sq_nonneg (v 1))]
    · have hpos : 0 < a := lt_of_le_of_ne ha (Ne.symm h0)
      have key : 0 ≤ a * (v 0 * (a * v 0 + b * v 1) + v 1 * (b * v 0 + c * v 1)) := by
        have : a * (v 0 * (a * v 0 + b * v 1) + v 1 * (b * v 0 + c * v 1))
            = (a * v 0 + b * v 1) ^ 2 + (a * c - b ^ 2) * v 1 ^ 2 := by ring
        rw [this]
        have h1 : 0 ≤ (a * c - b ^ 2) * v 1 ^ 2 := mul_nonneg (by linarith) (sq_nonneg _)
        positivity
      exact nonneg_of_mul_nonneg_right key hpos

def exB : LmiBlock ℝ :=
  { dim := 2, w := 1, lin := fun e _ => if e = 0 ∨ e = 3 then 1 else 0,
    const := fun e => if e = 1 ∨ e = 2 then -1 else 0 }
def exP : LmiProg ℝ :=
  { cone := { lp := { nr := 0, nc := 1, a := fun _ _ => 0, b := fun _ => 0, eq := fun _ => false,
                      ub := fun _ => none, lb := fun _ => none, c := fun _ => 1 }
              st := fun _ _ => false, qmat := [], xmat := [] }
    lmi := [exB] }
def exX : ℕ → ℝ := fun _ => 1
noncomputable def exW : ℕ → ℝ :=
  fun i => if i = 0 ∨ i = 3 then 1/2 else if i = 1 ∨ i = 2 then -1/2 else 0

lemma exS_nc : exP.cone.coneDual.lp.nc = 0 := by rfl
lemma exS_eq : exP.cone.coneDual.lp.eq 0 = true := by rfl
lemma exS_b : exP.cone.coneDual.lp.b 0 = 1 := by rfl
lemma exS_q : exP.cone.coneDual.qmat = [] := by rfl
lemma exS_x : exP.cone.coneDual.xmat = [] := by rfl
lemma ex_total : total exP.lmi = 4 := by rfl
lemma ex_row : exP.lmiRow 0 = 0 := by rfl
lemma ex_ne : ¬ exP.lmi.isEmpty = true := by simp [exP]
lemma ex_ec (t : ℕ) : exP.extEntryCoef t 0 = extCoef exP.lmi t 0 :=
  extEntryCoef_of_not_neg exP t 0 rfl

lemma exB_mat : exB.mat exX = !![1, 1; 1, 1] := by
  ext i j
  fin_cases i <;> fin_cases j <;>
    simp [LmiBlock.mat, LmiBlock.entry, exB, exX]

lemma ex_primal_feas : exP.Feas (fun _ _ _ => False) exX := by
  refine ⟨⟨⟨?_, ?_, ?_⟩, ?_, ?_⟩, ?_⟩
  · intro i hi; exact absurd hi (by simp [exP])
  · intro j _; trivial
  · intro j _; trivial
  · intro q hq; simp [exP] at hq
  · intro e he; simp [exP] at he
  · intro B hB
    have : B = exB := by simpa [exP] using hB
    subst this
    rw [exB_mat]
    exact psd_two 1 1 1 (by norm_num) (by norm_num) (by norm_num)

lemma ex_dual_cone_feas : exP.lmiDual.cone.Feas (fun _ _ _ => False) exW := by
  rw [lmiDual_of_ne exP ex_ne]
  refine ⟨⟨?_, ?_, ?_⟩, ?_, ?_⟩
  · intro r hr
    have hr' : r < 1 := hr
    have h0 : r = 0 := by omega
    subst h0
    simp only [LinProg.row, exS_nc, exS_eq, exS_b, ex_total, ex_ec, if_true, zero_add]
    simp [Finset.sum_range_succ, extCoef, exP, exB, LmiBlock.linP, exW]
    norm_num
  · intro i hi
    simp only [exS_nc, Nat.not_lt_zero, if_false]; trivial
  · intro i hi
    simp only [exS_nc, Nat.not_lt_zero, if_false]; trivial
  · intro q hq; rw [exS_q] at hq; simp at hq
  · intro e he; rw [exS_x] at he; simp at he

lemma ex_dual_mat : (selBlock 2 0 4 : LmiBlock ℝ).mat exW = !![1/2, -1/2; -1/2, 1/2] := by
  ext i j
  fin_cases i <;> fin_cases j <;>
    simp [LmiBlock.mat, LmiBlock.entry, selBlock, exW, Finset.sum_range_succ]

lemma ex_dual_feas : exP.lmiDual.Feas (fun _ _ _ => False) exW := by
  refine ⟨ex_dual_cone_feas, ?_⟩
  intro B hB
  rw [lmiDual_lmi] at hB
  have hl : dualBlocks exP.lmi exP.cone.coneDual.lp.nc (exP.cone.coneDual.lp.nc + total exP.lmi)
      = [selBlock 2 0 4] := by rfl
  rw [hl] at hB
  have : B = selBlock 2 0 4 := by simpa using hB
  subst this
  rw [ex_dual_mat]
  exact psd_two (1/2) (-1/2) (1/2) (by norm_num) (by norm_num) (by norm_num)

lemma ex_primal_obj : exP.cone.lp.obj exX = 1 := by
  simp [LinProg.obj, exP, exX]

lemma ex_dual_obj : - exP.lmiDual.cone.lp.obj exW = 1 := by
  rw [lmiDual_of_ne exP ex_ne]
  simp only [LinProg.obj, exS_nc, ex_total, zero_add]
  simp [Finset.sum_range_succ, extConst, exP, exB, exW]

lemma exP_wf : exP.cone.WF where
  qlt := by intro q hq; simp [exP] at hq
  xlen := by intro e he; simp [exP] at he
  xlt := by intro e he; simp [exP] at he
  xnotneg := by intro e he; simp [exP] at he
  stcov := by intro i j h; exact absurd rfl h

lemma exP_rr : exP.cone.rowsRemoved = false := by rfl

/-- **non-vacuity and tightness**: every hypothesis of `lmi_dual_weak` holds for the `2 × 2` example,
both feasible sets are inhabited, and the inequality is attained (`1 ≤ 1`). -/
example :
    exP.cone.WF ∧
    (exP.cone.rowsRemoved = true → ∀ q ∈ exP.cone.qmat, ∀ j ∈ q, exP.cone.lp.c j = 0) ∧
    (exP.cone.rowsRemoved = true → ∀ e ∈ exP.cone.xmat, ∀ j ∈ e, j ∉ exP.cone.eye) ∧
    (∀ B ∈ exP.lmi, B.w ≤ exP.cone.lp.nc) ∧
    (exP.cone.rowsRemoved = true → ∀ B ∈ exP.lmi, ∀ e < B.dim ^ 2, ∀ j ∈ exP.cone.eye, B.linP e j = 0) ∧
    exP.Feas (fun _ _ _ => False) exX ∧ exP.lmiDual.Feas (fun _ _ _ => False) exW ∧
    - exP.lmiDual.cone.lp.obj exW = 1 ∧ exP.cone.lp.obj exX = 1 := by
  refine ⟨exP_wf, ?_, ?_, ?_, ?_, ex_primal_feas, ex_dual_feas, ex_dual_obj, ex_primal_obj⟩
  · intro h; rw [exP_rr] at h; exact absurd h (by simp)
  · intro h; rw [exP_rr] at h; exact absurd h (by simp)
  · intro B hB
    have : B = exB := by simpa [exP] using hB
    subst this; exact le_refl 1
  · intro h; rw [exP_rr] at h; exact absurd h (by simp)

/-- the theorem applied to the example -/
example : - exP.lmiDual.cone.lp.obj exW ≤ exP.cone.lp.obj exX :=
  lmi_dual_weak exP (fun _ _ _ => False) (fun _ _ _ _ _ _ h => h.elim) exP_wf
    (by intro h; rw [exP_rr] at h; exact absurd h (by simp))
    (by intro h; rw [exP_rr] at h; exact absurd h (by simp))
    (by intro B hB
        have : B = exB := by simpa [exP] using hB
        subst this; exact le_refl 1)
    (by intro h; rw [exP_rr] at h; exact absurd h (by simp))
    exX exW ex_primal_feas ex_dual_feas

/-! ### An LMI on a column with upper bound `0`: the repaired encoding is a dual, the former was not

`min -x₀  s.t.  x₀ ≤ 0 (a bound),  (-x₀ - 1)·I₂ ⪰ 0`, optimum `1` at `x₀ = -1`.  The LP layer negates
the dual row of a column with upper bound `0` (right-hand side `-c = 1`, sense `≤`).

* Before commit 19ae405 (`lmiDualLegacy`) the LMI layer appended the block's coefficients un-negated:
  the dual row read `-Y₀₀ - Y₁₁ ≤ 1`, cost `-const = (-1, 0, 0, -1)`, and `Y = 5·I₂` was dual-feasible
  with value `10 > 1` (`legacy_lmi_dual_not_weak`).
* The repaired code (`lmiDual`) negates the appended columns on that row: `Y₀₀ + Y₁₁ ≤ 1`.  `Y = 5·I₂`
  is no longer feasible, every dual-feasible point has value `≤ 1` (`lmi_dual_weak` applies, all its
  hypotheses hold) and `Y = ½·I₂` attains `1`. -/

def ngB : LmiBlock ℝ :=
  { dim := 2, w := 1, lin := fun e _ => if e = 0 ∨ e = 3 then -1 else 0,
    const := fun e => if e = 0 ∨ e = 3 then 1 else 0 }
def ngP : LmiProg ℝ :=
  { cone := { lp := { nr := 0, nc := 1, a := fun _ _ => 0, b := fun _ => 0, eq := fun _ => false,
                      ub := fun _ => some 0, lb := fun _ => none, c := fun _ => -1 }
              st := fun _ _ => false, qmat := [], xmat := [] }
    lmi := [ngB] }
def ngX : ℕ → ℝ := fun _ => -1
def ngW : ℕ → ℝ := fun i => if i = 0 ∨ i = 3 then 5 else 0
noncomputable def ngW' : ℕ → ℝ := fun i => if i = 0 ∨ i = 3 then 1/2 else 0

lemma ng_idxUb : ngP.cone.lp.idxUb = [] := by simp [LinProg.idxUb, ngP]
lemma ng_idxLb : ngP.cone.lp.idxLb = [] := by simp [LinProg.idxLb, ngP]
lemma ng_idxFx : ngP.cone.lp.idxFx = [] := by simp [LinProg.idxFx, ngP]
lemma ng_coneDual : ngP.cone.coneDual =
    { lp := ngP.cone.lp.dual, st := fun j i => ngP.cone.augSt i j, qmat := [], xmat := [] } := by
  rfl
lemma ngS_nc : ngP.cone.coneDual.lp.nc = 0 := by
  rw [ng_coneDual]
  simp [LinProg.dual, LinProg.augNr, ng_idxUb, ng_idxLb, ng_idxFx]
  rfl
lemma ngS_eq : ngP.cone.coneDual.lp.eq 0 = false := by
  rw [ng_coneDual]
  simp [LinProg.dual, LinProg.isFree, ngP]
lemma ngS_b : ngP.cone.coneDual.lp.b 0 = 1 := by
  rw [ng_coneDual]
  simp [LinProg.dual, LinProg.isNeg, ngP]
lemma ng_total : total ngP.lmi = 4 := by rfl
lemma ng_row : ngP.lmiRow 0 = 0 := by rfl
lemma ng_ne : ¬ ngP.lmi.isEmpty = true := by simp [ngP]
lemma ng_isNeg : ngP.cone.lp.isNeg 0 = true := by simp [LinProg.isNeg, ngP]
lemma ng_rr : ngP.cone.rowsRemoved = false := by rfl
lemma ng_ec (t : ℕ) : ngP.extEntryCoef t 0 = - extCoef ngP.lmi t 0 :=
  extEntryCoef_of_neg ngP t 0 ng_isNeg

lemma ngP_wf : ngP.cone.WF :=
  ⟨by intro q hq; simp [ngP] at hq, by intro e he; simp [ngP] at he,
    by intro e he; simp [ngP] at he, by intro e he; simp [ngP] at he,
    by intro i j h; exact absurd rfl h⟩

lemma ngB_mat : ngB.mat ngX = !![0, 0; 0, 0] := by
  ext i j
  fin_cases i <;> fin_cases j <;>
    simp [LmiBlock.mat, LmiBlock.entry, ngB, ngX]

lemma ng_primal_feas : ngP.Feas (fun _ _ _ => False) ngX := by
  refine ⟨⟨⟨?_, ?_, ?_⟩, ?_, ?_⟩, ?_⟩
  · intro i hi; exact absurd hi (by simp [ngP])
  · intro j _; show ngX j ≤ 0; simp [ngX]
  · intro j _; trivial
  · intro q hq; simp [ngP] at hq
  · intro e he; simp [ngP] at he
  · intro B hB
    have : B = ngB := by simpa [ngP] using hB
    subst this
    rw [ngB_mat]
    exact psd_two 0 0 0 (by norm_num) (by norm_num) (by norm_num)

lemma ng_primal_obj : ngP.cone.lp.obj ngX = 1 := by
  simp [LinProg.obj, ngP, ngX]

lemma ng_dual_mat : (selBlock 2 0 4 : LmiBlock ℝ).mat ngW = !![5, 0; 0, 5] := by
  ext i j
  fin_cases i <;> fin_cases j <;>
    simp [LmiBlock.mat, LmiBlock.entry, selBlock, ngW, Finset.sum_range_succ]

lemma ng_dual_mat' : (selBlock 2 0 4 : LmiBlock ℝ).mat ngW' = !![1/2, 0; 0, 1/2] := by
  ext i j
  fin_cases i <;> fin_cases j <;>
    simp [LmiBlock.mat, LmiBlock.entry, selBlock, ngW', Finset.sum_range_succ]

/-! #### the former encoding -/

lemma ng_legacy_cone_feas : ngP.lmiDualLegacy.cone.Feas (fun _ _ _ => False) ngW := by
  rw [lmiDualLegacy_of_ne ngP ng_ne]
  refine ⟨⟨?_, ?_, ?_⟩, ?_, ?_⟩
  · intro r hr
    have hr' : r < 1 := hr
    have h0 : r = 0 := by omega
    subst h0
    simp only [LinProg.row, ngS_nc, ngS_eq, ngS_b, ng_total, ng_row, zero_add]
    simp [Finset.sum_range_succ, extCoef, ngP, ngB, LmiBlock.linP, ngW]
    norm_num
  · intro i hi
    simp only [ngS_nc, Nat.not_lt_zero, if_false]; trivial
  · intro i hi
    simp only [ngS_nc, Nat.not_lt_zero, if_false]; trivial
  · intro q hq; rw [ng_coneDual] at hq; simp at hq
  · intro e he; rw [ng_coneDual] at he; simp at he

lemma ng_legacy_feas : ngP.lmiDualLegacy.Feas (fun _ _ _ => False) ngW := by
  refine ⟨ng_legacy_cone_feas, ?_⟩
  intro B hB
  rw [lmiDualLegacy_of_ne ngP ng_ne, ngS_nc] at hB
  have hl : dualBlocks ngP.lmi 0 (0 + total ngP.lmi) = [selBlock 2 0 4] := by rfl
  have hB' : B ∈ dualBlocks ngP.lmi 0 (0 + total ngP.lmi) := hB
  rw [hl] at hB'
  have : B = selBlock 2 0 4 := by simpa using hB'
  subst this
  rw [ng_dual_mat]
  exact psd_two 5 0 5 (by norm_num) (by norm_num) (by norm_num)

lemma ng_legacy_obj : - ngP.lmiDualLegacy.cone.lp.obj ngW = 10 := by
  rw [lmiDualLegacy_of_ne ngP ng_ne]
  simp only [LinProg.obj, ngS_nc, ng_total, zero_add]
  simp [Finset.sum_range_succ, extConst, ngP, ngB, ngW]
  norm_num

/-- **the encoding before commit 19ae405 was not a weak dual** when an LMI touches a column with upper
bound `0`: a program satisfying every hypothesis of `lmi_dual_weak`, a primal-feasible point and a point
feasible for the FORMER dual `lmiDualLegacy` whose value `10` exceeds the primal value `1`. -/
theorem legacy_lmi_dual_not_weak :
    ngP.cone.WF ∧ ngP.cone.rowsRemoved = false ∧ (∀ B ∈ ngP.lmi, B.w ≤ ngP.cone.lp.nc) ∧
    ngP.Feas (fun _ _ _ => False) ngX ∧ ngP.lmiDualLegacy.Feas (fun _ _ _ => False) ngW ∧
    ngP.cone.lp.obj ngX < - ngP.lmiDualLegacy.cone.lp.obj ngW := by
  refine ⟨ngP_wf, rfl, ?_, ng_primal_feas, ng_legacy_feas, ?_⟩
  · intro B hB
    have : B = ngB := by simpa [ngP] using hB
    subst this; exact le_refl 1
  · rw [ng_primal_obj, ng_legacy_obj]; norm_num

/-! #### the repaired encoding -/

/-- the dual row of the repaired encoding: `Y₀₀ + Y₁₁ ≤ 1` -/
lemma ng_row_repaired (w : ℕ → ℝ) :
    ngP.lmiDual.cone.lp.row 0 w = w 0 + w 3 := by
  rw [lmiDual_of_ne ngP ng_ne]
  simp only [LinProg.row, ngS_nc, ng_total, zero_add, ng_ec]
  simp [Finset.sum_range_succ, extCoef, ngP, ngB, LmiBlock.linP]

/-- the point that broke the former dual is not feasible for the repaired one -/
theorem ng_old_point_infeasible : ¬ ngP.lmiDual.cone.Feas (fun _ _ _ => False) ngW := by
  intro h
  have hr := h.lin.rows 0 (by rw [lmiDual_cone_nr]; decide)
  rw [ng_row_repaired, lmiDual_cone_b] at hr
  have heq : ngP.lmiDual.cone.lp.eq 0 = false := by
    rw [lmiDual_of_ne ngP ng_ne]; exact ngS_eq
  rw [heq, ngS_b] at hr
  simp [ngW] at hr
  norm_num at hr

/-- **the same program under the repaired encoding**: every dual-feasible point has value at most the
primal value `1` (an instance of `lmi_dual_weak`, whose hypotheses all hold although the LMI sits on a
column with upper bound `0`) … -/
theorem ng_repaired_weak (w : ℕ → ℝ) (hw : ngP.lmiDual.Feas (fun _ _ _ => False) w) :
    - ngP.lmiDual.cone.lp.obj w ≤ 1 := by
  have h := lmi_dual_weak ngP (fun _ _ _ => False) (fun _ _ _ _ _ _ h => h.elim) ngP_wf
    (by intro h; rw [ng_rr] at h; exact absurd h (by simp))
    (by intro h; rw [ng_rr] at h; exact absurd h (by simp))
    (by intro B hB
        have : B = ngB := by simpa [ngP] using hB
        subst this; exact le_refl 1)
    (by intro h; rw [ng_rr] at h; exact absurd h (by simp))
    ngX w ng_primal_feas hw
  rwa [ng_primal_obj] at h

lemma ng_repaired_cone_feas : ngP.lmiDual.cone.Feas (fun _ _ _ => False) ngW' := by
  have hnr : ngP.lmiDual.cone.lp.nr = 1 := by rw [lmiDual_cone_nr]; rfl
  refine ⟨⟨?_, ?_, ?_⟩, ?_, ?_⟩
  · intro r hr
    rw [hnr] at hr
    have h0 : r = 0 := by omega
    subst h0
    have heq : ngP.lmiDual.cone.lp.eq 0 = false := by
      rw [lmiDual_of_ne ngP ng_ne]; exact ngS_eq
    rw [ng_row_repaired, lmiDual_cone_b, heq, ngS_b]
    simp [ngW']
    norm_num
  · intro i hi
    rcases lmiDual_cone_ub ngP i with h | h
    · rw [h]; trivial
    · exfalso
      rw [lmiDual_of_ne ngP ng_ne] at h
      simp [ngS_nc] at h
  · intro i hi
    rcases lmiDual_cone_lb ngP i with h | h
    · rw [h]; trivial
    · exfalso
      rw [lmiDual_of_ne ngP ng_ne] at h
      simp [ngS_nc] at h
  · intro q hq; rw [lmiDual_of_ne ngP ng_ne] at hq; rw [ng_coneDual] at hq; simp at hq
  · intro e he; rw [lmiDual_cone_xmat, ng_coneDual] at he; simp at he

/-- … and the bound is attained: `Y = ½·I₂` is feasible for the repaired dual with value `1`. -/
theorem ng_repaired_tight :
    ngP.lmiDual.Feas (fun _ _ _ => False) ngW' ∧ - ngP.lmiDual.cone.lp.obj ngW' = 1 := by
  refine ⟨⟨ng_repaired_cone_feas, ?_⟩, ?_⟩
  · intro B hB
    rw [lmiDual_lmi, ngS_nc] at hB
    have hl : dualBlocks ngP.lmi 0 (0 + total ngP.lmi) = [selBlock 2 0 4] := by rfl
    rw [hl] at hB
    have : B = selBlock 2 0 4 := by simpa using hB
    subst this
    rw [ng_dual_mat']
    exact psd_two (1/2) 0 (1/2) (by norm_num) (by norm_num) (by norm_num)
  · rw [lmiDual_of_ne ngP ng_ne]
    simp only [LinProg.obj, ngS_nc, ng_total, zero_add]
    simp [Finset.sum_range_succ, extConst, ngP, ngB, ngW']
    norm_num

/-! ### The hypotheses of `rc_sound_lmi` are satisfiable: LMI support `[[1, ζ], [ζ, 1]] ⪰ 0`, row `x·ζ - 4 ≤ 0`

The support program has one free column and one `2 × 2` block; its dual form has one equality row
`Y₀₁ + Y₁₀ = 1` (placeholder right-hand side of `obj=False`), cost `(1, 0, 0, 1)` and the LMI `Y ⪰ 0`.
The counterpart of `x·ζ - 4 ≤ 0` is `Y₀₀ + Y₁₁ ≤ 4`, `x + Y₀₁ + Y₁₀ = 0`, `Y ⪰ 0`. -/

section rcExample
open RoRows

/-- support `{ζ : [[1, ζ], [ζ, 1]] ⪰ 0}` (= `|ζ| ≤ 1`), formulated with `obj=False` -/
def zB : LmiBlock ℝ :=
  { dim := 2, w := 1, lin := fun e _ => if e = 1 ∨ e = 2 then 1 else 0,
    const := fun e => if e = 0 ∨ e = 3 then -1 else 0 }
def zP : LmiProg ℝ :=
  { cone := { lp := { nr := 0, nc := 1, a := fun _ _ => 0, b := fun _ => 0, eq := fun _ => false,
                      ub := fun _ => none, lb := fun _ => none, c := fun _ => 1 }
              st := fun _ _ => false, qmat := [], xmat := [] }
    lmi := [zB] }
/-- the uncertain row `x·ζ - 4 ≤ 0` over one decision column -/
def zR : RoRows ℝ :=
  { nd := 1, m := 1, nz := 1, Rl := fun _ _ _ => 1, Rc := fun _ _ => 0, al := fun _ _ => 0,
    ac := fun _ => -4 }
/-- decision `x = 2`, multipliers `Y = [[1, -1], [-1, 1]]` -/
def zV : ℕ → ℝ := fun c => if c = 0 then 2 else if c = 1 ∨ c = 4 then 1 else -1

lemma zS_nc : zP.lmiDual.cone.lp.nc = 4 := by rfl
lemma zS_nr : zP.lmiDual.cone.lp.nr = 1 := by rfl
lemma zS_eq : zP.lmiDual.cone.lp.eq 0 = true := by rfl
lemma zS_b : zP.lmiDual.cone.lp.b 0 = 1 := by rfl
lemma zS_q : zP.lmiDual.cone.qmat = [] := by rfl
lemma zS_x : zP.lmiDual.cone.xmat = [] := by rfl
lemma z_ne : ¬ zP.lmi.isEmpty = true := by simp [zP]
lemma zc_nc : zP.cone.coneDual.lp.nc = 0 := by rfl
lemma zS_ub (i : ℕ) : zP.lmiDual.cone.lp.ub i = none := by
  rw [lmiDual_of_ne zP z_ne]; simp [zc_nc]
lemma zS_lb (i : ℕ) : zP.lmiDual.cone.lp.lb i = none := by
  rw [lmiDual_of_ne zP z_ne]; simp [zc_nc]
lemma zS_c (i : ℕ) : zP.lmiDual.cone.lp.c i = - extConst [zB] i := by
  rw [lmiDual_of_ne zP z_ne]
  have hl : zP.lmi = [zB] := rfl
  simp only [zc_nc, hl, Nat.not_lt_zero, if_false, Nat.sub_zero]
lemma zS_a (i : ℕ) (hi : i < 4) : zP.lmiDual.cone.lp.a 0 i = extCoef [zB] i 0 := by
  rw [lmiDual_of_ne zP z_ne]
  have ht : total [zB] = 4 := rfl
  have hr : zP.lmiRow 0 = 0 := rfl
  have hl : zP.lmi = [zB] := rfl
  simp only [zc_nc, hl, ht, Nat.not_lt_zero, if_false, Nat.sub_zero, zero_add, hi, if_true]
  rw [extEntryCoef_of_not_neg zP i 0 rfl, hr, hl]
lemma zNum : zR.numRand zP.lmiDual.cone = 1 := by rfl
lemma zS_lmi : zP.lmiDual.lmi = [selBlock 2 0 4] := by rfl

lemma z_feas_cone : (zR.leToRc zP.lmiDual.cone).prog.Feas (fun _ _ _ => False) zV := by
  have hnr : (zR.leToRc zP.lmiDual.cone).prog.lp.nr = 2 := by
    rw [leToRc_nr, zNum, zS_nr]; rfl
  have hnc : (zR.leToRc zP.lmiDual.cone).prog.lp.nc = 5 := by
    rw [leToRc_nc, zS_nc]; rfl
  refine ⟨⟨?_, ?_, ?_⟩, ?_, ?_⟩
  · intro i hi
    rw [hnr] at hi
    obtain rfl | rfl : i = 0 ∨ i = 1 := by omega
    · have h := leToRc_row1 zR zP.lmiDual.cone 0 (by decide) zV
      rw [h, leToRc_b1 _ _ 0 (by decide), leToRc_eq1 _ _ 0 (by decide), zS_nc]
      simp [Finset.sum_range_succ, zS_c, extConst, zB, zR, zV, ycol, zS_nc]
      norm_num
    · have h := leToRc_row2 zR zP.lmiDual.cone 0 (by decide) 0 (by decide) zV
      have hb := leToRc_b2 zR zP.lmiDual.cone 0 (by decide) 0 (by decide)
      have he := leToRc_eq2 zR zP.lmiDual.cone 0 (by decide) 0 (by decide)
      rw [zNum] at h hb he
      have e1 : zR.m + (0 * 1 + 0) = 1 := rfl
      rw [e1] at h hb he
      rw [h, hb, he, zS_eq, zS_nc]
      simp [Finset.sum_range_succ, zS_a, extCoef, LmiBlock.linP, zB, zS_b, zR, zV, ycol, zS_nc]
      norm_num
  · intro j hj
    simp [leToRc, LinProg.leUb, zS_ub]
  · intro j hj
    simp [leToRc, LinProg.geLb, zS_lb]
  · intro q hq
    simp [leToRc, zS_q] at hq
  · intro e he
    simp [leToRc, zS_x] at he


lemma z_rcLmi : zR.rcLmi zP.lmiDual = [zR.rcBlock zP.lmiDual.cone 0 (selBlock 2 0 4)] := by
  simp [rcLmi, zS_lmi, zR]

lemma z_Y : (selBlock 2 0 4 : LmiBlock ℝ).mat (fun i => zV (zR.ycol zP.lmiDual.cone 0 i))
    = !![1, -1; -1, 1] := by
  ext i j
  fin_cases i <;> fin_cases j <;>
    simp [LmiBlock.mat, LmiBlock.entry, selBlock, zV, ycol, zR, zS_nc, Finset.sum_range_succ]

lemma z_feas : (zR.leToRcLmi zP.lmiDual).Feas (fun _ _ _ => False) zV := by
  refine ⟨z_feas_cone, ?_⟩
  intro B hB
  have hB' : B ∈ zR.rcLmi zP.lmiDual := hB
  rw [z_rcLmi] at hB'
  have : B = zR.rcBlock zP.lmiDual.cone 0 (selBlock 2 0 4) := by simpa using hB'
  subst this
  rw [rcBlock_mat zR zP.lmiDual.cone 0 (by decide) (selBlock 2 0 4) (by rw [zS_nc]; exact le_refl 4) zV,
    z_Y]
  exact psd_two 1 (-1) 1 (by norm_num) (by norm_num) (by norm_num)

lemma zP_wf : zP.cone.WF where
  qlt := by intro q hq; simp [zP] at hq
  xlen := by intro e he; simp [zP] at he
  xlt := by intro e he; simp [zP] at he
  xnotneg := by intro e he; simp [zP] at he
  stcov := by intro i j h; exact absurd rfl h

/-- **`rc_sound_lmi` applied**: the counterpart of `x·ζ - 4 ≤ 0` over the LMI support
`[[1, ζ], [ζ, 1]] ⪰ 0` is feasible at `x = 2`, `Y = [[1, -1], [-1, 1]]`, hence `2·ζ - 4 ≤ 0` at every
point of the support — all hypotheses of the theorem are discharged here. -/
example (ζ : ℕ → ℝ) (hζ : zP.Feas (fun _ _ _ => False) ζ) : zR.eval 0 zV ζ ≤ 0 :=
  rc_sound_lmi zP _ (fun _ _ _ _ _ _ h _ => h.elim) zP_wf (fun _ => rfl) zR (le_refl _)
    (by intro q hq; simp [zP] at hq) (by intro _ e he; simp [zP] at he)
    (by intro B hB
        have : B = zB := by simpa [zP] using hB
        subst this; exact le_refl 1)
    (by intro h; exact absurd h (by decide))
    zV z_feas 0 (by decide) ζ hζ

/-- the support of the example is inhabited (`ζ = 1`: `[[1, 1], [1, 1]] ⪰ 0`) -/
example : zP.Feas (fun _ _ _ => False) (fun _ => 1) := by
  refine ⟨⟨⟨?_, ?_, ?_⟩, ?_, ?_⟩, ?_⟩
  · intro i hi; exact absurd hi (by simp [zP])
  · intro j _; trivial
  · intro j _; trivial
  · intro q hq; simp [zP] at hq
  · intro e he; simp [zP] at he
  · intro B hB
    have : B = zB := by simpa [zP] using hB
    subst this
    have : zB.mat (fun _ => (1:ℝ)) = !![1, 1; 1, 1] := by
      ext i j
      fin_cases i <;> fin_cases j <;> simp [LmiBlock.mat, LmiBlock.entry, zB]
    rw [this]
    exact psd_two 1 1 1 (by norm_num) (by norm_num) (by norm_num)

end rcExample

end RsomeV.Lmi
